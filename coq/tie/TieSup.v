(* T1 tie for C09: the three guards and the period arithmetic of act.supCheckRestartIntensity, as
   TRANSLATED from /repo's current source, are those of the hand-written model Sup/Intensity.v
   (check / prune), on which the "exceeded iff (Intensity+1)-th restart within Period" theorems are
   proved. *)
From Ergo Require Import Common.Base Common.GoInt Sup.Intensity.
From ErgoGen Require Import Exprs.
From ErgoGen Require Consts.
Local Open Scope Z_scope.

(* `if len(restarts) <= intensity` (first guard of check) and `if len(restarts) > intensity` (its result) *)
Theorem tie_intensity_guards :
  Exists (fun s : site (Z -> Z -> bool) => forall n i, site_fn s n i = (n <=? i)) intensity_2 /\
  Exists (fun s : site (Z -> Z -> bool) => forall n i, site_fn s n i = (i <? n)) intensity_2 /\
  Forall (fun s : site (Z -> Z -> bool) =>
            strs_eqb (site_leaves s) ["len(restarts)"; "intensity"]%string = true /\
            ((forall n i, site_fn s n i = (n <=? i)) \/ (forall n i, site_fn s n i = (i <? n)))) intensity_2.
Proof.
  split; [|split].
  - apply Exists_cons_hd. intros n i; unfold site_fn; cbn [snd]. reflexivity.
  - apply Exists_cons_tl, Exists_cons_hd. intros n i; unfold site_fn; cbn [snd]. lia.
  - each_site ltac:(split; [reflexivity|];
      first [left; intros n i; unfold site_fn; cbn [snd]; lia | right; intros n i; unfold site_fn; cbn [snd]; lia]).
Qed.

(* the loop guard `len(restarts) > 0 && now-restarts[0] > periodMillis` is the test of prune on a
   non-empty list (timestamps are int64 milliseconds: the subtraction does not wrap) *)
Theorem tie_intensity_prune :
  intensity_4 <> [] /\
  Forall (fun s : site (Z -> Z -> Z -> Z -> bool) =>
            forall len now r0 pm, - 2 ^ 62 <= now < 2 ^ 62 -> - 2 ^ 62 <= r0 < 2 ^ 62 ->
              site_fn s len now r0 pm = ((0 <? len) && (now - r0 >? pm))) intensity_4.
Proof.
  split; [discriminate|].
  repeat constructor; intros len now r0 pm Hn Hr; unfold site_fn; cbn [snd];
    change (2 ^ 62) with 4611686018427387904 in *; (rewrite swrap_small by (gowrap; lia)); lia.
Qed.

Lemma prune_cons now pm x tl : prune now pm (x :: tl) = if (now - x >? pm) then prune now pm tl else x :: tl.
Proof. reflexivity. Qed.

(* periodMillis := int64(period) * 1000, period a uint16 in every caller *)
Theorem tie_intensity_period :
  intensity_pm_1 <> [] /\
  Forall (fun s : site (Z -> Z) => forall period, 0 <= period < 2 ^ 16 -> site_fn s period = period * 1000) intensity_pm_1.
Proof.
  split; [discriminate|].
  repeat constructor; intros p Hp; unfold site_fn; cbn [snd]; change (2 ^ 16) with 65536 in *;
    rewrite (swrap_small 64 p) by (gowrap; lia); rewrite swrap_small by (gowrap; lia); reflexivity.
Qed.

Theorem tie_intensity_no_other_guard :
  intensity_0 = [] /\ intensity_1 = [] /\ intensity_3 = [] /\ intensity_other = [] /\
  intensity_pm_0 = [] /\ intensity_pm_2 = [] /\ intensity_pm_other = [].
Proof. repeat split; reflexivity. Qed.


(* ---- the WHOLE function, translated statement by statement (loop included) ---------------------------
   ErgoGen.Exprs.go_supCheckRestartIntensity is generated from the body of act.supCheckRestartIntensity
   (time.Now().UnixMilli() is the parameter now_ms, the `for` loop a Fixpoint on fuel).  For timestamps and
   periods in the ranges the callers produce, and fuel covering the list, it IS the model's [check]. *)
Definition ts_ok (x : Z) : Prop := - 2 ^ 62 <= x < 2 ^ 62.

Lemma loop_is_prune fuel now pm l :
  (List.length l <= fuel)%nat -> ts_ok now -> Forall ts_ok l ->
  go_supCheckRestartIntensity_loop1 fuel now pm l = prune now pm l.
Proof.
  revert l. induction fuel as [|fuel IH]; intros l Hl Hn Hall.
  - destruct l; [reflexivity | cbn in Hl; lia].
  - destruct l as [|x tl]; [reflexivity|].
    cbn [go_supCheckRestartIntensity_loop1 prune]. inversion Hall as [|? ? Hx Htl]; subst.
    replace (Z.of_nat (List.length (x :: tl)) >? 0) with true by (cbn [List.length]; lia).
    cbn [andb nth Z.to_nat skipn]. change (Z.to_nat 0) with 0%nat. change (Z.to_nat 1) with 1%nat. cbn [nth skipn].
    unfold ts_ok in *. change (2 ^ 62) with 4611686018427387904 in *.
    rewrite swrap_small by (gowrap; lia).
    destruct (now - x >? pm); [|reflexivity]. apply IH; [cbn in Hl; lia | exact Hn | exact Htl].
Qed.

Theorem tie_intensity_function : forall fuel now restarts period intensity,
  (List.length restarts + 1 <= fuel)%nat -> ts_ok now -> Forall ts_ok restarts -> 0 <= period < 2 ^ 16 ->
  go_supCheckRestartIntensity fuel now restarts period intensity = check restarts now period intensity.
Proof.
  intros fuel now restarts period intensity Hf Hn Hall Hp.
  unfold go_supCheckRestartIntensity, check, zlen.
  destruct (Z.of_nat (List.length (restarts ++ [now])) <=? intensity); [reflexivity|].
  change (2 ^ 16) with 65536 in Hp.
  rewrite (swrap_small 64 period) by (gowrap; lia). rewrite swrap_small by (gowrap; lia).
  rewrite loop_is_prune.
  - destruct (Z.of_nat (List.length (prune now (period * 1000) (restarts ++ [now]))) >? intensity) eqn:E;
      f_equal; lia.
  - rewrite app_length. cbn [List.length]. lia.
  - exact Hn.
  - apply Forall_app. split; [exact Hall | constructor; [exact Hn | constructor]].
Qed.

(* non-vacuity: a run of the translated function on concrete data *)
Example tie_intensity_function_example :
  go_supCheckRestartIntensity 10 10000 [1000; 7000; 9000] 5 2 = ([7000; 9000; 10000], true) /\
  check [1000; 7000; 9000] 10000 5 2 = ([7000; 9000; 10000], true).
Proof. split; vm_compute; reflexivity. Qed.

Print Assumptions tie_intensity_guards.
Print Assumptions tie_intensity_function.
Print Assumptions tie_intensity_prune.
Print Assumptions tie_intensity_period.
Print Assumptions tie_intensity_no_other_guard.
