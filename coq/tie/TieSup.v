(* T1 tie for C09: the three guards and the period arithmetic of act.supCheckRestartIntensity, as
   TRANSLATED from /repo's current source, are those of the hand-written model Sup/Intensity.v
   (check / prune), on which the "exceeded iff (Intensity+1)-th restart within Period" theorems are
   proved. *)
From Ergo Require Import Common.Base Common.GoInt Sup.Intensity.
From ErgoGen Require Import Exprs.
From ErgoGen Require Consts.
Local Open Scope Z_scope.

(* `if len(restarts) <= intensity` (first guard of check) and `if len(restarts) > intensity` (its result) *)
Theorem tie_intensity_guards :
  Exists (fun s : site (Z -> Z -> bool) => forall n i, site_fn s n i = (n <=? i)) intensity_2 /\
  Exists (fun s : site (Z -> Z -> bool) => forall n i, site_fn s n i = (i <? n)) intensity_2 /\
  Forall (fun s : site (Z -> Z -> bool) =>
            strs_eqb (site_leaves s) ["len(restarts)"; "intensity"]%string = true /\
            ((forall n i, site_fn s n i = (n <=? i)) \/ (forall n i, site_fn s n i = (i <? n)))) intensity_2.
Proof.
  split; [|split].
  - apply Exists_cons_hd. intros n i; unfold site_fn; cbn [snd]. reflexivity.
  - apply Exists_cons_tl, Exists_cons_hd. intros n i; unfold site_fn; cbn [snd]. lia.
  - each_site ltac:(split; [reflexivity|];
      first [left; intros n i; unfold site_fn; cbn [snd]; lia | right; intros n i; unfold site_fn; cbn [snd]; lia]).
Qed.

(* the loop guard `len(restarts) > 0 && now-restarts[0] > periodMillis` is the test of prune on a
   non-empty list (timestamps are int64 milliseconds: the subtraction does not wrap) *)
Theorem tie_intensity_prune :
  intensity_4 <> [] /\
  Forall (fun s : site (Z -> Z -> Z -> Z -> bool) =>
            forall len now r0 pm, - 2 ^ 62 <= now < 2 ^ 62 -> - 2 ^ 62 <= r0 < 2 ^ 62 ->
              site_fn s len now r0 pm = ((0 <? len) && (now - r0 >? pm))) intensity_4.
Proof.
  split; [discriminate|].
  repeat constructor; intros len now r0 pm Hn Hr; unfold site_fn; cbn [snd];
    change (2 ^ 62) with 4611686018427387904 in *; (rewrite swrap_small by (gowrap; lia)); lia.
Qed.

Lemma prune_cons now pm x tl : prune now pm (x :: tl) = if (now - x >? pm) then prune now pm tl else x :: tl.
Proof. reflexivity. Qed.

(* periodMillis := int64(period) * 1000, period a uint16 in every caller *)
Theorem tie_intensity_period :
  intensity_pm_1 <> [] /\
  Forall (fun s : site (Z -> Z) => forall period, 0 <= period < 2 ^ 16 -> site_fn s period = period * 1000) intensity_pm_1.
Proof.
  split; [discriminate|].
  repeat constructor; intros p Hp; unfold site_fn; cbn [snd]; change (2 ^ 16) with 65536 in *;
    rewrite (swrap_small 64 p) by (gowrap; lia); rewrite swrap_small by (gowrap; lia); reflexivity.
Qed.

Theorem tie_intensity_no_other_guard :
  intensity_0 = [] /\ intensity_1 = [] /\ intensity_3 = [] /\ intensity_other = [] /\
  intensity_pm_0 = [] /\ intensity_pm_2 = [] /\ intensity_pm_other = [].
Proof. repeat split; reflexivity. Qed.

Print Assumptions tie_intensity_guards.
Print Assumptions tie_intensity_prune.
Print Assumptions tie_intensity_period.
Print Assumptions tie_intensity_no_other_guard.
