(* T1 tie for C12 / C13 / C16: the order bytes, the pool-link selection and the guards of the frame
   reader, as TRANSLATED from /repo's current net/proto/connection.go (ErgoGen.Exprs), are the
   formulas of the hand-written models Proto/Model.v and Hostile/Frames.v; the frame constants
   of both models are the constants of the source (ErgoGen.Consts). *)
From Ergo Require Import Common.Base Common.GoInt Proto.Model.
From Ergo Require Hostile.Frames Hostile.HsMsg.
From ErgoGen Require Import Exprs.
From ErgoGen Require Consts.
Local Open Scope Z_scope.

(* ---- order bytes: every `order` / `orderPeer` of connection.go ------------------------------------- *)
(* either the queue index read back from a received frame (serve: int(buf.B[6])) or id%255+1 *)
Definition agrees_order (s : site (Z -> Z)) : Prop :=
  if strs_eqb (site_leaves s) ["buf.B[6]"%string]
  then forall b, 0 <= b < 256 -> site_fn s b = b
  else forall id, 0 <= id < 2 ^ 64 -> site_fn s id = order_of_id id.

(* the shape every site has today: proved once, each site is then closed by conversion; a site
   written differently falls through to the general tactic *)
Lemma order_shape id : 0 <= id < 2 ^ 64 -> uwrap 8 (uwrap 8 (id mod 255) + 1) = order_of_id id.
Proof. intros H; unfold order_of_id; gowrap; lia. Qed.

Theorem tie_order_formula : order_1 <> [] /\ Forall agrees_order order_1.
Proof.
  split; [discriminate|].
  repeat constructor; try exact order_shape; unfold agrees_order; cbn [site_leaves strs_eqb String.eqb Ascii.eqb Bool.eqb fst snd andb];
    intros x Hx; unfold site_fn, order_of_id; cbn [snd]; gowrap; lia.
Qed.

(* the only constant ever assigned is 0 ("no order"), and no order byte is computed from two inputs *)
Theorem tie_order_const :
  Forall (fun s : site Z => site_fn s = 0) order_0 /\
  order_2 = [] /\ order_3 = [] /\ order_4 = [] /\ order_other = [].
Proof. split; [repeat constructor|]. repeat split; reflexivity. Qed.

(* byte 6 of a frame is written with one of those values unchanged, or 0 *)
Theorem tie_order_byte_written :
  orderbyte_1 <> [] /\
  Forall (fun s : site (Z -> Z) => forall x, site_fn s x = x) orderbyte_1 /\
  Forall (fun s : site Z => site_fn s = 0) orderbyte_0 /\
  orderbyte_2 = [] /\ orderbyte_3 = [] /\ orderbyte_4 = [] /\ orderbyte_other = [].
Proof.
  split; [discriminate|]. split; [repeat constructor|]. split; [repeat constructor|]. repeat split; reflexivity.
Qed.

(* ---- send(): n := int(x) % len(pool) --------------------------------------------------------------- *)
Definition agrees_poolindex (s : site (Z -> Z -> Z)) : Prop :=
  forall x l, 0 <= x < 2 ^ 32 -> 0 < l -> site_fn s x l = x mod l.

Theorem tie_pool_index : List.length poolindex_2 = 2%nat /\ Forall agrees_poolindex poolindex_2.
Proof.
  split; [reflexivity|].
  repeat constructor; intros x l Hx Hl; unfold site_fn; cbn [snd];
    (rewrite swrap_small by (gowrap; lia)); apply Z.rem_mod_nonneg; lia.
Qed.

Corollary tie_link_sel order l rr :
  0 <= order < 256 -> 0 <= rr < 2 ^ 32 -> 0 < l ->
  Forall (fun s : site (Z -> Z -> Z) =>
            link_sel order l rr =
            if order =? 0 then (site_fn s ((rr + 1) mod 2 ^ 32) l, (rr + 1) mod 2 ^ 32) else (site_fn s order l, rr))
         poolindex_2.
Proof.
  intros Ho Hr Hl. destruct tie_pool_index as [_ H]. revert H. apply Forall_impl. intros s Hs.
  unfold link_sel. destruct (order =? 0) eqn:E.
  - rewrite Hs; [reflexivity| |exact Hl]. change (2 ^ 32) with 4294967296 in *. lia.
  - rewrite Hs; [reflexivity| |exact Hl]. change (2 ^ 32) with 4294967296 in *. lia.
Qed.

(* ---- read(): the guards on the declared length ------------------------------------------------------ *)
Import Hostile.Frames.

(* if l < 8  : the declared length is shorter than the header (r_min of the current reader) *)
Theorem tie_read_min :
  readcond_1 <> [] /\
  Forall (fun s : site (Z -> bool) => forall l, 0 <= l -> site_fn s l = (Z.to_N l <? r_min (cfg_now 0))%N) readcond_1.
Proof.
  split; [discriminate|]. repeat constructor; intros l Hl; unfold site_fn, cfg_now; cbn [snd r_min]. lia.
Qed.

(* two-input guards: "have < want" (buffer shorter than expected / than the declared length) and
   "limit > 0 && x > limit" (node_maxmessagesize) - exactly the tests of read1 *)
Definition agrees_read2 (s : site (Z -> Z -> bool)) : Prop :=
  if strs_eqb (firstn 1 (site_leaves s)) ["buf.Len()"%string]
  then forall have want, 0 <= have -> 0 <= want -> site_fn s have want = (Z.to_N have <? Z.to_N want)%N
  else forall max x, 0 <= max -> 0 <= x -> site_fn s max x = ((0 <? Z.to_N max)%N && (Z.to_N max <? Z.to_N x)%N).

Theorem tie_read_guards : (2 <= List.length readcond_2)%nat /\ Forall agrees_read2 readcond_2.
Proof.
  split; [cbn; lia|].
  repeat constructor; unfold agrees_read2;
    cbn [site_leaves strs_eqb String.eqb Ascii.eqb Bool.eqb fst snd andb firstn];
    intros a b Ha Hb; unfold site_fn; cbn [snd]; lia.
Qed.

Theorem tie_read_no_other_integer_guard : readcond_0 = [] /\ readcond_3 = [] /\ readcond_4 = [].
Proof. repeat split; reflexivity. Qed.

(* ---- constants -------------------------------------------------------------------------------------- *)
Import Consts.
Theorem tie_proto_constants :
  proto_magic = net_proto.protoMagic /\ proto_version = net_proto.protoVersion /\ type_z = net_proto.protoMessageZ /\
  map type_byte all_kinds =
    [net_proto.protoMessagePID; net_proto.protoMessageName; net_proto.protoMessageNameCache; net_proto.protoMessageAlias;
     net_proto.protoMessageEvent; net_proto.protoMessageEventCache; net_proto.protoMessageExit;
     net_proto.protoRequestPID; net_proto.protoRequestName; net_proto.protoRequestNameCache; net_proto.protoRequestAlias;
     net_proto.protoMessageResponse; net_proto.protoMessageResponseError;
     net_proto.protoMessageTerminatePID; net_proto.protoMessageTerminateName; net_proto.protoMessageTerminateNameCache;
     net_proto.protoMessageTerminateAlias; net_proto.protoMessageTerminateEvent; net_proto.protoMessageTerminateEventCache;
     net_proto.protoMessageAny].
Proof. repeat split; reflexivity. Qed.

Theorem tie_hostile_constants :
  Z.of_N Frames.protoMagic = net_proto.protoMagic /\ Z.of_N Frames.protoVersion = net_proto.protoVersion /\
  Z.of_N Frames.protoMessageZ = net_proto.protoMessageZ /\
  map (fun r => Z.of_N (fst r)) Frames.rows = map type_byte all_kinds /\
  HsMsg.maxPoolSize = net_handshake.maxPoolSize.
Proof. repeat split; reflexivity. Qed.

Print Assumptions tie_order_formula.
Print Assumptions tie_order_const.
Print Assumptions tie_order_byte_written.
Print Assumptions tie_pool_index.
Print Assumptions tie_link_sel.
Print Assumptions tie_read_min.
Print Assumptions tie_read_guards.
Print Assumptions tie_read_no_other_integer_guard.
Print Assumptions tie_proto_constants.
Print Assumptions tie_hostile_constants.
