(* T1 tie for C11 / C16: the type tags of net/edf and the length / cache-id limits tested by its
   encoders and decoders, as read from /repo's current source (ErgoGen.Consts / ErgoGen.Exprs), are
   the tags and limits of the hand-written model Edf/Model.v on which the round-trip theorems are
   proved. *)
From Ergo Require Import Common.Base Common.GoInt.
From Ergo Require Edf.Model.
From ErgoGen Require Import Exprs.
From ErgoGen Require Consts.
Local Open Scope Z_scope.

Module M := Edf.Model.
Import Consts.

Theorem tie_edf_tags :
  map Z.of_N [M.edtType; M.edtReg; M.edtAny; M.edtAtom; M.edtString; M.edtBinary; M.edtFloat32; M.edtFloat64; M.edtBool;
              M.edtInt8; M.edtInt16; M.edtInt32; M.edtInt64; M.edtInt; M.edtUint8; M.edtUint16; M.edtUint32; M.edtUint64;
              M.edtUint; M.edtError; M.edtSlice; M.edtArray; M.edtMap; M.edtPID; M.edtProcessID; M.edtAlias; M.edtEvent;
              M.edtRef; M.edtTime; M.edtNil] =
  [net_edf.edtType; net_edf.edtReg; net_edf.edtAny; net_edf.edtAtom; net_edf.edtString; net_edf.edtBinary; net_edf.edtFloat32;
   net_edf.edtFloat64; net_edf.edtBool; net_edf.edtInt8; net_edf.edtInt16; net_edf.edtInt32; net_edf.edtInt64; net_edf.edtInt;
   net_edf.edtUint8; net_edf.edtUint16; net_edf.edtUint32; net_edf.edtUint64; net_edf.edtUint; net_edf.edtError; net_edf.edtSlice;
   net_edf.edtArray; net_edf.edtMap; net_edf.edtPID; net_edf.edtProcessID; net_edf.edtAlias; net_edf.edtEvent; net_edf.edtRef;
   net_edf.edtTime; net_edf.edtNil].
Proof. reflexivity. Qed.

(* the limit the model attributes to the function a guard stands in (None: not a modelled limit) *)
Local Open Scope string_scope.
Definition in_func (f : string) (loc : string) : bool := String.prefix (f ++ ":") loc.
Definition limit_of (loc : string) : option N :=
  if in_func "encode.go encodeAtom" loc || in_func "encode.go writeAtom" loc || in_func "decode.go readAtom" loc
     || in_func "encode.go encodePID" loc || in_func "encode.go encodeProcessID" loc || in_func "encode.go encodeRef" loc
     || in_func "encode.go encodeAlias" loc || in_func "encode.go encodeEvent" loc then Some M.maxAtom
  else if in_func "encode.go encodeString" loc then Some M.maxString
  else if in_func "encode.go encodeBinary" loc then Some M.maxBinary
  else if in_func "encode.go encodeError" loc then Some M.maxError
  else if in_func "register.go RegisterTypeOf" loc then Some M.maxMarsh
  else if in_func "register.go regEncoder" loc || in_func "decode.go getRegDecoder" loc then Some M.maxRegName
  else None.
Local Close Scope string_scope.

Definition agrees_limit (s : site (Z -> bool)) : Prop :=
  match limit_of (site_loc s) with
  | Some c => forall x, 0 <= x < 2 ^ 63 -> site_fn s x = (x >? Z.of_N c)
  | None => True
  end.

Theorem tie_edf_limits : Forall agrees_limit edflimit_1.
Proof.
  each_site ltac:(lazymatch goal with |- agrees_limit ?s =>
                    let v := eval vm_compute in (limit_of (site_loc s)) in
                    unfold agrees_limit; change (limit_of (site_loc s)) with v; cbv beta iota end;
                  try exact I; intros x Hx; unfold site_fn; cbn [snd]; try reflexivity;
                  change (2 ^ 63) with 9223372036854775808 in *; (rewrite swrap_small by (gowrap; lia)); reflexivity).
Qed.

(* every modelled limit is actually tested somewhere in the source (the classification is not vacuous) *)
Definition has_limit (c : N) : Prop :=
  Exists (fun s : site (Z -> bool) => limit_of (site_loc s) = Some c) edflimit_1.
Theorem tie_edf_limits_present :
  has_limit M.maxAtom /\ has_limit M.maxString /\ has_limit M.maxBinary /\ has_limit M.maxError /\
  has_limit M.maxMarsh /\ has_limit M.maxRegName.
Proof.
  repeat split; unfold has_limit, edflimit_1; find_site ltac:(vm_compute; reflexivity).
Qed.

(* decodeError: id == MaxUint16 is the nil error, id > MaxInt16 a cache id *)
Theorem tie_edf_error_ids :
  Exists (fun s : site (Z -> bool) => in_func "decode.go decodeError" (site_loc s) = true /\ forall x, site_fn s x = (x =? 65535)) edflimit_1 /\
  Exists (fun s : site (Z -> bool) => in_func "decode.go decodeError" (site_loc s) = true /\ forall x, site_fn s x = (x >? Z.of_N M.maxError)) edflimit_1.
Proof.
  split; unfold edflimit_1; find_site ltac:(split; [vm_compute; reflexivity | intros x; reflexivity]).
Qed.

Theorem tie_edf_no_other_shape : edflimit_0 = [] /\ edflimit_2 = [] /\ edflimit_3 = [] /\ edflimit_4 = [] /\ edflimit_other = [].
Proof. repeat split; reflexivity. Qed.

Print Assumptions tie_edf_tags.
Print Assumptions tie_edf_limits.
Print Assumptions tie_edf_limits_present.
Print Assumptions tie_edf_error_ids.
Print Assumptions tie_edf_no_other_shape.
