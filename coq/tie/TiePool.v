(* T1 tie for C19 / C03: the message priorities and mailbox message types of the pool model are the
   constants of /repo's current gen package (ErgoGen.Consts). *)
From Ergo Require Import Common.Base Common.GoInt.
From Ergo Require Pool.Model.
From ErgoGen Require Consts.
Local Open Scope Z_scope.
Import Consts.

Theorem tie_pool_constants :
  Pool.Model.prio_normal = gen.MessagePriorityNormal /\ Pool.Model.prio_high = gen.MessagePriorityHigh /\
  Pool.Model.prio_max = gen.MessagePriorityMax /\
  Pool.Model.ty_regular = gen.MailboxMessageTypeRegular /\ Pool.Model.ty_request = gen.MailboxMessageTypeRequest /\
  Pool.Model.ty_event = gen.MailboxMessageTypeEvent /\ Pool.Model.ty_exit = gen.MailboxMessageTypeExit /\
  Pool.Model.ty_inspect = gen.MailboxMessageTypeInspect.
Proof. repeat split; reflexivity. Qed.

Print Assumptions tie_pool_constants.
