(* T1 tie for C13 / C03: the gen.MessageOptions every sending method of node/process.go builds, read from /repo's
   current source (ErgoGen.Exprs.procopts_lits: per method the fields the composite literal sets, with the source
   text of each value). The order model (Proto/Model.v: order byte and link chosen from the sender's id exactly when
   the message is sent with KeepNetworkOrder) and the mailbox model (queue chosen by the priority of the sender)
   assume that EVERY path by which a process sends - plain, delayed (SendAfter: the options are built inside the
   timer function), events, replies, requests - hands the process's own order / priority / compression settings to
   the network layer. *)
From Coq Require Import String List Bool.
From Ergo Require Import Common.Base.
From ErgoGen Require Exprs.
Import ListNotations.
Local Open Scope string_scope.

Definition has_field (k v : string) (l : list (string * string)) : bool :=
  existsb (fun e => String.eqb (fst e) k && String.eqb (snd e) v) l.

Definition carries_settings (l : list (string * string)) : bool :=
  has_field "KeepNetworkOrder" "p.keeporder" l && has_field "Priority" "p.priority" l &&
  has_field "Compression" "p.compression" l.

(* the sending methods of a process that build message options *)
Definition senders : list string :=
  ["process.go SendPID"; "process.go SendProcessID"; "process.go SendAlias"; "process.go SendAfter"; "process.go SendEvent";
   "process.go SendResponse"; "process.go SendResponseError"; "process.go CallPID"; "process.go CallProcessID";
   "process.go CallAlias"].

Theorem tie_every_send_carries_the_settings :
  forallb (fun e => carries_settings (snd e)) Exprs.procopts_lits = true /\
  forallb (fun s => existsb (fun e => String.eqb (fst e) s) Exprs.procopts_lits) senders = true /\
  forallb (fun e => existsb (String.eqb (fst e)) senders) Exprs.procopts_lits = true.
Proof. vm_compute. repeat split; reflexivity. Qed.

Print Assumptions tie_every_send_carries_the_settings.
