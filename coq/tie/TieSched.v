(* T1 tie for C01 / C02 / C05: every atomic operation the source performs on the process state word
   (node/process.go, node/node.go), as EXTRACTED from /repo's current source (ErgoGen.Exprs:
   procstate_ops, one row per call with its constant arguments), is a transition of the hand-written
   LTS Sched/Model.v on which the token / wake-up / terminate-once invariants are proved, and every
   state-changing transition kind of the LTS occurs in the source.  A compare-and-swap turned into
   a store, a changed state constant or a dropped operation changes the generated table and this
   file no longer checks. *)
From Ergo Require Import Common.Base Common.GoInt Sched.Model.
From ErgoGen Require Import Exprs.
From ErgoGen Require Consts.
Local Open Scope Z_scope.

(* the numeric codes of the model's states are the gen.ProcessState* constants of the source *)
Theorem tie_state_codes :
  map st_code [Init; Sleep; Running; Wait; Terminated; Zombee] =
  [Consts.gen.ProcessStateInit; Consts.gen.ProcessStateSleep; Consts.gen.ProcessStateRunning;
   Consts.gen.ProcessStateWaitResponse; Consts.gen.ProcessStateTerminated; Consts.gen.ProcessStateZombee].
Proof. reflexivity. Qed.

(* effect of one model step on the state word *)
Definition st_after (s : shared) (p : pc) : option pstate :=
  match step_pc s p with Some (s', _, _) => Some (st s') | None => None end.

(* pc [p] is a compare-and-swap old -> new *)
Definition is_cas (p : pc) (old new : pstate) : Prop :=
  forall s, st_after s p = Some (if pstate_eqb (st s) old then new else st s).
(* pc [p] is an unconditional write of [new] (Swap or Store) *)
Definition is_write (p : pc) (new : pstate) : Prop :=
  forall s, st_after s p = Some new.

Lemma cas_sleep_running_send b todo : is_cas (S_cas b todo) Sleep Running.
Proof. intros s; unfold st_after; cbn [step_pc]. destruct (pstate_eqb (st s) Sleep); reflexivity. Qed.
Lemma cas_sleep_running_spawn : is_cas P_cas Sleep Running.
Proof. intros s; unfold st_after; cbn [step_pc]. destruct (pstate_eqb (st s) Sleep); reflexivity. Qed.
Lemma cas_sleep_running_wake : is_cas R_wake Sleep Running.
Proof. intros s; unfold st_after; cbn [step_pc]. destruct (pstate_eqb (st s) Sleep); reflexivity. Qed.
Lemma cas_running_sleep : is_cas R_sleep Running Sleep.
Proof. intros s; unfold st_after; cbn [step_pc]. destruct (pstate_eqb (st s) Running); reflexivity. Qed.
Lemma cas_running_wait m n : is_cas (R_w1 m n) Running Wait.
Proof. intros s; unfold st_after; cbn [step_pc]. destruct (pstate_eqb (st s) Running); reflexivity. Qed.
Lemma cas_wait_running m n : is_cas (R_w3 m n) Wait Running.
Proof. intros s; unfold st_after; cbn [step_pc]. destruct (pstate_eqb (st s) Wait); reflexivity. Qed.
Lemma pstate_eqb_true a b : pstate_eqb a b = true -> a = b.
Proof. destruct a, b; cbn; congruence. Qed.
Lemma write_terminated_run r : is_write (R_swapT r) Terminated.
Proof.
  intros s; unfold st_after; cbn [step_pc]. destruct (pstate_eqb (st s) Terminated) eqn:E; [|reflexivity].
  apply pstate_eqb_true in E. rewrite E. reflexivity.
Qed.
Lemma write_terminated_kill : is_write K_swapT Terminated.
Proof.
  intros s; unfold st_after; cbn [step_pc]. destruct (pstate_eqb (st s) Terminated) eqn:E; [|reflexivity].
  apply pstate_eqb_true in E. rewrite E. reflexivity.
Qed.
Lemma write_terminated_store : is_write K_storeT Terminated.
Proof. intros s; reflexivity. Qed.
Lemma write_zombee : is_write K_swapZ Zombee.
Proof. intros s; unfold st_after; cbn [step_pc]. destruct (st s); reflexivity. Qed.
Lemma write_sleep_spawn : is_write P_sleep Sleep.
Proof. intros s; reflexivity. Qed.

(* what a row of the generated table must be: a Load (no effect), or a transition of the LTS with the
   same constants *)
Local Open Scope string_scope.
Definition row_ok (r : string * string * string * list (option Z)) : Prop :=
  let '(_, fn, op, args) := r in
  if String.eqb op "LoadInt32" then args = []
  else if String.eqb op "CompareAndSwapInt32" then
    exists p old new, args = [Some (st_code old); Some (st_code new)] /\ is_cas p old new
  else if String.eqb op "SwapInt32" || String.eqb op "StoreInt32" then
    exists p new, args = [Some (st_code new)] /\ is_write p new
  else False.
Local Close Scope string_scope.

Ltac row_tac :=
  unfold row_ok; cbn [String.eqb Ascii.eqb Bool.eqb orb];
  first
  [ reflexivity
  | exists (S_cas false []), Sleep, Running; split; [reflexivity | apply cas_sleep_running_send]
  | exists R_sleep, Running, Sleep; split; [reflexivity | apply cas_running_sleep]
  | exists (R_w1 (mk_msg 0 0 (BOk 0)) 0), Running, Wait; split; [reflexivity | apply cas_running_wait]
  | exists (R_w3 (mk_msg 0 0 (BOk 0)) 0), Wait, Running; split; [reflexivity | apply cas_wait_running]
  | exists (R_swapT 0), Terminated; split; [reflexivity | apply write_terminated_run]
  | exists K_swapZ, Zombee; split; [reflexivity | apply write_zombee] ].

Theorem tie_state_ops_are_model_transitions : Forall row_ok procstate_ops.
Proof. each_site row_tac. Qed.

(* the plain store of spawn (before the process is published): p.state = Sleep *)
Theorem tie_state_plain_store :
  procstate_set_0 <> [] /\ Forall (fun s : site Z => site_fn s = st_code Sleep /\ is_write P_sleep Sleep) procstate_set_0 /\
  procstate_set_1 = [] /\ procstate_set_2 = [] /\ procstate_set_other = [].
Proof.
  split; [discriminate|]. split; [each_site ltac:(split; [reflexivity | apply write_sleep_spawn])|].
  repeat split; reflexivity.
Qed.

(* conversely: every kind of state-changing transition of the LTS is an operation of the source, in the
   function the model attributes it to *)
Local Open Scope string_scope.
Definition has_op (fn op : string) (args : list (option Z)) : Prop :=
  Exists (fun r : string * string * string * list (option Z) =>
            let '(_, f, o, a) := r in
            (String.eqb f fn && String.eqb o op)%bool = true /\ a = args) procstate_ops.

Theorem tie_model_transitions_in_source :
  has_op "run" "CompareAndSwapInt32" [Some (st_code Sleep); Some (st_code Running)] /\
  has_op "run" "CompareAndSwapInt32" [Some (st_code Running); Some (st_code Sleep)] /\
  has_op "run" "SwapInt32" [Some (st_code Terminated)] /\
  has_op "waitResponse" "CompareAndSwapInt32" [Some (st_code Running); Some (st_code Wait)] /\
  has_op "waitResponse" "CompareAndSwapInt32" [Some (st_code Wait); Some (st_code Running)] /\
  has_op "Kill" "SwapInt32" [Some (st_code Zombee)] /\
  has_op "Kill" "SwapInt32" [Some (st_code Terminated)] /\
  has_op "Kill" "StoreInt32" [Some (st_code Terminated)].
Proof.
  repeat split; unfold has_op, procstate_ops; find_site ltac:(split; [vm_compute; reflexivity | reflexivity]).
Qed.
Local Close Scope string_scope.

(* the number of operations per function: a removed or duplicated operation is seen even when the
   remaining rows are all legal *)
Definition ops_of (fn op : string) : nat :=
  List.length (filter (fun r : string * string * string * list (option Z) =>
                         let '(_, f, o, _) := r in (String.eqb f fn && String.eqb o op)%bool) procstate_ops).
Theorem tie_state_op_counts :
  ops_of "run" "CompareAndSwapInt32" = 3%nat /\ ops_of "run" "SwapInt32" = 3%nat /\
  ops_of "waitResponse" "CompareAndSwapInt32" = 2%nat /\
  ops_of "Kill" "SwapInt32" = 2%nat /\ ops_of "Kill" "StoreInt32" = 1%nat.
Proof. repeat split; vm_compute; reflexivity. Qed.


(* the four Item() re-checks after the CAS Running->Sleep (the lost-wake-up argument of C02 rests on EVERY
   queue being looked at again): the source tests Main, System, Urgent, Log in this order, which is the
   model's [item_order] (queue numbers: 0 Urgent, 1 System, 2 Main, 3 Log) *)
Local Open Scope string_scope.
Definition queue_name (q : nat) : string :=
  match q with 0 => "Urgent" | 1 => "System" | 2 => "Main" | _ => "Log" end%nat.
Definition recheck_text (q : nat) : string :=
  "process.go run: if p.mailbox." ++ queue_name q ++ ".Item() == nil [not an integer comparison: p.mailbox." ++ queue_name q ++ ".Item() == nil]".
Theorem tie_sleep_rechecks_every_queue :
  runitems_other = map (fun k => recheck_text (item_order k)) [0; 1; 2; 3]%nat /\
  runitems_0 = [] /\ runitems_1 = [] /\ runitems_2 = [] /\ runitems_3 = [] /\ runitems_4 = [].
Proof. repeat split; vm_compute; reflexivity. Qed.
Local Close Scope string_scope.

Print Assumptions tie_state_codes.
Print Assumptions tie_sleep_rechecks_every_queue.
Print Assumptions tie_state_ops_are_model_transitions.
Print Assumptions tie_state_plain_store.
Print Assumptions tie_model_transitions_in_source.
Print Assumptions tie_state_op_counts.
