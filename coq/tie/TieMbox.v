(* T1 tie for C03: EVERY `switch <priority>` of package node that selects a mailbox queue (six Route*
   functions, sendEventMessage, process.SendPID to itself, process.Forward), as EXTRACTED from /repo's
   current source (ErgoGen.Exprs: prioqueue_tabs), maps High -> System, Max -> Urgent, everything else
   -> Main: this is [class_of] of the model Mbox/Order.v (classes 0 Urgent, 1 System, 2 Main) on which
   the priority / per-sender FIFO theorems are stated, and [queue_of] of Pool/Model.v. *)
From Ergo Require Import Common.Base Common.GoInt.
From Ergo Require Mbox.Order Pool.Model.
From ErgoGen Require Import Exprs.
From ErgoGen Require Consts.
Local Open Scope string_scope.
Local Open Scope Z_scope.

Definition class_name (c : nat) : string := match c with 0 => "Urgent" | 1 => "System" | 2 => "Main" | _ => "Log" end%nat.

(* kinds of Mbox/Order.v: 0 Normal, 1 High, 2 Max *)
Definition kind_of_prio (p : Z) : nat := if p =? Consts.gen.MessagePriorityHigh then 1 else if p =? Consts.gen.MessagePriorityMax then 2 else 0.

(* the queue a switch table selects for priority p: first clause listing p, else the default clause *)
Fixpoint select (rows : list (list (option Z) * string)) (p : Z) (dflt : option string) : option string :=
  match rows with
  | [] => dflt
  | (vals, sel) :: tl =>
      if existsb (fun v => match v with Some x => x =? p | None => false end) vals then Some sel
      else select tl p (match vals with [] => Some sel | _ => dflt end)
  end.

Definition table_ok (t : string * list (list (option Z) * string)) : Prop :=
  forall p, In p [Consts.gen.MessagePriorityNormal; Consts.gen.MessagePriorityHigh; Consts.gen.MessagePriorityMax; 3; 77; -1] ->
    select (snd t) p None = Some (class_name (Mbox.Order.class_of (kind_of_prio p))).

Theorem tie_priority_selects_queue : (5 <= List.length prioqueue_tabs)%nat /\ Forall table_ok prioqueue_tabs.
Proof.
  split; [vm_compute; lia|].
  each_site ltac:(intros p Hp; cbv [In] in Hp;
                  repeat (destruct Hp as [<-|Hp]; [vm_compute; reflexivity|]); destruct Hp).
Qed.

(* the same mapping in the pool model (queue_of: 0 Urgent, 1 System, 2 Main, for a regular message) *)
Theorem tie_priority_pool_model :
  forall p, In p [Consts.gen.MessagePriorityNormal; Consts.gen.MessagePriorityHigh; Consts.gen.MessagePriorityMax] ->
    Z.to_nat (Pool.Model.queue_of p Pool.Model.ty_regular) = Mbox.Order.class_of (kind_of_prio p).
Proof. intros p Hp. cbv [In] in Hp. repeat (destruct Hp as [<-|Hp]; [vm_compute; reflexivity|]). destruct Hp. Qed.

Print Assumptions tie_priority_selects_queue.
Print Assumptions tie_priority_pool_model.
