(* T1 tie for C13 (and C03's single-consumer premise on the receive path): Lock() / Unlock() of
   lib.QueueMPSC, as EXTRACTED from /repo's current lib/mpsc.go (ErgoGen.Exprs: queuelock_ops), are each
   ONE atomic swap with the constants of the model Proto/RecvLock.v, whose step P_lock / H_relock /
   H_unlock is such a swap.  A Lock() written as "load, then store" has two operations on q.lock in the
   function and the table no longer matches. *)
From Ergo Require Import Common.Base Common.GoInt Proto.RecvLock.
From ErgoGen Require Import Exprs.
Local Open Scope Z_scope.

Definition b2z (b : bool) : Z := if b then 1 else 0.

(* the model's Lock(): the lock word becomes [true]; the caller wins iff it was [false] *)
Lemma model_lock_is_swap s todo :
  exists s' p', step_pc false s (P_lock todo) = Some (s', p', None) /\ lock s' = true /\
                (p' = P_spawn todo <-> lock s = false).
Proof.
  cbn [step_pc]. destruct (lock s) eqn:L.
  - exists s, (next_push todo). repeat split; auto; try discriminate. intros E. destruct todo; discriminate.
  - eexists _, _. split; [reflexivity|]. cbn [lock]. repeat split; auto.
Qed.
Lemma model_relock_is_swap s :
  exists s' p', step_pc false s H_relock = Some (s', p', None) /\ lock s' = true /\ (p' = H_pop <-> lock s = false).
Proof.
  cbn [step_pc]. destruct (lock s) eqn:L.
  - exists s, Done. repeat split; auto; discriminate.
  - eexists _, _. split; [reflexivity|]. cbn [lock]. repeat split; auto.
Qed.
Lemma model_unlock_is_swap s :
  exists s', step_pc false s H_unlock = Some (s', H_item, None) /\ lock s' = false.
Proof. eexists. split; reflexivity. Qed.

Local Open Scope string_scope.
Definition ops_in (fn : string) : list (string * list (option Z)) :=
  map (fun r : string * string * string * list (option Z) => let '(_, _, o, a) := r in (o, a))
      (filter (fun r : string * string * string * list (option Z) => let '(_, f, _, _) := r in String.eqb f fn) queuelock_ops).

(* both queue types: Lock is exactly one SwapUint32(&q.lock, 1), Unlock exactly one SwapUint32(&q.lock, 0),
   and nothing else touches q.lock *)
Theorem tie_queue_lock_is_one_swap :
  ops_in "Lock" = [("SwapUint32", [Some (b2z true)]); ("SwapUint32", [Some (b2z true)])] /\
  ops_in "Unlock" = [("SwapUint32", [Some (b2z false)]); ("SwapUint32", [Some (b2z false)])] /\
  List.length queuelock_ops = 4%nat.
Proof. repeat split; vm_compute; reflexivity. Qed.
Local Close Scope string_scope.

Print Assumptions model_lock_is_swap.
Print Assumptions model_relock_is_swap.
Print Assumptions model_unlock_is_swap.
Print Assumptions tie_queue_lock_is_one_swap.
