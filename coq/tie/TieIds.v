(* T1 tie for C06 / C07: the bit arithmetic of node.MakeRef and the folding of a reference into the
   id of an important delivery, as TRANSLATED from /repo's current source (ErgoGen.Exprs), are the
   formulas of the hand-written model Ids/Model.v on which the injectivity theorems are proved. *)
From Ergo Require Import Common.Base Common.GoInt Ids.Model.
From ErgoGen Require Import Exprs.
Local Open Scope Z_scope.

Definition ref_word (k : nat) (r : ref) : N :=
  let '(a, b, c) := r in match k with O => a | S O => b | _ => c end.

Definition agrees_word (k : nat) (s : site (Z -> Z)) : Prop :=
  forall id, 0 <= id -> site_fn s id = Z.of_N (ref_word k (makeref (Z.to_N id))).

Ltac word_tac :=
  intros id Hid; unfold site_fn, ref_word, makeref, mask18, mask28; cbn [snd fst];
  repeat match goal with
  | |- context [Z.shiftr ?a 18] => change (Z.shiftr a 18) with (Z.shiftr a (Z.of_N 18))
  | |- context [Z.shiftr ?a 46] => change (Z.shiftr a 46) with (Z.shiftr a (Z.of_N 46))
  | |- context [Z.land ?a 262143] => change (Z.land a 262143) with (Z.land a (Z.of_N 262143))
  | |- context [Z.land ?a 268435455] => change (Z.land a 268435455) with (Z.land a (Z.of_N 268435455))
  end;
  rewrite <- (Z2N.id id) at 1 by exact Hid; rewrite <- ?of_N_shiftr, <- ?of_N_land; reflexivity.

Theorem tie_makeref_word0 : makeref0_1 <> [] /\ Forall (agrees_word 0) makeref0_1.
Proof. split; [discriminate|]. repeat constructor; word_tac. Qed.
Theorem tie_makeref_word1 : makeref1_1 <> [] /\ Forall (agrees_word 1) makeref1_1.
Proof. split; [discriminate|]. repeat constructor; word_tac. Qed.
Theorem tie_makeref_word2 : makeref2_1 <> [] /\ Forall (agrees_word 2) makeref2_1.
Proof. split; [discriminate|]. repeat constructor; word_tac. Qed.

(* every assignment to a word of the reference is one of the translated formulas of one input *)
Theorem tie_makeref_no_other_shape :
  makeref0_0 = [] /\ makeref0_2 = [] /\ makeref0_3 = [] /\ makeref0_4 = [] /\ makeref0_other = [] /\
  makeref1_0 = [] /\ makeref1_2 = [] /\ makeref1_3 = [] /\ makeref1_4 = [] /\ makeref1_other = [] /\
  makeref2_0 = [] /\ makeref2_2 = [] /\ makeref2_3 = [] /\ makeref2_4 = [] /\ makeref2_other = [].
Proof. repeat split; reflexivity. Qed.

(* important delivery: options.Ref.ID[0] = ref.ID[0] + ref.ID[1] + ref.ID[2] (uint64), the other words 0 *)
Definition agrees_fold (s : site (Z -> Z -> Z -> Z)) : Prop :=
  forall a b c, 0 <= a < 2 ^ 64 -> 0 <= b < 2 ^ 64 -> 0 <= c < 2 ^ 64 ->
    site_fn s a b c = Z.of_N (ref_word 0 (fold_ref (Z.to_N a, Z.to_N b, Z.to_N c))).

Theorem tie_foldref :
  foldref_3 <> [] /\ Forall agrees_fold foldref_3 /\
  Forall (fun s : site Z => site_fn s = 0) foldref_0 /\
  foldref_1 = [] /\ foldref_2 = [] /\ foldref_4 = [] /\ foldref_other = [].
Proof.
  split; [discriminate|]. split.
  - repeat constructor; intros a b c Ha Hb Hc; unfold site_fn, ref_word, fold_ref, two64; cbn [snd fst];
      gowrap; rewrite N2Z.inj_mod, !N2Z.inj_add, !Z2N.id by lia;
      change (Z.of_N 18446744073709551616) with 18446744073709551616; lia.
  - split; [repeat constructor|]. repeat split; reflexivity.
Qed.

Print Assumptions tie_makeref_word0.
Print Assumptions tie_makeref_word1.
Print Assumptions tie_makeref_word2.
Print Assumptions tie_makeref_no_other_shape.
Print Assumptions tie_foldref.
