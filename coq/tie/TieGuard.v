(* T1 tie for C14 / C07: the incarnation guard `x.Creation != c.peer_creation` of net/proto/connection.go, as
   EXTRACTED from /repo's current source (ErgoGen.Exprs: creationguard_2, one row per guarded method), stands in
   exactly the methods that the guard table of the model (NetFail/Guard.v: conn_table = GPeer) marks as guarded,
   and compares the identifier's creation with the connected incarnation's for inequality. *)
From Ergo Require Import Common.Base Common.GoInt.
From Ergo Require NetFail.Guard NetFail.GuardProofs.
From ErgoGen Require Import Exprs.
Local Open Scope string_scope.
Local Open Scope Z_scope.

Module G := NetFail.Guard.

(* the Go method of a row of the model's table *)
Definition method (op : G.cop) : string :=
  match op with
  | G.CSendPID => "SendPID" | G.CSendAlias => "SendAlias" | G.CSendExit => "SendExit"
  | G.CSendResponse => "SendResponse" | G.CSendResponseError => "SendResponseError"
  | G.CCallPID => "CallPID" | G.CCallAlias => "CallAlias"
  | G.CLinkPID => "LinkPID" | G.CUnlinkPID => "UnlinkPID" | G.CLinkAlias => "LinkAlias" | G.CUnlinkAlias => "UnlinkAlias"
  | G.CMonitorPID => "MonitorPID" | G.CDemonitorPID => "DemonitorPID"
  | G.CMonitorAlias => "MonitorAlias" | G.CDemonitorAlias => "DemonitorAlias"
  | _ => "-"
  end.

(* the guarded methods of the source, in source order = the stamped operations of the model, in table order *)
Theorem tie_guarded_methods :
  map (fun s : site (Z -> Z -> bool) => site_loc s) creationguard_2 =
  map (fun op => "connection.go " ++ method op ++ ": if " ++
                 (match op with
                  | G.CSendPID | G.CSendAlias | G.CSendExit | G.CSendResponse | G.CSendResponseError | G.CCallPID | G.CCallAlias => "to"
                  | _ => "target" end) ++ ".Creation != c.peer_creation")%string
      G.stamped_ops.
Proof. vm_compute. reflexivity. Qed.

(* each of them refuses exactly when the model's guard line GPeer refuses *)
Theorem tie_guard_is_inequality :
  Forall (fun s : site (Z -> Z -> bool) => forall icr pc, 0 <= icr -> 0 <= pc ->
            site_fn s icr pc = G.refuses G.GPeer (Some (Z.to_N icr)) (Z.to_N pc) 0 0) creationguard_2.
Proof.
  each_site ltac:(intros icr pc Hi Hp; unfold site_fn, G.refuses; cbn [snd]; f_equal; lia).
Qed.

Theorem tie_guard_no_other_shape :
  creationguard_0 = [] /\ creationguard_1 = [] /\ creationguard_3 = [] /\ creationguard_4 = [] /\ creationguard_other = [].
Proof. repeat split; reflexivity. Qed.

(* and the model's table marks exactly the stamped operations (restated from GuardProofs for the reader) *)
Theorem tie_table_rows : forall op, G.takes_stamped op = true -> G.conn_table op = G.GPeer.
Proof. exact NetFail.GuardProofs.conn_table_complete. Qed.

Print Assumptions tie_guarded_methods.
Print Assumptions tie_guard_is_inequality.
Print Assumptions tie_guard_no_other_shape.
Print Assumptions tie_table_rows.
