(* T1 tie for C20: the mask type tags of the cron model are the constants of /repo's current
   node/cron_parse.go (ErgoGen.Consts). *)
From Ergo Require Import Common.Base Common.GoInt.
From Ergo Require Cron.Model.
From ErgoGen Require Consts.
Local Open Scope Z_scope.
Import Consts.

Theorem tie_cron_mask_tags :
  map (fun k => Z.shiftl (Cron.Model.ktag k) 60) [Cron.Model.KMin; Cron.Model.KHour; Cron.Model.KDay; Cron.Model.KMonth; Cron.Model.KWDay] =
    [node.cronMaskTypeMin; node.cronMaskTypeHour; node.cronMaskTypeDay; node.cronMaskTypeMonth; node.cronMaskTypeWeekDay] /\
  Cron.Model.encode Cron.Model.MLastDM = node.cronMaskTypeLastDM /\
  Cron.Model.encode (Cron.Model.MLastDW 0) = node.cronMaskTypeLastDW /\
  Cron.Model.encode (Cron.Model.MNDW 0 0) = node.cronMaskTypeNDW /\
  Z.shiftl 15 60 = node.cronMaskType.
Proof. repeat split; reflexivity. Qed.

Print Assumptions tie_cron_mask_tags.
