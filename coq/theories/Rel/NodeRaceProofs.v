(* Rel engine — LinkNode / MonitorNode against unregisterConnection, every schedule. *)
From Ergo Require Import Common.Base Rel.Amap Rel.Model Rel.TMProofs Rel.RaceGen Rel.NodeRace.
Local Open Scope N_scope.

Section NodeRace.
  Variable k : key.
  Variable n : atom.
  Variable n0 : nat.
  Hypothesis K : kt k = TNode n.          (* the relation requested is on node n *)
  Hypothesis NL : pnode (kc k) <> n.      (* held by a process of this node *)

  Lemma k_eta : mkkey (kc k) (kt k) (km k) = k.
  Proof. destruct k; reflexivity. Qed.

  (* ---- effect of the steps on the observables ---- *)
  Lemma ndrain_effect s : idx_ok (ns_tm s) ->
    idx_ok (ns_tm (ndrain n s)) /\ nhas k (ndrain n s) = false /\
    ncnt k (ndrain n s) = (ncnt k s + (if nhas k s then 1 else 0))%nat /\
    ns_conns (ndrain n s) = ns_conns s.
  Proof.
    intros OK. unfold ndrain. destruct (tm_cleanup_node n (ns_tm s)) as [[m' l] mo] eqn:E.
    pose proof (cleanup_node_spec n _ _ _ _ OK E) as (O1 & R & L & M & NDl & NDm).
    cbn [ns_tm ns_conns]. split; [exact O1|]. split; [|split; [|reflexivity]].
    - unfold nhas. cbn [ns_tm]. apply memb_false. intros H. apply R in H. destruct H as (_ & _ & T).
      rewrite K in T. cbn in T. congruence.
    - unfold ncnt, nhas, mem_key. cbn [ns_down ns_exit ns_tm].
      destruct (km k) eqn:Km; rewrite count_occ_app.
      + assert (Ek : mkkey (kc k) (kt k) true = k) by (rewrite <- Km; apply k_eta).
        rewrite (count_NoDup tc_dec _ mo NDm). f_equal.
        destruct (memb key_dec k (rels (ns_tm s))) eqn:A.
        * apply memb_In in A.
          assert (B : In (kt k, kc k) mo) by (apply M; rewrite Ek; split; [exact A|split; [rewrite K; reflexivity|exact NL]]).
          apply (memb_In tc_dec) in B. rewrite B. reflexivity.
        * apply memb_false in A.
          assert (B : ~ In (kt k, kc k) mo) by (intros B; apply M in B; rewrite Ek in B; tauto).
          apply (memb_false tc_dec) in B. rewrite B. reflexivity.
      + assert (Ek : mkkey (kc k) (kt k) false = k) by (rewrite <- Km; apply k_eta).
        rewrite (count_NoDup tc_dec _ l NDl). f_equal.
        destruct (memb key_dec k (rels (ns_tm s))) eqn:A.
        * apply memb_In in A.
          assert (B : In (kt k, kc k) l) by (apply L; rewrite Ek; split; [exact A|split; [rewrite K; reflexivity|exact NL]]).
          apply (memb_In tc_dec) in B. rewrite B. reflexivity.
        * apply memb_false in A.
          assert (B : ~ In (kt k, kc k) l) by (intros B; apply L in B; rewrite Ek in B; tauto).
          apply (memb_false tc_dec) in B. rewrite B. reflexivity.
  Qed.

  (* ---- the invariant ---- *)
  Definition is_ndrain (y : nstep) : bool := match y with NDrain n' => n' =? n | _ => false end.

  Definition npc_inv (pc : npc) (s : nst) (rem : list nstep) : Prop :=
    match pc with
    | NL_load | NL_add => nhas k s = false /\ ncnt k s = n0
    | NL_recheck | NL_undo => (nhas k s = true /\ ncnt k s = n0) \/ (nhas k s = false /\ ncnt k s = S n0)
    | NL_done (RErr _) => nhas k s = false /\ ncnt k s = n0
    | NL_done ROk =>
        (nhas k s = false /\ ncnt k s = S n0) \/
        (nhas k s = true /\ ncnt k s = n0 /\ (nconn n s = true \/ existsb is_ndrain rem = true))
    | NL_done _ => False
    end.

  Definition rem_ok (rem : list nstep) (s : nst) : Prop :=
    rem = [NDel n; NDrain n] \/ (rem = [NDrain n] /\ nconn n s = false) \/ (rem = [] /\ nconn n s = false).

  Definition ninv (c : ncfg) : Prop :=
    idx_ok (ns_tm (nc_st c)) /\ rem_ok (nc_rem c) (nc_st c) /\ npc_inv (nc_pc c) (nc_st c) (nc_rem c).

  Lemma rem_ok_tm rem s m' : rem_ok rem s -> rem_ok rem (set_ntm m' s).
  Proof. exact (fun H => H). Qed.

  Lemma ninv_step b c : ninv c -> ninv (ncstep true k n b c).
  Proof.
    intros (OK & RO & I). destruct c as [s pc rem]. cbn [nc_st nc_pc nc_rem] in *.
    destruct b; cbn [ncstep nc_st nc_pc nc_rem].
    - (* requester *)
      destruct pc as [| | | |res]; cbn [nlstep].
      + destruct (nconn n s); (split; [exact OK|split; [exact RO|exact I]]).
      + destruct (tm_add k (ns_tm s)) as [m' ok] eqn:E.
        pose proof (tm_add_spec _ _ _ _ E OK) as (O1 & R1 & _). destruct I as [H N].
        split; [exact O1|]. split; [apply rem_ok_tm, RO|]. cbn [npc_inv nc_pc]. left. split; [|exact N].
        unfold nhas. cbn [set_ntm ns_tm]. apply memb_In. apply R1. right. reflexivity.
      + destruct (nconn n s) eqn:C; (split; [exact OK|split; [exact RO|]]); cbn [npc_inv]; [|exact I].
        destruct I as [[H N]|[H N]]; [right; repeat split; auto | left; split; assumption].
      + destruct (tm_remove k (ns_tm s)) as [m' ok] eqn:E.
        pose proof (tm_remove_spec _ _ _ _ E OK) as (O1 & R1 & B1).
        destruct I as [[H N]|[H N]]; unfold nhas in H; rewrite H in B1; subst ok.
        * split; [exact O1|]. split; [apply rem_ok_tm, RO|]. cbn [npc_inv]. split; [|exact N].
          unfold nhas. cbn [set_ntm ns_tm]. apply memb_false. intros HI. apply R1 in HI. tauto.
        * split; [exact OK|]. split; [exact RO|]. cbn [npc_inv]. left. split; assumption.
      + split; [exact OK|split; [exact RO|exact I]].
    - (* remover *)
      unfold ninv. destruct RO as [->|[[-> C]|[-> C]]]; cbn [nc_st nc_pc nc_rem nstep_exec].
      + (* connections.Delete *)
        assert (C' : nconn n (nstep_exec (NDel n) s) = false).
        { unfold nconn, ahas. cbn. rewrite aget_adel_eq. reflexivity. }
        split; [exact OK|]. split; [right; left; split; [reflexivity|exact C']|].
        destruct pc as [| | | |[|e|?|?]]; cbn [npc_inv] in *; try exact I.
        destruct I as [I|(H & N & _)]; [left; exact I|]. right. split; [exact H|]. split; [exact N|].
        right. cbn. rewrite N.eqb_refl. reflexivity.
      + (* RouteNodeDown *)
        destruct (ndrain_effect s OK) as (O1 & H' & N' & CO).
        split; [exact O1|]. split; [right; right; split; [reflexivity|unfold nconn; rewrite CO; exact C]|].
        destruct pc as [| | | |[|e|?|?]]; cbn [npc_inv] in *; try contradiction.
        * destruct I as [H N]. rewrite H in N'. split; [exact H'|lia].
        * destruct I as [H N]. rewrite H in N'. split; [exact H'|lia].
        * destruct I as [[H N]|[H N]]; rewrite H in N'; right; split; auto; lia.
        * destruct I as [[H N]|[H N]]; rewrite H in N'; right; split; auto; lia.
        * destruct I as [[H N]|(H & N & _)]; rewrite H in N'; left; split; auto; lia.
        * destruct I as [H N]. rewrite H in N'. split; [exact H'|lia].
      + split; [exact OK|]. split; [right; right; split; [reflexivity|exact C]|exact I].
  Qed.

  Lemma ninv_run sched : forall c, ninv c -> ninv (nrun true k n sched c).
  Proof. induction sched as [|b tl IH]; intros c I; cbn [nrun fold_left]; [exact I|]. apply IH, ninv_step, I. Qed.

  (** every interleaving of LinkNode / MonitorNode (with the re-check) with unregisterConnection in
      the order of the code: the connection is gone at the end; the request failed, no relation,
      nothing delivered - or it returned nil and exactly one exit/down naming the node was sent *)
  Theorem node_race_exactly_one : forall s sched,
    idx_ok (ns_tm s) -> nhas k s = false -> ncnt k s = n0 ->
    let c := nrun true k n sched (mkncfg s NL_load (unreg_conn_prog true n)) in
    nfinished c = true ->
    nconn n (nc_st c) = false /\
    match nresult c with
    | RErr _ => nhas k (nc_st c) = false /\ ncnt k (nc_st c) = n0
    | ROk => nhas k (nc_st c) = false /\ ncnt k (nc_st c) = S n0
    | _ => False
    end.
  Proof.
    intros s sched OK H N c F.
    assert (I : ninv c).
    { apply ninv_run. split; [exact OK|]. split; [left; reflexivity|]. cbn. split; assumption. }
    destruct I as (_ & RO & I). unfold nfinished in F. unfold nresult.
    destruct (nc_pc c) as [| | | |res]; try discriminate.
    destruct (nc_rem c) eqn:ER; [|discriminate].
    destruct RO as [RO|[[RO _]|[_ C]]]; try discriminate. split; [exact C|].
    cbn [npc_inv] in I. destruct res as [|e|?|?]; try contradiction; [|exact I].
    destruct I as [I|(_ & _ & [C'|C'])]; [exact I | congruence | discriminate].
  Qed.
End NodeRace.

(* ---------- what the two halves of the protocol are needed for ---------- *)
Definition nlost (recheck del_first : bool) (mon : bool) (sched : list bool) : bool :=
  let k := nrace_key mon in
  let c := nrun recheck k 7 sched (mkncfg nrace_state NL_load (unreg_conn_prog del_first 7)) in
  nconn 7 nrace_state && negb (nhas k nrace_state) &&
  nfinished c && outcome_lost (nresult c) (nhas k (nc_st c)) (ncnt k (nc_st c)) (nconn 7 (nc_st c)).

(** LinkNode / MonitorNode before commit da9362c (no re-check), unregisterConnection as coded:
    [lookup | connections.Delete, RouteNodeDown | insert]: nil returned, the relation stands on a
    node without connection, no MessageExitNode / MessageDownNode was or will be sent *)
Theorem node_request_without_recheck_refuted : forall mon, nlost false true mon [true; false; false; true] = true.
Proof. intros [|]; vm_compute; reflexivity. Qed.

(** with the re-check, but unregisterConnection written "RouteNodeDown, then connections.Delete":
    [CleanupNode | lookup, insert, re-check: all pass | delete] loses the request as well *)
Theorem unregister_connection_drain_first_refuted : forall mon, nlost true false mon [false; true; true; true; false] = true.
Proof. intros [|]; vm_compute; reflexivity. Qed.

(* non-vacuity: on the same state and schedules the code as it is ends well *)
Example node_race_example :
  forallb (fun sched =>
    let k := nrace_key true in
    let c := nrun true k 7 (sched ++ [true; true; true; true; false; false]) (mkncfg nrace_state NL_load (unreg_conn_prog true 7)) in
    nfinished c && outcome_ok (nresult c) (nhas k (nc_st c)) (ncnt k (nc_st c)) (nconn 7 (nc_st c)))
    [[true; false; false; true]; [false; true; true; true; false]; [true; true; false; true; false]] = true.
Proof. vm_compute. reflexivity. Qed.
