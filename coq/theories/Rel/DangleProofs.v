(* Rel engine — no dangling relation: in every state reachable by registry operations every
   link / monitor relation has a live requester and, when its target is local (a pid, or a
   name / alias / event of this node), a target that exists in the tables.  Together with the
   agreement invariant: a terminated process appears in no relation, neither as requester nor
   (through its pid or any identity it owned) as target, in any later state. *)
From Ergo Require Import Common.Base Rel.Amap Rel.Model Rel.TMProofs Rel.RegProofs Rel.AgreeProofs.
Local Open Scope N_scope.

Definition local_target (t : target) : bool :=
  match t with
  | TPid _ => true
  | TName _ nd => nd =? me
  | TAlias nd _ => nd =? me
  | TEvent _ nd => nd =? me
  | TNode _ => true
  end.

Definition rel_ok (s : st) : Prop :=
  forall k, In k (rels (s_tm s)) ->
    live (kc k) s = true /\ (local_target (kt k) = true -> exists_target (kt k) s = true).

Lemma rel_ok_st0 np u : rel_ok (st0 np u).
Proof. intros k []. Qed.

(* old relations that survive keep their requester alive and their target in place; new ones are fine *)
Lemma rel_ok_step s s' :
  rel_ok s ->
  (forall k, In k (rels (s_tm s')) -> In k (rels (s_tm s)) ->
     (live (kc k) s = true -> live (kc k) s' = true) /\
     (local_target (kt k) = true -> exists_target (kt k) s = true -> exists_target (kt k) s' = true)) ->
  (forall k, In k (rels (s_tm s')) -> ~ In k (rels (s_tm s)) ->
     live (kc k) s' = true /\ (local_target (kt k) = true -> exists_target (kt k) s' = true)) ->
  rel_ok s'.
Proof.
  intros R Old New k HI. destruct (in_dec key_dec k (rels (s_tm s))) as [H|H]; [|apply New; assumption].
  destruct (R k H) as [L X]. destruct (Old k HI H) as [L' X']. split; [apply L', L|]. intros LT. apply X'; auto.
Qed.

(* nothing disappears: same relations, liveness and existence only grow *)
Lemma rel_ok_grow s s' :
  rel_ok s -> s_tm s' = s_tm s ->
  (forall q, live q s = true -> live q s' = true) ->
  (forall t, exists_target t s = true -> exists_target t s' = true) -> rel_ok s'.
Proof.
  intros R TM L X. apply (rel_ok_step s s' R).
  - intros k _ _. split; [apply L | intros _; apply X].
  - intros k H1 H2. rewrite TM in H1. contradiction.
Qed.

Lemma exists_target_same s s' t :
  s_procs s' = s_procs s -> s_names s' = s_names s -> s_aliases s' = s_aliases s -> s_events s' = s_events s ->
  exists_target t s' = exists_target t s.
Proof. intros A B C D. destruct t; cbn [exists_target]; congruence. Qed.

Lemma live_same s s' q : s_procs s' = s_procs s -> live q s' = live q s.
Proof. intros A. unfold live. rewrite A. reflexivity. Qed.

Lemma live_upd q p pr' s : live p s = true -> live q (set_proc p pr' s) = live q s.
Proof. apply live_set_proc. Qed.

Lemma ahas_aset_mono {V} k k' (v : V) m : ahas N.eq_dec k m = true -> ahas N.eq_dec k (aset N.eq_dec k' v m) = true.
Proof.
  unfold ahas. intros H. destruct (N.eq_dec k k') as [->|NE]; [rewrite aget_aset_eq; reflexivity|].
  rewrite aget_aset_neq by exact NE. exact H.
Qed.
Lemma ahas_adel_other {V} k k' (m : list (N * V)) : k <> k' -> ahas N.eq_dec k (adel N.eq_dec k' m) = ahas N.eq_dec k m.
Proof. intros NE. unfold ahas. rewrite aget_adel_neq by exact NE. reflexivity. Qed.
Lemma live_aset_mono q p (pr' : proc) procs : ahas pid_dec q procs = true -> ahas pid_dec q (aset pid_dec p pr' procs) = true.
Proof.
  unfold ahas. intros H. destruct (pid_dec q p) as [->|NE]; [rewrite aget_aset_eq; reflexivity|].
  rewrite aget_aset_neq by exact NE. exact H.
Qed.

(* ---------- link / monitor request: a relation is inserted only for an existing target ---------- *)
Lemma route_add_rels k s k' :
  idx_ok (s_tm s) -> In k' (rels (s_tm (fst (route_add k s)))) ->
  In k' (rels (s_tm s)) \/ (k' = k /\ exists_target (kt k) s = true).
Proof.
  intros OK. unfold route_add. cbn [lstep l_pc l_key].
  destruct (exists_target (kt k) s) eqn:EX; [|cbn; auto].
  destruct (km k && match owner_of (kt k) s with Some _ => false | None => false end) eqn:B.
  { cbn. auto. }
  cbn [lstep l_pc l_key].
  destruct (tm_add k (s_tm s)) as [m' ok] eqn:E. pose proof (tm_add_spec _ _ _ _ E OK) as (_ & R & _).
  destruct ok; cbn [lstep l_pc l_key]; [|cbn; auto].
  replace (exists_target (kt k) (set_tm m' s)) with true by (symmetry; rewrite <- EX; apply exists_target_same; reflexivity).
  cbn [lstep l_pc l_key fst s_tm set_tm]. intros H. apply R in H. destruct H as [H|H]; auto.
Qed.

Lemma route_remove_rels k s k' :
  idx_ok (s_tm s) -> In k' (rels (s_tm (fst (route_remove k s)))) -> In k' (rels (s_tm s)).
Proof.
  intros OK. unfold route_remove. destruct (exists_target (kt k) s); [|cbn; auto].
  destruct (tm_remove k (s_tm s)) as [m' ok] eqn:E. pose proof (tm_remove_spec _ _ _ _ E OK) as (_ & R & _).
  destruct ok; cbn [fst s_tm set_tm]; [|auto]. intros H. apply R in H. tauto.
Qed.

(* ---------- termination leaves the entries of the other processes alone ---------- *)
Lemma terminate_tables_kept p pr r s :
  agree s -> aget pid_dec p (s_procs s) = Some pr ->
  let s' := terminate p r s in
  (forall q, q <> p -> aget pid_dec q (s_procs s') = aget pid_dec q (s_procs s)) /\
  (forall n, aget N.eq_dec n (s_names s) <> Some p -> aget N.eq_dec n (s_names s') = aget N.eq_dec n (s_names s)) /\
  (forall a, aget N.eq_dec a (s_aliases s) <> Some p -> aget N.eq_dec a (s_aliases s') = aget N.eq_dec a (s_aliases s)) /\
  (forall e, aget N.eq_dec e (s_events s) <> Some p -> aget N.eq_dec e (s_events s') = aget N.eq_dec e (s_events s)).
Proof.
  intros AG E. cbn zeta. unfold terminate, term_prog. rewrite E.
  destruct (tsteps_kept (term_prog_of p pr r) s) as (KP & KN & KA & KE).
  destruct (agree_spelled s AG p pr E) as (I1 & _ & I2 & _ & I3).
  split; [|split; [|split]].
  - intros q NE. apply KP. intros H. prog_cases H. inversion H. congruence.
  - intros n NE. apply KN. intros p' H. prog_cases H. inversion H; subst. apply NE, I1, En.
  - intros a NE. apply KA. intros H. prog_cases H. inversion H; subst. apply NE, I2, Ha.
  - intros e NE. apply KE. intros H. prog_cases H. inversion H; subst. apply NE, I3, He.
Qed.

Lemma terminate_rel_ok p r s : agree s -> idx_ok (s_tm s) -> rel_ok s -> rel_ok (terminate p r s).
Proof.
  intros AG OK R. destruct (aget pid_dec p (s_procs s)) as [pr|] eqn:E; [|rewrite terminate_dead by exact E; exact R].
  destruct (terminate_tables_kept p pr r s AG E) as (KP & KN & KA & KE). cbn zeta in *.
  assert (L : live p s = true) by (unfold live, ahas; rewrite E; reflexivity).
  pose proof (release_hist s p r AG OK L) as H. cbn zeta in H. cbn [exec] in H. rewrite E in H. cbn [fst] in H.
  destruct H as (_ & _ & _ & REL & _).
  apply (rel_ok_step s _ R).
  - intros k HI _. destruct (REL k HI) as (_ & C & T1 & T2 & T3 & T4). split.
    + unfold live, ahas. rewrite KP by exact C. auto.
    + intros LT. destruct (kt k) as [q|n nd|nd a|e nd|nd] eqn:Ek; cbn [exists_target local_target] in *.
      * unfold ahas. rewrite KP by congruence. auto.
      * apply N.eqb_eq in LT. subst nd. unfold ahas. rewrite KN; [auto|]. intros X. apply (T2 n X). reflexivity.
      * apply N.eqb_eq in LT. subst nd. unfold ahas. rewrite KA; [auto|]. intros X. apply (T3 a X). reflexivity.
      * apply N.eqb_eq in LT. subst nd. unfold ahas. rewrite KE; [auto|]. intros X. apply (T4 e X). reflexivity.
      * auto.
  - intros k HI NI. destruct (REL k HI) as (X & _). contradiction.
Qed.

(* ---------- a drain after the delete of a table entry ---------- *)
Lemma drain_rel_ok t r s s0 :
  idx_ok (s_tm s0) -> rel_ok s0 -> s_tm s = s_tm s0 ->
  (forall q, live q s0 = true -> live q s = true) ->
  (forall t', t' <> t -> local_target t' = true -> exists_target t' s0 = true -> exists_target t' s = true) ->
  rel_ok (drain t r s).
Proof.
  intros OK R TM L X. destruct (drain_frame t r s) as (A & B & C & D & _).
  assert (OK' : idx_ok (s_tm s)) by (rewrite TM; exact OK).
  apply (rel_ok_step s0 _ R).
  - intros k HI _. apply drain_rels in HI; [|exact OK']. destruct HI as [_ NE]. split.
    + intros H. rewrite (live_same s) by exact A. apply L, H.
    + intros LT H. rewrite (exists_target_same s) by assumption. apply X; assumption.
  - intros k HI NI. apply drain_rels in HI; [|exact OK']. rewrite TM in HI. tauto.
Qed.

(* ---------- spawn ---------- *)
Lemma tm_add_rels_weak k m k' : In k' (rels (fst (tm_add k m))) -> In k' (rels m) \/ k' = k.
Proof.
  unfold tm_add. destruct (mem_key k (rels m)); cbn [fst rels]; [auto|]. intros [H|H]; auto.
Qed.

Lemma spawn_rels parent (name : option atom) lc lp s k :
  In k (rels (s_tm (fst (spawn parent name lc lp s)))) ->
  let p := lpid ((s_nextpid s + 1) mod two64) in
  In k (rels (s_tm s)) \/ (lp = true /\ k = mkkey p (TPid parent) false) \/ (lc = true /\ k = mkkey parent (TPid p) false).
Proof.
  unfold spawn. destruct (match name with Some n => ahas N.eq_dec n (s_names s) | None => false end); [cbn; auto|].
  destruct name, lc, lp; cbn [fst]; fields; intros H;
    repeat (apply tm_add_rels_weak in H; destruct H as [H|H]); auto.
Qed.

Lemma spawn_rel_ok parent (name : option atom) lc lp s :
  rel_ok s -> (lp = true \/ lc = true -> live parent s = true) -> rel_ok (fst (spawn parent name lc lp s)).
Proof.
  intros R HP.
  destruct (match name with Some n => ahas N.eq_dec n (s_names s) | None => false end) eqn:T.
  { unfold spawn. rewrite T. exact R. }
  destruct (spawn_ok_fields parent name lc lp s T) as (F1 & F2 & F3 & F4 & _). cbn zeta in *.
  set (p := lpid ((s_nextpid s + 1) mod two64)) in *. set (s' := fst (spawn parent name lc lp s)) in *.
  assert (LM : forall q, live q s = true -> live q s' = true).
  { intros q H. unfold live. rewrite F1. apply live_aset_mono, H. }
  assert (LP : live p s' = true).
  { unfold live, ahas. rewrite F1, aget_aset_eq. reflexivity. }
  assert (XM : forall t, exists_target t s = true -> exists_target t s' = true).
  { intros t H. destruct t; cbn [exists_target] in *; rewrite ?F1, ?F2, ?F3, ?F4; auto.
    - apply live_aset_mono, H.
    - destruct name; [apply ahas_aset_mono, H | exact H]. }
  apply (rel_ok_step s s' R).
  - intros k _ _. split; [apply LM | intros _; apply XM].
  - intros k HI NI. apply spawn_rels in HI. cbn zeta in HI. fold p in HI.
    destruct HI as [H|[[Elp ->]|[Elc ->]]]; [contradiction| |]; cbn [kc kt local_target exists_target].
    + split; [exact LP|]. intros _. apply (LM parent), HP. left; exact Elp.
    + split; [apply LM, HP; right; exact Elc | intros _; exact LP].
Qed.

(* ---------- registrations: tables and process table only grow ---------- *)
Lemma grow_set_proc_names p pr pr' n s :
  aget pid_dec p (s_procs s) = Some pr ->
  let s' := set_proc p pr' (set_names (aset N.eq_dec n p (s_names s)) s) in
  s_tm s' = s_tm s /\ (forall q, live q s = true -> live q s' = true) /\
  (forall t, exists_target t s = true -> exists_target t s' = true).
Proof.
  intros E. cbn zeta. split; [reflexivity|]. split.
  - intros q H. unfold live. fields. apply live_aset_mono, H.
  - intros t H. destruct t; cbn [exists_target] in *; fields; auto; [apply live_aset_mono, H | apply ahas_aset_mono, H].
Qed.

Lemma rel_ok_same_reg s s' c :
  rel_ok s -> same_reg s s' ->
  (forall k, In k (rels (s_tm s')) ->
     In k (rels (s_tm s)) \/ (kc k = c /\ live c s = true /\ exists_target (kt k) s = true)) ->
  rel_ok s'.
Proof.
  intros R (A & B & C & D & _) Sub.
  assert (LS : forall q, live q s' = live q s) by (intros q; apply live_same, A).
  assert (XS : forall t, exists_target t s' = exists_target t s) by (intros t; apply exists_target_same; assumption).
  apply (rel_ok_step s s' R).
  - intros k _ _. rewrite LS, XS. auto.
  - intros k HI NI. destruct (Sub k HI) as [H|(E1 & E2 & E3)]; [contradiction|]. rewrite LS, XS, E1. auto.
Qed.

Lemma exec_rel_ok o s :
  agree s -> idx_ok (s_tm s) -> rel_ok s -> rel_ok (fst (exec o s)).
Proof.
  intros AG OK R.
  destruct o; cbn [exec];
    try (destruct (aget pid_dec _ (s_procs s)) as [pr|] eqn:E; [|exact R]); cbn [fst].
  - (* OSpawnNode *) apply spawn_rel_ok; [exact R | intros [H|H]; discriminate].
  - (* OSpawn *) apply spawn_rel_ok; [exact R|]. intros _. unfold live, ahas. rewrite E. reflexivity.
  - (* ORegisterName *) unfold register_name. destruct (pr_name pr); [exact R|]. destruct (ahas _ _ _); [exact R|]. cbn [fst].
    destruct (grow_set_proc_names p pr (mkproc (pr_parent pr) (Some n) (pr_aliases pr) (pr_events pr)) n s E) as (A & B & C).
    eapply rel_ok_grow; eauto.
  - (* OUnregisterName *) unfold unregister_name. destruct (aget N.eq_dec n (s_names s)) as [q|] eqn:T; [|exact R]. cbn [fst].
    apply (drain_rel_ok _ _ _ s OK R).
    + destruct (aget pid_dec q _); reflexivity.
    + intros q0 H. fields. destruct (aget pid_dec q (s_procs s)) as [prq|] eqn:Eq; [|exact H].
      rewrite live_set_proc; [exact H|]. unfold live, ahas. fields. rewrite Eq. reflexivity.
    + intros t' NE LT H.
      assert (P : forall q0, ahas pid_dec q0 (s_procs s) = true ->
                  ahas pid_dec q0 (s_procs (match aget pid_dec q (s_procs (set_names (adel N.eq_dec n (s_names s)) s)) with
                     | Some pr0 => set_proc q (mkproc (pr_parent pr0) None (pr_aliases pr0) (pr_events pr0)) (set_names (adel N.eq_dec n (s_names s)) s)
                     | None => set_names (adel N.eq_dec n (s_names s)) s end)) = true).
      { intros q0 H0. fields. destruct (aget pid_dec q (s_procs s)); fields; [apply live_aset_mono, H0 | exact H0]. }
      destruct t' as [q0|n' nd|nd a|e nd|nd]; cbn [exists_target local_target] in *.
      * apply P, H.
      * apply N.eqb_eq in LT. subst nd. fields. destruct (aget pid_dec q (s_procs s)); fields;
          (rewrite ahas_adel_other; [exact H | congruence]).
      * fields. destruct (aget pid_dec q (s_procs s)); exact H.
      * fields. destruct (aget pid_dec q (s_procs s)); exact H.
      * reflexivity.
  - (* OCreateAlias *) unfold create_alias. destruct (ahas _ _ _); cbn [fst].
    + eapply rel_ok_grow; [exact R | reflexivity | auto | auto].
    + eapply rel_ok_grow; [exact R | reflexivity | |].
      * intros q H. unfold live. fields. apply live_aset_mono, H.
      * intros t H. destruct t; cbn [exists_target] in *; fields; auto; [apply live_aset_mono, H | apply ahas_aset_mono, H].
  - (* ODeleteAlias *) unfold delete_alias. destruct (aget N.eq_dec a (s_aliases s)) as [q|] eqn:T; [|exact R].
    destruct (pid_dec q p) as [->|D]; [|exact R]. cbn [fst].
    set (s1 := set_aliases (adel N.eq_dec a (s_aliases s)) s).
    assert (R1 : rel_ok (drain (TAlias me a) r_unreg s1)).
    { apply (drain_rel_ok _ _ _ s OK R); [reflexivity | auto|].
      intros t' NE LT H. destruct t' as [q0|n' nd|nd a'|e nd|nd]; cbn [exists_target local_target] in *; subst s1; fields; auto.
      apply N.eqb_eq in LT. subst nd. rewrite ahas_adel_other; [exact H | congruence]. }
    destruct (drain_frame (TAlias me a) r_unreg s1) as (D1 & D2 & D3 & D4 & _).
    eapply rel_ok_grow; [exact R1 | reflexivity | |].
    + intros q H. unfold live in *. fields. apply live_aset_mono, H.
    + intros t H. destruct t; cbn [exists_target] in *; fields; auto. apply live_aset_mono, H.
  - (* ORegisterEvent *) unfold register_event. destruct (ahas _ _ _); [exact R|]. cbn [fst].
    eapply rel_ok_grow; [exact R | reflexivity | |].
    + intros q H. unfold live. fields. apply live_aset_mono, H.
    + intros t H. destruct t; cbn [exists_target] in *; fields; auto; [apply live_aset_mono, H | apply ahas_aset_mono, H].
  - (* OUnregisterEvent *) unfold unregister_event. destruct (aget N.eq_dec e (s_events s)) as [q|] eqn:T; [|exact R].
    destruct (pid_dec q p) as [->|D]; [|exact R]. cbn [fst].
    set (s1 := set_events (adel N.eq_dec e (s_events s)) s).
    assert (R1 : rel_ok (drain (TEvent e me) r_unreg s1)).
    { apply (drain_rel_ok _ _ _ s OK R); [reflexivity | auto|].
      intros t' NE LT H. destruct t' as [q0|n' nd|nd a'|e' nd|nd]; cbn [exists_target local_target] in *; subst s1; fields; auto.
      apply N.eqb_eq in LT. subst nd. rewrite ahas_adel_other; [exact H | congruence]. }
    eapply rel_ok_grow; [exact R1 | reflexivity | |].
    + intros q H. unfold live in *. fields. apply live_aset_mono, H.
    + intros t H. destruct t; cbn [exists_target] in *; fields; auto. apply live_aset_mono, H.
  - (* OLink *) destruct (self_target c pr t); [exact R|]. destruct (tm_has _ _); [exact R|].
    apply (rel_ok_same_reg s _ c R); [apply route_add_frame|].
    intros k HI. apply route_add_rels in HI; [|exact OK]. destruct HI as [H|[-> EX]]; [left; exact H|]. right. cbn [kc kt].
    split; [reflexivity|]. split; [unfold live, ahas; rewrite E; reflexivity | exact EX].
  - (* OUnlink *) destruct (tm_has _ _); [|exact R].
    apply (rel_ok_same_reg s _ c R); [apply route_remove_frame|].
    intros k HI. left. apply route_remove_rels in HI; [exact HI | exact OK].
  - (* OMonitor *) destruct (tm_has _ _); [exact R|].
    apply (rel_ok_same_reg s _ c R); [apply route_add_frame|].
    intros k HI. apply route_add_rels in HI; [|exact OK]. destruct HI as [H|[-> EX]]; [left; exact H|]. right. cbn [kc kt].
    split; [reflexivity|]. split; [unfold live, ahas; rewrite E; reflexivity | exact EX].
  - (* ODemonitor *) destruct (tm_has _ _); [|exact R].
    apply (rel_ok_same_reg s _ c R); [apply route_remove_frame|].
    intros k HI. left. apply route_remove_rels in HI; [exact HI | exact OK].
  - (* OTerminate *) apply terminate_rel_ok; assumption.
  - (* OCascade *) destruct (s_pending s) as [|[c r] tl]; [exact R|]. cbn [fst].
    apply terminate_rel_ok; [eapply agree_frame; [|exact AG]; repeat split | exact OK | exact R].
Qed.

Theorem run_ops_inv ops : forall s,
  agree s -> idx_ok (s_tm s) -> rel_ok s -> s_nextpid s + N.of_nat (length ops) < two64 ->
  let s' := fst (run_ops ops s) in agree s' /\ idx_ok (s_tm s') /\ rel_ok s'.
Proof.
  induction ops as [|o ops IH]; intros s AG OK R NW; cbn [run_ops]; [cbn; auto|].
  cbn [length] in NW.
  destruct (exec_agree o s AG ltac:(lia)) as [AG1 LE].
  pose proof (exec_idx_ok o s OK) as OK1. pose proof (exec_rel_ok o s AG OK R) as R1.
  destruct (exec o s) as [s1 r1]. cbn [fst] in *.
  specialize (IH s1 AG1 OK1 R1 ltac:(lia)). cbn zeta in IH. destruct (run_ops ops s1) as [s2 rs]. exact IH.
Qed.

(** after ANY history: every relation has a live requester and a target that exists and belongs
    to a live process (local targets); in particular a terminated process is in no relation *)
Theorem no_dangling_hist ops nextpid uniq :
  nextpid + N.of_nat (length ops) < two64 ->
  let s := fst (run_ops ops (st0 nextpid uniq)) in
  forall k, In k (rels (s_tm s)) ->
    live (kc k) s = true /\
    match kt k with
    | TPid q => live q s = true
    | TName n nd => nd = me -> exists q, aget N.eq_dec n (s_names s) = Some q /\ live q s = true
    | TAlias nd a => nd = me -> exists q, aget N.eq_dec a (s_aliases s) = Some q /\ live q s = true
    | TEvent e nd => nd = me -> exists q, aget N.eq_dec e (s_events s) = Some q /\ live q s = true
    | TNode _ => True
    end.
Proof.
  intros NW s k HI.
  destruct (run_ops_inv ops (st0 nextpid uniq) (agree_st0 _ _) idx_ok_empty (rel_ok_st0 _ _) NW) as (AG & _ & R).
  fold s in AG, R. destruct (R k HI) as [L X]. split; [exact L|].
  destruct (agree_entries_live s AG) as (L1 & L2 & L3).
  destruct (kt k) as [q|n nd|nd a|e nd|nd]; cbn [local_target exists_target] in X.
  - apply X. reflexivity.
  - intros ->. specialize (X (N.eqb_refl me)). unfold ahas in X.
    destruct (aget N.eq_dec n (s_names s)) as [q|] eqn:T; [|discriminate]. exists q. split; [reflexivity | eapply L1; eauto].
  - intros ->. specialize (X (N.eqb_refl me)). unfold ahas in X.
    destruct (aget N.eq_dec a (s_aliases s)) as [q|] eqn:T; [|discriminate]. exists q. split; [reflexivity | eapply L2; eauto].
  - intros ->. specialize (X (N.eqb_refl me)). unfold ahas in X.
    destruct (aget N.eq_dec e (s_events s)) as [q|] eqn:T; [|discriminate]. exists q. split; [reflexivity | eapply L3; eauto].
  - exact I.
Qed.
