(* Rel engine — interleavings of LinkNode / MonitorNode with the loss of the connection, observed on
   two real nodes (go/harness/cmd/rel/ilvnode.go): correspondence with the model and the monitor. *)
From Ergo Require Import Common.Base Rel.Amap Rel.Model Rel.RaceGen Rel.RaceGenCases Rel.NodeRace.
Local Open Scope N_scope.

(* requester segments: connection lookup | Add | re-check | Remove;
   remover segments: connections.Delete | CleanupNode | the sends *)
Record ncase := mk_ncase {
  nd_mon : bool;
  nd_sched : list bool;
  nd_res : res;           (* what LinkNode / MonitorNode returned *)
  nd_notes : nat;         (* MessageExitNode (link) / MessageDownNode (monitor) handled by the requester *)
  nd_rel : bool;          (* HasLink / HasMonitor afterwards *)
  nd_gone : bool          (* no connection afterwards *)
}.

Definition node_run (c : ncase) : ncfg :=
  let sched := expand [1%nat; 1%nat; 0%nat] (nd_sched c) ++ repeat true 4 ++ repeat false 2 in
  nrun true (nrace_key (nd_mon c)) 7 sched (mkncfg nrace_state NL_load (unreg_conn_prog true 7)).

Definition corr_node (c : ncase) : bool :=
  let f := node_run c in
  let k := nrace_key (nd_mon c) in
  nfinished f &&
  (if res_dec (nresult f) (nd_res c) then true else false) &&
  Nat.eqb (ncnt k (nc_st f)) (nd_notes c) &&
  Bool.eqb (nhas k (nc_st f)) (nd_rel c) &&
  Bool.eqb (negb (nconn 7 (nc_st f))) (nd_gone c).

Definition spec_node (c : ncase) : bool :=
  outcome_ok (nd_res c) (nd_rel c) (nd_notes c) (negb (nd_gone c)).

Definition premise_node (c : ncase) : bool := negb (serial (firstn 7 (nd_sched c))).
