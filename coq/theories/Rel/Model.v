(* Rel engine — model (definitions only) of
     gen/default_target_manager.go                       (target manager, section 1)
     its abstract specification: a finite set of (consumer,target,kind)   (section 2)
     the registry tables and operations of node/node.go, node/core.go,
     node/process.go that create / drain relations                        (section 3)
     the link/monitor-vs-terminate race as thread programs                (section 4)
   Transcribed function by function; the Go text is quoted before each definition.
   Go maps are association lists (Rel/Amap.v); a Go `map[K]struct{}` is a duplicate-free list.
   Iteration order of Go maps is unspecified: every list a method returns is compared with
   the implementation up to permutation (harness output is sorted). *)
From Ergo Require Import Common.Base Rel.Amap.
Local Open Scope N_scope.

(* ------------------------------------------------------------------------------------ *)
(** * 0. Identifiers *)

Definition atom := N.                       (* gen.Atom, interned by the harness *)
Record pid := mkpid { pnode : atom; pnum : N }.        (* gen.PID{Node, ID}; Creation is constant per node *)

(* target any: gen.PID | gen.ProcessID{Name,Node} | gen.Alias{Node,ID} | gen.Event{Name,Node} | gen.Atom (node) *)
Inductive target :=
| TPid (p : pid)
| TName (name node : atom)
| TAlias (node : atom) (id : N)
| TEvent (name node : atom)
| TNode (node : atom).

(* type relationKey struct { consumer PID; target any; monitor bool } *)
Record key := mkkey { kc : pid; kt : target; km : bool }.

Definition pid_dec : forall a b : pid, {a = b} + {a <> b}.
Proof. decide equality; apply N.eq_dec. Defined.
Definition target_dec : forall a b : target, {a = b} + {a <> b}.
Proof. decide equality; try apply N.eq_dec; apply pid_dec. Defined.
Definition key_dec : forall a b : key, {a = b} + {a <> b}.
Proof. decide equality; [apply bool_dec | apply target_dec | apply pid_dec]. Defined.

Definition mem_key (k : key) (l : list key) : bool := memb key_dec k l.

(* the node a target lives on (switch in CleanupNode) *)
Definition target_node (t : target) : atom :=
  match t with
  | TPid p => pnode p | TName _ n => n | TAlias n _ => n | TEvent _ n => n | TNode n => n
  end.
Definition target_on (n : atom) (k : key) : bool := target_node (kt k) =? n.
Definition consumer_on (n : atom) (k : key) : bool := pnode (kc k) =? n.

(* ------------------------------------------------------------------------------------ *)
(** * 1. The concrete target manager

   type defaultTargetManager struct {
       relations   map[relationKey]struct{}
       targetIndex map[any]map[relationKey]struct{} }                                      *)

Record tm := mktm { rels : list key; tidx : list (target * list key) }.
Definition tm_empty : tm := mktm [] [].

Definition idx_keys (t : target) (idx : list (target * list key)) : list key :=
  match aget target_dec t idx with Some ks => ks | None => [] end.

(* m[key] = struct{}{} on a set *)
Definition set_add (k : key) (ks : list key) : list key := if mem_key k ks then ks else k :: ks.

(*  if tm.targetIndex[target] == nil { tm.targetIndex[target] = make(...) }
    tm.targetIndex[target][key] = struct{}{}                                               *)
Definition idx_add (k : key) (idx : list (target * list key)) : list (target * list key) :=
  aset target_dec (kt k) (set_add k (idx_keys (kt k) idx)) idx.

(*  if targetKeys := tm.targetIndex[target]; targetKeys != nil {
        delete(targetKeys, key)
        if len(targetKeys) == 0 { delete(tm.targetIndex, target) } }                      *)
Definition idx_remove (k : key) (idx : list (target * list key)) : list (target * list key) :=
  match aget target_dec (kt k) idx with
  | None => idx
  | Some ks =>
      match remove key_dec k ks with
      | [] => adel target_dec (kt k) idx
      | ks' => aset target_dec (kt k) ks' idx
      end
  end.

(*  AddLink / AddMonitor (key.monitor = false / true):
      if _, exists := tm.relations[key]; exists { return ErrTargetExist }
      tm.relations[key] = struct{}{} ; index insert ; return nil                           *)
Definition tm_add (k : key) (m : tm) : tm * bool :=
  if mem_key k (rels m) then (m, false)
  else (mktm (k :: rels m) (idx_add k (tidx m)), true).

(* the block  delete(tm.relations, key) + index removal  shared by Remove*, CleanupConsumer, CleanupNode *)
Definition tm_del (k : key) (m : tm) : tm :=
  mktm (remove key_dec k (rels m)) (idx_remove k (tidx m)).

(*  RemoveLink / RemoveMonitor:
      if _, exists := tm.relations[key]; !exists { return ErrTargetUnknown } ; delete ...  *)
Definition tm_remove (k : key) (m : tm) : tm * bool :=
  if mem_key k (rels m) then (tm_del k m, true) else (m, false).

(* HasLink / HasMonitor *)
Definition tm_has (k : key) (m : tm) : bool := mem_key k (rels m).

Definition tm_del_list (ks : list key) (m : tm) : tm := fold_left (fun m k => tm_del k m) ks m.

Definition links_of (ks : list key) : list key := filter (fun k => negb (km k)) ks.
Definition monitors_of (ks : list key) : list key := filter km ks.

(*  CleanupConsumer(consumer):
      for key := range tm.relations { if key.consumer == consumer {
          record key.target in monitorTargets / linkTargets ; delete(tm.relations,key) ; index removal } } *)
Definition is_consumer (c : pid) (k : key) : bool := if pid_dec (kc k) c then true else false.
Definition tm_cleanup_consumer (c : pid) (m : tm) : tm * list target * list target :=
  let ks := filter (is_consumer c) (rels m) in
  (tm_del_list ks m, map kt (links_of ks), map kt (monitors_of ks)).

(*  CleanupTarget(target):
      if targetKeys := tm.targetIndex[target]; targetKeys != nil {
          for key := range targetKeys { record key.consumer ; delete(tm.relations, key) }
          delete(tm.targetIndex, target) }                                                 *)
Definition tm_cleanup_target (t : target) (m : tm) : tm * list pid * list pid :=
  match aget target_dec t (tidx m) with
  | None => (m, [], [])
  | Some ks =>
      (mktm (fold_left (fun r k => remove key_dec k r) ks (rels m)) (adel target_dec t (tidx m)),
       map kc (links_of ks), map kc (monitors_of ks))
  end.

(*  CleanupNode(node):
      for key := range tm.relations {
          if key.consumer.Node == node { delete + index removal ; continue }
          shouldDelete := <target lives on node>
          if shouldDelete { record (key.target -> key.consumer) by kind ; delete + index removal } }
    The two result maps target -> []consumer are rendered as lists of (target, consumer). *)
Definition node_hit (n : atom) (k : key) : bool := consumer_on n k || target_on n k.
Definition node_report (n : atom) (k : key) : bool := negb (consumer_on n k) && target_on n k.
Definition tc_pair (k : key) : target * pid := (kt k, kc k).
Definition tm_cleanup_node (n : atom) (m : tm) : tm * list (target * pid) * list (target * pid) :=
  let rep := filter (node_report n) (rels m) in
  (tm_del_list (filter (node_hit n) (rels m)) m,
   map tc_pair (links_of rep), map tc_pair (monitors_of rep)).

(* GetTargetsForConsumer / GetConsumersForTarget *)
Definition tm_targets_for_consumer (c : pid) (m : tm) : list target * list target :=
  let ks := filter (is_consumer c) (rels m) in (map kt (links_of ks), map kt (monitors_of ks)).
Definition tm_consumers_for_target (t : target) (m : tm) : list pid := map kc (idx_keys t (tidx m)).

(* ------------------------------------------------------------------------------------ *)
(** * 2. The abstract specification: a finite set of (consumer, target, kind) *)

Definition rset := list key.       (* duplicate-free, order irrelevant *)

Definition spec_add (k : key) (S : rset) : rset * bool :=
  if mem_key k S then (S, false) else (k :: S, true).
Definition spec_remove (k : key) (S : rset) : rset * bool :=
  if mem_key k S then (remove key_dec k S, true) else (S, false).
Definition is_target (t : target) (k : key) : bool := if target_dec (kt k) t then true else false.
Definition spec_cleanup_target (t : target) (S : rset) : rset * list pid * list pid :=
  let hit := filter (is_target t) S in
  (filter (fun k => negb (is_target t k)) S, map kc (links_of hit), map kc (monitors_of hit)).
Definition spec_cleanup_consumer (c : pid) (S : rset) : rset * list target * list target :=
  let hit := filter (is_consumer c) S in
  (filter (fun k => negb (is_consumer c k)) S, map kt (links_of hit), map kt (monitors_of hit)).
(* CleanupNode n: report (target, consumer) for exactly the relations whose target lives on n and
   whose consumer does not; remove those and every relation whose consumer lives on n. *)
Definition spec_cleanup_node (n : atom) (S : rset) : rset * list (target * pid) * list (target * pid) :=
  let rep := filter (node_report n) S in
  (filter (fun k => negb (node_hit n k)) S, map tc_pair (links_of rep), map tc_pair (monitors_of rep)).

(** ** The two machines run over a sequence of method calls *)
Inductive tmop :=
| TmAdd (k : key) | TmRemove (k : key) | TmHas (k : key)
| TmCleanConsumer (c : pid) | TmCleanTarget (t : target) | TmCleanNode (n : atom)
| TmTargetsFor (c : pid) | TmConsumersFor (t : target).

Inductive tmres :=
| XBool (b : bool)                                   (* nil error / Has* answer *)
| XTargets (l m : list target)                       (* link targets, monitor targets *)
| XPids (l m : list pid)                             (* link consumers, monitor consumers *)
| XPairs (l m : list (target * pid))                 (* CleanupNode maps, flattened *)
| XPidList (l : list pid).

(* the concrete model *)
Definition tm_exec (o : tmop) (m : tm) : tm * tmres :=
  match o with
  | TmAdd k => let '(m', ok) := tm_add k m in (m', XBool ok)
  | TmRemove k => let '(m', ok) := tm_remove k m in (m', XBool ok)
  | TmHas k => (m, XBool (tm_has k m))
  | TmCleanConsumer c => let '(m', l, mo) := tm_cleanup_consumer c m in (m', XTargets l mo)
  | TmCleanTarget t => let '(m', l, mo) := tm_cleanup_target t m in (m', XPids l mo)
  | TmCleanNode n => let '(m', l, mo) := tm_cleanup_node n m in (m', XPairs l mo)
  | TmTargetsFor c => let '(l, mo) := tm_targets_for_consumer c m in (m, XTargets l mo)
  | TmConsumersFor t => (m, XPidList (tm_consumers_for_target t m))
  end.

(* the abstract set specification *)
Definition set_exec (o : tmop) (S : rset) : rset * tmres :=
  match o with
  | TmAdd k => let '(S', ok) := spec_add k S in (S', XBool ok)
  | TmRemove k => let '(S', ok) := spec_remove k S in (S', XBool ok)
  | TmHas k => (S, XBool (mem_key k S))
  | TmCleanConsumer c => let '(S', l, mo) := spec_cleanup_consumer c S in (S', XTargets l mo)
  | TmCleanTarget t => let '(S', l, mo) := spec_cleanup_target t S in (S', XPids l mo)
  | TmCleanNode n => let '(S', l, mo) := spec_cleanup_node n S in (S', XPairs l mo)
  | TmTargetsFor c => let '(_, l, mo) := spec_cleanup_consumer c S in (S, XTargets l mo)
  | TmConsumersFor t => let '(_, l, mo) := spec_cleanup_target t S in (S, XPidList (l ++ mo))
  end.

Fixpoint tm_run (ops : list tmop) (m : tm) : tm * list tmres :=
  match ops with
  | [] => (m, [])
  | o :: tl => let '(m1, r) := tm_exec o m in let '(m2, rs) := tm_run tl m1 in (m2, r :: rs)
  end.
Fixpoint set_run (ops : list tmop) (S : rset) : rset * list tmres :=
  match ops with
  | [] => (S, [])
  | o :: tl => let '(S1, r) := set_exec o S in let '(S2, rs) := set_run tl S1 in (S2, r :: rs)
  end.

(* ------------------------------------------------------------------------------------ *)
(** * 3. Registry: tables, per-process records, operations (one node, name [me]) *)

Definition me : atom := 1.
Definition lpid (n : N) : pid := mkpid me n.

(* termination / notification reasons *)
Definition r_normal : N := 0.   (* gen.TerminateReasonNormal *)
Definition r_kill : N := 1.     (* gen.TerminateReasonKill *)
Definition r_unreg : N := 2.    (* gen.ErrUnregistered *)
(* >= 10: application errors *)

(* error enum used for return values *)
Definition e_process_unknown : N := 1.
Definition e_taken : N := 2.
Definition e_target_exist : N := 3.
Definition e_target_unknown : N := 4.
Definition e_name_unknown : N := 5.
Definition e_alias_unknown : N := 6.
Definition e_alias_owner : N := 7.
Definition e_event_unknown : N := 8.
Definition e_event_owner : N := 9.
Definition e_not_allowed : N := 10.
Definition e_process_terminated : N := 11.
Definition e_dead : N := 99.     (* harness: the acting actor is not alive, operation skipped *)

Inductive res := ROk | RErr (e : N) | RPid (p : pid) | RAlias (a : N).
Definition res_dec : forall a b : res, {a = b} + {a <> b}.
Proof. decide equality; try apply N.eq_dec; apply pid_dec. Defined.

(* what an observer finds in its mailbox: exit (link) / down (monitor), the target, the reason *)
Record note := mknote { n_down : bool; n_target : target; n_reason : N }.
Definition note_dec : forall a b : note, {a = b} + {a <> b}.
Proof. decide equality; [apply N.eq_dec | apply target_dec | apply bool_dec]. Defined.

(* process struct fields used here: parent, name+registered, aliases []gen.Alias, events sync.Map *)
Record proc := mkproc { pr_parent : pid; pr_name : option atom; pr_aliases : list N; pr_events : list atom }.

Record st := mkst {
  s_procs : list (pid * proc);          (* n.processes *)
  s_names : list (atom * pid);          (* n.names     *)
  s_aliases : list (N * pid);           (* n.aliases   *)
  s_events : list (atom * pid);         (* n.events (value: producer) *)
  s_tm : tm;                            (* n.targetManager *)
  s_inbox : list (pid * list note);     (* exit/down messages pushed to each process, in order *)
  s_pending : list (pid * N);           (* processes that received an exit from their parent (they terminate) *)
  s_nextpid : N;                        (* n.nextID *)
  s_uniq : N                            (* n.uniqID (aliases are numbered by order of creation) *)
}.

Definition st0 (nextpid uniq : N) : st := mkst [] [] [] [] tm_empty [] [] nextpid uniq.

Definition set_procs v s := mkst v (s_names s) (s_aliases s) (s_events s) (s_tm s) (s_inbox s) (s_pending s) (s_nextpid s) (s_uniq s).
Definition set_names v s := mkst (s_procs s) v (s_aliases s) (s_events s) (s_tm s) (s_inbox s) (s_pending s) (s_nextpid s) (s_uniq s).
Definition set_aliases v s := mkst (s_procs s) (s_names s) v (s_events s) (s_tm s) (s_inbox s) (s_pending s) (s_nextpid s) (s_uniq s).
Definition set_events v s := mkst (s_procs s) (s_names s) (s_aliases s) v (s_tm s) (s_inbox s) (s_pending s) (s_nextpid s) (s_uniq s).
Definition set_tm v s := mkst (s_procs s) (s_names s) (s_aliases s) (s_events s) v (s_inbox s) (s_pending s) (s_nextpid s) (s_uniq s).
Definition set_inbox v s := mkst (s_procs s) (s_names s) (s_aliases s) (s_events s) (s_tm s) v (s_pending s) (s_nextpid s) (s_uniq s).
Definition set_pending v s := mkst (s_procs s) (s_names s) (s_aliases s) (s_events s) (s_tm s) (s_inbox s) v (s_nextpid s) (s_uniq s).
Definition set_nextpid v s := mkst (s_procs s) (s_names s) (s_aliases s) (s_events s) (s_tm s) (s_inbox s) (s_pending s) v (s_uniq s).
Definition set_uniq v s := mkst (s_procs s) (s_names s) (s_aliases s) (s_events s) (s_tm s) (s_inbox s) (s_pending s) (s_nextpid s) v.

Definition live (p : pid) (s : st) : bool := ahas pid_dec p (s_procs s).
Definition inbox_of (c : pid) (s : st) : list note :=
  match aget pid_dec c (s_inbox s) with Some l => l | None => [] end.
Definition set_proc (p : pid) (pr : proc) (s : st) : st := set_procs (aset pid_dec p pr (s_procs s)) s.

(*  sendExitMessage / RouteSendPID (local):  value, loaded := n.processes.Load(to);
    if loaded == false { return ErrProcessUnknown } ; push ; run.
    act.Actor: a MessageExitPID whose sender is the parent terminates the receiver even when it
    traps exits (act/actor.go: `if a.trap && message.From != a.Parent()`), with the same reason
    (process.run unwraps the error): recorded in s_pending and executed by OCascade. *)
Definition from_parent (pr : proc) (x : note) : bool :=
  negb (n_down x) && (if target_dec (n_target x) (TPid (pr_parent pr)) then true else false).
Definition send (c : pid) (x : note) (s : st) : st :=
  match aget pid_dec c (s_procs s) with
  | None => s
  | Some pr =>
      let s1 := set_inbox (aset pid_dec c (inbox_of c s ++ [x]) (s_inbox s)) s in
      if from_parent pr x then set_pending (s_pending s1 ++ [(c, n_reason x)]) s1 else s1
  end.

(*  RouteTerminate{PID,ProcessID,Alias,Event}(target, reason):
      linkConsumers, monitorConsumers := n.targetManager.CleanupTarget(target)
      for _, pid := range linkConsumers { n.sendExitMessage(.., pid, MessageExit*{target, reason}) }
      for _, pid := range monitorConsumers { n.RouteSendPID(.., pid, .., MessageDown*{target, reason}) } *)
Definition drain (t : target) (r : N) (s : st) : st :=
  let '(m', lc, mc) := tm_cleanup_target t (s_tm s) in
  let s1 := set_tm m' s in
  let s2 := fold_left (fun s c => send c (mknote false t r) s) lc s1 in
  fold_left (fun s c => send c (mknote true t r) s) mc s2.

(* the atomic steps of unregisterProcess, in program order (node/node.go, after commit caf4a93):
     n.processes.Delete(p.pid)
     if p.registered.Load() { n.names.CompareAndDelete(p.name, p) }     [name released FIRST, only if it is p's entry]
     n.RouteTerminatePID(p.pid, reason)
     n.targetManager.CleanupConsumer(p.pid)                         [fix: was missing]
     if p.registered.Load() { n.RouteTerminateProcessID(pname, reason) }
     for _, a := range p.aliases { n.aliases.Delete(a); n.RouteTerminateAlias(a, reason) }
     p.events.Range(... n.events.Delete(ev); n.RouteTerminateEvent(ev, reason) ...)          *)
Inductive tstep :=
| TDelProc (p : pid)
| TDrain (t : target) (r : N)
| TCleanCons (p : pid)
| TDelName (n : atom) (p : pid)      (* CompareAndDelete(n, p) *)
| TDelAlias (a : N)
| TDelEvent (e : atom).

Definition term_prog_of (p : pid) (pr : proc) (r : N) : list tstep :=
  TDelProc p ::
  (match pr_name pr with Some n => [TDelName n p] | None => [] end) ++
  TDrain (TPid p) r :: TCleanCons p ::
  (match pr_name pr with Some n => [TDrain (TName n me) r] | None => [] end) ++
  flat_map (fun a => [TDelAlias a; TDrain (TAlias me a) r]) (pr_aliases pr) ++
  flat_map (fun e => [TDelEvent e; TDrain (TEvent e me) r]) (pr_events pr).

Definition term_prog (s : st) (p : pid) (r : N) : list tstep :=
  match aget pid_dec p (s_procs s) with Some pr => term_prog_of p pr r | None => [] end.

(* sync.Map.CompareAndDelete(k, v): delete the entry of k iff it holds v *)
Definition cdel (n : atom) (p : pid) (names : list (atom * pid)) : list (atom * pid) :=
  match aget N.eq_dec n names with
  | Some q => if pid_dec q p then adel N.eq_dec n names else names
  | None => names
  end.

Definition tstep_exec (x : tstep) (s : st) : st :=
  match x with
  | TDelProc p => set_procs (adel pid_dec p (s_procs s)) s
  | TDrain t r => drain t r s
  | TCleanCons p => set_tm (fst (fst (tm_cleanup_consumer p (s_tm s)))) s
  | TDelName n p => set_names (cdel n p (s_names s)) s
  | TDelAlias a => set_aliases (adel N.eq_dec a (s_aliases s)) s
  | TDelEvent e => set_events (adel N.eq_dec e (s_events s)) s
  end.
Definition tsteps (l : list tstep) (s : st) : st := fold_left (fun s x => tstep_exec x s) l s.

(* unregisterProcess(p, reason) as one complete operation *)
Definition terminate (p : pid) (r : N) (s : st) : st := tsteps (term_prog s p r) s.

(* existence load of Route{Link,Unlink,Monitor,Demonitor}*: processes / names / aliases / events *)
Definition exists_target (t : target) (s : st) : bool :=
  match t with
  | TPid p => ahas pid_dec p (s_procs s)
  | TName n _ => ahas N.eq_dec n (s_names s)
  | TAlias _ a => ahas N.eq_dec a (s_aliases s)
  | TEvent e _ => ahas N.eq_dec e (s_events s)
  | TNode _ => true
  end.
Definition unknown_err (t : target) : N :=
  match t with
  | TPid _ | TName _ _ => e_process_unknown
  | TAlias _ _ => e_alias_unknown
  | TEvent _ _ => e_event_unknown
  | TNode _ => e_target_unknown
  end.

(* the process whose *process value sits behind a pid / name entry (state check of RouteMonitorPID/ProcessID) *)
Definition owner_of (t : target) (s : st) : option pid :=
  match t with
  | TPid p => if ahas pid_dec p (s_procs s) then Some p else None
  | TName n _ => aget N.eq_dec n (s_names s)
  | _ => None
  end.

(** ** Link / Monitor request as its atomic steps (local target), after the fix:

     if _, exist := n.<table>.Load(target); exist == false { return Err*Unknown }
     [monitor of pid/name only:  if p.State() == ProcessStateTerminated { return ErrProcessTerminated }]
     if err := n.targetManager.Add{Link,Monitor}(pid, target); err != nil { return err }
     if _, exist := n.<table>.Load(target); exist == false {            // target went away meanwhile
         if n.targetManager.Remove{Link,Monitor}(pid, target) == nil { return Err*Unknown }
         // the drain has taken the relation: the notification was sent
     }
     return nil                                                                             *)
Inductive lpc := L_load | L_add | L_recheck | L_remove | L_done (r : res).
Record lthread := mklt { l_key : key; l_pc : lpc }.

(* [dying]: the process whose state word already is Terminated (the one running unregisterProcess) *)
Definition lstep (dying : option pid) (l : lthread) (s : st) : lthread * st :=
  let k := l_key l in
  match l_pc l with
  | L_load =>
      if exists_target (kt k) s then
        if km k && (match owner_of (kt k) s, dying with
                    | Some o, Some d => if pid_dec o d then true else false
                    | _, _ => false end)
        then (mklt k (L_done (RErr e_process_terminated)), s)
        else (mklt k L_add, s)
      else (mklt k (L_done (RErr (unknown_err (kt k)))), s)
  | L_add =>
      let '(m', ok) := tm_add k (s_tm s) in
      if ok then (mklt k L_recheck, set_tm m' s) else (mklt k (L_done (RErr e_target_exist)), s)
  | L_recheck =>
      if exists_target (kt k) s then (mklt k (L_done ROk), s) else (mklt k L_remove, s)
  | L_remove =>
      let '(m', ok) := tm_remove k (s_tm s) in
      if ok then (mklt k (L_done (RErr (unknown_err (kt k)))), set_tm m' s)
      else (mklt k (L_done ROk), s)
  | L_done _ => (l, s)
  end.

Definition l_result (l : lthread) : res := match l_pc l with L_done r => r | _ => RErr 0 end.

(* a complete request = its four steps run to the end without interference *)
Definition route_add (k : key) (s : st) : st * res :=
  let '(l1, s1) := lstep None (mklt k L_load) s in
  let '(l2, s2) := lstep None l1 s1 in
  let '(l3, s3) := lstep None l2 s2 in
  let '(l4, s4) := lstep None l3 s3 in
  (s4, l_result l4).

(*  Route{Unlink,Demonitor}*:  existence load, then Remove{Link,Monitor} *)
Definition route_remove (k : key) (s : st) : st * res :=
  if exists_target (kt k) s then
    let '(m', ok) := tm_remove k (s_tm s) in
    if ok then (set_tm m' s, ROk) else (s, RErr e_target_unknown)
  else (s, RErr (unknown_err (kt k))).

(** ** Operations (each executed by a live, running actor [p] / [c]) *)
Inductive op :=
| OSpawnNode (name : option atom)                                  (* node.Spawn / SpawnRegister *)
| OSpawn (parent : pid) (name : option atom) (link_child link_parent : bool)   (* process.Spawn[Register] *)
| ORegisterName (p : pid) (n : atom)                               (* process.RegisterName *)
| OUnregisterName (p : pid) (n : atom)                             (* p calls node.UnregisterName(n) *)
| OCreateAlias (p : pid)
| ODeleteAlias (p : pid) (a : N)
| ORegisterEvent (p : pid) (e : atom)
| OUnregisterEvent (p : pid) (e : atom)
| OLink (c : pid) (t : target)
| OUnlink (c : pid) (t : target)
| OMonitor (c : pid) (t : target)
| ODemonitor (c : pid) (t : target)
| OTerminate (p : pid) (r : N)                                     (* kill / error return / normal return *)
| OCascade.                                                        (* next pending parent-exit takes effect *)

(*  node.spawn:
      if options.Register != "" { if _, exist := n.names.LoadOrStore(options.Register, p); exist { return ErrTaken } ... }
      pid.ID = atomic.AddUint64(&n.nextID, 1)      (64-bit counter)
      ... ProcessInit ...
      if options.LinkParent { n.targetManager.AddLink(p.pid, p.parent) }
      n.processes.Store(p.pid, p)
    process.Spawn: if options.LinkChild { p.node.targetManager.AddLink(p.pid, pid) }        *)
Definition two64 : N := 18446744073709551616.
Definition core_pid : pid := lpid 1.
Definition spawn (parent : pid) (name : option atom) (lc lp : bool) (s : st) : st * res :=
  match (match name with Some n => ahas N.eq_dec n (s_names s) | None => false end) with
  | true => (s, RErr e_taken)
  | false =>
      let id := (s_nextpid s + 1) mod two64 in
      let p := lpid id in
      let s1 := match name with Some n => set_names (aset N.eq_dec n p (s_names s)) s | None => s end in
      let s2 := set_nextpid id s1 in
      let s3 := if lp then set_tm (fst (tm_add (mkkey p (TPid parent) false) (s_tm s2))) s2 else s2 in
      let s4 := set_proc p (mkproc parent name [] []) s3 in
      let s5 := if lc then set_tm (fst (tm_add (mkkey parent (TPid p) false) (s_tm s4))) s4 else s4 in
      (s5, RPid p)
  end.

(*  node.RegisterName(name, pid):  (process alive)
      if p.registered.CompareAndSwap(false, true) == false { return ErrTaken }
      if _, exist := n.names.LoadOrStore(name, p); exist { p.registered.Store(false); return ErrTaken }
      p.name = name                                                                         *)
Definition register_name (p : pid) (pr : proc) (n : atom) (s : st) : st * res :=
  match pr_name pr with
  | Some _ => (s, RErr e_taken)
  | None =>
      if ahas N.eq_dec n (s_names s) then (s, RErr e_taken)
      else (set_proc p (mkproc (pr_parent pr) (Some n) (pr_aliases pr) (pr_events pr))
              (set_names (aset N.eq_dec n p (s_names s)) s), ROk)
  end.

(*  node.UnregisterName(name):
      value, exist := n.names.LoadAndDelete(name); if !exist { return ErrNameUnknown }
      p.name = ""; p.registered.Store(false)
      n.RouteTerminateProcessID(pname, gen.ErrUnregistered)                                 *)
Definition unregister_name (n : atom) (s : st) : st * res :=
  match aget N.eq_dec n (s_names s) with
  | None => (s, RErr e_name_unknown)
  | Some q =>
      let s1 := set_names (adel N.eq_dec n (s_names s)) s in
      let s2 := match aget pid_dec q (s_procs s1) with
                | Some pr => set_proc q (mkproc (pr_parent pr) None (pr_aliases pr) (pr_events pr)) s1
                | None => s1 end in
      (drain (TName n me) r_unreg s2, ROk)
  end.

(*  process.CreateAlias: alias := gen.Alias(p.node.MakeRef()); registerAlias (LoadOrStore); p.aliases = append(p.aliases, alias) *)
Definition create_alias (p : pid) (pr : proc) (s : st) : st * res :=
  let a := s_uniq s + 1 in
  if ahas N.eq_dec a (s_aliases s) then (set_uniq a s, RErr e_taken)
  else (set_proc p (mkproc (pr_parent pr) (pr_name pr) (pr_aliases pr ++ [a]) (pr_events pr))
          (set_aliases (aset N.eq_dec a p (s_aliases s)) (set_uniq a s)), RAlias a).

(*  process.DeleteAlias (list update, after the fix):
      for i, a := range p.aliases { if a != alias { continue }
          p.aliases[i] = p.aliases[0]; p.aliases = p.aliases[1:]; break }                  *)
Fixpoint replace_first (x y : N) (l : list N) : list N :=      (* first occurrence of x := y *)
  match l with
  | [] => []
  | h :: tl => if N.eq_dec h x then y :: tl else h :: replace_first x y tl
  end.
Definition alias_list_delete (a : N) (l : list N) : list N :=
  match l with
  | [] => []
  | h :: _ => if memb N.eq_dec a l then tl (replace_first a h l) else l
  end.

(*  unregisterAlias: value, found := n.aliases.Load(alias); !found -> ErrAliasUnknown;
      owner != p -> ErrAliasOwner; n.aliases.Delete(alias)
    then p.node.RouteTerminateAlias(alias, gen.ErrUnregistered), then the list update        *)
Definition delete_alias (p : pid) (pr : proc) (a : N) (s : st) : st * res :=
  match aget N.eq_dec a (s_aliases s) with
  | None => (s, RErr e_alias_unknown)
  | Some q =>
      if pid_dec q p then
        let s1 := set_aliases (adel N.eq_dec a (s_aliases s)) s in
        let s2 := drain (TAlias me a) r_unreg s1 in
        (set_proc p (mkproc (pr_parent pr) (pr_name pr) (alias_list_delete a (pr_aliases pr)) (pr_events pr)) s2, ROk)
      else (s, RErr e_alias_owner)
  end.

(*  registerEvent: if _, exist := n.events.LoadOrStore(ev, event); exist { return ErrTaken } ; p.events.Store(name, true) *)
Definition register_event (p : pid) (pr : proc) (e : atom) (s : st) : st * res :=
  if ahas N.eq_dec e (s_events s) then (s, RErr e_taken)
  else (set_proc p (mkproc (pr_parent pr) (pr_name pr) (pr_aliases pr) (pr_events pr ++ [e]))
          (set_events (aset N.eq_dec e p (s_events s)) s), ROk).

(*  unregisterEvent: Load; !exist -> ErrEventUnknown; producer != pid -> ErrEventOwner;
      n.events.Delete(ev); n.RouteTerminateEvent(ev, gen.ErrUnregistered) ; p.events.Delete(name) *)
Definition unregister_event (p : pid) (pr : proc) (e : atom) (s : st) : st * res :=
  match aget N.eq_dec e (s_events s) with
  | None => (s, RErr e_event_unknown)
  | Some q =>
      if pid_dec q p then
        let s1 := set_events (adel N.eq_dec e (s_events s)) s in
        let s2 := drain (TEvent e me) r_unreg s1 in
        (set_proc p (mkproc (pr_parent pr) (pr_name pr) (pr_aliases pr) (remove N.eq_dec e (pr_events pr))) s2, ROk)
      else (s, RErr e_event_owner)
  end.

(*  process.Link{PID,ProcessID,Alias}: self target -> ErrNotAllowed (links only) *)
Definition self_target (c : pid) (pr : proc) (t : target) : bool :=
  match t with
  | TPid q => if pid_dec q c then true else false
  | TName n nd => match pr_name pr with Some n' => (n =? n') && (nd =? me) | None => false end
  | TAlias _ a => memb N.eq_dec a (pr_aliases pr)
  | _ => false
  end.

Definition exec (o : op) (s : st) : st * res :=
  let with_proc p (f : proc -> st * res) :=
    match aget pid_dec p (s_procs s) with Some pr => f pr | None => (s, RErr e_dead) end in
  match o with
  | OSpawnNode name => spawn core_pid name false false s
  | OSpawn parent name lc lp => with_proc parent (fun _ => spawn parent name lc lp s)
  | ORegisterName p n => with_proc p (fun pr => register_name p pr n s)
  | OUnregisterName p n => with_proc p (fun _ => unregister_name n s)
  | OCreateAlias p => with_proc p (fun pr => create_alias p pr s)
  | ODeleteAlias p a => with_proc p (fun pr => delete_alias p pr a s)
  | ORegisterEvent p e => with_proc p (fun pr => register_event p pr e s)
  | OUnregisterEvent p e => with_proc p (fun pr => unregister_event p pr e s)
  | OLink c t => with_proc c (fun pr =>
      if self_target c pr t then (s, RErr e_not_allowed)
      else if tm_has (mkkey c t false) (s_tm s) then (s, RErr e_target_exist)
      else route_add (mkkey c t false) s)
  | OUnlink c t => with_proc c (fun _ =>
      if tm_has (mkkey c t false) (s_tm s) then route_remove (mkkey c t false) s
      else (s, RErr e_target_unknown))
  | OMonitor c t => with_proc c (fun _ =>
      if tm_has (mkkey c t true) (s_tm s) then (s, RErr e_target_exist)
      else route_add (mkkey c t true) s)
  | ODemonitor c t => with_proc c (fun _ =>
      if tm_has (mkkey c t true) (s_tm s) then route_remove (mkkey c t true) s
      else (s, RErr e_target_unknown))
  | OTerminate p r => with_proc p (fun _ => (terminate p r s, ROk))
  | OCascade =>
      match s_pending s with
      | [] => (s, ROk)
      | (c, r) :: tl => (terminate c r (set_pending tl s), ROk)
      end
  end.

Fixpoint run_ops (ops : list op) (s : st) : st * list res :=
  match ops with
  | [] => (s, [])
  | o :: tl => let '(s1, r) := exec o s in let '(s2, rs) := run_ops tl s1 in (s2, r :: rs)
  end.

(** ** The pre-fix DeleteAlias (before commit 234e1d4), kept to state what the defect broke:
       for i, a := range p.aliases { if a != alias { continue }
           p.aliases[0] = p.aliases[i]; p.aliases = p.aliases[1:]; break }
     i.e. the found element overwrites the first one, which is then dropped: the list loses its
     FIRST element, whatever alias was deleted. *)
Definition alias_list_delete_old (a : N) (l : list N) : list N :=
  if memb N.eq_dec a l then tl l else l.
Definition delete_alias_old (p : pid) (pr : proc) (a : N) (s : st) : st * res :=
  match aget N.eq_dec a (s_aliases s) with
  | None => (s, RErr e_alias_unknown)
  | Some q =>
      if pid_dec q p then
        let s1 := set_aliases (adel N.eq_dec a (s_aliases s)) s in
        let s2 := drain (TAlias me a) r_unreg s1 in
        (set_proc p (mkproc (pr_parent pr) (pr_name pr) (alias_list_delete_old a (pr_aliases pr)) (pr_events pr)) s2, ROk)
      else (s, RErr e_alias_owner)
  end.
Definition exec_old (o : op) (s : st) : st * res :=
  match o with
  | ODeleteAlias p a =>
      match aget pid_dec p (s_procs s) with Some pr => delete_alias_old p pr a s | None => (s, RErr e_dead) end
  | _ => exec o s
  end.
Fixpoint run_ops_old (ops : list op) (s : st) : st * list res :=
  match ops with
  | [] => (s, [])
  | o :: tl => let '(s1, r) := exec_old o s in let '(s2, rs) := run_ops_old tl s1 in (s2, r :: rs)
  end.

(** ** The specification of notifications (what C04 promises), stated from the tables only *)

Definition tr_dec : forall a b : target * N, {a = b} + {a <> b}.
Proof. decide equality; [apply N.eq_dec | apply target_dec]. Defined.

Definition owned {K} (p : pid) (tbl : list (K * pid)) : list K :=
  map fst (filter (fun x => if pid_dec (snd x) p then true else false) tbl).

(* everything that goes away when process p terminates with reason r: its pid, the names,
   aliases and events the TABLES attribute to it *)
Definition gone_terminate (p : pid) (r : N) (s : st) : list (target * N) :=
  if live p s then
    (TPid p, r) :: map (fun n => (TName n me, r)) (owned p (s_names s))
      ++ map (fun a => (TAlias me a, r)) (owned p (s_aliases s))
      ++ map (fun e => (TEvent e me, r)) (owned p (s_events s))
  else [].

(* targets that disappear by one operation, with the reason carried by the notification *)
Definition gone (o : op) (s : st) : list (target * N) :=
  match o with
  | OTerminate p r => gone_terminate p r s
  | OCascade => match s_pending s with (c, r) :: _ => gone_terminate c r s | [] => [] end
  | OUnregisterName p n => if live p s && ahas N.eq_dec n (s_names s) then [(TName n me, r_unreg)] else []
  | ODeleteAlias p a =>
      if live p s && (match aget N.eq_dec a (s_aliases s) with Some q => if pid_dec q p then true else false | None => false end)
      then [(TAlias me a, r_unreg)] else []
  | OUnregisterEvent p e =>
      if live p s && (match aget N.eq_dec e (s_events s) with Some q => if pid_dec q p then true else false | None => false end)
      then [(TEvent e me, r_unreg)] else []
  | _ => []
  end.

(* the process that terminates in this operation (it receives nothing any more) *)
Definition victim (o : op) (s : st) : option pid :=
  match o with
  | OTerminate p _ => Some p
  | OCascade => match s_pending s with (c, _) :: _ => Some c | [] => None end
  | _ => None
  end.
Definition is_victim (c : pid) (o : op) (s : st) : bool :=
  match victim o s with Some v => if pid_dec v c then true else false | None => false end.

(* number of copies of note x that operation o must deliver to process c:
   one iff the target named by x goes away with that reason and c holds that relation *)
Definition expected (o : op) (s : st) (c : pid) (x : note) : nat :=
  if memb tr_dec (n_target x, n_reason x) (gone o s)
     && mem_key (mkkey c (n_target x) (n_down x)) (rels (s_tm s))
     && live c s && negb (is_victim c o s)
  then 1%nat else 0%nat.

Fixpoint expected_total (ops : list op) (s : st) (c : pid) (x : note) : nat :=
  match ops with
  | [] => 0%nat
  | o :: tl => (expected o s c x + expected_total tl (fst (exec o s)) c x)%nat
  end.

(* ------------------------------------------------------------------------------------ *)
(** * 4. The race: one link/monitor request against the termination of the target's owner *)

Record cfg := mkcfg { c_st : st; c_link : lthread; c_term : list tstep; c_dying : option pid }.

(* schedule: true = the requester's next step, false = the terminating process's next step;
   a choice naming a finished thread is a no-op *)
Definition step (b : bool) (c : cfg) : cfg :=
  if b then
    let '(l', s') := lstep (c_dying c) (c_link c) (c_st c) in mkcfg s' l' (c_term c) (c_dying c)
  else
    match c_term c with
    | [] => c
    | x :: tl => mkcfg (tstep_exec x (c_st c)) (c_link c) tl (c_dying c)
    end.
Definition run (sched : list bool) (c : cfg) : cfg := fold_left (fun c b => step b c) sched c.

Definition race_cfg (s : st) (k : key) (p : pid) (r : N) : cfg :=
  mkcfg s (mklt k L_load) (term_prog s p r) (Some p).
Definition finished (c : cfg) : bool :=
  match l_pc (c_link c), c_term c with L_done _, [] => true | _, _ => false end.

(* racing registrants of one name: each registrant's decisive step is the atomic
   n.names.LoadOrStore(name, p); [sched] is the order in which those steps take effect *)
Definition load_or_store (n : atom) (p : pid) (names : list (atom * pid)) : list (atom * pid) * bool :=
  if ahas N.eq_dec n names then (names, false) else (aset N.eq_dec n p names, true).
Fixpoint race_register (n : atom) (sched : list pid) (names : list (atom * pid)) : list (atom * pid) * list bool :=
  match sched with
  | [] => (names, [])
  | p :: tl => let '(m1, ok) := load_or_store n p names in
               let '(m2, oks) := race_register n tl m1 in (m2, ok :: oks)
  end.
