(* Rel engine — the concrete target manager refines the relation set (C04_tm_refines_set, C14_cleanup_node). *)
From Coq Require Import Permutation.
From Ergo Require Import Common.Base Rel.Amap Rel.Model.
Local Open Scope N_scope.

(* ---------- generic list facts ---------- *)
Lemma perm_filter {A} (f : A -> bool) a b : Permutation a b -> Permutation (filter f a) (filter f b).
Proof.
  induction 1 as [|x a b H IH|x y a|a b c H1 IH1 H2 IH2]; cbn [filter].
  - constructor.
  - destruct (f x); [constructor|]; exact IH.
  - destruct (f x), (f y); try apply Permutation_refl. apply perm_swap.
  - eapply Permutation_trans; eauto.
Qed.

Lemma perm_remove a b k : Permutation a b -> Permutation (remove key_dec k a) (remove key_dec k b).
Proof.
  induction 1 as [|x a b H IH|x y a|a b c H1 IH1 H2 IH2]; cbn [remove].
  - constructor.
  - destruct (key_dec k x); [|constructor]; exact IH.
  - destruct (key_dec k x), (key_dec k y); try apply Permutation_refl. apply perm_swap.
  - eapply Permutation_trans; eauto.
Qed.

Lemma perm_memb a b k : Permutation a b -> mem_key k a = mem_key k b.
Proof.
  intros H. unfold mem_key. destruct (memb key_dec k a) eqn:E.
  - symmetry. apply memb_In. apply memb_In in E. eapply Permutation_in; eauto.
  - symmetry. apply memb_false. apply memb_false in E. intros HI. apply E.
    eapply Permutation_in; [apply Permutation_sym; exact H | exact HI].
Qed.

Lemma In_fold_remove ks : forall r k', In k' (fold_left (fun r k => remove key_dec k r) ks r) <-> In k' r /\ ~ In k' ks.
Proof.
  induction ks as [|k ks IH]; intros r k'; cbn [fold_left].
  - cbn. tauto.
  - rewrite IH, In_remove. cbn [In]. split.
    + intros [[H1 H2] H3]. split; [exact H1|]. intros [E|E]; [congruence | contradiction].
    + intros [H1 H2]. split; [split; [exact H1|]|]; intros E; apply H2; [left; congruence | right; exact E].
Qed.

Lemma NoDup_fold_remove ks : forall r, NoDup r -> NoDup (fold_left (fun r k => remove key_dec k r) ks r).
Proof. induction ks as [|k ks IH]; intros r H; cbn [fold_left]; [exact H|]. apply IH, NoDup_remove_keep, H. Qed.

(* ---------- the index ---------- *)
Lemma idx_keys_add_eq k idx : idx_keys (kt k) (idx_add k idx) = set_add k (idx_keys (kt k) idx).
Proof. unfold idx_add, idx_keys at 1. rewrite aget_aset_eq. reflexivity. Qed.

Lemma idx_keys_add_neq k t idx : t <> kt k -> idx_keys t (idx_add k idx) = idx_keys t idx.
Proof. intros NE. unfold idx_add, idx_keys at 1. rewrite aget_aset_neq by exact NE. reflexivity. Qed.

Lemma idx_keys_remove_eq k idx : idx_keys (kt k) (idx_remove k idx) = remove key_dec k (idx_keys (kt k) idx).
Proof.
  unfold idx_remove, idx_keys. destruct (aget target_dec (kt k) idx) as [ks|] eqn:E.
  - destruct (remove key_dec k ks) as [|x r] eqn:R.
    + rewrite aget_adel_eq. reflexivity.
    + rewrite aget_aset_eq. reflexivity.
  - rewrite E. reflexivity.
Qed.

Lemma idx_keys_remove_neq k t idx : t <> kt k -> idx_keys t (idx_remove k idx) = idx_keys t idx.
Proof.
  intros NE. unfold idx_remove, idx_keys. destruct (aget target_dec (kt k) idx) as [ks|] eqn:E; [|reflexivity].
  destruct (remove key_dec k ks) as [|x r].
  - rewrite aget_adel_neq by exact NE. reflexivity.
  - rewrite aget_aset_neq by exact NE. reflexivity.
Qed.

(** The invariant: [targetIndex] is exactly the index of [relations]
    (no ghost: every indexed key is a relation of that target; no leak: every relation is indexed),
    both are duplicate free, and no empty bucket is kept. *)
Definition idx_ok (m : tm) : Prop :=
  NoDup (rels m) /\
  (forall t k, In k (idx_keys t (tidx m)) <-> (In k (rels m) /\ kt k = t)) /\
  (forall t, NoDup (idx_keys t (tidx m))) /\
  (forall t, aget target_dec t (tidx m) <> Some []).

Lemma idx_ok_empty : idx_ok tm_empty.
Proof.
  unfold idx_ok, tm_empty, idx_keys; cbn. repeat split; try constructor; try tauto; try discriminate.
Qed.

Lemma set_add_In k k' ks : In k' (set_add k ks) <-> k' = k \/ In k' ks.
Proof.
  unfold set_add, mem_key. destruct (memb key_dec k ks) eqn:E.
  - apply memb_In in E. split; [auto|]. intros [->|H]; auto.
  - cbn [In]. split; intros [H|H]; auto.
Qed.

Lemma set_add_NoDup k ks : NoDup ks -> NoDup (set_add k ks).
Proof.
  intros H. unfold set_add, mem_key. destruct (memb key_dec k ks) eqn:E; [exact H|].
  apply memb_false in E. constructor; auto.
Qed.

Lemma idx_ok_add k m : idx_ok m -> ~ In k (rels m) -> idx_ok (mktm (k :: rels m) (idx_add k (tidx m))).
Proof.
  intros (ND & IX & NDI & NE) NI. unfold idx_ok; cbn [rels tidx]. split; [|split; [|split]].
  - constructor; auto.
  - intros t k'. destruct (target_dec t (kt k)) as [->|D].
    + rewrite idx_keys_add_eq, set_add_In, IX. cbn [In]. split.
      * intros [->|[H1 H2]]; auto.
      * intros [[E|H1] H2]; auto.
    + rewrite idx_keys_add_neq, IX by exact D. cbn [In]. split.
      * tauto.
      * intros [[E|H1] H2]; [subst; congruence | auto].
  - intros t. destruct (target_dec t (kt k)) as [->|D].
    + rewrite idx_keys_add_eq. apply set_add_NoDup, NDI.
    + rewrite idx_keys_add_neq by exact D. apply NDI.
  - intros t. unfold idx_add. destruct (target_dec t (kt k)) as [->|D].
    + rewrite aget_aset_eq. intros H. inversion H as [H1].
      assert (HI : In k (set_add k (idx_keys (kt k) (tidx m)))) by (apply set_add_In; auto).
      rewrite H1 in HI. exact HI.
    + rewrite aget_aset_neq by exact D. apply NE.
Qed.

Lemma idx_ok_del k m : idx_ok m -> idx_ok (tm_del k m).
Proof.
  intros (ND & IX & NDI & NE). unfold idx_ok, tm_del; cbn [rels tidx]. split; [|split; [|split]].
  - apply NoDup_remove_keep, ND.
  - intros t k'. destruct (target_dec t (kt k)) as [->|D].
    + rewrite idx_keys_remove_eq, !In_remove, IX. tauto.
    + rewrite idx_keys_remove_neq, In_remove, IX by exact D. split; [|tauto].
      intros [H1 H2]. split; [split; [exact H1|]|exact H2]. intros ->. congruence.
  - intros t. destruct (target_dec t (kt k)) as [->|D].
    + rewrite idx_keys_remove_eq. apply NoDup_remove_keep, NDI.
    + rewrite idx_keys_remove_neq by exact D. apply NDI.
  - intros t. unfold idx_remove. destruct (aget target_dec (kt k) (tidx m)) as [ks|] eqn:E; [|apply NE].
    destruct (remove key_dec k ks) as [|x r] eqn:R.
    + destruct (target_dec t (kt k)) as [->|D].
      * rewrite aget_adel_eq. discriminate.
      * rewrite aget_adel_neq by exact D. apply NE.
    + destruct (target_dec t (kt k)) as [->|D].
      * rewrite aget_aset_eq. discriminate.
      * rewrite aget_aset_neq by exact D. apply NE.
Qed.

Lemma rels_del k m k' : In k' (rels (tm_del k m)) <-> In k' (rels m) /\ k' <> k.
Proof. unfold tm_del; cbn [rels]. apply In_remove. Qed.

Lemma idx_ok_del_list ks : forall m, idx_ok m -> idx_ok (tm_del_list ks m).
Proof. induction ks as [|k ks IH]; intros m H; cbn [tm_del_list fold_left]; [exact H|]. apply IH, idx_ok_del, H. Qed.

Lemma rels_del_list ks : forall m k', In k' (rels (tm_del_list ks m)) <-> In k' (rels m) /\ ~ In k' ks.
Proof.
  induction ks as [|k ks IH]; intros m k'; cbn [tm_del_list fold_left].
  - cbn. tauto.
  - fold (tm_del_list ks (tm_del k m)). rewrite IH, rels_del. cbn [In]. split.
    + intros [[H1 H2] H3]. split; [exact H1|]. intros [E|E]; [congruence | contradiction].
    + intros [H1 H2]. split; [split; [exact H1|]|]; intros E; apply H2; [left; congruence | right; exact E].
Qed.

Lemma idx_ok_cleanup_target t m :
  idx_ok m -> idx_ok (fst (fst (tm_cleanup_target t m))).
Proof.
  intros OK. pose proof OK as (ND & IX & NDI & NE). unfold tm_cleanup_target.
  destruct (aget target_dec t (tidx m)) as [ks|] eqn:E; cbn [fst]; [|exact OK].
  assert (KS : idx_keys t (tidx m) = ks) by (unfold idx_keys; rewrite E; reflexivity).
  unfold idx_ok; cbn [rels tidx]. split; [|split; [|split]].
  - apply NoDup_fold_remove, ND.
  - intros t0 k. split.
    + intros H. destruct (target_dec t0 t) as [->|D].
      * unfold idx_keys in H. rewrite aget_adel_eq in H. destruct H.
      * unfold idx_keys in H. rewrite aget_adel_neq in H by exact D. fold (idx_keys t0 (tidx m)) in H.
        apply IX in H. split; [|tauto]. apply In_fold_remove. split; [tauto|]. rewrite <- KS, IX. intros [_ E2].
        destruct H as [_ H]. congruence.
    + intros [H1 H2]. apply In_fold_remove in H1. destruct H1 as [H1 H3].
      destruct (target_dec t0 t) as [->|D].
      * exfalso. apply H3. rewrite <- KS. apply IX. auto.
      * unfold idx_keys. rewrite aget_adel_neq by exact D. fold (idx_keys t0 (tidx m)). apply IX. auto.
  - intros t0. destruct (target_dec t0 t) as [->|D].
    + unfold idx_keys. rewrite aget_adel_eq. constructor.
    + unfold idx_keys. rewrite aget_adel_neq by exact D. apply NDI.
  - intros t0. destruct (target_dec t0 t) as [->|D].
    + rewrite aget_adel_eq. discriminate.
    + rewrite aget_adel_neq by exact D. apply NE.
Qed.

Lemma is_target_true t k : is_target t k = true <-> kt k = t.
Proof. unfold is_target. destruct (target_dec (kt k) t); split; intros; auto; discriminate. Qed.
Lemma is_consumer_true c k : is_consumer c k = true <-> kc k = c.
Proof. unfold is_consumer. destruct (pid_dec (kc k) c); split; intros; auto; discriminate. Qed.

(* the bucket of t is a permutation of the relations of target t *)
Lemma bucket_perm t m : idx_ok m -> Permutation (idx_keys t (tidx m)) (filter (is_target t) (rels m)).
Proof.
  intros (ND & IX & NDI & NE). apply NoDup_Permutation; [apply NDI | apply NoDup_filter, ND |].
  intros k. rewrite IX, filter_In, is_target_true. tauto.
Qed.

Lemma rels_cleanup_target t m k' :
  idx_ok m -> (In k' (rels (fst (fst (tm_cleanup_target t m)))) <-> In k' (rels m) /\ kt k' <> t).
Proof.
  intros (ND & IX & NDI & NE). unfold tm_cleanup_target.
  destruct (aget target_dec t (tidx m)) as [ks|] eqn:E; cbn [fst rels].
  - assert (KS : idx_keys t (tidx m) = ks) by (unfold idx_keys; rewrite E; reflexivity).
    rewrite In_fold_remove, <- KS, IX. tauto.
  - assert (KS : idx_keys t (tidx m) = []) by (unfold idx_keys; rewrite E; reflexivity).
    split; [|tauto]. intros H. split; [exact H|]. intros E2.
    assert (HI : In k' (idx_keys t (tidx m))) by (apply IX; auto). rewrite KS in HI. exact HI.
Qed.

(* ---------- result equivalence (Go map order is unspecified) ---------- *)
Definition tmres_equiv (a b : tmres) : Prop :=
  match a, b with
  | XBool x, XBool y => x = y
  | XTargets l m, XTargets l' m' => Permutation l l' /\ Permutation m m'
  | XPids l m, XPids l' m' => Permutation l l' /\ Permutation m m'
  | XPairs l m, XPairs l' m' => Permutation l l' /\ Permutation m m'
  | XPidList l, XPidList l' => Permutation l l'
  | _, _ => False
  end.

Lemma tmres_equiv_trans a b c : tmres_equiv a b -> tmres_equiv b c -> tmres_equiv a c.
Proof.
  destruct a, b, c; cbn; try tauto; try congruence;
    try (intros [H1 H2] [H3 H4]; split; eapply Permutation_trans; eauto).
  intros H1 H2; eapply Permutation_trans; eauto.
Qed.

Lemma NoDup_spec_filter (f : key -> bool) S : NoDup S -> NoDup (filter f S).
Proof. apply NoDup_filter. Qed.

(* the specification does not depend on the order in which the set is listed *)
Lemma set_exec_perm o S1 S2 :
  Permutation S1 S2 ->
  Permutation (fst (set_exec o S1)) (fst (set_exec o S2)) /\ tmres_equiv (snd (set_exec o S1)) (snd (set_exec o S2)).
Proof.
  intros P. destruct o; cbn [set_exec].
  - unfold spec_add. rewrite (perm_memb _ _ k P). destruct (mem_key k S2); cbn; auto.
  - unfold spec_remove. rewrite (perm_memb _ _ k P). destruct (mem_key k S2); cbn; auto using perm_remove.
  - cbn. rewrite (perm_memb _ _ k P). auto.
  - unfold spec_cleanup_consumer, links_of, monitors_of. cbn. repeat split;
      repeat first [apply Permutation_map | apply perm_filter]; exact P.
  - unfold spec_cleanup_target, links_of, monitors_of. cbn. repeat split;
      repeat first [apply Permutation_map | apply perm_filter]; exact P.
  - unfold spec_cleanup_node, links_of, monitors_of. cbn. repeat split;
      repeat first [apply Permutation_map | apply perm_filter]; exact P.
  - unfold spec_cleanup_consumer, links_of, monitors_of. cbn. repeat split; auto;
      repeat first [apply Permutation_map | apply perm_filter]; exact P.
  - unfold spec_cleanup_target, links_of, monitors_of. cbn. split; [exact P|].
    apply Permutation_app; repeat first [apply Permutation_map | apply perm_filter]; exact P.
Qed.

Lemma set_exec_NoDup o S : NoDup S -> NoDup (fst (set_exec o S)).
Proof.
  intros ND. destruct o; cbn [set_exec].
  1: { unfold spec_add, mem_key. destruct (memb key_dec k S) eqn:E; cbn; [exact ND|].
       apply memb_false in E. constructor; auto. }
  1: { unfold spec_remove. destruct (mem_key k S); cbn; [apply NoDup_remove_keep|]; exact ND. }
  all: cbn; try exact ND; apply NoDup_filter, ND.
Qed.

Lemma filter_filter_and {A} (f g : A -> bool) l : filter f (filter g l) = filter (fun x => g x && f x) l.
Proof.
  induction l as [|x l IH]; cbn [filter]; [reflexivity|].
  destruct (g x); cbn [filter andb]; [destruct (f x)|]; rewrite IH; reflexivity.
Qed.

(** One method call: the invariant is kept, the relations are those of the set operation,
    the answer is the set operation's answer. *)
Lemma tm_exec_refines o m :
  idx_ok m ->
  idx_ok (fst (tm_exec o m)) /\
  Permutation (rels (fst (tm_exec o m))) (fst (set_exec o (rels m))) /\
  tmres_equiv (snd (tm_exec o m)) (snd (set_exec o (rels m))).
Proof.
  intros OK. pose proof OK as (ND & IX & NDI & NE). destruct o; cbn [tm_exec set_exec].
  - (* Add *) unfold tm_add, spec_add. destruct (mem_key k (rels m)) eqn:E; cbn [fst snd rels].
    + split; [exact OK | split; [apply Permutation_refl | reflexivity]].
    + apply memb_false in E. split; [apply idx_ok_add; auto|]. cbn. auto.
  - (* Remove *) unfold tm_remove, spec_remove. destruct (mem_key k (rels m)) eqn:E; cbn [fst snd].
    + split; [apply idx_ok_del, OK|]. unfold tm_del; cbn. auto.
    + split; [exact OK | split; [apply Permutation_refl | reflexivity]].
  - (* Has *) cbn. split; [exact OK | split; [apply Permutation_refl | reflexivity]].
  - (* CleanupConsumer *) unfold tm_cleanup_consumer, spec_cleanup_consumer. cbn [fst snd].
    split; [apply idx_ok_del_list, OK|]. split; [|cbn; auto].
    apply NoDup_Permutation.
    + apply (idx_ok_del_list _ m OK).
    + apply NoDup_filter, ND.
    + intros k. rewrite rels_del_list, !filter_In, negb_true_iff.
      destruct (is_consumer c k); split; intros H; try tauto; destruct H as [H1 H2]; try discriminate.
      split; auto. intros [_ H3]. discriminate.
  - (* CleanupTarget *)
    split; [|split].
    + destruct (tm_cleanup_target t m) as [[m' l] mo] eqn:E. cbn [fst].
      change m' with (fst (fst (m', l, mo))). rewrite <- E. apply idx_ok_cleanup_target, OK.
    + destruct (tm_cleanup_target t m) as [[m' l] mo] eqn:E.
      destruct (spec_cleanup_target t (rels m)) as [[S' l'] mo'] eqn:E2. cbn [fst].
      unfold spec_cleanup_target in E2. inversion E2; subst S' l' mo'. clear E2.
      apply NoDup_Permutation.
      * pose proof (idx_ok_cleanup_target t m OK) as H. rewrite E in H. apply H.
      * apply NoDup_filter, ND.
      * intros k. pose proof (rels_cleanup_target t m k OK) as H. rewrite E in H. cbn [fst] in H.
        rewrite H, filter_In, negb_true_iff.
        destruct (is_target t k) eqn:E3.
        -- apply is_target_true in E3. split; intros [H1 H2]; [congruence | discriminate].
        -- split; intros [H1 H2]; split; auto. intros E4. apply is_target_true in E4. congruence.
    + pose proof (bucket_perm t m OK) as BP. unfold tm_cleanup_target, spec_cleanup_target, idx_keys in *.
      destruct (aget target_dec t (tidx m)) as [ks|] eqn:E; cbn [fst snd tmres_equiv].
      * unfold links_of, monitors_of. split; repeat first [apply Permutation_map | apply perm_filter]; exact BP.
      * apply Permutation_nil in BP. rewrite BP. cbn. auto.
  - (* CleanupNode *) unfold tm_cleanup_node, spec_cleanup_node. cbn [fst snd].
    split; [apply idx_ok_del_list, OK|]. split; [|cbn; auto].
    apply NoDup_Permutation.
    + apply (idx_ok_del_list _ m OK).
    + apply NoDup_filter, ND.
    + intros k. rewrite rels_del_list, !filter_In, negb_true_iff.
      destruct (node_hit n k); split; intros H; try tauto; destruct H as [H1 H2]; try discriminate.
      split; auto. intros [_ H3]. discriminate.
  - (* GetTargetsForConsumer *) unfold tm_targets_for_consumer, spec_cleanup_consumer. cbn. split; [exact OK | split; [apply Permutation_refl | split; apply Permutation_refl]].
  - (* GetConsumersForTarget *) unfold tm_consumers_for_target, spec_cleanup_target. cbn [fst snd].
    split; [exact OK | split; [apply Permutation_refl |]]. cbn [tmres_equiv]. rewrite <- map_app.
    apply Permutation_trans with (map kc (filter (is_target t) (rels m))).
    + apply Permutation_map, bucket_perm, OK.
    + apply Permutation_map. unfold links_of, monitors_of.
      generalize (filter (is_target t) (rels m)). intros l. induction l as [|x l IH]; cbn [filter]; [constructor|].
      destruct (km x); cbn [negb app].
      * apply Permutation_cons_app. exact IH.
      * constructor. exact IH.
Qed.

(** ** C04_tm_refines_set: over ALL sequences of method calls, from the empty manager *)
Fixpoint results_equiv (a b : list tmres) : Prop :=
  match a, b with
  | [], [] => True
  | x :: a', y :: b' => tmres_equiv x y /\ results_equiv a' b'
  | _, _ => False
  end.

Lemma tm_refines_from ops : forall m S,
  idx_ok m -> NoDup S -> Permutation (rels m) S ->
  idx_ok (fst (tm_run ops m)) /\
  Permutation (rels (fst (tm_run ops m))) (fst (set_run ops S)) /\
  results_equiv (snd (tm_run ops m)) (snd (set_run ops S)).
Proof.
  induction ops as [|o ops IH]; intros m S OK ND P; cbn [tm_run set_run].
  - cbn. auto.
  - pose proof (tm_exec_refines o m OK) as (OK1 & P1 & R1).
    pose proof (set_exec_perm o _ _ P) as (P2 & R2).
    pose proof (set_exec_NoDup o S ND) as ND2.
    destruct (tm_exec o m) as [m1 r1]. destruct (set_exec o S) as [S1 r1'] eqn:ES. cbn [fst snd] in *.
    assert (P3 : Permutation (rels m1) S1) by (eapply Permutation_trans; eauto).
    specialize (IH m1 S1 OK1 ND2 P3).
    destruct (tm_run ops m1) as [m2 rs]. destruct (set_run ops S1) as [S2 rs']. cbn [fst snd] in *.
    destruct IH as (I1 & I2 & I3). split; [exact I1 | split; [exact I2 |]].
    cbn [results_equiv]. split; [eapply tmres_equiv_trans; eauto | exact I3].
Qed.

Theorem tm_refines_set : forall ops,
  idx_ok (fst (tm_run ops tm_empty)) /\
  Permutation (rels (fst (tm_run ops tm_empty))) (fst (set_run ops [])) /\
  results_equiv (snd (tm_run ops tm_empty)) (snd (set_run ops [])).
Proof. intros ops. apply tm_refines_from; [apply idx_ok_empty | constructor | constructor]. Qed.

(* reachability: the invariant holds in every state a sequence of calls can produce *)
Definition tm_reachable (m : tm) : Prop := exists ops, fst (tm_run ops tm_empty) = m.
Corollary reachable_idx_ok m : tm_reachable m -> idx_ok m.
Proof. intros [ops <-]. apply tm_refines_set. Qed.

(** ** CleanupNode (reused by C14) stated as set comprehension *)
Theorem cleanup_node_spec : forall n m m' l mo,
  idx_ok m -> tm_cleanup_node n m = (m', l, mo) ->
  idx_ok m' /\
  (* removed: relations whose target lives on n and relations whose consumer lives on n; nothing else *)
  (forall k, In k (rels m') <-> In k (rels m) /\ pnode (kc k) <> n /\ target_node (kt k) <> n) /\
  (* reported: exactly the relations with a target on n held by a consumer elsewhere, once each *)
  (forall t c, In (t, c) l <-> In (mkkey c t false) (rels m) /\ target_node t = n /\ pnode c <> n) /\
  (forall t c, In (t, c) mo <-> In (mkkey c t true) (rels m) /\ target_node t = n /\ pnode c <> n) /\
  NoDup l /\ NoDup mo.
Proof.
  intros n m m' l mo OK E. pose proof OK as (ND & _). unfold tm_cleanup_node in E. inversion E; subst m' l mo; clear E.
  assert (INJ : forall (f : key -> bool) b, (forall k, f k = true -> km k = b) -> forall ks, NoDup ks -> NoDup (map tc_pair (filter f ks))).
  { intros f b Hf ks NDk. induction NDk as [|x ks Hx Hks IH]; cbn [filter map]; [constructor|].
    destruct (f x) eqn:Fx; [|exact IH]. cbn [map]. constructor; [|exact IH].
    intros HI. apply in_map_iff in HI. destruct HI as (y & Ey & Hy). apply filter_In in Hy. destruct Hy as [Hy Fy].
    assert (y = x).
    { destruct x as [xc xt xm], y as [yc yt ym]. unfold tc_pair in Ey. cbn in Ey. inversion Ey; subst.
      apply Hf in Fx. apply Hf in Fy. cbn in Fx, Fy. congruence. }
    subst y. contradiction. }
  split; [apply idx_ok_del_list, OK|]. split; [|split; [|split; [|split]]].
  - intros k. rewrite rels_del_list, filter_In. unfold node_hit, consumer_on, target_on.
    destruct (N.eqb_spec (pnode (kc k)) n), (N.eqb_spec (target_node (kt k)) n); cbn [orb]; split; intros H; try tauto;
      destruct H as [H1 H2]; try (exfalso; apply H2; auto; fail); try tauto.
    split; auto. intros [_ H3]. discriminate.
  - intros t c. unfold links_of. rewrite filter_filter_and, in_map_iff. split.
    + intros (k & Ek & Hk). apply filter_In in Hk. destruct Hk as [Hk F]. apply andb_true_iff in F. destruct F as [F1 F2].
      unfold node_report, consumer_on, target_on in F1. apply andb_true_iff in F1. destruct F1 as [F1 F3].
      destruct k as [c' t' mm]. unfold tc_pair in Ek. cbn in *. inversion Ek; subst.
      apply negb_true_iff in F2. subst mm. apply negb_true_iff in F1. apply N.eqb_neq in F1. apply N.eqb_eq in F3. auto.
    + intros (H1 & H2 & H3). exists (mkkey c t false). split; [reflexivity|]. apply filter_In. split; [exact H1|].
      unfold node_report, consumer_on, target_on. cbn. apply N.eqb_eq in H2. apply N.eqb_neq in H3. rewrite H2, H3. reflexivity.
  - intros t c. unfold monitors_of. rewrite filter_filter_and, in_map_iff. split.
    + intros (k & Ek & Hk). apply filter_In in Hk. destruct Hk as [Hk F]. apply andb_true_iff in F. destruct F as [F1 F2].
      unfold node_report, consumer_on, target_on in F1. apply andb_true_iff in F1. destruct F1 as [F1 F3].
      destruct k as [c' t' mm]. unfold tc_pair in Ek. cbn in *. inversion Ek; subst.
      apply negb_true_iff in F1. apply N.eqb_neq in F1. apply N.eqb_eq in F3. auto.
    + intros (H1 & H2 & H3). exists (mkkey c t true). split; [reflexivity|]. apply filter_In. split; [exact H1|].
      unfold node_report, consumer_on, target_on. cbn. apply N.eqb_eq in H2. apply N.eqb_neq in H3. rewrite H2, H3. reflexivity.
  - unfold links_of. rewrite filter_filter_and. apply (INJ _ false); [|exact ND].
    intros k F. apply andb_true_iff in F. destruct F as [_ F]. apply negb_true_iff in F. exact F.
  - unfold monitors_of. rewrite filter_filter_and. apply (INJ _ true); [|exact ND].
    intros k F. apply andb_true_iff in F. tauto.
Qed.

(* ---------- facts used by the registry / race proofs ---------- *)
Lemma tm_add_spec k m m' b : tm_add k m = (m', b) ->
  idx_ok m -> idx_ok m' /\ (forall k', In k' (rels m') <-> In k' (rels m) \/ k' = k) /\ (b = negb (mem_key k (rels m))).
Proof.
  unfold tm_add. intros E OK. destruct (mem_key k (rels m)) eqn:M; inversion E; subst; clear E.
  - apply memb_In in M. split; [exact OK | split; [|reflexivity]]. intros k'. split; [tauto|]. intros [H|H]; subst; auto.
  - apply memb_false in M. split; [apply idx_ok_add; auto|]. cbn [rels In]. split; [|reflexivity]. intros; split; intros [H|H]; auto.
Qed.

Lemma tm_remove_spec k m m' b : tm_remove k m = (m', b) ->
  idx_ok m -> idx_ok m' /\ (forall k', In k' (rels m') <-> In k' (rels m) /\ k' <> k) /\ (b = mem_key k (rels m)).
Proof.
  unfold tm_remove. intros E OK. destruct (mem_key k (rels m)) eqn:M; inversion E; subst; clear E.
  - split; [apply idx_ok_del, OK|]. split; [|reflexivity]. intros k'. apply rels_del.
  - apply memb_false in M. split; [exact OK | split; [|reflexivity]]. intros k'. split; [|tauto]. intros H. split; auto. congruence.
Qed.

Lemma cleanup_consumer_spec c m : idx_ok m ->
  idx_ok (fst (fst (tm_cleanup_consumer c m))) /\
  (forall k, In k (rels (fst (fst (tm_cleanup_consumer c m)))) <-> In k (rels m) /\ kc k <> c).
Proof.
  intros OK. unfold tm_cleanup_consumer. cbn [fst]. split; [apply idx_ok_del_list, OK|].
  intros k. rewrite rels_del_list, filter_In.
  destruct (is_consumer c k) eqn:E.
  - apply is_consumer_true in E. split; intros [H1 H2]; [exfalso; apply H2; auto | congruence].
  - split; intros [H1 H2]; split; auto.
    + intros E2. apply is_consumer_true in E2. congruence.
    + intros [_ H3]. discriminate.
Qed.

(* consumers reported by CleanupTarget: each relation of the target exactly once *)
Lemma cleanup_target_count t m c (b : bool) : idx_ok m ->
  let '(m', l, mo) := tm_cleanup_target t m in
  count_occ pid_dec (if b then mo else l) c = if mem_key (mkkey c t b) (rels m) then 1%nat else 0%nat.
Proof.
  intros OK. pose proof (bucket_perm t m OK) as BP. pose proof OK as (ND & IX & NDI & NE).
  unfold tm_cleanup_target, idx_keys in *.
  assert (G : forall ks, NoDup ks -> (forall k, In k ks <-> In k (rels m) /\ kt k = t) ->
     count_occ pid_dec (if b then map kc (monitors_of ks) else map kc (links_of ks)) c =
     if mem_key (mkkey c t b) (rels m) then 1%nat else 0%nat).
  { intros ks NDk Hk.
    assert (EQ : (if b then map kc (monitors_of ks) else map kc (links_of ks)) = map kc (filter (fun k => Bool.eqb (km k) b) ks)).
    { destruct b; unfold monitors_of, links_of; f_equal; apply filter_ext; intros k; destruct (km k); reflexivity. }
    rewrite EQ. clear EQ.
    assert (C : count_occ pid_dec (map kc (filter (fun k => Bool.eqb (km k) b) ks)) c = count_occ key_dec ks (mkkey c t b)).
    { assert (KT : forall k, In k ks -> kt k = t) by (intros k H; apply Hk in H; tauto).
      clear Hk NDk. induction ks as [|x ks IH]; cbn [filter map count_occ]; [reflexivity|].
      assert (KT' : forall k, In k ks -> kt k = t) by (intros k H; apply KT; right; exact H).
      specialize (IH KT'). pose proof (KT x (or_introl eq_refl)) as Tx.
      destruct x as [xc xt xm]. cbn in Tx. subst xt. cbn [km].
      destruct (Bool.eqb xm b) eqn:EB; cbn [map count_occ kc].
      - apply eqb_prop in EB. subst xm. destruct (pid_dec xc c) as [->|D].
        + destruct (key_dec (mkkey c t b) (mkkey c t b)); [|congruence]. rewrite IH. reflexivity.
        + destruct (key_dec (mkkey xc t b) (mkkey c t b)) as [E|_]; [inversion E; congruence|]. exact IH.
      - destruct (key_dec (mkkey xc t xm) (mkkey c t b)) as [E|_]; [|exact IH].
        inversion E; subst. rewrite eqb_reflx in EB. discriminate. }
    rewrite C, (count_NoDup key_dec _ _ NDk). unfold mem_key.
    destruct (memb key_dec (mkkey c t b) ks) eqn:M1, (memb key_dec (mkkey c t b) (rels m)) eqn:M2; try reflexivity.
    - apply memb_In in M1. apply memb_false in M2. apply Hk in M1. tauto.
    - apply memb_false in M1. apply memb_In in M2. exfalso. apply M1, Hk. auto. }
  destruct (aget target_dec t (tidx m)) as [ks|] eqn:E.
  - apply G.
    + specialize (NDI t). unfold idx_keys in NDI. rewrite E in NDI. exact NDI.
    + intros k. specialize (IX t k). unfold idx_keys in IX. rewrite E in IX. exact IX.
  - specialize (G [] (NoDup_nil _)). destruct b; cbn in G |- *; apply G; intros k; specialize (IX t k);
      unfold idx_keys in IX; rewrite E in IX; exact IX.
Qed.
