(* Rel engine — the link/monitor request against EVERY way a local target goes away.
   Definitions only (model of the removers as thread programs over the steps of Rel/Model.v, the
   outcome predicate, the interleaving cases observed on the real node).  Proofs: RaceGenProofs.v. *)
From Ergo Require Import Common.Base Rel.Amap Rel.Model.
Local Open Scope N_scope.

(** ** The removers (node/node.go, node/process.go), each as its atomic steps in program order.

    unregisterProcess(p, reason)                 -> term_prog (Rel/Model.v)

    node.UnregisterName(name)   (process.UnregisterName calls it with p.name):
        value, exist := n.names.LoadAndDelete(name); if !exist { return ErrNameUnknown }
        p.name = ""; p.registered.Store(false)
        n.RouteTerminateProcessID(pname, gen.ErrUnregistered)

    process.DeleteAlias(alias):
        unregisterAlias: value, found := n.aliases.Load(alias); !found -> ErrAliasUnknown;
                         owner != p -> ErrAliasOwner; n.aliases.Delete(alias)
        p.node.RouteTerminateAlias(alias, gen.ErrUnregistered)

    node.unregisterEvent(name, pid)   (process.UnregisterEvent):
        value, exist := n.events.Load(ev); !exist -> ErrEventUnknown; producer != pid -> ErrEventOwner
        n.events.Delete(ev)
        n.RouteTerminateEvent(ev, gen.ErrUnregistered)

    node.spawn, ProcessInit of a process spawned with a registered name fails (after the fix):
        n.names.Delete(p.name)
        ... CleanupConsumer(p.pid), RouteTerminatePID(p.pid, err) ...
        n.RouteTerminateProcessID(gen.ProcessID{p.name, n.name}, err)
    (the name is in n.names from the LoadOrStore at the start of spawn, the process is not in
    n.processes yet)

    In the two-thread configurations below nobody else writes the tables, so "Load, check owner,
    Delete" and LoadAndDelete are the single step TDel* (TDelName n q = CompareAndDelete with the
    value that is there). *)
Inductive remover :=
| RmTerminate (p : pid) (r : N)
| RmUnregName (n : atom)
| RmDeleteAlias (p : pid) (a : N)
| RmUnregEvent (p : pid) (e : atom)
| RmInitFail (n : atom) (r : N).

Definition owned_by (k : N) (p : pid) (tbl : list (N * pid)) : bool :=
  match aget N.eq_dec k tbl with Some q => if pid_dec q p then true else false | None => false end.

(* [del_first] = true: the order of the code (table delete, then drain); false: the order
   "tell the subscribers, then drop the record" (drain, then delete) *)
Definition steps_ord (del_first : bool) (d : tstep) (t : target) (r : N) : list tstep :=
  if del_first then [d; TDrain t r] else [TDrain t r; d].
Definition unreg_steps (del_first : bool) (d : tstep) (t : target) : list tstep := steps_ord del_first d t r_unreg.

Definition remover_prog_ord (del_first : bool) (s : st) (x : remover) : list tstep :=
  match x with
  | RmTerminate p r => term_prog s p r
  | RmUnregName n =>
      match aget N.eq_dec n (s_names s) with
      | Some q => unreg_steps del_first (TDelName n q) (TName n me)
      | None => []
      end
  | RmDeleteAlias p a => if owned_by a p (s_aliases s) then unreg_steps del_first (TDelAlias a) (TAlias me a) else []
  | RmUnregEvent p e => if owned_by e p (s_events s) then unreg_steps del_first (TDelEvent e) (TEvent e me) else []
  | RmInitFail n r =>
      match aget N.eq_dec n (s_names s) with
      | Some q => steps_ord del_first (TDelName n q) (TName n me) r
      | None => []
      end
  end.

Definition remover_prog := remover_prog_ord true.

Definition remover_reason (x : remover) : N := match x with RmTerminate _ r | RmInitFail _ r => r | _ => r_unreg end.
(* the process whose state word is Terminated while the remover runs *)
Definition remover_dying (x : remover) : option pid := match x with RmTerminate p _ => Some p | _ => None end.

Definition remover_cfg_ord (del_first : bool) (s : st) (k : key) (x : remover) : cfg :=
  mkcfg s (mklt k L_load) (remover_prog_ord del_first s x) (remover_dying x).
Definition remover_cfg := remover_cfg_ord true.

(* does the remover take away target t in state s (read from the tables) *)
Definition removes (x : remover) (t : target) (s : st) : bool :=
  match x, t with
  | RmTerminate p _, TPid q => (if pid_dec p q then true else false) && live p s
  | RmTerminate p _, TAlias nd a =>
      (nd =? me) && live p s &&
      match aget pid_dec p (s_procs s) with Some pr => memb N.eq_dec a (pr_aliases pr) | None => false end
  | RmTerminate p _, TEvent e nd =>
      (nd =? me) && live p s &&
      match aget pid_dec p (s_procs s) with Some pr => memb N.eq_dec e (pr_events pr) | None => false end
  | RmTerminate p _, TName n nd =>
      (nd =? me) && live p s && owned_by n p (s_names s) &&
      match aget pid_dec p (s_procs s) with
      | Some pr => match pr_name pr with Some n' => n' =? n | None => false end
      | None => false end
  | RmUnregName n, TName n' nd | RmInitFail n _, TName n' nd => (n =? n') && (nd =? me) && ahas N.eq_dec n (s_names s)
  | RmDeleteAlias p a, TAlias nd a' => (a =? a') && (nd =? me) && owned_by a p (s_aliases s)
  | RmUnregEvent p e, TEvent e' nd => (e =? e') && (nd =? me) && owned_by e p (s_events s)
  | _, _ => false
  end.

(** ** What C04 allows as the outcome of a request racing with the disappearance of its target:
    [r] the value returned to the requester, [rel] the relation is (still) in the target manager,
    [d] the number of notifications naming the target delivered to the requester, [ex] the target
    still exists. *)
Definition outcome_ok (r : res) (rel : bool) (d : nat) (ex : bool) : bool :=
  match r with
  | RErr _ => negb rel && Nat.eqb d 0
  | ROk => (negb rel && Nat.eqb d 1) || (rel && Nat.eqb d 0 && ex)
  | _ => false
  end.

(* the defect: "success", the relation dangles on a target that is gone, nobody was told *)
Definition outcome_lost (r : res) (rel : bool) (d : nat) (ex : bool) : bool :=
  match r with ROk => rel && Nat.eqb d 0 && negb ex | _ => false end.

(** ** The scenarios driven on the real node (go/harness/cmd/rel/ilv.go): owner 1001, requester 1002 *)
Definition ilv_owner : pid := lpid 1001.
Definition ilv_obs : pid := lpid 1002.
Definition ilv_setup (kind : N) : list op :=
  [OSpawnNode None; OSpawnNode None] ++
  match kind with
  | 0 | 8 => []
  | 1 | 4 | 5 => [ORegisterName ilv_owner 5]
  | 2 | 6 => [OCreateAlias ilv_owner]
  | _ => [ORegisterEvent ilv_owner 9]
  end.
Definition ilv_state (kind : N) : st :=
  let s := fst (run_ops (ilv_setup kind) (st0 1000 0)) in
  match kind with
  | 8 => set_names (aset N.eq_dec 5 (lpid 1003) (s_names s)) s     (* spawn in progress: name stored, process not *)
  | _ => s
  end.
Definition ilv_target (kind : N) : target :=
  match kind with
  | 0 => TPid ilv_owner
  | 1 | 4 | 5 | 8 => TName 5 me
  | 2 | 6 => TAlias me 1
  | _ => TEvent 9 me
  end.
Definition ilv_remover (kind : N) : remover :=
  match kind with
  | 0 | 1 | 2 | 3 => RmTerminate ilv_owner r_kill
  | 4 | 5 => RmUnregName 5
  | 6 => RmDeleteAlias ilv_owner 1
  | 8 => RmInitFail 5 17
  | _ => RmUnregEvent ilv_owner 9
  end.
