(* Rel engine — interleavings of one link/monitor request with a remover of its target, observed
   on the real node (go/harness/cmd/rel/ilv.go): correspondence with the model and the monitor. *)
From Ergo Require Import Common.Base Rel.Amap Rel.Model Rel.RaceGen.
Local Open Scope N_scope.

(** ** Interleavings observed on the real node (go/harness/cmd/rel/ilv.go).

    The requester runs in 4 segments (existence load [+ state check] | Add | re-check | Remove),
    the remover in 3 (everything up to the CleanupTarget of the target | CleanupTarget |
    the sends and the rest); the harness parks both threads at the segment borders and releases
    them in the order of the schedule (true = requester). *)
Record rcase := mk_rcase {
  rc_kind : N;            (* 0-3 kill the owner: pid / name / alias / event target;
                             4 node.UnregisterName, 5 process.UnregisterName, 6 DeleteAlias, 7 UnregisterEvent,
                             8 SpawnRegister whose ProcessInit fails (target: the name) *)
  rc_mon : bool;
  rc_sched : list bool;
  rc_res : res;           (* what Link* / Monitor* returned *)
  rc_notes : nat;         (* exit (link) / down (monitor) messages naming the target the requester handled *)
  rc_rel : bool;          (* HasLink / HasMonitor afterwards *)
  rc_gone : bool          (* the remover returned nil / the owner terminated *)
}.

Definition ilv_key (c : rcase) : key := mkkey ilv_obs (ilv_target (rc_kind c)) (rc_mon c).

Definition drains_target (t : target) (y : tstep) : bool :=
  match y with TDrain t' _ => if target_dec t' t then true else false | _ => false end.
Fixpoint steps_before (t : target) (l : list tstep) : nat :=
  match l with
  | [] => 0
  | y :: tl => if drains_target t y then 0 else S (steps_before t tl)
  end.
(* model steps per remover segment *)
Definition seg_sizes (t : target) (l : list tstep) : list nat :=
  let a := steps_before t l in [a; 1%nat; (length l - a - 1)%nat].
Fixpoint expand (sizes : list nat) (sched : list bool) : list bool :=
  match sched with
  | [] => []
  | true :: tl => true :: expand sizes tl
  | false :: tl =>
      match sizes with
      | [] => expand [] tl
      | n :: rest => repeat false n ++ expand rest tl
      end
  end.

Definition ilv_run (c : rcase) : cfg :=
  let s := ilv_state (rc_kind c) in
  let x := ilv_remover (rc_kind c) in
  let prog := remover_prog s x in
  (* after the schedule whatever is left runs to the end: requester first *)
  let sched := expand (seg_sizes (ilv_target (rc_kind c)) prog) (rc_sched c)
               ++ repeat true 4 ++ repeat false (length prog) in
  run sched (remover_cfg s (ilv_key c) x).

Definition nat_of_notes (k : key) (r : N) (s : st) : nat :=
  count_occ note_dec (inbox_of (kc k) s) (mknote (km k) (kt k) r).

(* model = implementation: return value, notifications handled, relation left *)
Definition corr_ilv (c : rcase) : bool :=
  let f := ilv_run c in
  let k := ilv_key c in
  finished f &&
  (if res_dec (l_result (c_link f)) (rc_res c) then true else false) &&
  Nat.eqb (nat_of_notes k (remover_reason (ilv_remover (rc_kind c))) (c_st f)) (rc_notes c) &&
  Bool.eqb (mem_key k (rels (s_tm (c_st f)))) (rc_rel c) &&
  Bool.eqb (negb (exists_target (kt k) (c_st f))) (rc_gone c).

(* the property on what the implementation did *)
Definition spec_ilv (c : rcase) : bool :=
  outcome_ok (rc_res c) (rc_rel c) (rc_notes c) (negb (rc_gone c)).

(* a true race: neither thread ran to its end before the other started *)
Fixpoint all_eq (b : bool) (l : list bool) : bool :=
  match l with [] => true | x :: tl => Bool.eqb x b && all_eq b tl end.
Fixpoint serial (l : list bool) : bool :=
  match l with
  | [] => true
  | x :: tl => if all_eq (negb x) tl then true else
                 match tl with y :: _ => Bool.eqb x y && serial tl | [] => true end
  end.
Definition premise_ilv (c : rcase) : bool :=
  negb (serial (firstn 7 (rc_sched c))) &&
  removes (ilv_remover (rc_kind c)) (ilv_target (rc_kind c)) (ilv_state (rc_kind c)).

(* C06 on the same runs: complete release. Once the identifier (pid / registered name / alias / event) is gone
   - its owner terminated or released it - no link or monitor relation naming it is left in the target manager,
   however the request of the other party interleaved with the release *)
Definition spec_ilv_release (c : rcase) : bool := negb (rc_gone c && rc_rel c).
