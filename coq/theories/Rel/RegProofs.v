(* Rel engine — registry proofs: notification exactness of a drain and of whole operations,
   invariant of the target manager over all histories, release on termination, racing registrants. *)
From Coq Require Import Permutation.
From Ergo Require Import Common.Base Rel.Amap Rel.Model Rel.TMProofs.
Local Open Scope N_scope.

Definition cnt (x : note) (c : pid) (s : st) : nat := count_occ note_dec (inbox_of c s) x.

(* ---------- send ---------- *)
Lemma send_frame c y s :
  s_procs (send c y s) = s_procs s /\ s_names (send c y s) = s_names s /\ s_aliases (send c y s) = s_aliases s /\
  s_events (send c y s) = s_events s /\ s_tm (send c y s) = s_tm s /\ s_nextpid (send c y s) = s_nextpid s /\
  s_uniq (send c y s) = s_uniq s.
Proof.
  unfold send. destruct (aget pid_dec c (s_procs s)) as [pr|]; [|repeat split; reflexivity].
  destruct (from_parent pr y); cbn; repeat split; reflexivity.
Qed.

Lemma send_cnt c' y s c x :
  cnt x c (send c' y s) = (cnt x c s + (if pid_dec c c' then if live c' s then if note_dec y x then 1 else 0 else 0 else 0))%nat.
Proof.
  unfold cnt, send, live, ahas. destruct (aget pid_dec c' (s_procs s)) as [pr|] eqn:E.
  - assert (H : inbox_of c (if from_parent pr y
                 then set_pending (s_pending (set_inbox (aset pid_dec c' (inbox_of c' s ++ [y]) (s_inbox s)) s) ++ [(c', n_reason y)])
                        (set_inbox (aset pid_dec c' (inbox_of c' s ++ [y]) (s_inbox s)) s)
                 else set_inbox (aset pid_dec c' (inbox_of c' s ++ [y]) (s_inbox s)) s)
              = if pid_dec c c' then inbox_of c' s ++ [y] else inbox_of c s).
    { destruct (from_parent pr y); unfold inbox_of; cbn [s_inbox set_pending set_inbox];
        (destruct (pid_dec c c') as [->|D]; [rewrite aget_aset_eq | rewrite aget_aset_neq by exact D]; reflexivity). }
    rewrite H. destruct (pid_dec c c') as [->|D]; [|lia].
    rewrite count_occ_app. cbn [count_occ]. destruct (note_dec y x); lia.
  - destruct (pid_dec c c'); lia.
Qed.

Lemma sends_frame (y : note) l : forall s,
  let s' := fold_left (fun s c => send c y s) l s in
  s_procs s' = s_procs s /\ s_names s' = s_names s /\ s_aliases s' = s_aliases s /\
  s_events s' = s_events s /\ s_tm s' = s_tm s /\ s_nextpid s' = s_nextpid s /\ s_uniq s' = s_uniq s.
Proof.
  induction l as [|c l IH]; intros s; cbn [fold_left]; [repeat split; reflexivity|].
  specialize (IH (send c y s)). cbn zeta in IH. destruct IH as (A & B & C & D & E & F & G).
  destruct (send_frame c y s) as (A' & B' & C' & D' & E' & F' & G').
  repeat split; congruence.
Qed.

Lemma sends_cnt (y : note) l : forall s c x,
  cnt x c (fold_left (fun s c => send c y s) l s) =
  (cnt x c s + (if live c s then if note_dec y x then count_occ pid_dec l c else 0 else 0))%nat.
Proof.
  induction l as [|c' l IH]; intros s c x; cbn [fold_left count_occ].
  - destruct (live c s), (note_dec y x); lia.
  - rewrite IH, send_cnt.
    assert (L : live c (send c' y s) = live c s).
    { unfold live. destruct (send_frame c' y s) as (A & _). rewrite A. reflexivity. }
    rewrite L. destruct (pid_dec c' c) as [->|D].
    + destruct (pid_dec c c); [|congruence]. destruct (live c s), (note_dec y x); lia.
    + destruct (pid_dec c c') as [E|_]; [congruence|]. destruct (live c s), (note_dec y x); lia.
Qed.

(* ---------- drain: exactly one notification per relation of the target ---------- *)
Definition due (t : target) (r : N) (s : st) (c : pid) (x : note) : nat :=
  if target_dec (n_target x) t then if N.eq_dec (n_reason x) r then
    if mem_key (mkkey c t (n_down x)) (rels (s_tm s)) then if live c s then 1%nat else 0%nat else 0%nat
  else 0%nat else 0%nat.

Lemma drain_frame t r s :
  s_procs (drain t r s) = s_procs s /\ s_names (drain t r s) = s_names s /\ s_aliases (drain t r s) = s_aliases s /\
  s_events (drain t r s) = s_events s /\ s_tm (drain t r s) = fst (fst (tm_cleanup_target t (s_tm s))) /\
  s_nextpid (drain t r s) = s_nextpid s /\ s_uniq (drain t r s) = s_uniq s.
Proof.
  unfold drain. destruct (tm_cleanup_target t (s_tm s)) as [[m' lc] mc]. cbn [fst].
  pose proof (sends_frame (mknote true t r) mc (fold_left (fun s c => send c (mknote false t r) s) lc (set_tm m' s))) as H1.
  pose proof (sends_frame (mknote false t r) lc (set_tm m' s)) as H2.
  cbn zeta in H1, H2. destruct H1 as (A & B & C & D & E & F & G). destruct H2 as (A' & B' & C' & D' & E' & F' & G').
  cbn [set_tm s_procs s_names s_aliases s_events s_tm s_nextpid s_uniq] in *.
  repeat split; congruence.
Qed.

Theorem drain_exact t r s c x :
  idx_ok (s_tm s) -> cnt x c (drain t r s) = (cnt x c s + due t r s c x)%nat.
Proof.
  intros OK. unfold drain.
  pose proof (cleanup_target_count t (s_tm s) c false OK) as CL.
  pose proof (cleanup_target_count t (s_tm s) c true OK) as CM.
  destruct (tm_cleanup_target t (s_tm s)) as [[m' lc] mc]. cbn in CL, CM.
  rewrite !sends_cnt.
  assert (L1 : live c (fold_left (fun s c => send c (mknote false t r) s) lc (set_tm m' s)) = live c s).
  { unfold live. destruct (sends_frame (mknote false t r) lc (set_tm m' s)) as (A & _). cbn zeta in A. rewrite A. reflexivity. }
  rewrite L1. assert (L2 : live c (set_tm m' s) = live c s) by reflexivity. rewrite L2.
  assert (C0 : cnt x c (set_tm m' s) = cnt x c s) by reflexivity. rewrite C0.
  unfold due. rewrite CL, CM. destruct x as [d t' r']. cbn [n_target n_reason n_down].
  repeat match goal with |- context [note_dec ?a ?b] => destruct (note_dec a b) as [?E|?N]; [inversion E; subst|] end;
    repeat match goal with |- context [if ?b then _ else _] => destruct b end; try lia; try (exfalso; congruence).
  all: destruct d; exfalso; congruence.
Qed.

Lemma drain_rels t r s k : idx_ok (s_tm s) ->
  (In k (rels (s_tm (drain t r s))) <-> In k (rels (s_tm s)) /\ kt k <> t).
Proof. intros OK. destruct (drain_frame t r s) as (_ & _ & _ & _ & E & _). rewrite E. apply rels_cleanup_target, OK. Qed.

Lemma drain_idx_ok t r s : idx_ok (s_tm s) -> idx_ok (s_tm (drain t r s)).
Proof. intros OK. destruct (drain_frame t r s) as (_ & _ & _ & _ & E & _). rewrite E. apply idx_ok_cleanup_target, OK. Qed.

(* ---------- the target manager invariant holds in every reachable registry state ---------- *)
Lemma tstep_idx_ok x s : idx_ok (s_tm s) -> idx_ok (s_tm (tstep_exec x s)).
Proof.
  intros OK. destruct x; cbn [tstep_exec]; try exact OK.
  - apply drain_idx_ok, OK.
  - cbn. apply cleanup_consumer_spec, OK.
Qed.

Lemma tsteps_idx_ok l : forall s, idx_ok (s_tm s) -> idx_ok (s_tm (tsteps l s)).
Proof. induction l as [|x l IH]; intros s OK; cbn [tsteps fold_left]; [exact OK|]. apply IH, tstep_idx_ok, OK. Qed.

Lemma lstep_idx_ok d l s : idx_ok (s_tm s) -> idx_ok (s_tm (snd (lstep d l s))).
Proof.
  intros OK. unfold lstep. destruct (l_pc l); cbn [snd].
  - destruct (exists_target _ _); [destruct (km (l_key l) && _)|]; exact OK.
  - destruct (tm_add (l_key l) (s_tm s)) as [m' ok] eqn:E. destruct ok; [|exact OK]. cbn. eapply tm_add_spec; eauto.
  - destruct (exists_target _ _); exact OK.
  - destruct (tm_remove (l_key l) (s_tm s)) as [m' ok] eqn:E. destruct ok; [|exact OK]. cbn. eapply tm_remove_spec; eauto.
  - exact OK.
Qed.

Lemma route_add_idx_ok k s : idx_ok (s_tm s) -> idx_ok (s_tm (fst (route_add k s))).
Proof.
  intros OK. unfold route_add.
  destruct (lstep None (mklt k L_load) s) as [l1 s1] eqn:E1.
  destruct (lstep None l1 s1) as [l2 s2] eqn:E2.
  destruct (lstep None l2 s2) as [l3 s3] eqn:E3.
  destruct (lstep None l3 s3) as [l4 s4] eqn:E4. cbn [fst].
  pose proof (lstep_idx_ok None (mklt k L_load) s OK) as H1. rewrite E1 in H1.
  pose proof (lstep_idx_ok None l1 s1 H1) as H2. rewrite E2 in H2.
  pose proof (lstep_idx_ok None l2 s2 H2) as H3. rewrite E3 in H3.
  pose proof (lstep_idx_ok None l3 s3 H3) as H4. rewrite E4 in H4. exact H4.
Qed.

Lemma route_remove_idx_ok k s : idx_ok (s_tm s) -> idx_ok (s_tm (fst (route_remove k s))).
Proof.
  intros OK. unfold route_remove. destruct (exists_target _ _); [|exact OK].
  destruct (tm_remove k (s_tm s)) as [m' ok] eqn:E. destruct ok; [|exact OK]. cbn. eapply tm_remove_spec; eauto.
Qed.

Lemma set_proc_tm p pr s : s_tm (set_proc p pr s) = s_tm s. Proof. reflexivity. Qed.

Lemma add_opt_idx_ok (b : bool) k s :
  idx_ok (s_tm s) -> idx_ok (s_tm (if b then set_tm (fst (tm_add k (s_tm s))) s else s)).
Proof.
  intros OK. destruct b; [|exact OK]. destruct (tm_add k (s_tm s)) as [m' ok] eqn:E. cbn.
  pose proof (tm_add_spec _ _ _ _ E OK) as [H _]. exact H.
Qed.

Lemma spawn_idx_ok parent name lc lp s : idx_ok (s_tm s) -> idx_ok (s_tm (fst (spawn parent name lc lp s))).
Proof.
  intros OK. unfold spawn. destruct (match name with Some n => ahas N.eq_dec n (s_names s) | None => false end); [exact OK|].
  cbn [fst]. apply add_opt_idx_ok. rewrite set_proc_tm. apply add_opt_idx_ok.
  destruct name; exact OK.
Qed.

Lemma terminate_idx_ok p r s : idx_ok (s_tm s) -> idx_ok (s_tm (terminate p r s)).
Proof. intros OK. unfold terminate. apply tsteps_idx_ok, OK. Qed.

Theorem exec_idx_ok o s : idx_ok (s_tm s) -> idx_ok (s_tm (fst (exec o s))).
Proof.
  intros OK. destruct o; cbn [exec];
    try (destruct (aget pid_dec _ (s_procs s)) as [pr|]; [|exact OK]); cbn [fst].
  - apply spawn_idx_ok, OK.
  - apply spawn_idx_ok, OK.
  - unfold register_name. destruct (pr_name pr); [exact OK|]. destruct (ahas _ _ _); exact OK.
  - unfold unregister_name. destruct (aget N.eq_dec n (s_names s)) as [q|]; [|exact OK]. cbn [fst].
    apply drain_idx_ok. destruct (aget pid_dec q _); exact OK.
  - unfold create_alias. destruct (ahas _ _ _); exact OK.
  - unfold delete_alias. destruct (aget N.eq_dec a (s_aliases s)) as [q|]; [|exact OK].
    destruct (pid_dec q p); [|exact OK]. cbn [fst]. rewrite set_proc_tm. apply drain_idx_ok, OK.
  - unfold register_event. destruct (ahas _ _ _); exact OK.
  - unfold unregister_event. destruct (aget N.eq_dec e (s_events s)) as [q|]; [|exact OK].
    destruct (pid_dec q p); [|exact OK]. cbn [fst]. rewrite set_proc_tm. apply drain_idx_ok, OK.
  - destruct (self_target c pr t); [exact OK|]. destruct (tm_has _ _); [exact OK|]. apply route_add_idx_ok, OK.
  - destruct (tm_has _ _); [|exact OK]. apply route_remove_idx_ok, OK.
  - destruct (tm_has _ _); [exact OK|]. apply route_add_idx_ok, OK.
  - destruct (tm_has _ _); [|exact OK]. apply route_remove_idx_ok, OK.
  - apply terminate_idx_ok, OK.
  - destruct (s_pending s) as [|[c r] tl]; [exact OK|]. cbn [fst]. apply terminate_idx_ok, OK.
Qed.

Theorem run_ops_idx_ok ops : forall s, idx_ok (s_tm s) -> idx_ok (s_tm (fst (run_ops ops s))).
Proof.
  induction ops as [|o ops IH]; intros s OK; cbn [run_ops]; [exact OK|].
  pose proof (exec_idx_ok o s OK) as H. destruct (exec o s) as [s1 r]. cbn [fst] in H.
  specialize (IH s1 H). destruct (run_ops ops s1) as [s2 rs]. exact IH.
Qed.

(* ---------- racing registrants: LoadOrStore atomicity ---------- *)
Lemma race_register_taken n sched : forall names,
  ahas N.eq_dec n names = true ->
  fst (race_register n sched names) = names /\ Forall (fun b => b = false) (snd (race_register n sched names)).
Proof.
  induction sched as [|p tl IH]; intros names H; cbn [race_register]; [split; [reflexivity | constructor]|].
  unfold load_or_store. rewrite H. specialize (IH names H).
  destruct (race_register n tl names) as [m2 oks]. cbn [fst snd] in *. destruct IH as [-> F]. split; [reflexivity | constructor; auto].
Qed.

Lemma race_register_length n sched : forall names, length (snd (race_register n sched names)) = length sched.
Proof.
  induction sched as [|p tl IH]; intros names; cbn [race_register]; [reflexivity|].
  destruct (load_or_store n p names) as [m1 ok]. specialize (IH m1).
  destruct (race_register n tl m1) as [m2 oks]. cbn [snd length] in *. congruence.
Qed.

(* whatever the order in which the racing LoadOrStore operations take effect: the first one wins,
   every other registrant gets an error, and the name resolves to the winner *)
Theorem race_register_one_wins n p tl names :
  ahas N.eq_dec n names = false ->
  aget N.eq_dec n (fst (race_register n (p :: tl) names)) = Some p /\
  exists rest, snd (race_register n (p :: tl) names) = true :: rest /\
               Forall (fun b => b = false) rest /\ length rest = length tl.
Proof.
  intros H. cbn [race_register]. unfold load_or_store at 1 2. rewrite H.
  assert (T : ahas N.eq_dec n (aset N.eq_dec n p names) = true) by (unfold ahas; rewrite aget_aset_eq; reflexivity).
  pose proof (race_register_taken n tl _ T) as [E F].
  pose proof (race_register_length n tl (aset N.eq_dec n p names)) as L.
  destruct (race_register n tl (aset N.eq_dec n p names)) as [m2 oks]. cbn [fst snd] in *. subst m2.
  split; [apply aget_aset_eq|]. exists oks. auto.
Qed.

(* ---------- uniqueness: a registration succeeds only on a free key and then owns it ---------- *)
Lemma register_name_unique p pr n s s' :
  register_name p pr n s = (s', ROk) ->
  ahas N.eq_dec n (s_names s) = false /\ aget N.eq_dec n (s_names s') = Some p /\
  (forall n', n' <> n -> aget N.eq_dec n' (s_names s') = aget N.eq_dec n' (s_names s)).
Proof.
  unfold register_name. destruct (pr_name pr); [discriminate|].
  destruct (ahas N.eq_dec n (s_names s)) eqn:E; [discriminate|]. intros H. inversion H; subst; clear H. cbn.
  split; [reflexivity|]. split; [apply aget_aset_eq|]. intros n' NE. apply aget_aset_neq, NE.
Qed.

Lemma register_name_taken p pr n s q :
  aget N.eq_dec n (s_names s) = Some q -> register_name p pr n s = (s, RErr e_taken).
Proof.
  intros H. unfold register_name, ahas. rewrite H. destruct (pr_name pr); reflexivity.
Qed.

Lemma create_alias_unique p pr s s' a :
  create_alias p pr s = (s', RAlias a) ->
  ahas N.eq_dec a (s_aliases s) = false /\ aget N.eq_dec a (s_aliases s') = Some p /\ a = s_uniq s + 1.
Proof.
  unfold create_alias. destruct (ahas N.eq_dec (s_uniq s + 1) (s_aliases s)) eqn:E; [discriminate|].
  intros H. inversion H; subst; clear H. cbn. split; [exact E|]. split; [apply aget_aset_eq | reflexivity].
Qed.

Lemma register_event_unique p pr e s s' :
  register_event p pr e s = (s', ROk) ->
  ahas N.eq_dec e (s_events s) = false /\ aget N.eq_dec e (s_events s') = Some p.
Proof.
  unfold register_event. destruct (ahas N.eq_dec e (s_events s)) eqn:E; [discriminate|].
  intros H. inversion H; subst; clear H. cbn. split; [reflexivity | apply aget_aset_eq].
Qed.

Lemma register_event_taken p pr e s q :
  aget N.eq_dec e (s_events s) = Some q -> register_event p pr e s = (s, RErr e_taken).
Proof. intros H. unfold register_event, ahas. rewrite H. reflexivity. Qed.

(* ---------- release: what unregisterProcess leaves behind ---------- *)
Lemma aget_cdel_eq n p nm : aget N.eq_dec n (cdel n p nm) =
  match aget N.eq_dec n nm with Some q => if pid_dec q p then None else Some q | None => None end.
Proof.
  unfold cdel. destruct (aget N.eq_dec n nm) as [q|] eqn:E; [|exact E].
  destruct (pid_dec q p); [apply aget_adel_eq | exact E].
Qed.
Lemma aget_cdel_neq n n' p nm : n' <> n -> aget N.eq_dec n' (cdel n p nm) = aget N.eq_dec n' nm.
Proof.
  intros NE. unfold cdel. destruct (aget N.eq_dec n nm) as [q|]; [|reflexivity].
  destruct (pid_dec q p); [apply aget_adel_neq, NE | reflexivity].
Qed.

(* the steps of the termination program of p with record pr *)
Lemma term_prog_in p pr r :
  let l := term_prog_of p pr r in
  In (TDelProc p) l /\ In (TDrain (TPid p) r) l /\ In (TCleanCons p) l /\
  (forall n, pr_name pr = Some n -> In (TDelName n p) l /\ In (TDrain (TName n me) r) l) /\
  (forall a, In a (pr_aliases pr) -> In (TDelAlias a) l /\ In (TDrain (TAlias me a) r) l) /\
  (forall e, In e (pr_events pr) -> In (TDelEvent e) l /\ In (TDrain (TEvent e me) r) l).
Proof.
  cbn zeta. unfold term_prog_of. cbn [In]. repeat setoid_rewrite in_app_iff. cbn [In]. repeat setoid_rewrite in_app_iff.
  split; [left; reflexivity|]. split; [right; right; left; reflexivity|]. split; [right; right; right; left; reflexivity|].
  split; [|split].
  - intros n E. rewrite E. cbn [In]. split; [right; left; left; reflexivity | right; right; right; right; left; left; reflexivity].
  - intros a Ha. split; right; right; right; right; right; left; apply in_flat_map; exists a; (split; [exact Ha|]); cbn; auto.
  - intros e He. split; right; right; right; right; right; right; apply in_flat_map; exists e; (split; [exact He|]); cbn; auto.
Qed.

Lemma term_prog_inv p pr r y : In y (term_prog_of p pr r) ->
  y = TDelProc p \/ y = TDrain (TPid p) r \/ y = TCleanCons p \/
  (exists n, pr_name pr = Some n /\ (y = TDelName n p \/ y = TDrain (TName n me) r)) \/
  (exists a, In a (pr_aliases pr) /\ (y = TDelAlias a \/ y = TDrain (TAlias me a) r)) \/
  (exists e, In e (pr_events pr) /\ (y = TDelEvent e \/ y = TDrain (TEvent e me) r)).
Proof.
  unfold term_prog_of. intros HI. cbn [In] in HI. rewrite in_app_iff in HI. cbn [In] in HI. rewrite !in_app_iff in HI.
  destruct HI as [H|[H|[H|[H|[H|[H|H]]]]]]; auto.
  - right; right; right; left. destruct (pr_name pr) as [n|]; [|destruct H]. exists n. split; [reflexivity|].
    destruct H as [H|[]]. left; auto.
  - right; right; right; left. destruct (pr_name pr) as [n|]; [|destruct H]. exists n. split; [reflexivity|].
    destruct H as [H|[]]. right; auto.
  - right; right; right; right; left. apply in_flat_map in H. destruct H as (a & Ha & H). exists a. split; [exact Ha|].
    cbn in H. destruct H as [H|[H|[]]]; auto.
  - right; right; right; right; right. apply in_flat_map in H. destruct H as (e & He & H). exists e. split; [exact He|].
    cbn in H. destruct H as [H|[H|[]]]; auto.
Qed.

Lemma tsteps_rels l : forall s k, idx_ok (s_tm s) -> In k (rels (s_tm (tsteps l s))) ->
  In k (rels (s_tm s)) /\ (forall t r, In (TDrain t r) l -> kt k <> t) /\ (forall q, In (TCleanCons q) l -> kc k <> q).
Proof.
  induction l as [|y l IH]; intros s k OK HI; cbn [tsteps fold_left] in HI.
  - split; [exact HI|]. split; intros; contradiction.
  - fold (tsteps l (tstep_exec y s)) in HI. apply IH in HI; [|apply tstep_idx_ok, OK].
    destruct HI as (H1 & H2 & H3).
    assert (G : In k (rels (s_tm s)) /\ (forall t r, y = TDrain t r -> kt k <> t) /\ (forall q, y = TCleanCons q -> kc k <> q)).
    { destruct y; cbn [tstep_exec] in H1; try (split; [exact H1|split; intros; discriminate]).
      - apply drain_rels in H1; [|exact OK]. destruct H1 as [A B]. split; [exact A|].
        split; [intros t0 r0 E; inversion E; subst; exact B | intros q E; discriminate].
      - cbn in H1. apply (cleanup_consumer_spec p (s_tm s) OK) in H1. destruct H1 as [A B].
        split; [exact A|]. split; [intros t0 r0 E; discriminate | intros q E; inversion E; subst; exact B]. }
    destruct G as (G1 & G2 & G3). split; [exact G1|]. split.
    + intros t r [E|HI]; [apply (G2 t r E) | eapply H2; eauto].
    + intros q [E|HI]; [apply (G3 q E) | eapply H3; eauto].
Qed.

Theorem terminate_release_relations p pr r s k :
  idx_ok (s_tm s) -> aget pid_dec p (s_procs s) = Some pr ->
  In k (rels (s_tm (terminate p r s))) ->
  In k (rels (s_tm s)) /\ kc k <> p /\ kt k <> TPid p /\
  (forall n, pr_name pr = Some n -> kt k <> TName n me) /\
  (forall a, In a (pr_aliases pr) -> kt k <> TAlias me a) /\
  (forall e, In e (pr_events pr) -> kt k <> TEvent e me).
Proof.
  intros OK E HI. unfold terminate, term_prog in HI. rewrite E in HI.
  apply tsteps_rels in HI; [|exact OK]. destruct HI as (H1 & H2 & H3).
  destruct (term_prog_in p pr r) as (_ & I2 & I3 & I4 & I5 & I6).
  split; [exact H1|]. split; [apply H3, I3|]. split; [apply (H2 _ r), I2|].
  split; [|split].
  - intros n En. apply (H2 _ r). apply (I4 n En).
  - intros a Ha. apply (H2 _ r). apply (I5 a Ha).
  - intros e He. apply (H2 _ r). apply (I6 e He).
Qed.

(* tables only shrink along the termination program, and the deleted keys are gone *)
Lemma tstep_tables y s :
  (forall q, aget pid_dec q (s_procs s) = None -> aget pid_dec q (s_procs (tstep_exec y s)) = None) /\
  (forall n, aget N.eq_dec n (s_names s) = None -> aget N.eq_dec n (s_names (tstep_exec y s)) = None) /\
  (forall a, aget N.eq_dec a (s_aliases s) = None -> aget N.eq_dec a (s_aliases (tstep_exec y s)) = None) /\
  (forall e, aget N.eq_dec e (s_events s) = None -> aget N.eq_dec e (s_events (tstep_exec y s)) = None).
Proof.
  destruct y; cbn [tstep_exec]; try (repeat split; intros; assumption).
  - repeat split; intros; try assumption. cbn. destruct (pid_dec q p) as [->|D]; [apply aget_adel_eq | rewrite aget_adel_neq by exact D; assumption].
  - destruct (drain_frame t r s) as (A & B & C & D & _). rewrite A, B, C, D. repeat split; intros; assumption.
  - repeat split; intros; try assumption. cbn. destruct (N.eq_dec n0 n) as [->|D]; [rewrite aget_cdel_eq, H; reflexivity | rewrite aget_cdel_neq by exact D; assumption].
  - repeat split; intros; try assumption. cbn. destruct (N.eq_dec a0 a) as [->|D]; [apply aget_adel_eq | rewrite aget_adel_neq by exact D; assumption].
  - repeat split; intros; try assumption. cbn. destruct (N.eq_dec e0 e) as [->|D]; [apply aget_adel_eq | rewrite aget_adel_neq by exact D; assumption].
Qed.

(* an entry present afterwards was present before, with the same value *)
Lemma tstep_sub y s :
  (forall q v, aget pid_dec q (s_procs (tstep_exec y s)) = Some v -> aget pid_dec q (s_procs s) = Some v) /\
  (forall n v, aget N.eq_dec n (s_names (tstep_exec y s)) = Some v -> aget N.eq_dec n (s_names s) = Some v) /\
  (forall a v, aget N.eq_dec a (s_aliases (tstep_exec y s)) = Some v -> aget N.eq_dec a (s_aliases s) = Some v) /\
  (forall e v, aget N.eq_dec e (s_events (tstep_exec y s)) = Some v -> aget N.eq_dec e (s_events s) = Some v).
Proof.
  destruct y; cbn [tstep_exec]; try (repeat split; intros; assumption).
  - repeat split; intros ? ? H; try assumption. cbn in H. destruct (pid_dec q p) as [->|D]; [rewrite aget_adel_eq in H; discriminate | rewrite aget_adel_neq in H by exact D; assumption].
  - destruct (drain_frame t r s) as (A & B & C & D & _). rewrite A, B, C, D. repeat split; intros; assumption.
  - repeat split; intros ? ? H; try assumption. cbn in H. destruct (N.eq_dec n0 n) as [->|D].
    + rewrite aget_cdel_eq in H. destruct (aget N.eq_dec n (s_names s)) as [q|]; [|discriminate]. destruct (pid_dec q p); [discriminate | exact H].
    + rewrite aget_cdel_neq in H by exact D. assumption.
  - repeat split; intros ? ? H; try assumption. cbn in H. destruct (N.eq_dec a0 a) as [->|D]; [rewrite aget_adel_eq in H; discriminate | rewrite aget_adel_neq in H by exact D; assumption].
  - repeat split; intros ? ? H; try assumption. cbn in H. destruct (N.eq_dec e0 e) as [->|D]; [rewrite aget_adel_eq in H; discriminate | rewrite aget_adel_neq in H by exact D; assumption].
Qed.

(* an entry whose key no step deletes is untouched *)
Lemma tstep_kept y s :
  (forall q, y <> TDelProc q -> aget pid_dec q (s_procs (tstep_exec y s)) = aget pid_dec q (s_procs s)) /\
  (forall n, (forall p, y <> TDelName n p) -> aget N.eq_dec n (s_names (tstep_exec y s)) = aget N.eq_dec n (s_names s)) /\
  (forall a, y <> TDelAlias a -> aget N.eq_dec a (s_aliases (tstep_exec y s)) = aget N.eq_dec a (s_aliases s)) /\
  (forall e, y <> TDelEvent e -> aget N.eq_dec e (s_events (tstep_exec y s)) = aget N.eq_dec e (s_events s)).
Proof.
  destruct y; cbn [tstep_exec]; try (repeat split; intros; reflexivity).
  - repeat split; intros; try reflexivity. cbn. apply aget_adel_neq. congruence.
  - destruct (drain_frame t r s) as (A & B & C & D & _). rewrite A, B, C, D. repeat split; intros; reflexivity.
  - repeat split; intros; try reflexivity. cbn. apply aget_cdel_neq. intros ->. apply (H p). reflexivity.
  - repeat split; intros; try reflexivity. cbn. apply aget_adel_neq. congruence.
  - repeat split; intros; try reflexivity. cbn. apply aget_adel_neq. congruence.
Qed.

Lemma tsteps_cons y l s : tsteps (y :: l) s = tsteps l (tstep_exec y s). Proof. reflexivity. Qed.
Lemma tsteps_nil s : tsteps [] s = s. Proof. reflexivity. Qed.

Lemma tsteps_keep l : forall s,
    (forall q, aget pid_dec q (s_procs s) = None -> aget pid_dec q (s_procs (tsteps l s)) = None) /\
    (forall n, aget N.eq_dec n (s_names s) = None -> aget N.eq_dec n (s_names (tsteps l s)) = None) /\
    (forall a, aget N.eq_dec a (s_aliases s) = None -> aget N.eq_dec a (s_aliases (tsteps l s)) = None) /\
    (forall e, aget N.eq_dec e (s_events s) = None -> aget N.eq_dec e (s_events (tsteps l s)) = None).
Proof.
  induction l as [|y l IH]; intros s; [rewrite tsteps_nil; repeat split; intros; assumption|].
  rewrite tsteps_cons. destruct (IH (tstep_exec y s)) as (A & B & C & D).
  destruct (tstep_tables y s) as (A' & B' & C' & D'). repeat split; intros; auto.
Qed.

Lemma tsteps_sub l : forall s,
  (forall q v, aget pid_dec q (s_procs (tsteps l s)) = Some v -> aget pid_dec q (s_procs s) = Some v) /\
  (forall n v, aget N.eq_dec n (s_names (tsteps l s)) = Some v -> aget N.eq_dec n (s_names s) = Some v) /\
  (forall a v, aget N.eq_dec a (s_aliases (tsteps l s)) = Some v -> aget N.eq_dec a (s_aliases s) = Some v) /\
  (forall e v, aget N.eq_dec e (s_events (tsteps l s)) = Some v -> aget N.eq_dec e (s_events s) = Some v).
Proof.
  induction l as [|y l IH]; intros s; [rewrite tsteps_nil; repeat split; intros; assumption|].
  rewrite tsteps_cons. destruct (IH (tstep_exec y s)) as (A & B & C & D).
  destruct (tstep_sub y s) as (A' & B' & C' & D'). repeat split; intros; auto.
Qed.

Lemma tsteps_kept l : forall s,
  (forall q, ~ In (TDelProc q) l -> aget pid_dec q (s_procs (tsteps l s)) = aget pid_dec q (s_procs s)) /\
  (forall n, (forall p, ~ In (TDelName n p) l) -> aget N.eq_dec n (s_names (tsteps l s)) = aget N.eq_dec n (s_names s)) /\
  (forall a, ~ In (TDelAlias a) l -> aget N.eq_dec a (s_aliases (tsteps l s)) = aget N.eq_dec a (s_aliases s)) /\
  (forall e, ~ In (TDelEvent e) l -> aget N.eq_dec e (s_events (tsteps l s)) = aget N.eq_dec e (s_events s)).
Proof.
  induction l as [|y l IH]; intros s; [rewrite tsteps_nil; repeat split; intros; reflexivity|].
  rewrite tsteps_cons. destruct (IH (tstep_exec y s)) as (A & B & C & D).
  destruct (tstep_kept y s) as (A' & B' & C' & D'). repeat split.
  - intros q H. rewrite A by (intros X; apply H; right; exact X). apply A'. intros ->. apply H. left; reflexivity.
  - intros n H. rewrite B by (intros p X; apply (H p); right; exact X). apply B'. intros p ->. apply (H p). left; reflexivity.
  - intros a H. rewrite C by (intros X; apply H; right; exact X). apply C'. intros ->. apply H. left; reflexivity.
  - intros e H. rewrite D by (intros X; apply H; right; exact X). apply D'. intros ->. apply H. left; reflexivity.
Qed.

(* CompareAndDelete(n, p): afterwards n does not resolve to p (it may resolve to somebody else) *)
Lemma tsteps_deleted l : forall s,
  (forall q, In (TDelProc q) l -> aget pid_dec q (s_procs (tsteps l s)) = None) /\
  (forall n p, In (TDelName n p) l -> aget N.eq_dec n (s_names (tsteps l s)) <> Some p) /\
  (forall a, In (TDelAlias a) l -> aget N.eq_dec a (s_aliases (tsteps l s)) = None) /\
  (forall e, In (TDelEvent e) l -> aget N.eq_dec e (s_events (tsteps l s)) = None).
Proof.
  induction l as [|y l IH]; intros s; [repeat split; intros; contradiction|].
  rewrite tsteps_cons.
  destruct (IH (tstep_exec y s)) as (A & B & C & D). destruct (tsteps_keep l (tstep_exec y s)) as (A' & B' & C' & D').
  destruct (tsteps_sub l (tstep_exec y s)) as (_ & S2 & _ & _).
  repeat split.
  - intros q [E|HI]; [subst y; apply A'; cbn; apply aget_adel_eq | apply A, HI].
  - intros n p [E|HI]; [subst y | apply B, HI]. intros H. apply S2 in H. cbn in H. rewrite aget_cdel_eq in H.
    destruct (aget N.eq_dec n (s_names s)) as [q|]; [|discriminate]. destruct (pid_dec q p); congruence.
  - intros a [E|HI]; [subst y; apply C'; cbn; apply aget_adel_eq | apply C, HI].
  - intros e [E|HI]; [subst y; apply D'; cbn; apply aget_adel_eq | apply D, HI].
Qed.

Theorem terminate_release_tables p pr r s :
  aget pid_dec p (s_procs s) = Some pr ->
  let s' := terminate p r s in
  aget pid_dec p (s_procs s') = None /\
  (forall n, pr_name pr = Some n -> aget N.eq_dec n (s_names s') <> Some p) /\
  (forall a, In a (pr_aliases pr) -> aget N.eq_dec a (s_aliases s') = None) /\
  (forall e, In e (pr_events pr) -> aget N.eq_dec e (s_events s') = None).
Proof.
  intros E. cbn zeta. unfold terminate, term_prog. rewrite E.
  destruct (tsteps_deleted (term_prog_of p pr r) s) as (A & B & C & D).
  destruct (term_prog_in p pr r) as (I1 & _ & _ & I4 & I5 & I6).
  split; [apply A, I1|]. split; [|split].
  - intros n En. apply B, (I4 n En).
  - intros a Ha. apply C, (I5 a Ha).
  - intros e He. apply D, (I6 e He).
Qed.
