(* Rel engine — the agreement invariant: in every state reachable by registry operations the
   per-process records (name field, alias list, event map) and the node tables (names, aliases,
   events) describe the same ownership, without duplicates; every table entry belongs to a live
   process.  Consequences: the history-level, record-free forms of C04 (notifications) and C06
   (release).  The pre-fix DeleteAlias breaks the invariant (4-operation witness). *)
From Ergo Require Import Common.Base Rel.Amap Rel.Model Rel.TMProofs Rel.RegProofs.
Local Open Scope N_scope.

(* ---------- association lists with unique keys ---------- *)
Section Keys.
  Context {K V : Type}.
  Variable dec : forall a b : K, {a = b} + {a <> b}.

  Lemma in_keys_aset k' k (v : V) m : In k' (map fst (aset dec k v m)) <-> k' = k \/ In k' (map fst m).
  Proof.
    induction m as [|[k2 v2] tl IH]; cbn [aset].
    - cbn. intuition congruence.
    - destruct (dec k k2) as [->|NE]; cbn [map fst In]; [|rewrite IH]; intuition congruence.
  Qed.

  Lemma NoDup_keys_aset k (v : V) m : NoDup (map fst m) -> NoDup (map fst (aset dec k v m)).
  Proof.
    induction m as [|[k2 v2] tl IH]; intros ND; cbn [aset].
    - cbn. constructor; [intros [] | constructor].
    - cbn [map fst] in ND. inversion ND as [|? ? NI ND']; subst.
      destruct (dec k k2) as [->|NE]; cbn [map fst].
      + constructor; assumption.
      + constructor; [|apply IH; assumption]. rewrite in_keys_aset. intros [H|H]; [congruence | contradiction].
  Qed.

  Lemma in_keys_adel k' k (m : list (K * V)) : In k' (map fst (adel dec k m)) -> In k' (map fst m) /\ k' <> k.
  Proof.
    intros H. apply in_map_iff in H. destruct H as ([a b] & E & HI). cbn in E. subst a.
    apply In_adel in HI. destruct HI as [HI NE]. split; [|exact NE].
    apply in_map_iff. exists (k', b). auto.
  Qed.

  Lemma NoDup_keys_adel k (m : list (K * V)) : NoDup (map fst m) -> NoDup (map fst (adel dec k m)).
  Proof.
    induction m as [|[k2 v2] tl IH]; intros ND; cbn [adel]; [constructor|].
    cbn [map fst] in ND. inversion ND as [|? ? NI ND']; subst.
    destruct (dec k k2) as [->|NE]; [apply IH; assumption|]. cbn [map fst].
    constructor; [|apply IH; assumption]. intros H. apply in_keys_adel in H. tauto.
  Qed.

  Lemma In_aget_unique k (v : V) m : NoDup (map fst m) -> In (k, v) m -> aget dec k m = Some v.
  Proof.
    induction m as [|[k2 v2] tl IH]; intros ND HI; [destruct HI|].
    cbn [map fst] in ND. inversion ND as [|? ? NI ND']; subst. cbn [aget].
    destruct (dec k k2) as [->|NE].
    - destruct HI as [E|HI]; [inversion E; reflexivity|]. exfalso. apply NI. apply in_map_iff. exists (k2, v). auto.
    - destruct HI as [E|HI]; [inversion E; congruence | apply IH; assumption].
  Qed.
End Keys.

Lemma In_owned k p (tbl : list (N * pid)) :
  NoDup (map fst tbl) -> (In k (owned p tbl) <-> aget N.eq_dec k tbl = Some p).
Proof.
  intros ND. unfold owned. rewrite in_map_iff. split.
  - intros ([k1 q] & E & HI). cbn in E. subst k1. apply filter_In in HI. destruct HI as [HI F]. cbn in F.
    destruct (pid_dec q p) as [->|]; [|discriminate]. apply In_aget_unique; assumption.
  - intros H. apply aget_In in H. exists (k, p). split; [reflexivity|]. apply filter_In. split; [exact H|].
    cbn. destruct (pid_dec p p); congruence.
Qed.

Lemma NoDup_snoc {A} (l : list A) k : NoDup l -> ~ In k l -> NoDup (l ++ [k]).
Proof.
  induction l as [|h t IH]; intros ND NI; cbn [app]; [constructor; [intros []|constructor]|].
  inversion ND as [|? ? NH ND']; subst. constructor.
  - rewrite in_app_iff. cbn. intros [H|[H|[]]]; [contradiction|]. apply NI. left. congruence.
  - apply IH; [assumption|]. intros H. apply NI. right. exact H.
Qed.

Lemma NoDup_app_intro {A} (l1 l2 : list A) :
  NoDup l1 -> NoDup l2 -> (forall x, In x l1 -> ~ In x l2) -> NoDup (l1 ++ l2).
Proof.
  induction l1 as [|h t IH]; intros N1 N2 D; cbn [app]; [exact N2|].
  inversion N1 as [|? ? NH N1']; subst. constructor.
  - rewrite in_app_iff. intros [H|H]; [contradiction|]. apply (D h); [left; reflexivity | exact H].
  - apply IH; [assumption | assumption|]. intros x Hx. apply D. right. exact Hx.
Qed.

Lemma NoDup_map_inj {A B} (f : A -> B) l : (forall a b, f a = f b -> a = b) -> NoDup l -> NoDup (map f l).
Proof.
  intros Inj. induction 1 as [|x l Hx Hl IH]; cbn [map]; constructor; [|exact IH].
  intros H. apply in_map_iff in H. destruct H as (y & E & Hy). apply Inj in E. subst. contradiction.
Qed.

Lemma memb_iff {A} (dec : forall a b : A, {a = b} + {a <> b}) x l l' :
  (In x l <-> In x l') -> memb dec x l = memb dec x l'.
Proof.
  intros H. destruct (memb dec x l') eqn:E.
  - apply memb_In. apply memb_In in E. tauto.
  - apply memb_false. apply memb_false in E. tauto.
Qed.

(* ---------- the list update of process.DeleteAlias removes exactly the deleted alias ---------- *)
Lemma replace_first_spec a h t :
  NoDup t -> In a t -> ~ In h t ->
  NoDup (replace_first a h t) /\ forall x, In x (replace_first a h t) <-> x = h \/ (In x t /\ x <> a).
Proof.
  induction t as [|b t IH]; intros ND Ha Hh; [destruct Ha|].
  inversion ND as [|? ? Nb ND']; subst. cbn [replace_first].
  destruct (N.eq_dec b a) as [->|NE].
  - split.
    + constructor; [|exact ND']. intros H. apply Hh. right. exact H.
    + intros x. cbn [In]. split.
      * intros [H|H]; [left; congruence|]. right. split; [right; exact H|]. intros ->. contradiction.
      * intros [H|[[H|H] NA]]; [left; congruence | congruence | right; exact H].
  - assert (Ha' : In a t) by (destruct Ha as [H|H]; [congruence | exact H]).
    assert (Hh' : ~ In h t) by (intros H; apply Hh; right; exact H).
    destruct (IH ND' Ha' Hh') as [N1 I1]. split.
    + constructor; [|exact N1]. rewrite I1. intros [H|[H _]]; [|contradiction]. apply Hh. left. congruence.
    + intros x. cbn [In]. rewrite I1. split.
      * intros [H|[H|[H NA]]]; [right; split; [left; exact H | congruence] | left; exact H | right; split; [right; exact H | exact NA]].
      * intros [H|[[H|H] NA]]; [right; left; exact H | left; exact H | right; right; split; assumption].
Qed.

Lemma alias_list_delete_spec a l :
  NoDup l -> In a l ->
  NoDup (alias_list_delete a l) /\ forall x, In x (alias_list_delete a l) <-> In x l /\ x <> a.
Proof.
  intros ND Ha. unfold alias_list_delete. destruct l as [|h t]; [destruct Ha|].
  assert (M : memb N.eq_dec a (h :: t) = true) by (apply memb_In; exact Ha). rewrite M.
  inversion ND as [|? ? Nh ND']; subst. cbn [replace_first].
  destruct (N.eq_dec h a) as [->|NE]; cbn [tl].
  - split; [exact ND'|]. intros x. cbn [In]. split.
    + intros H. split; [right; exact H|]. intros ->. contradiction.
    + intros [[H|H] NA]; [congruence | exact H].
  - assert (Ha' : In a t) by (destruct Ha as [H|H]; [congruence | exact H]).
    destruct (replace_first_spec a h t ND' Ha' Nh) as [N1 I1]. split; [exact N1|].
    intros x. rewrite I1. cbn [In]. split.
    + intros [H|[H NA]]; [split; [left; congruence | congruence] | split; [right; exact H | exact NA]].
    + intros [[H|H] NA]; [left; congruence | right; split; assumption].
Qed.

(* ---------- one table against the per-process lists, extensionally ---------- *)
Section TI.
  Variable getl : proc -> list N.

  (* T: the table as a lookup function, P: the process table as a lookup function *)
  Definition TI (T : N -> option pid) (P : pid -> option proc) : Prop :=
    (forall p pr, P p = Some pr -> NoDup (getl pr) /\ forall k, In k (getl pr) <-> T k = Some p) /\
    (forall k q, T k = Some q -> P q <> None).

  Definition upd_proc (P P' : pid -> option proc) (p : pid) (v : option proc) : Prop :=
    forall q, P' q = if pid_dec q p then v else P q.
  Definition upd_key (T T' : N -> option pid) (k : N) (v : option pid) : Prop :=
    forall x, T' x = if N.eq_dec x k then v else T x.

  (* the record of a live process changes, its list for this table does not *)
  Lemma TI_upd_same T P P' p pr pr' :
    TI T P -> upd_proc P P' p (Some pr') -> P p = Some pr -> getl pr' = getl pr -> TI T P'.
  Proof.
    intros [R L] U E G. split.
    - intros q prq Hq. rewrite U in Hq. destruct (pid_dec q p) as [->|D].
      + inversion Hq; subst. rewrite G. apply R, E.
      + apply R, Hq.
    - intros k q Hk. rewrite U. destruct (pid_dec q p); [discriminate | eapply L; eauto].
  Qed.

  (* a live process acquires a free key *)
  Lemma TI_add T P T' P' p pr pr' k :
    TI T P -> upd_key T T' k (Some p) -> upd_proc P P' p (Some pr') ->
    P p = Some pr -> T k = None -> getl pr' = getl pr ++ [k] -> TI T' P'.
  Proof.
    intros [R L] UT UP E F G. split.
    - intros q prq Hq. rewrite UP in Hq. destruct (pid_dec q p) as [->|D].
      + inversion Hq; subst. rewrite G. destruct (R p pr E) as [ND I]. split.
        * apply NoDup_snoc; [exact ND|]. rewrite I. congruence.
        * intros x. rewrite in_app_iff, UT. cbn [In]. destruct (N.eq_dec x k) as [->|NE].
          -- split; [reflexivity | auto].
          -- rewrite I. split; [intros [H|[H|[]]]; [exact H | congruence] | auto].
      + destruct (R q prq Hq) as [ND I]. split; [exact ND|]. intros x. rewrite UT.
        destruct (N.eq_dec x k) as [->|NE]; [|apply I]. rewrite I, F. split; [discriminate | congruence].
    - intros x q Hx. rewrite UT in Hx. rewrite UP. destruct (pid_dec q p); [discriminate|].
      destruct (N.eq_dec x k); [congruence | eapply L; eauto].
  Qed.

  (* a live process gives up one of its keys *)
  Lemma TI_del T P T' P' p pr pr' k :
    TI T P -> upd_key T T' k None -> upd_proc P P' p (Some pr') ->
    P p = Some pr -> T k = Some p ->
    NoDup (getl pr') -> (forall x, In x (getl pr') <-> In x (getl pr) /\ x <> k) -> TI T' P'.
  Proof.
    intros [R L] UT UP E F ND' I'. split.
    - intros q prq Hq. rewrite UP in Hq. destruct (pid_dec q p) as [->|D].
      + inversion Hq; subst. split; [exact ND'|]. destruct (R p pr E) as [_ I]. intros x. rewrite I', UT.
        destruct (N.eq_dec x k) as [->|NE]; [split; [tauto | discriminate]|]. rewrite I. tauto.
      + destruct (R q prq Hq) as [ND I]. split; [exact ND|]. intros x. rewrite UT.
        destruct (N.eq_dec x k) as [->|NE]; [|apply I]. rewrite I, F. split; [congruence | discriminate].
    - intros x q Hx. rewrite UT in Hx. rewrite UP. destruct (pid_dec q p); [discriminate|].
      destruct (N.eq_dec x k); [discriminate | eapply L; eauto].
  Qed.

  (* a new process with an empty list *)
  Lemma TI_new T P P' p pr' :
    TI T P -> upd_proc P P' p (Some pr') -> P p = None -> getl pr' = [] -> TI T P'.
  Proof.
    intros [R L] UP E G. split.
    - intros q prq Hq. rewrite UP in Hq. destruct (pid_dec q p) as [->|D].
      + inversion Hq; subst. rewrite G. split; [constructor|]. intros x. split; [intros []|].
        intros H. exfalso. apply (L x p H E).
      + apply R, Hq.
    - intros x q Hx. rewrite UP. destruct (pid_dec q p); [discriminate | eapply L; eauto].
  Qed.

  (* a new process born with one free key (spawn with a registered name) *)
  Lemma TI_new_key T P T' P' p pr' k :
    TI T P -> upd_key T T' k (Some p) -> upd_proc P P' p (Some pr') ->
    P p = None -> T k = None -> getl pr' = [k] -> TI T' P'.
  Proof.
    intros [R L] UT UP E F G. split.
    - intros q prq Hq. rewrite UP in Hq. destruct (pid_dec q p) as [->|D].
      + inversion Hq; subst. rewrite G. split; [constructor; [intros []|constructor]|]. intros x. rewrite UT. cbn [In].
        destruct (N.eq_dec x k) as [->|NE]; [split; auto|]. split; [intros [H|[]]; congruence|].
        intros H. exfalso. apply (L x p H E).
      + destruct (R q prq Hq) as [ND I]. split; [exact ND|]. intros x. rewrite UT.
        destruct (N.eq_dec x k) as [->|NE]; [|apply I]. rewrite I, F. split; [discriminate | congruence].
    - intros x q Hx. rewrite UT in Hx. rewrite UP. destruct (pid_dec q p); [discriminate|].
      destruct (N.eq_dec x k); [congruence | eapply L; eauto].
  Qed.

  (* a process goes away together with every key of its list *)
  Lemma TI_term T P T' P' p pr :
    TI T P -> P p = Some pr ->
    (forall k, In k (getl pr) -> T' k = None) -> (forall k, ~ In k (getl pr) -> T' k = T k) ->
    upd_proc P P' p None -> TI T' P'.
  Proof.
    intros [R L] E D K UP. destruct (R p pr E) as [_ Ip]. split.
    - intros q prq Hq. rewrite UP in Hq. destruct (pid_dec q p) as [->|NE]; [discriminate|].
      destruct (R q prq Hq) as [ND I]. split; [exact ND|]. intros x. rewrite I.
      destruct (in_dec N.eq_dec x (getl pr)) as [HI|HI].
      + rewrite (D x HI). apply Ip in HI. rewrite HI. split; [congruence | discriminate].
      + rewrite (K x HI). tauto.
    - intros x q Hx. destruct (in_dec N.eq_dec x (getl pr)) as [HI|HI].
      + rewrite (D x HI) in Hx. discriminate.
      + rewrite (K x HI) in Hx. rewrite UP. destruct (pid_dec q p) as [->|NE]; [|eapply L; eauto].
        exfalso. apply HI. apply Ip. exact Hx.
  Qed.

  Lemma TI_ext T P T' P' : (forall k, T' k = T k) -> (forall q, P' q = P q) -> TI T P -> TI T' P'.
  Proof.
    intros ET EP [R L]. split.
    - intros p pr H. rewrite EP in H. destruct (R p pr H) as [ND I]. split; [exact ND|]. intros k. rewrite ET. apply I.
    - intros k q H. rewrite ET in H. rewrite EP. eapply L; eauto.
  Qed.
End TI.

(* ---------- the agreement invariant ---------- *)
Definition name_list (pr : proc) : list atom := match pr_name pr with Some n => [n] | None => [] end.

Definition tblf (tbl : list (N * pid)) : N -> option pid := fun k => aget N.eq_dec k tbl.
Definition procf (s : st) : pid -> option proc := fun q => aget pid_dec q (s_procs s).

Definition agree (s : st) : Prop :=
  TI name_list (tblf (s_names s)) (procf s) /\
  TI pr_aliases (tblf (s_aliases s)) (procf s) /\
  TI pr_events (tblf (s_events s)) (procf s) /\
  (forall q, procf s q <> None -> pnum q <= s_nextpid s) /\
  NoDup (map fst (s_names s)) /\ NoDup (map fst (s_aliases s)) /\ NoDup (map fst (s_events s)).

(* what the invariant says, spelled out *)
Lemma agree_spelled s : agree s ->
  forall p pr, aget pid_dec p (s_procs s) = Some pr ->
    (forall n, pr_name pr = Some n <-> aget N.eq_dec n (s_names s) = Some p) /\
    NoDup (pr_aliases pr) /\ (forall a, In a (pr_aliases pr) <-> aget N.eq_dec a (s_aliases s) = Some p) /\
    NoDup (pr_events pr) /\ (forall e, In e (pr_events pr) <-> aget N.eq_dec e (s_events s) = Some p).
Proof.
  intros ([R1 _] & [R2 _] & [R3 _] & _) p pr E.
  destruct (R1 p pr E) as [_ I1]. destruct (R2 p pr E) as [N2 I2]. destruct (R3 p pr E) as [N3 I3].
  split; [|split; [exact N2|split; [exact I2|split; [exact N3|exact I3]]]].
  intros n. rewrite <- (I1 n). unfold name_list. destruct (pr_name pr) as [n'|]; cbn [In].
  - split; [intros H; inversion H; auto | intros [H|[]]; congruence].
  - split; [discriminate | intros []].
Qed.

Lemma agree_entries_live s : agree s ->
  (forall n q, aget N.eq_dec n (s_names s) = Some q -> live q s = true) /\
  (forall a q, aget N.eq_dec a (s_aliases s) = Some q -> live q s = true) /\
  (forall e q, aget N.eq_dec e (s_events s) = Some q -> live q s = true).
Proof.
  intros ([_ L1] & [_ L2] & [_ L3] & _). unfold live, ahas.
  repeat split; intros k q H; [specialize (L1 k q H) | specialize (L2 k q H) | specialize (L3 k q H)];
    unfold procf in *; destruct (aget pid_dec q (s_procs s)); congruence.
Qed.

Lemma agree_st0 nextpid uniq : agree (st0 nextpid uniq).
Proof.
  unfold agree, TI, tblf, procf, st0; cbn.
  repeat split; try constructor; try discriminate; try congruence; try (intros; contradiction).
Qed.

(* only the five registry components matter *)
Definition same_reg (s s' : st) : Prop :=
  s_procs s' = s_procs s /\ s_names s' = s_names s /\ s_aliases s' = s_aliases s /\
  s_events s' = s_events s /\ s_nextpid s' = s_nextpid s.

Lemma agree_frame s s' : same_reg s s' -> agree s -> agree s'.
Proof. intros (A & B & C & D & E). unfold agree, procf. rewrite A, B, C, D, E. tauto. Qed.

Lemma same_reg_refl s : same_reg s s. Proof. repeat split. Qed.
Lemma same_reg_trans a b c : same_reg a b -> same_reg b c -> same_reg a c.
Proof. intros (A & B & C & D & E) (A' & B' & C' & D' & E'). repeat split; congruence. Qed.

Lemma drain_same_reg t r s : same_reg s (drain t r s).
Proof. destruct (drain_frame t r s) as (A & B & C & D & _ & E & _). repeat split; assumption. Qed.

(* ---------- table / process-table updates as function updates ---------- *)
Lemma upd_proc_set (procs : list (pid * proc)) p pr q :
  aget pid_dec q (aset pid_dec p pr procs) = if pid_dec q p then Some pr else aget pid_dec q procs.
Proof. destruct (pid_dec q p) as [->|D]; [apply aget_aset_eq | apply aget_aset_neq, D]. Qed.
Lemma upd_proc_del (procs : list (pid * proc)) p q :
  aget pid_dec q (adel pid_dec p procs) = if pid_dec q p then None else aget pid_dec q procs.
Proof. destruct (pid_dec q p) as [->|D]; [apply aget_adel_eq | apply aget_adel_neq, D]. Qed.
Lemma upd_key_set tbl k p : upd_key (tblf tbl) (tblf (aset N.eq_dec k p tbl)) k (Some p).
Proof. intros x. unfold tblf. destruct (N.eq_dec x k) as [->|D]; [apply aget_aset_eq | apply aget_aset_neq, D]. Qed.
Lemma upd_key_del tbl k : upd_key (tblf tbl) (tblf (adel N.eq_dec k tbl)) k None.
Proof. intros x. unfold tblf. destruct (N.eq_dec x k) as [->|D]; [apply aget_adel_eq | apply aget_adel_neq, D]. Qed.
Lemma ahas_false_None {K V} (dec : forall a b : K, {a = b} + {a <> b}) k (m : list (K * V)) :
  ahas dec k m = false -> aget dec k m = None.
Proof. unfold ahas. destruct (aget dec k m); [discriminate | reflexivity]. Qed.

Lemma PI_upd (P P' : pid -> option proc) np p pr' :
  (forall q, P q <> None -> pnum q <= np) -> P p <> None -> upd_proc P P' p (Some pr') ->
  forall q, P' q <> None -> pnum q <= np.
Proof. intros A Hp U q Hq. rewrite U in Hq. destruct (pid_dec q p) as [->|D]; auto. Qed.

Ltac fields := cbn [set_proc set_procs set_names set_aliases set_events set_tm set_inbox set_pending set_nextpid set_uniq
                    s_procs s_names s_aliases s_events s_tm s_inbox s_pending s_nextpid s_uniq].

(* ---------- spawn ---------- *)
Lemma spawn_ok_fields parent (name : option atom) lc lp s :
  (match name with Some n => ahas N.eq_dec n (s_names s) | None => false end) = false ->
  let id := (s_nextpid s + 1) mod two64 in
  let s' := fst (spawn parent name lc lp s) in
  s_procs s' = aset pid_dec (lpid id) (mkproc parent name [] []) (s_procs s) /\
  s_names s' = (match name with Some n => aset N.eq_dec n (lpid id) (s_names s) | None => s_names s end) /\
  s_aliases s' = s_aliases s /\ s_events s' = s_events s /\ s_nextpid s' = id /\ s_inbox s' = s_inbox s.
Proof.
  intros H. unfold spawn. rewrite H. destruct name, lc, lp; cbn [fst]; fields; repeat split; reflexivity.
Qed.

Lemma spawn_agree parent (name : option atom) lc lp s :
  agree s -> s_nextpid s + 1 < two64 ->
  agree (fst (spawn parent name lc lp s)) /\ s_nextpid (fst (spawn parent name lc lp s)) <= s_nextpid s + 1.
Proof.
  intros AG NW.
  destruct (match name with Some n => ahas N.eq_dec n (s_names s) | None => false end) eqn:T.
  { unfold spawn. rewrite T. cbn [fst]. split; [exact AG | lia]. }
  destruct (spawn_ok_fields parent name lc lp s T) as (F1 & F2 & F3 & F4 & F5 & _).
  assert (ID : (s_nextpid s + 1) mod two64 = s_nextpid s + 1) by (apply N.mod_small; exact NW).
  rewrite ID in *.
  destruct AG as (A1 & A2 & A3 & A4 & K1 & K2 & K3).
  set (p := lpid (s_nextpid s + 1)) in *.
  assert (Fresh : procf s p = None).
  { destruct (procf s p) eqn:E; [|reflexivity]. assert (X : pnum p <= s_nextpid s) by (apply A4; congruence).
    cbn in X. lia. }
  split; [|rewrite F5; lia].
  unfold agree, procf. rewrite F1, F2, F3, F4, F5.
  split; [|split; [|split; [|split; [|split; [|split]]]]].
  - destruct name as [n|].
    + eapply (TI_new_key name_list) with (p := p) (k := n);
        [exact A1 | apply upd_key_set | intros q; apply upd_proc_set | exact Fresh | apply ahas_false_None, T | reflexivity].
    + eapply (TI_new name_list) with (p := p); [exact A1 | intros q; apply upd_proc_set | exact Fresh | reflexivity].
  - eapply (TI_new pr_aliases) with (p := p); [exact A2 | intros q; apply upd_proc_set | exact Fresh | reflexivity].
  - eapply (TI_new pr_events) with (p := p); [exact A3 | intros q; apply upd_proc_set | exact Fresh | reflexivity].
  - intros q Hq. rewrite upd_proc_set in Hq. destruct (pid_dec q p) as [->|D]; [cbn; lia|].
    specialize (A4 q Hq). lia.
  - destruct name; [apply NoDup_keys_aset|]; exact K1.
  - exact K2.
  - exact K3.
Qed.

(* ---------- names ---------- *)
Lemma register_name_agree p pr n s :
  agree s -> aget pid_dec p (s_procs s) = Some pr -> agree (fst (register_name p pr n s)).
Proof.
  intros AG E. unfold register_name. destruct (pr_name pr) eqn:EN; [exact AG|].
  destruct (ahas N.eq_dec n (s_names s)) eqn:T; [exact AG|]. cbn [fst].
  destruct AG as (A1 & A2 & A3 & A4 & K1 & K2 & K3). unfold agree, procf. fields.
  split; [|split; [|split; [|split; [|split; [|split]]]]].
  - eapply (TI_add name_list) with (p := p) (pr := pr) (k := n);
      [exact A1 | apply upd_key_set | intros q; apply upd_proc_set | exact E | apply ahas_false_None, T
       | unfold name_list; cbn; rewrite EN; reflexivity].
  - eapply (TI_upd_same pr_aliases) with (p := p) (pr := pr); [exact A2 | intros q; apply upd_proc_set | exact E | reflexivity].
  - eapply (TI_upd_same pr_events) with (p := p) (pr := pr); [exact A3 | intros q; apply upd_proc_set | exact E | reflexivity].
  - eapply PI_upd with (p := p); [exact A4 | unfold procf; congruence | intros q; apply upd_proc_set].
  - apply NoDup_keys_aset, K1.
  - exact K2.
  - exact K3.
Qed.

Lemma unregister_name_agree n s : agree s -> agree (fst (unregister_name n s)).
Proof.
  intros AG. unfold unregister_name. destruct (aget N.eq_dec n (s_names s)) as [q|] eqn:T; [|exact AG]. cbn [fst].
  apply (agree_frame _ _ (drain_same_reg _ _ _)).
  destruct AG as (A1 & A2 & A3 & A4 & K1 & K2 & K3).
  assert (Lq : procf s q <> None) by (destruct A1 as [_ L1]; apply (L1 n q T)).
  unfold procf in Lq. fields. destruct (aget pid_dec q (s_procs s)) as [prq|] eqn:E; [|contradiction].
  unfold agree, procf. fields.
  split; [|split; [|split; [|split; [|split; [|split]]]]].
  - eapply (TI_del name_list) with (p := q) (pr := prq) (k := n);
      [exact A1 | apply upd_key_del | intros x; apply upd_proc_set | exact E | exact T | constructor | ].
    intros x. unfold name_list at 1. cbn [pr_name In]. split; [intros []|]. intros [H NE]. apply NE.
    destruct A1 as [R1 _]. destruct (R1 q prq E) as [_ I]. apply I in T. fold (tblf (s_names s)) in T.
    unfold name_list in H, T. destruct (pr_name prq) as [n'|]; cbn [In] in *; [|contradiction].
    destruct H as [H|[]]. destruct T as [T|[]]. congruence.
  - eapply (TI_upd_same pr_aliases) with (p := q) (pr := prq); [exact A2 | intros x; apply upd_proc_set | exact E | reflexivity].
  - eapply (TI_upd_same pr_events) with (p := q) (pr := prq); [exact A3 | intros x; apply upd_proc_set | exact E | reflexivity].
  - eapply PI_upd with (p := q); [exact A4 | unfold procf; congruence | intros x; apply upd_proc_set].
  - apply NoDup_keys_adel, K1.
  - exact K2.
  - exact K3.
Qed.

(* ---------- aliases ---------- *)
Lemma create_alias_agree p pr s :
  agree s -> aget pid_dec p (s_procs s) = Some pr -> agree (fst (create_alias p pr s)).
Proof.
  intros AG E. unfold create_alias. destruct (ahas N.eq_dec (s_uniq s + 1) (s_aliases s)) eqn:T; cbn [fst].
  { eapply agree_frame; [|exact AG]. repeat split. }
  destruct AG as (A1 & A2 & A3 & A4 & K1 & K2 & K3). unfold agree, procf. fields.
  split; [|split; [|split; [|split; [|split; [|split]]]]].
  - eapply (TI_upd_same name_list) with (p := p) (pr := pr); [exact A1 | intros q; apply upd_proc_set | exact E | reflexivity].
  - eapply (TI_add pr_aliases) with (p := p) (pr := pr) (k := s_uniq s + 1);
      [exact A2 | apply upd_key_set | intros q; apply upd_proc_set | exact E | apply ahas_false_None, T | reflexivity].
  - eapply (TI_upd_same pr_events) with (p := p) (pr := pr); [exact A3 | intros q; apply upd_proc_set | exact E | reflexivity].
  - eapply PI_upd with (p := p); [exact A4 | unfold procf; congruence | intros q; apply upd_proc_set].
  - exact K1.
  - apply NoDup_keys_aset, K2.
  - exact K3.
Qed.

Lemma delete_alias_agree p pr a s :
  agree s -> aget pid_dec p (s_procs s) = Some pr -> agree (fst (delete_alias p pr a s)).
Proof.
  intros AG E. unfold delete_alias. destruct (aget N.eq_dec a (s_aliases s)) as [q|] eqn:T; [|exact AG].
  destruct (pid_dec q p) as [->|D]; [|exact AG]. cbn [fst].
  set (s1 := set_aliases (adel N.eq_dec a (s_aliases s)) s).
  destruct (drain_frame (TAlias me a) r_unreg s1) as (D1 & D2 & D3 & D4 & _ & D6 & _).
  destruct AG as (A1 & A2 & A3 & A4 & K1 & K2 & K3). unfold agree, procf. fields.
  rewrite D1, D2, D3, D4, D6. subst s1. fields.
  assert (AL : NoDup (pr_aliases pr) /\ In a (pr_aliases pr)).
  { destruct A2 as [R2 _]. destruct (R2 p pr E) as [ND I]. split; [exact ND | apply I; exact T]. }
  destruct AL as [ND HI]. destruct (alias_list_delete_spec a (pr_aliases pr) ND HI) as [ND' I'].
  split; [|split; [|split; [|split; [|split; [|split]]]]].
  - eapply (TI_upd_same name_list) with (p := p) (pr := pr); [exact A1 | intros q; apply upd_proc_set | exact E | reflexivity].
  - eapply (TI_del pr_aliases) with (p := p) (pr := pr) (k := a);
      [exact A2 | apply upd_key_del | intros q; apply upd_proc_set | exact E | exact T | exact ND' | exact I'].
  - eapply (TI_upd_same pr_events) with (p := p) (pr := pr); [exact A3 | intros q; apply upd_proc_set | exact E | reflexivity].
  - eapply PI_upd with (p := p); [exact A4 | unfold procf; congruence | intros q; apply upd_proc_set].
  - exact K1.
  - apply NoDup_keys_adel, K2.
  - exact K3.
Qed.

(* ---------- events ---------- *)
Lemma register_event_agree p pr e s :
  agree s -> aget pid_dec p (s_procs s) = Some pr -> agree (fst (register_event p pr e s)).
Proof.
  intros AG E. unfold register_event. destruct (ahas N.eq_dec e (s_events s)) eqn:T; [exact AG|]. cbn [fst].
  destruct AG as (A1 & A2 & A3 & A4 & K1 & K2 & K3). unfold agree, procf. fields.
  split; [|split; [|split; [|split; [|split; [|split]]]]].
  - eapply (TI_upd_same name_list) with (p := p) (pr := pr); [exact A1 | intros q; apply upd_proc_set | exact E | reflexivity].
  - eapply (TI_upd_same pr_aliases) with (p := p) (pr := pr); [exact A2 | intros q; apply upd_proc_set | exact E | reflexivity].
  - eapply (TI_add pr_events) with (p := p) (pr := pr) (k := e);
      [exact A3 | apply upd_key_set | intros q; apply upd_proc_set | exact E | apply ahas_false_None, T | reflexivity].
  - eapply PI_upd with (p := p); [exact A4 | unfold procf; congruence | intros q; apply upd_proc_set].
  - exact K1.
  - exact K2.
  - apply NoDup_keys_aset, K3.
Qed.

Lemma unregister_event_agree p pr e s :
  agree s -> aget pid_dec p (s_procs s) = Some pr -> agree (fst (unregister_event p pr e s)).
Proof.
  intros AG E. unfold unregister_event. destruct (aget N.eq_dec e (s_events s)) as [q|] eqn:T; [|exact AG].
  destruct (pid_dec q p) as [->|D]; [|exact AG]. cbn [fst].
  set (s1 := set_events (adel N.eq_dec e (s_events s)) s).
  destruct (drain_frame (TEvent e me) r_unreg s1) as (D1 & D2 & D3 & D4 & _ & D6 & _).
  destruct AG as (A1 & A2 & A3 & A4 & K1 & K2 & K3). unfold agree, procf. fields.
  rewrite D1, D2, D3, D4, D6. subst s1. fields.
  assert (ND : NoDup (pr_events pr)) by (destruct A3 as [R3 _]; apply (R3 p pr E)).
  split; [|split; [|split; [|split; [|split; [|split]]]]].
  - eapply (TI_upd_same name_list) with (p := p) (pr := pr); [exact A1 | intros q; apply upd_proc_set | exact E | reflexivity].
  - eapply (TI_upd_same pr_aliases) with (p := p) (pr := pr); [exact A2 | intros q; apply upd_proc_set | exact E | reflexivity].
  - eapply (TI_del pr_events) with (p := p) (pr := pr) (k := e);
      [exact A3 | apply upd_key_del | intros q; apply upd_proc_set | exact E | exact T
       | cbn [pr_events]; apply NoDup_remove_keep, ND | cbn [pr_events]; intros x; apply In_remove].
  - eapply PI_upd with (p := p); [exact A4 | unfold procf; congruence | intros q; apply upd_proc_set].
  - exact K1.
  - exact K2.
  - apply NoDup_keys_adel, K3.
Qed.

(* ---------- link / monitor requests touch the target manager only ---------- *)
Definition same_box (s s' : st) : Prop := same_reg s s' /\ s_inbox s' = s_inbox s.

Lemma same_box_refl s : same_box s s. Proof. split; [apply same_reg_refl | reflexivity]. Qed.
Lemma same_box_trans a b c : same_box a b -> same_box b c -> same_box a c.
Proof. intros [A1 A2] [B1 B2]. split; [eapply same_reg_trans; eauto | congruence]. Qed.
Lemma same_box_tm m s : same_box s (set_tm m s). Proof. repeat split. Qed.

Lemma lstep_frame d l s : same_box s (snd (lstep d l s)).
Proof.
  unfold lstep. destruct (l_pc l); cbn [snd].
  - destruct (exists_target _ _); [destruct (km (l_key l) && _)|]; apply same_box_refl.
  - destruct (tm_add (l_key l) (s_tm s)) as [m' ok]. destruct ok; [apply same_box_tm | apply same_box_refl].
  - destruct (exists_target _ _); apply same_box_refl.
  - destruct (tm_remove (l_key l) (s_tm s)) as [m' ok]. destruct ok; [apply same_box_tm | apply same_box_refl].
  - apply same_box_refl.
Qed.

Lemma route_add_frame k s : same_box s (fst (route_add k s)).
Proof.
  unfold route_add.
  destruct (lstep None (mklt k L_load) s) as [l1 s1] eqn:E1.
  destruct (lstep None l1 s1) as [l2 s2] eqn:E2.
  destruct (lstep None l2 s2) as [l3 s3] eqn:E3.
  destruct (lstep None l3 s3) as [l4 s4] eqn:E4. cbn [fst].
  pose proof (lstep_frame None (mklt k L_load) s) as H1. rewrite E1 in H1.
  pose proof (lstep_frame None l1 s1) as H2. rewrite E2 in H2.
  pose proof (lstep_frame None l2 s2) as H3. rewrite E3 in H3.
  pose proof (lstep_frame None l3 s3) as H4. rewrite E4 in H4. cbn [snd] in *.
  eapply same_box_trans; [exact H1|]. eapply same_box_trans; [exact H2|]. eapply same_box_trans; [exact H3 | exact H4].
Qed.

Lemma route_remove_frame k s : same_box s (fst (route_remove k s)).
Proof.
  unfold route_remove. destruct (exists_target _ _); [|apply same_box_refl].
  destruct (tm_remove k (s_tm s)) as [m' ok]. destruct ok; [apply same_box_tm | apply same_box_refl].
Qed.

(* ---------- termination ---------- *)
Lemma tsteps_nextpid l : forall s, s_nextpid (tsteps l s) = s_nextpid s.
Proof.
  induction l as [|y l IH]; intros s; [reflexivity|]. rewrite tsteps_cons, IH.
  destruct y; try reflexivity. destruct (drain_frame t r s) as (_ & _ & _ & _ & _ & E & _). exact E.
Qed.

Lemma NoDup_keys_cdel n p nm : NoDup (map fst nm) -> NoDup (map fst (cdel n p nm)).
Proof.
  intros H. unfold cdel. destruct (aget N.eq_dec n nm) as [q|]; [|exact H].
  destruct (pid_dec q p); [apply NoDup_keys_adel, H | exact H].
Qed.

Lemma tsteps_keys l : forall s,
  NoDup (map fst (s_names s)) /\ NoDup (map fst (s_aliases s)) /\ NoDup (map fst (s_events s)) ->
  NoDup (map fst (s_names (tsteps l s))) /\ NoDup (map fst (s_aliases (tsteps l s))) /\ NoDup (map fst (s_events (tsteps l s))).
Proof.
  induction l as [|y l IH]; intros s (K1 & K2 & K3); [auto|]. rewrite tsteps_cons. apply IH.
  destruct y; cbn [tstep_exec]; fields; auto.
  - destruct (drain_frame t r s) as (_ & B & C & D & _). rewrite B, C, D. auto.
  - split; [apply NoDup_keys_cdel, K1 | auto].
  - split; [exact K1 | split; [apply NoDup_keys_adel, K2 | exact K3]].
  - split; [exact K1 | split; [exact K2 | apply NoDup_keys_adel, K3]].
Qed.

Ltac prog_cases H :=
  apply term_prog_inv in H;
  destruct H as [H|[H|[H|[(?n & ?En & [H|H])|[(?a & ?Ha & [H|H])|(?e & ?He & [H|H])]]]]]; try discriminate H.

Lemma terminate_agree p pr r s :
  agree s -> aget pid_dec p (s_procs s) = Some pr -> agree (terminate p r s).
Proof.
  intros (A1 & A2 & A3 & A4 & K1 & K2 & K3) E. unfold terminate, term_prog. rewrite E.
  set (l := term_prog_of p pr r).
  destruct (tsteps_deleted l s) as (DP & DN & DA & DE).
  destruct (tsteps_kept l s) as (KP & KN & KA & KE).
  destruct (tsteps_sub l s) as (_ & SN & _ & _).
  destruct (term_prog_in p pr r) as (I1 & _ & _ & I4 & I5 & I6). fold l in I1, I4, I5, I6.
  assert (UP : upd_proc (procf s) (procf (tsteps l s)) p None).
  { intros q. unfold procf. destruct (pid_dec q p) as [->|NE]; [apply DP, I1|]. apply KP.
    intros H. unfold l in H. prog_cases H. inversion H. congruence. }
  unfold agree. rewrite tsteps_nextpid.
  split; [|split; [|split; [|split]]].
  - eapply (TI_term name_list) with (p := p) (pr := pr); [exact A1 | exact E | | | exact UP].
    + intros k Hk. unfold tblf. destruct (aget N.eq_dec k (s_names (tsteps l s))) as [v|] eqn:V; [|reflexivity].
      exfalso. pose proof (SN k v V) as V0. destruct A1 as [R1 _]. destruct (R1 p pr E) as [_ I]. apply I in Hk as Tk.
      unfold tblf in Tk. assert (v = p) by congruence. subst v.
      unfold name_list in Hk. destruct (pr_name pr) as [n|] eqn:EN; cbn [In] in Hk; [|contradiction].
      destruct Hk as [<-|[]]. apply (DN n p); [apply (I4 n eq_refl) | exact V].
    + intros k Hk. unfold tblf. apply KN. intros p' H. unfold l in H. prog_cases H. inversion H; subst.
      apply Hk. unfold name_list. rewrite En. left; reflexivity.
  - eapply (TI_term pr_aliases) with (p := p) (pr := pr); [exact A2 | exact E | | | exact UP].
    + intros k Hk. unfold tblf. apply DA, (I5 k Hk).
    + intros k Hk. unfold tblf. apply KA. intros H. unfold l in H. prog_cases H. inversion H; subst. contradiction.
  - eapply (TI_term pr_events) with (p := p) (pr := pr); [exact A3 | exact E | | | exact UP].
    + intros k Hk. unfold tblf. apply DE, (I6 k Hk).
    + intros k Hk. unfold tblf. apply KE. intros H. unfold l in H. prog_cases H. inversion H; subst. contradiction.
  - intros q Hq. rewrite UP in Hq. destruct (pid_dec q p); [congruence | apply A4, Hq].
  - apply tsteps_keys. auto.
Qed.

Lemma terminate_dead p r s : aget pid_dec p (s_procs s) = None -> terminate p r s = s.
Proof. intros E. unfold terminate, term_prog. rewrite E. reflexivity. Qed.

Lemma terminate_agree' p r s : agree s -> agree (terminate p r s).
Proof.
  intros AG. destruct (aget pid_dec p (s_procs s)) as [pr|] eqn:E; [eapply terminate_agree; eauto|].
  rewrite terminate_dead by exact E. exact AG.
Qed.

Lemma terminate_nextpid p r s : s_nextpid (terminate p r s) = s_nextpid s.
Proof. unfold terminate. apply tsteps_nextpid. Qed.

(* ---------- every operation preserves the invariant ---------- *)
Theorem exec_agree o s :
  agree s -> s_nextpid s + 1 < two64 ->
  agree (fst (exec o s)) /\ s_nextpid (fst (exec o s)) <= s_nextpid s + 1.
Proof.
  intros AG NW.
  assert (Same : forall s', same_reg s s' -> agree s' /\ s_nextpid s' <= s_nextpid s + 1).
  { intros s' SR. split; [eapply agree_frame; eauto|]. destruct SR as (_ & _ & _ & _ & ->). lia. }
  destruct o; cbn [exec];
    try (destruct (aget pid_dec _ (s_procs s)) as [pr|] eqn:E; [|apply Same, same_reg_refl]); cbn [fst].
  - apply spawn_agree; assumption.
  - apply spawn_agree; assumption.
  - split; [apply register_name_agree; assumption|]. unfold register_name.
    destruct (pr_name pr); [cbn; lia|]. destruct (ahas _ _ _); cbn; lia.
  - split; [apply unregister_name_agree; assumption|]. unfold unregister_name.
    destruct (aget N.eq_dec n (s_names s)) as [q|]; [|cbn; lia]. cbn [fst].
    destruct (drain_frame (TName n me) r_unreg
                (match aget pid_dec q (s_procs (set_names (adel N.eq_dec n (s_names s)) s)) with
                 | Some pr0 => set_proc q (mkproc (pr_parent pr0) None (pr_aliases pr0) (pr_events pr0)) (set_names (adel N.eq_dec n (s_names s)) s)
                 | None => set_names (adel N.eq_dec n (s_names s)) s end)) as (_ & _ & _ & _ & _ & F & _).
    rewrite F. destruct (aget pid_dec q _); cbn; lia.
  - split; [apply create_alias_agree; assumption|]. unfold create_alias. destruct (ahas _ _ _); cbn; lia.
  - split; [apply delete_alias_agree; assumption|]. unfold delete_alias.
    destruct (aget N.eq_dec a (s_aliases s)) as [q|]; [|cbn; lia]. destruct (pid_dec q p); [|cbn; lia]. cbn [fst]. fields.
    destruct (drain_frame (TAlias me a) r_unreg (set_aliases (adel N.eq_dec a (s_aliases s)) s)) as (_ & _ & _ & _ & _ & F & _).
    rewrite F. cbn. lia.
  - split; [apply register_event_agree; assumption|]. unfold register_event. destruct (ahas _ _ _); cbn; lia.
  - split; [apply unregister_event_agree; assumption|]. unfold unregister_event.
    destruct (aget N.eq_dec e (s_events s)) as [q|]; [|cbn; lia]. destruct (pid_dec q p); [|cbn; lia]. cbn [fst]. fields.
    destruct (drain_frame (TEvent e me) r_unreg (set_events (adel N.eq_dec e (s_events s)) s)) as (_ & _ & _ & _ & _ & F & _).
    rewrite F. cbn. lia.
  - destruct (self_target c pr t); [apply Same, same_reg_refl|]. destruct (tm_has _ _); [apply Same, same_reg_refl|].
    apply Same, route_add_frame.
  - destruct (tm_has _ _); [|apply Same, same_reg_refl]. apply Same, route_remove_frame.
  - destruct (tm_has _ _); [apply Same, same_reg_refl|]. apply Same, route_add_frame.
  - destruct (tm_has _ _); [|apply Same, same_reg_refl]. apply Same, route_remove_frame.
  - split; [eapply terminate_agree; eauto | rewrite terminate_nextpid; lia].
  - destruct (s_pending s) as [|[c r] tl]; [apply Same, same_reg_refl|]. cbn [fst].
    split; [apply terminate_agree'; eapply agree_frame; [|exact AG]; repeat split | rewrite terminate_nextpid; cbn; lia].
Qed.

Theorem run_ops_agree ops : forall s,
  agree s -> s_nextpid s + N.of_nat (length ops) < two64 -> agree (fst (run_ops ops s)).
Proof.
  induction ops as [|o ops IH]; intros s AG NW; cbn [run_ops]; [exact AG|].
  cbn [length] in NW.
  destruct (exec_agree o s AG ltac:(lia)) as [AG1 LE]. destruct (exec o s) as [s1 r]. cbn [fst] in *.
  specialize (IH s1 AG1 ltac:(lia)). destruct (run_ops ops s1) as [s2 rs]. exact IH.
Qed.

(* ====================================================================================== *)
(** * C04 over histories: every operation delivers exactly the notifications [expected] *)

Lemma cnt_inbox s s' x c : s_inbox s' = s_inbox s -> cnt x c s' = cnt x c s.
Proof. unfold cnt, inbox_of. intros ->. reflexivity. Qed.

Lemma memb_cons {A} (dec : forall a b : A, {a = b} + {a <> b}) x y l :
  memb dec x (y :: l) = if dec y x then true else memb dec x l.
Proof.
  destruct (dec y x) as [->|NE]; [apply memb_In; left; reflexivity|].
  apply memb_iff. cbn [In]. split; [intros [H|H]; [contradiction | exact H] | auto].
Qed.

Lemma in_map_equiv {A B} (f : A -> B) l l' y : (forall a, In a l <-> In a l') -> (In y (map f l) <-> In y (map f l')).
Proof. intros H. rewrite !in_map_iff. split; intros (a & E & HI); exists a; (split; [exact E | apply H; exact HI]). Qed.

Fixpoint drains_of (l : list tstep) : list (target * N) :=
  match l with
  | [] => []
  | TDrain t r :: tl => (t, r) :: drains_of tl
  | _ :: tl => drains_of tl
  end.

Lemma drains_of_app a b : drains_of (a ++ b) = drains_of a ++ drains_of b.
Proof. induction a as [|y a IH]; [reflexivity|]. destruct y; cbn [app drains_of]; rewrite IH; reflexivity. Qed.

Lemma drains_of_prog p pr r :
  drains_of (term_prog_of p pr r) =
  (TPid p, r) :: map (fun n => (TName n me, r)) (name_list pr) ++
                 map (fun a => (TAlias me a, r)) (pr_aliases pr) ++ map (fun e => (TEvent e me, r)) (pr_events pr).
Proof.
  assert (A : forall l, drains_of (flat_map (fun a => [TDelAlias a; TDrain (TAlias me a) r]) l) = map (fun a => (TAlias me a, r)) l).
  { induction l as [|a l IH]; [reflexivity|]. cbn [flat_map app drains_of map]. rewrite IH. reflexivity. }
  assert (B : forall l, drains_of (flat_map (fun e => [TDelEvent e; TDrain (TEvent e me) r]) l) = map (fun e => (TEvent e me, r)) l).
  { induction l as [|e l IH]; [reflexivity|]. cbn [flat_map app drains_of map]. rewrite IH. reflexivity. }
  unfold term_prog_of, name_list. destruct (pr_name pr); cbn [app drains_of map]; rewrite drains_of_app, A, B; reflexivity.
Qed.

(* what the drains [D] still to come will deliver to c *)
Definition hit (c : pid) (x : note) (s : st) (D : list (target * N)) : nat :=
  if live c s && mem_key (mkkey c (n_target x) (n_down x)) (rels (s_tm s)) && memb tr_dec (n_target x, n_reason x) D
  then 1%nat else 0%nat.

Lemma hit_ext c x s s' D :
  live c s' = live c s ->
  mem_key (mkkey c (n_target x) (n_down x)) (rels (s_tm s')) = mem_key (mkkey c (n_target x) (n_down x)) (rels (s_tm s)) ->
  hit c x s' D = hit c x s D.
Proof. intros A B. unfold hit. rewrite A, B. reflexivity. Qed.

Lemma live_del_other c q s : q <> c -> live c (set_procs (adel pid_dec q (s_procs s)) s) = live c s.
Proof. intros NE. unfold live, ahas. fields. rewrite aget_adel_neq by congruence. reflexivity. Qed.

Lemma tsteps_cnt_other c x l : forall s, idx_ok (s_tm s) ->
  (forall q, In (TDelProc q) l -> q <> c) -> (forall q, In (TCleanCons q) l -> q <> c) ->
  NoDup (map fst (drains_of l)) ->
  cnt x c (tsteps l s) = (cnt x c s + hit c x s (drains_of l))%nat.
Proof.
  induction l as [|y l IH]; intros s OK PD PC ND.
  - rewrite tsteps_nil. unfold hit. cbn [drains_of]. replace (memb tr_dec (n_target x, n_reason x) []) with false by reflexivity.
    rewrite andb_false_r. lia.
  - rewrite tsteps_cons.
    assert (PD' : forall q, In (TDelProc q) l -> q <> c) by (intros q H; apply PD; right; exact H).
    assert (PC' : forall q, In (TCleanCons q) l -> q <> c) by (intros q H; apply PC; right; exact H).
    destruct y as [q|t r|q|n pn|a|e]; cbn [drains_of] in *.
    + (* TDelProc *) rewrite IH; [|exact OK | exact PD' | exact PC' | exact ND]. cbn [tstep_exec].
      rewrite (hit_ext c x s (set_procs (adel pid_dec q (s_procs s)) s)); [reflexivity | apply live_del_other, PD; left; reflexivity | reflexivity].
    + (* TDrain *) cbn [map fst] in ND. inversion ND as [|? ? NI ND']; subst.
      rewrite IH; [|apply tstep_idx_ok, OK | exact PD' | exact PC' | exact ND']. cbn [tstep_exec].
      rewrite drain_exact by exact OK.
      assert (L : live c (drain t r s) = live c s).
      { unfold live. destruct (drain_frame t r s) as (A & _). rewrite A. reflexivity. }
      unfold hit. rewrite L, memb_cons. unfold due.
      set (k := mkkey c (n_target x) (n_down x)).
      destruct (target_dec (n_target x) t) as [Et|Nt].
      * assert (M1 : mem_key k (rels (s_tm (drain t r s))) = false).
        { apply memb_false. rewrite drain_rels by exact OK. intros [_ H]. apply H. exact Et. }
        rewrite M1, andb_false_r, andb_false_l.
        assert (KE : mkkey c t (n_down x) = k) by (unfold k; rewrite Et; reflexivity). rewrite KE.
        destruct (N.eq_dec (n_reason x) r) as [Er|Nr].
        -- destruct (tr_dec (t, r) (n_target x, n_reason x)) as [_|NE]; [|exfalso; apply NE; congruence].
           destruct (mem_key k (rels (s_tm s))), (live c s); cbn; lia.
        -- destruct (tr_dec (t, r) (n_target x, n_reason x)) as [E|_]; [inversion E; congruence|].
           assert (M2 : memb tr_dec (n_target x, n_reason x) (drains_of l) = false).
           { apply memb_false. intros H. apply NI. apply in_map_iff. exists (n_target x, n_reason x). split; [exact Et | exact H]. }
           rewrite M2, andb_false_r. lia.
      * assert (M1 : mem_key k (rels (s_tm (drain t r s))) = mem_key k (rels (s_tm s))).
        { apply memb_iff. rewrite drain_rels by exact OK. unfold k. cbn [kt]. tauto. }
        rewrite M1. destruct (tr_dec (t, r) (n_target x, n_reason x)) as [E|_]; [inversion E; congruence|]. lia.
    + (* TCleanCons *) rewrite IH; [|apply tstep_idx_ok, OK | exact PD' | exact PC' | exact ND]. cbn [tstep_exec].
      rewrite (hit_ext c x s (set_tm (fst (fst (tm_cleanup_consumer q (s_tm s)))) s)); [reflexivity | reflexivity|]. fields.
      apply memb_iff. pose proof (cleanup_consumer_spec q (s_tm s) OK) as [_ R]. rewrite R. cbn [kc].
      assert (q <> c) by (apply PC; left; reflexivity). split; [tauto | intros H0; split; [exact H0 | congruence]].
    + rewrite IH; [|exact OK | exact PD' | exact PC' | exact ND]. reflexivity.
    + rewrite IH; [|exact OK | exact PD' | exact PC' | exact ND]. reflexivity.
    + rewrite IH; [|exact OK | exact PD' | exact PC' | exact ND]. reflexivity.
Qed.

Lemma due_dead t r s c x : live c s = false -> due t r s c x = 0%nat.
Proof.
  intros L. unfold due. rewrite L. destruct (target_dec _ _); [|reflexivity]. destruct (N.eq_dec _ _); [|reflexivity].
  destruct (mem_key _ _); reflexivity.
Qed.

Lemma tsteps_cnt_dead c x l : forall s, idx_ok (s_tm s) -> live c s = false -> cnt x c (tsteps l s) = cnt x c s.
Proof.
  induction l as [|y l IH]; intros s OK L; [reflexivity|]. rewrite tsteps_cons.
  assert (L' : live c (tstep_exec y s) = false).
  { unfold live, ahas in *. destruct (tstep_tables y s) as (A & _).
    destruct (aget pid_dec c (s_procs s)) eqn:E; [discriminate|]. rewrite (A c E). reflexivity. }
  rewrite IH; [|apply tstep_idx_ok, OK | exact L'].
  destruct y; cbn [tstep_exec]; try reflexivity.
  rewrite drain_exact by exact OK. rewrite due_dead by exact L. lia.
Qed.

(* under agreement the drains of the termination program are exactly what the TABLES attribute to p *)
Lemma prog_drains_gone p pr r s :
  agree s -> aget pid_dec p (s_procs s) = Some pr ->
  (forall y, In y (drains_of (term_prog_of p pr r)) <-> In y (gone_terminate p r s)) /\
  NoDup (map fst (drains_of (term_prog_of p pr r))).
Proof.
  intros (A1 & A2 & A3 & _ & K1 & K2 & K3) E. rewrite drains_of_prog.
  destruct A1 as [R1 _], A2 as [R2 _], A3 as [R3 _].
  destruct (R1 p pr E) as [N1 I1]. destruct (R2 p pr E) as [N2 I2]. destruct (R3 p pr E) as [N3 I3]. split.
  - intros y. unfold gone_terminate, live, ahas. rewrite E.
    assert (EN : In y (map (fun n => (TName n me, r)) (name_list pr)) <-> In y (map (fun n => (TName n me, r)) (owned p (s_names s)))).
    { apply in_map_equiv. intros a. rewrite In_owned by exact K1. apply I1. }
    assert (EA : In y (map (fun a => (TAlias me a, r)) (pr_aliases pr)) <-> In y (map (fun a => (TAlias me a, r)) (owned p (s_aliases s)))).
    { apply in_map_equiv. intros a. rewrite In_owned by exact K2. apply I2. }
    assert (EE : In y (map (fun e => (TEvent e me, r)) (pr_events pr)) <-> In y (map (fun e => (TEvent e me, r)) (owned p (s_events s)))).
    { apply in_map_equiv. intros a. rewrite In_owned by exact K3. apply I3. }
    cbn [In]. rewrite !in_app_iff. tauto.
  - cbn [map fst]. rewrite !map_app, !map_map. cbn [fst]. constructor.
    + rewrite !in_app_iff, !in_map_iff. intros [(n & H & _)|[(a & H & _)|(e & H & _)]]; discriminate.
    + apply NoDup_app_intro; [|apply NoDup_app_intro|].
      * apply NoDup_map_inj; [intros a b H; inversion H; reflexivity | exact N1].
      * apply NoDup_map_inj; [intros a b H; inversion H; reflexivity | exact N2].
      * apply NoDup_map_inj; [intros a b H; inversion H; reflexivity | exact N3].
      * intros z H1 H2. apply in_map_iff in H1. apply in_map_iff in H2. destruct H1 as (a & <- & _). destruct H2 as (e & H & _). discriminate.
      * intros z H1 H2. apply in_map_iff in H1. destruct H1 as (n & <- & _). apply in_app_iff in H2.
        destruct H2 as [H2|H2]; apply in_map_iff in H2; destruct H2 as (a & H & _); discriminate.
Qed.

Theorem terminate_cnt p r s c x :
  agree s -> idx_ok (s_tm s) ->
  cnt x c (terminate p r s) =
  (cnt x c s + (if memb tr_dec (n_target x, n_reason x) (gone_terminate p r s)
                   && mem_key (mkkey c (n_target x) (n_down x)) (rels (s_tm s))
                   && live c s && negb (if pid_dec p c then true else false) then 1 else 0))%nat.
Proof.
  intros AG OK. destruct (aget pid_dec p (s_procs s)) as [pr|] eqn:E.
  2:{ rewrite terminate_dead by exact E. unfold gone_terminate, live, ahas. rewrite E. cbn. lia. }
  destruct (pid_dec p c) as [->|NE].
  - rewrite !andb_false_r. unfold terminate, term_prog. rewrite E. unfold term_prog_of. rewrite tsteps_cons.
    rewrite tsteps_cnt_dead; [cbn [tstep_exec]; unfold cnt, inbox_of; fields; lia | exact OK |].
    cbn [tstep_exec]. unfold live, ahas. fields. rewrite aget_adel_eq. reflexivity.
  - unfold terminate, term_prog. rewrite E.
    destruct (prog_drains_gone p pr r s AG E) as [IN ND].
    rewrite tsteps_cnt_other; [|exact OK | | | exact ND].
    + unfold hit. rewrite (memb_iff tr_dec _ _ _ (IN (n_target x, n_reason x))).
      destruct (live c s), (mem_key _ _), (memb tr_dec _ _); reflexivity.
    + intros q H. prog_cases H. inversion H. congruence.
    + intros q H. prog_cases H. inversion H. congruence.
Qed.

(* ---------- single-target operations ---------- *)
Lemma expected_none o s c x : gone o s = [] -> expected o s c x = 0%nat.
Proof. intros G. unfold expected. rewrite G. reflexivity. Qed.

Lemma single_expected o s c x t r s2 :
  gone o s = [(t, r)] -> victim o s = None -> s_tm s2 = s_tm s -> live c s2 = live c s ->
  due t r s2 c x = expected o s c x.
Proof.
  intros G V TM L. unfold expected, is_victim, due. rewrite G, V, TM, L, memb_cons.
  replace (memb tr_dec (n_target x, n_reason x) []) with false by reflexivity.
  destruct (target_dec (n_target x) t) as [Et|Nt].
  - destruct (N.eq_dec (n_reason x) r) as [Er|Nr].
    + destruct (tr_dec (t, r) (n_target x, n_reason x)) as [_|NE]; [|exfalso; apply NE; congruence].
      rewrite Et. destruct (mem_key _ _), (live c s); reflexivity.
    + destruct (tr_dec (t, r) (n_target x, n_reason x)) as [E|_]; [inversion E; congruence | reflexivity].
  - destruct (tr_dec (t, r) (n_target x, n_reason x)) as [E|_]; [inversion E; congruence | reflexivity].
Qed.

Lemma spawn_inbox parent (name : option atom) lc lp s : s_inbox (fst (spawn parent name lc lp s)) = s_inbox s.
Proof.
  unfold spawn. destruct (match name with Some n => ahas N.eq_dec n (s_names s) | None => false end); [reflexivity|].
  destruct name, lc, lp; reflexivity.
Qed.

Lemma live_set_proc c q pr' s : live q s = true -> live c (set_proc q pr' s) = live c s.
Proof.
  intros L. unfold live, ahas in *. fields. rewrite upd_proc_set. destruct (pid_dec c q) as [->|]; [|reflexivity].
  destruct (aget pid_dec q (s_procs s)); [reflexivity | discriminate].
Qed.

Theorem exec_cnt o s c x :
  agree s -> idx_ok (s_tm s) -> cnt x c (fst (exec o s)) = (cnt x c s + expected o s c x)%nat.
Proof.
  intros AG OK.
  assert (Quiet : forall s', s_inbox s' = s_inbox s -> gone o s = [] -> cnt x c s' = (cnt x c s + expected o s c x)%nat).
  { intros s' I G. rewrite (cnt_inbox s s') by exact I. rewrite expected_none by exact G. lia. }
  destruct o; cbn [exec].
  - apply Quiet; [apply spawn_inbox | reflexivity].
  - destruct (aget pid_dec parent (s_procs s)); (apply Quiet; [|reflexivity]); [apply spawn_inbox | reflexivity].
  - destruct (aget pid_dec p (s_procs s)) as [pr|]; (apply Quiet; [|reflexivity]); [|reflexivity].
    unfold register_name. destruct (pr_name pr); [reflexivity|]. destruct (ahas _ _ _); reflexivity.
  - (* OUnregisterName *)
    destruct (aget pid_dec p (s_procs s)) as [pr|] eqn:E.
    2:{ apply Quiet; [reflexivity|]. cbn [gone]. unfold live, ahas. rewrite E. reflexivity. }
    unfold unregister_name. destruct (aget N.eq_dec n (s_names s)) as [q|] eqn:T.
    2:{ apply Quiet; [reflexivity|]. cbn [gone]. unfold ahas. rewrite T. rewrite andb_false_r. reflexivity. }
    cbn [fst].
    set (s1 := set_names (adel N.eq_dec n (s_names s)) s).
    set (s2 := match aget pid_dec q (s_procs s1) with
               | Some pr0 => set_proc q (mkproc (pr_parent pr0) None (pr_aliases pr0) (pr_events pr0)) s1
               | None => s1 end).
    assert (TM : s_tm s2 = s_tm s) by (unfold s2; destruct (aget pid_dec q (s_procs s1)); reflexivity).
    assert (IB : s_inbox s2 = s_inbox s) by (unfold s2; destruct (aget pid_dec q (s_procs s1)); reflexivity).
    assert (LV : live c s2 = live c s).
    { unfold s2. destruct (aget pid_dec q (s_procs s1)) eqn:Eq; [|reflexivity].
      rewrite live_set_proc; [reflexivity|]. unfold live, ahas. rewrite Eq. reflexivity. }
    rewrite drain_exact by (rewrite TM; exact OK). rewrite (cnt_inbox s s2) by exact IB.
    f_equal. apply single_expected; [|reflexivity | exact TM | exact LV].
    cbn [gone]. unfold live, ahas. rewrite E, T. reflexivity.
  - destruct (aget pid_dec p (s_procs s)) as [pr|]; (apply Quiet; [|reflexivity]); [|reflexivity].
    unfold create_alias. destruct (ahas _ _ _); reflexivity.
  - (* ODeleteAlias *)
    destruct (aget pid_dec p (s_procs s)) as [pr|] eqn:E.
    2:{ apply Quiet; [reflexivity|]. cbn [gone]. unfold live, ahas. rewrite E. reflexivity. }
    unfold delete_alias. destruct (aget N.eq_dec a (s_aliases s)) as [q|] eqn:T.
    2:{ apply Quiet; [reflexivity|]. cbn [gone]. rewrite T. rewrite andb_false_r. reflexivity. }
    destruct (pid_dec q p) as [->|D].
    2:{ apply Quiet; [reflexivity|]. cbn [gone]. rewrite T. destruct (pid_dec q p); [contradiction|]. rewrite andb_false_r. reflexivity. }
    cbn [fst]. set (s1 := set_aliases (adel N.eq_dec a (s_aliases s)) s).
    rewrite (cnt_inbox (drain (TAlias me a) r_unreg s1)) by reflexivity.
    rewrite drain_exact by exact OK. f_equal. apply single_expected; [|reflexivity | reflexivity | reflexivity].
    cbn [gone]. unfold live, ahas. rewrite E, T. destruct (pid_dec p p); [reflexivity | congruence].
  - destruct (aget pid_dec p (s_procs s)) as [pr|]; (apply Quiet; [|reflexivity]); [|reflexivity].
    unfold register_event. destruct (ahas _ _ _); reflexivity.
  - (* OUnregisterEvent *)
    destruct (aget pid_dec p (s_procs s)) as [pr|] eqn:E.
    2:{ apply Quiet; [reflexivity|]. cbn [gone]. unfold live, ahas. rewrite E. reflexivity. }
    unfold unregister_event. destruct (aget N.eq_dec e (s_events s)) as [q|] eqn:T.
    2:{ apply Quiet; [reflexivity|]. cbn [gone]. rewrite T. rewrite andb_false_r. reflexivity. }
    destruct (pid_dec q p) as [->|D].
    2:{ apply Quiet; [reflexivity|]. cbn [gone]. rewrite T. destruct (pid_dec q p); [contradiction|]. rewrite andb_false_r. reflexivity. }
    cbn [fst]. set (s1 := set_events (adel N.eq_dec e (s_events s)) s).
    rewrite (cnt_inbox (drain (TEvent e me) r_unreg s1)) by reflexivity.
    rewrite drain_exact by exact OK. f_equal. apply single_expected; [|reflexivity | reflexivity | reflexivity].
    cbn [gone]. unfold live, ahas. rewrite E, T. destruct (pid_dec p p); [reflexivity | congruence].
  - destruct (aget pid_dec c0 (s_procs s)) as [pr|]; (apply Quiet; [|reflexivity]); [|reflexivity].
    destruct (self_target c0 pr t); [reflexivity|]. destruct (tm_has _ _); [reflexivity|]. apply route_add_frame.
  - destruct (aget pid_dec c0 (s_procs s)) as [pr|]; (apply Quiet; [|reflexivity]); [|reflexivity].
    destruct (tm_has _ _); [|reflexivity]. apply route_remove_frame.
  - destruct (aget pid_dec c0 (s_procs s)) as [pr|]; (apply Quiet; [|reflexivity]); [|reflexivity].
    destruct (tm_has _ _); [reflexivity|]. apply route_add_frame.
  - destruct (aget pid_dec c0 (s_procs s)) as [pr|]; (apply Quiet; [|reflexivity]); [|reflexivity].
    destruct (tm_has _ _); [|reflexivity]. apply route_remove_frame.
  - (* OTerminate *)
    destruct (aget pid_dec p (s_procs s)) as [pr|] eqn:E.
    2:{ apply Quiet; [reflexivity|]. cbn [gone]. unfold gone_terminate, live, ahas. rewrite E. reflexivity. }
    cbn [fst]. rewrite terminate_cnt by assumption. reflexivity.
  - (* OCascade *)
    destruct (s_pending s) as [|[v r] tl] eqn:P.
    { apply Quiet; [reflexivity|]. cbn [gone]. rewrite P. reflexivity. }
    cbn [fst]. rewrite terminate_cnt; [|eapply agree_frame; [|exact AG]; repeat split | exact OK].
    unfold expected, is_victim. cbn [gone victim]. rewrite P. reflexivity.
Qed.

(** every process finds in its mailbox, for every note, exactly the number of copies the
    table-based specification prescribes — over any history *)
Theorem run_ops_cnt ops : forall s c x,
  agree s -> idx_ok (s_tm s) -> s_nextpid s + N.of_nat (length ops) < two64 ->
  cnt x c (fst (run_ops ops s)) = (cnt x c s + expected_total ops s c x)%nat.
Proof.
  induction ops as [|o ops IH]; intros s c x AG OK NW; cbn [run_ops expected_total]; [cbn [fst]; lia|].
  cbn [length] in NW.
  destruct (exec_agree o s AG ltac:(lia)) as [AG1 LE].
  pose proof (exec_idx_ok o s OK) as OK1. pose proof (exec_cnt o s c x AG OK) as C1.
  destruct (exec o s) as [s1 r1]. cbn [fst] in *.
  specialize (IH s1 c x AG1 OK1 ltac:(lia)). destruct (run_ops ops s1) as [s2 rs]. cbn [fst] in *. lia.
Qed.

(* the specification [expected] spelled out *)
Lemma expected_spec o s c x :
  (expected o s c x = 1%nat <->
     In (n_target x, n_reason x) (gone o s) /\ In (mkkey c (n_target x) (n_down x)) (rels (s_tm s)) /\
     live c s = true /\ victim o s <> Some c) /\
  (expected o s c x = 1%nat \/ expected o s c x = 0%nat).
Proof.
  unfold expected, is_victim.
  destruct (memb tr_dec (n_target x, n_reason x) (gone o s)) eqn:G;
    [apply memb_In in G | apply memb_false in G];
  (destruct (mem_key (mkkey c (n_target x) (n_down x)) (rels (s_tm s))) eqn:M;
    [apply memb_In in M | apply memb_false in M]);
  destruct (live c s); destruct (victim o s) as [v|]; try destruct (pid_dec v c) as [->|NE]; cbn;
    (split; [split; [try discriminate; intros _; repeat split; auto; congruence
                    | intros (A & B & C & D); try contradiction; try discriminate; try congruence] | auto]).
Qed.

Lemma gone_terminate_spec p r s t r' :
  agree s ->
  (In (t, r') (gone_terminate p r s) <->
   live p s = true /\ r' = r /\
   (t = TPid p \/ (exists n, t = TName n me /\ aget N.eq_dec n (s_names s) = Some p) \/
    (exists a, t = TAlias me a /\ aget N.eq_dec a (s_aliases s) = Some p) \/
    (exists e, t = TEvent e me /\ aget N.eq_dec e (s_events s) = Some p))).
Proof.
  intros (_ & _ & _ & _ & K1 & K2 & K3). unfold gone_terminate. destruct (live p s); [|split; [intros [] | intros [H _]; discriminate]].
  cbn [In]. rewrite !in_app_iff, !in_map_iff. split.
  - intros [H|[(n & H & HI)|[(a & H & HI)|(e & H & HI)]]]; inversion H; subst; (split; [reflexivity|]); (split; [reflexivity|]).
    + left; reflexivity.
    + right; left. exists n. split; [reflexivity | apply In_owned; assumption].
    + right; right; left. exists a. split; [reflexivity | apply In_owned; assumption].
    + right; right; right. exists e. split; [reflexivity | apply In_owned; assumption].
  - intros (_ & -> & [->|[(n & -> & H)|[(a & -> & H)|(e & -> & H)]]]).
    + left; reflexivity.
    + right; left. exists n. split; [reflexivity | apply In_owned; assumption].
    + right; right; left. exists a. split; [reflexivity | apply In_owned; assumption].
    + right; right; right. exists e. split; [reflexivity | apply In_owned; assumption].
Qed.

(* ====================================================================================== *)
(** * C06 over histories: what a termination releases, stated from the tables only *)
Theorem release_hist s p r :
  agree s -> idx_ok (s_tm s) -> live p s = true ->
  let s' := fst (exec (OTerminate p r) s) in
  live p s' = false /\
  ((forall n, aget N.eq_dec n (s_names s') <> Some p) /\
   (forall a, aget N.eq_dec a (s_aliases s') <> Some p) /\
   (forall e, aget N.eq_dec e (s_events s') <> Some p)) /\
  ((forall n, aget N.eq_dec n (s_names s) = Some p -> aget N.eq_dec n (s_names s') = None) /\
   (forall a, aget N.eq_dec a (s_aliases s) = Some p -> aget N.eq_dec a (s_aliases s') = None) /\
   (forall e, aget N.eq_dec e (s_events s) = Some p -> aget N.eq_dec e (s_events s') = None)) /\
  (forall k, In k (rels (s_tm s')) ->
     In k (rels (s_tm s)) /\ kc k <> p /\ kt k <> TPid p /\
     (forall n, aget N.eq_dec n (s_names s) = Some p -> kt k <> TName n me) /\
     (forall a, aget N.eq_dec a (s_aliases s) = Some p -> kt k <> TAlias me a) /\
     (forall e, aget N.eq_dec e (s_events s) = Some p -> kt k <> TEvent e me)) /\
  agree s'.
Proof.
  intros AG OK L. cbn zeta. cbn [exec]. unfold live, ahas in L.
  destruct (aget pid_dec p (s_procs s)) as [pr|] eqn:E; [|discriminate]. cbn [fst].
  pose proof (terminate_agree p pr r s AG E) as AG'.
  destruct (terminate_release_tables p pr r s E) as (T1 & T2 & T3 & T4). cbn zeta in *.
  destruct (agree_spelled s AG p pr E) as (I1 & _ & I2 & _ & I3).
  assert (D : live p (terminate p r s) = false) by (unfold live, ahas; rewrite T1; reflexivity).
  destruct (agree_entries_live _ AG') as (L1 & L2 & L3).
  split; [exact D|]. split; [|split; [|split; [|exact AG']]].
  - repeat split; intros k H; [apply L1 in H | apply L2 in H | apply L3 in H]; congruence.
  - repeat split.
    + intros n H. destruct (aget N.eq_dec n (s_names (terminate p r s))) as [v|] eqn:V; [|reflexivity].
      exfalso. apply L1 in V as LV. unfold terminate, term_prog in V. rewrite E in V.
      destruct (tsteps_sub (term_prog_of p pr r) s) as (_ & SN & _). apply SN in V. congruence.
    + intros a H. apply T3, I2, H.
    + intros e H. apply T4, I3, H.
  - intros k HI. destruct (terminate_release_relations p pr r s k OK E HI) as (R1 & R2 & R3 & R4 & R5 & R6).
    split; [exact R1|]. split; [exact R2|]. split; [exact R3|]. split; [|split].
    + intros n H. apply R4, I1, H.
    + intros a H. apply R5, I2, H.
    + intros e H. apply R6, I3, H.
Qed.

(* ====================================================================================== *)
(** * The pre-fix DeleteAlias breaks the invariant: four operations *)
Definition refute_ops : list op :=
  [OSpawnNode None; OCreateAlias (lpid 1001); OCreateAlias (lpid 1001); ODeleteAlias (lpid 1001) 2].

Theorem delete_alias_breaks_agreement_before_fix :
  ~ agree (fst (run_ops_old refute_ops (st0 1000 0))).
Proof.
  intros AG.
  assert (E : aget pid_dec (lpid 1001) (s_procs (fst (run_ops_old refute_ops (st0 1000 0)))) = Some (mkproc core_pid None [2] []))
    by (vm_compute; reflexivity).
  destruct (agree_spelled _ AG _ _ E) as (_ & _ & I2 & _).
  pose proof (proj1 (I2 2) (or_introl eq_refl)) as H. vm_compute in H. discriminate H.
Qed.

(* ... and what the break means: after the owner is killed its first alias still resolves to it *)
Definition refute_leak_b : bool :=
  let s := fst (run_ops_old (refute_ops ++ [OTerminate (lpid 1001) r_kill]) (st0 1000 0)) in
  negb (live (lpid 1001) s) &&
  (match aget N.eq_dec 1 (s_aliases s) with Some q => if pid_dec q (lpid 1001) then true else false | None => false end).
Lemma refute_leak : refute_leak_b = true. Proof. vm_compute. reflexivity. Qed.

(* the same four operations with the code as it is now *)
Lemma refute_ops_now :
  let s := fst (run_ops (refute_ops ++ [OTerminate (lpid 1001) r_kill]) (st0 1000 0)) in
  s_aliases s = [] /\ s_procs s = [].
Proof. vm_compute. split; reflexivity. Qed.

(* the record-relative form of the release (what unregisterProcess reads off the process record),
   now a corollary: in a state satisfying the invariant the record and the tables say the same *)
Lemma release_record s p pr r k :
  agree s -> idx_ok (s_tm s) -> aget pid_dec p (s_procs s) = Some pr ->
  let s' := terminate p r s in
  (aget pid_dec p (s_procs s') = None /\
   (forall n, pr_name pr = Some n -> aget N.eq_dec n (s_names s') = None) /\
   (forall a, In a (pr_aliases pr) -> aget N.eq_dec a (s_aliases s') = None) /\
   (forall e, In e (pr_events pr) -> aget N.eq_dec e (s_events s') = None)) /\
  (In k (rels (s_tm s')) ->
   In k (rels (s_tm s)) /\ kc k <> p /\ kt k <> TPid p /\
   (forall n, pr_name pr = Some n -> kt k <> TName n me) /\
   (forall a, In a (pr_aliases pr) -> kt k <> TAlias me a) /\
   (forall e, In e (pr_events pr) -> kt k <> TEvent e me)).
Proof.
  intros AG OK E. cbn zeta.
  assert (L : live p s = true) by (unfold live, ahas; rewrite E; reflexivity).
  pose proof (release_hist s p r AG OK L) as H. cbn zeta in H. cbn [exec] in H. rewrite E in H. cbn [fst] in H.
  destruct H as (_ & _ & (F1 & _ & _) & _).
  destruct (terminate_release_tables p pr r s E) as (T1 & _ & T3 & T4). cbn zeta in *.
  destruct (agree_spelled s AG p pr E) as (I1 & _).
  split.
  - split; [exact T1|]. split; [|split; [exact T3 | exact T4]]. intros n En. apply F1, I1, En.
  - apply terminate_release_relations; assumption.
Qed.
