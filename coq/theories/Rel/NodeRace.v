(* Rel engine — LinkNode / MonitorNode against the loss of the connection to that node.
   Definitions only.  The target is a node name; "the target exists" = the connection table of the
   network stack has an entry for it; the drain is RouteNodeDown = CleanupNode + one exit/down
   message per reported (target, consumer).  Proofs: NodeRaceProofs.v.

   node/network.go
     func (n *network) unregisterConnection(name gen.Atom, reason error) {
         n.connections.Delete(name)
         ... log ...
         n.node.RouteNodeDown(name, reason)          // CleanupNode(name); sends
     }
   node/process.go (after commit da9362c)
     func (p *process) MonitorNode(target gen.Atom) error {      // LinkNode: the same with *Link
         if p.node.targetManager.HasMonitor(p.pid, target) { return gen.ErrTargetExist }
         if _, err := p.Node().Network().GetNode(target); err != nil { return err }   // connections.Load
         p.node.targetManager.AddMonitor(p.pid, target)
         if _, err := p.node.network.Connection(target); err != nil {                  // connections.Load
             if p.node.targetManager.RemoveMonitor(p.pid, target) == nil { return gen.ErrNoConnection }
         }
         return nil
     }
   Before that commit the function ended after AddMonitor ([recheck] = false below).
   GetNode dials when there is no connection; the model covers the case where it cannot (no route):
   a lookup that finds no entry fails. *)
From Ergo Require Import Common.Base Rel.Amap Rel.Model Rel.RaceGen.
Local Open Scope N_scope.

Definition e_noconn : N := 12.     (* gen.ErrNoConnection / gen.ErrNoRoute *)

Definition tc_dec : forall a b : target * pid, {a = b} + {a <> b}.
Proof. decide equality; [apply pid_dec | apply target_dec]. Defined.

Record nst := mknst {
  ns_conns : list (atom * N);            (* n.connections: node name -> connection *)
  ns_tm : tm;                            (* n.targetManager *)
  ns_exit : list (target * pid);         (* MessageExit* sent by RouteNodeDown: (target, receiver) *)
  ns_down : list (target * pid)          (* MessageDown* sent by RouteNodeDown *)
}.

Inductive nstep := NDel (n : atom) | NDrain (n : atom).

(*  RouteNodeDown(name):  l, mo := n.targetManager.CleanupNode(name)
      for target, consumers := range l  { for _, pid := range consumers { sendExitMessage(.., pid, MessageExit*{target}) } }
      for target, consumers := range mo { for _, pid := range consumers { RouteSendPID(.., pid, MessageDown*{target}) } } *)
Definition ndrain (n : atom) (s : nst) : nst :=
  let '(m', l, mo) := tm_cleanup_node n (ns_tm s) in
  mknst (ns_conns s) m' (ns_exit s ++ l) (ns_down s ++ mo).

Definition nstep_exec (y : nstep) (s : nst) : nst :=
  match y with
  | NDel n => mknst (adel N.eq_dec n (ns_conns s)) (ns_tm s) (ns_exit s) (ns_down s)
  | NDrain n => ndrain n s
  end.

(* unregisterConnection: [del_first] = true is the order of the code *)
Definition unreg_conn_prog (del_first : bool) (n : atom) : list nstep :=
  if del_first then [NDel n; NDrain n] else [NDrain n; NDel n].

Inductive npc := NL_load | NL_add | NL_recheck | NL_undo | NL_done (r : res).

Definition nconn (n : atom) (s : nst) : bool := ahas N.eq_dec n (ns_conns s).
Definition set_ntm (m : tm) (s : nst) : nst := mknst (ns_conns s) m (ns_exit s) (ns_down s).

Definition nlstep (recheck : bool) (k : key) (n : atom) (pc : npc) (s : nst) : npc * nst :=
  match pc with
  | NL_load => if nconn n s then (NL_add, s) else (NL_done (RErr e_noconn), s)
  | NL_add => let '(m', _) := tm_add k (ns_tm s) in
              ((if recheck then NL_recheck else NL_done ROk), set_ntm m' s)
  | NL_recheck => if nconn n s then (NL_done ROk, s) else (NL_undo, s)
  | NL_undo => let '(m', ok) := tm_remove k (ns_tm s) in
               if ok then (NL_done (RErr e_noconn), set_ntm m' s) else (NL_done ROk, s)
  | NL_done _ => (pc, s)
  end.

Record ncfg := mkncfg { nc_st : nst; nc_pc : npc; nc_rem : list nstep }.

(* schedule: true = the requester's next step, false = the remover's next step *)
Definition ncstep (recheck : bool) (k : key) (n : atom) (b : bool) (c : ncfg) : ncfg :=
  if b then let '(pc', s') := nlstep recheck k n (nc_pc c) (nc_st c) in mkncfg s' pc' (nc_rem c)
  else match nc_rem c with
       | [] => c
       | y :: tl => mkncfg (nstep_exec y (nc_st c)) (nc_pc c) tl
       end.
Definition nrun (recheck : bool) (k : key) (n : atom) (sched : list bool) (c : ncfg) : ncfg :=
  fold_left (fun c b => ncstep recheck k n b c) sched c.
Definition nfinished (c : ncfg) : bool :=
  match nc_pc c, nc_rem c with NL_done _, [] => true | _, _ => false end.
Definition nresult (c : ncfg) : res := match nc_pc c with NL_done r => r | _ => RErr 0 end.

(* observables *)
Definition nhas (k : key) (s : nst) : bool := mem_key k (rels (ns_tm s)).
Definition ncnt (k : key) (s : nst) : nat :=
  count_occ tc_dec (if km k then ns_down s else ns_exit s) (kt k, kc k).

(* the scenario driven on two real nodes (go/harness/cmd/rel/ilvnode.go): node 7 connected,
   requester 1002 on this node, no relations *)
Definition nrace_state : nst := mknst [(7, 1)] tm_empty [] [].
Definition nrace_key (mon : bool) : key := mkkey (lpid 1002) (TNode 7) mon.
