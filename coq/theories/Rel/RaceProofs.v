(* Rel engine — the link/monitor request racing with the termination of the target's owner:
   for EVERY schedule, the request returns an error (nothing delivered) or exactly one
   notification is delivered (or the target was not among the things that went away). *)
From Ergo Require Import Common.Base Rel.Amap Rel.Model Rel.TMProofs Rel.RegProofs.
Local Open Scope N_scope.

Section Race.
  Variable k : key.          (* the relation requested: consumer, target, kind *)
  Variable r : N.            (* reason of the termination *)
  Variable n0 : nat.         (* notifications about this target already in the requester's mailbox *)
  Let c0 := kc k.
  Let t := kt k.
  Let x := mknote (km k) t r.

  Definition has (s : st) : bool := mem_key k (rels (s_tm s)).
  Definition nn (s : st) : nat := cnt x c0 s.

  Definition deletes (y : tstep) : bool :=
    match y, t with
    | TDelProc q, TPid q' => if pid_dec q q' then true else false
    | TDelName n _, TName n' _ => n =? n'
    | TDelAlias a, TAlias _ a' => a =? a'
    | TDelEvent e, TEvent e' _ => e =? e'
    | _, _ => false
    end.
  Definition is_drain (y : tstep) : bool :=
    match y with TDrain t' r' => if target_dec t' t then true else false | _ => false end.

  (* every delete of the target is followed by its drain *)
  Fixpoint covered (l : list tstep) : bool :=
    match l with
    | [] => true
    | y :: tl => (if deletes y then existsb is_drain tl else true) && covered tl
    end.

  Definition prog_ok (l : list tstep) : Prop :=
    covered l = true /\
    (forall t' r', In (TDrain t' r') l -> t' = t -> r' = r) /\
    (forall q, In (TDelProc q) l -> q <> c0) /\
    (forall q, In (TCleanCons q) l -> q <> c0).

  Lemma prog_ok_tl y l : prog_ok (y :: l) -> prog_ok l.
  Proof.
    intros (C & D & P & Q). cbn [covered] in C. apply andb_true_iff in C. destruct C as [_ C].
    repeat split; auto; intros; [eapply D | eapply P | eapply Q]; eauto; right; eauto.
  Qed.

  (* ---- effect of one step of the terminating process on the three observables ---- *)
  Lemma exists_frame s s' :
    s_procs s' = s_procs s -> s_names s' = s_names s -> s_aliases s' = s_aliases s -> s_events s' = s_events s ->
    forall t', exists_target t' s' = exists_target t' s.
  Proof. intros A B C D t'. destruct t'; cbn [exists_target]; congruence. Qed.

  Lemma tstep_effect y s :
    idx_ok (s_tm s) -> live c0 s = true ->
    (forall q, y = TDelProc q -> q <> c0) -> (forall q, y = TCleanCons q -> q <> c0) ->
    (forall t' r', y = TDrain t' r' -> t' = t -> r' = r) ->
    let s' := tstep_exec y s in
    live c0 s' = true /\
    (if is_drain y then has s' = false /\ nn s' = (nn s + (if has s then 1 else 0))%nat
     else has s' = has s /\ nn s' = nn s) /\
    (deletes y = false -> exists_target t s' = exists_target t s).
  Proof.
    intros OK L P Q D. destruct y as [q|t' r'|q|n pn|a|e]; cbn [tstep_exec is_drain].
    - (* TDelProc *) specialize (P q eq_refl). split; [|split; [split; reflexivity|]].
      + unfold live, ahas in *. cbn. rewrite aget_adel_neq by congruence. exact L.
      + intros Dl. unfold deletes in Dl. destruct t as [q'| | | |] eqn:Et; try reflexivity.
        cbn [exists_target]. unfold ahas. cbn. destruct (pid_dec q q') as [|NE]; [discriminate|].
        rewrite aget_adel_neq by congruence. reflexivity.
    - (* TDrain *)
      destruct (drain_frame t' r' s) as (A & B & C & E & F & _).
      split; [unfold live; rewrite A; exact L|]. split.
      + destruct (target_dec t' t) as [->|NE].
        * specialize (D t r' eq_refl eq_refl). subst r'. split.
          -- unfold has. apply memb_false. rewrite drain_rels by exact OK. intros [_ H]. apply H. reflexivity.
          -- unfold nn. rewrite drain_exact by exact OK. unfold due, x. cbn [n_target n_reason n_down].
             destruct (target_dec t t); [|congruence]. destruct (N.eq_dec r r); [|congruence].
             unfold has. replace (mkkey c0 t (km k)) with k by (destruct k; reflexivity).
             rewrite L. reflexivity.
        * split.
          -- unfold has, mem_key. destruct (memb key_dec k (rels (s_tm s))) eqn:M.
             ++ apply memb_In. apply memb_In in M. apply drain_rels; [exact OK|]. split; [exact M|]. exact (fun H => NE (eq_sym H)).
             ++ apply memb_false. apply memb_false in M. intros H. apply drain_rels in H; [|exact OK]. tauto.
          -- unfold nn. rewrite drain_exact by exact OK. unfold due, x. cbn [n_target].
             destruct (target_dec t t') as [E2|_]; [congruence|]. lia.
      + intros _. apply exists_frame; assumption.
    - (* TCleanCons *) specialize (Q q eq_refl). split; [exact L|]. split; [split; [|reflexivity]|intros _; reflexivity].
      unfold has, mem_key. cbn [s_tm set_tm].
      pose proof (cleanup_consumer_spec q (s_tm s) OK) as [_ R].
      destruct (memb key_dec k (rels (s_tm s))) eqn:M.
      + apply memb_In. apply memb_In in M. apply R. split; [exact M|]. exact (fun H => Q (eq_sym H)).
      + apply memb_false. apply memb_false in M. intros H. apply R in H. tauto.
    - (* TDelName *) split; [exact L|]. split; [split; reflexivity|]. intros Dl. unfold deletes in Dl.
      destruct t as [|n' nd| | |] eqn:Et; try reflexivity. cbn [exists_target]. unfold ahas. cbn.
      apply N.eqb_neq in Dl. rewrite aget_cdel_neq by congruence. reflexivity.
    - (* TDelAlias *) split; [exact L|]. split; [split; reflexivity|]. intros Dl. unfold deletes in Dl.
      destruct t as [| |nd a'| |] eqn:Et; try reflexivity. cbn [exists_target]. unfold ahas. cbn.
      apply N.eqb_neq in Dl. rewrite aget_adel_neq by congruence. reflexivity.
    - (* TDelEvent *) split; [exact L|]. split; [split; reflexivity|]. intros Dl. unfold deletes in Dl.
      destruct t as [| | |e' nd|] eqn:Et; try reflexivity. cbn [exists_target]. unfold ahas. cbn.
      apply N.eqb_neq in Dl. rewrite aget_adel_neq by congruence. reflexivity.
  Qed.

  (* ---- the invariant ---- *)
  Definition pc_inv (pc : lpc) (s : st) (rem : list tstep) : Prop :=
    match pc with
    | L_load | L_add => has s = false /\ nn s = n0
    | L_recheck | L_remove => (has s = true /\ nn s = n0) \/ (has s = false /\ nn s = S n0)
    | L_done (RErr _) => has s = false /\ nn s = n0
    | L_done ROk =>
        (has s = false /\ nn s = S n0) \/
        (has s = true /\ nn s = n0 /\ (exists_target t s = true \/ existsb is_drain rem = true))
    | L_done _ => False
    end.

  Definition inv (c : cfg) : Prop :=
    l_key (c_link c) = k /\ idx_ok (s_tm (c_st c)) /\ live c0 (c_st c) = true /\ prog_ok (c_term c) /\
    pc_inv (l_pc (c_link c)) (c_st c) (c_term c).

  Lemma inv_intro s l rem dy :
    l_key l = k -> idx_ok (s_tm s) -> live c0 s = true -> prog_ok rem -> pc_inv (l_pc l) s rem ->
    inv (mkcfg s l rem dy).
  Proof. intros A B C D E. unfold inv. cbn [c_link c_st c_term]. split; [|split; [|split; [|split]]]; assumption. Qed.

  Lemma inv_step b c : inv c -> inv (step b c).
  Proof.
    intros (K & OK & L & PO & I). destruct c as [s [k' pc] rem dy]. cbn [c_link c_st c_term l_key l_pc] in *. subst k'.
    destruct b; cbn [step c_link c_st c_term c_dying].
    - (* requester's step *)
      destruct pc as [| | | |res]; cbn [lstep l_key l_pc] in *.
      + (* load *) fold t.
        destruct (exists_target t s); [destruct (km k && _)|];
          (apply inv_intro; [reflexivity | exact OK | exact L | exact PO | cbn [l_pc pc_inv]; exact I]).
      + (* add *)
        destruct (tm_add k (s_tm s)) as [m' ok] eqn:E.
        pose proof (tm_add_spec _ _ _ _ E OK) as (O1 & R1 & B1).
        destruct I as [H N]. unfold has in H. rewrite H in B1. cbn in B1. subst ok.
        apply inv_intro; [reflexivity | exact O1 | exact L | exact PO |].
        cbn [l_pc pc_inv]. left. split; [|exact N].
        unfold has. cbn [s_tm set_tm]. apply memb_In. apply R1. right. reflexivity.
      + (* recheck *) fold t. destruct (exists_target t s) eqn:Ex;
          (apply inv_intro; [reflexivity | exact OK | exact L | exact PO | cbn [l_pc pc_inv]]); [|exact I].
        destruct I as [[H N]|[H N]]; [right; split; [exact H | split; [exact N | left; exact Ex]] | left; split; assumption].
      + (* remove *)
        destruct (tm_remove k (s_tm s)) as [m' ok] eqn:E.
        pose proof (tm_remove_spec _ _ _ _ E OK) as (O1 & R1 & B1).
        destruct I as [[H N]|[H N]]; unfold has in H; rewrite H in B1; subst ok.
        * apply inv_intro; [reflexivity | exact O1 | exact L | exact PO |]. cbn [l_pc pc_inv]. split; [|exact N].
          unfold has. cbn [s_tm set_tm]. apply memb_false. intros HI. apply R1 in HI. tauto.
        * apply inv_intro; [reflexivity | exact OK | exact L | exact PO |]. cbn [l_pc pc_inv]. left. split; assumption.
      + (* done *) apply inv_intro; [reflexivity | exact OK | exact L | exact PO | exact I].
    - (* terminating process's step *)
      destruct rem as [|y tl]; [apply inv_intro; [reflexivity | exact OK | exact L | exact PO | exact I]|].
      pose proof PO as (Cv & Dr & Pd & Qc).
      assert (PO' : prog_ok tl) by (apply (prog_ok_tl y); exact PO).
      pose proof (tstep_effect y s OK L
                    (fun q E => Pd q (or_introl E)) (fun q E => Qc q (or_introl E))
                    (fun t' r' E => Dr t' r' (or_introl E))) as (L' & EF & EX).
      cbn zeta in *.
      apply inv_intro; [reflexivity | apply tstep_idx_ok, OK | exact L' | exact PO' |]. cbn [l_pc].
      cbn [covered] in Cv. apply andb_true_iff in Cv. destruct Cv as [Cv1 Cv2].
      destruct (is_drain y) eqn:ID.
      + destruct EF as [H' N'].
        destruct pc as [| | | |[|e|?|?]]; cbn [pc_inv] in *; try contradiction.
        * destruct I as [H N]. rewrite H in N'. split; [exact H'|lia].
        * destruct I as [H N]. rewrite H in N'. split; [exact H'|lia].
        * destruct I as [[H N]|[H N]]; rewrite H in N'; right; split; auto; lia.
        * destruct I as [[H N]|[H N]]; rewrite H in N'; right; split; auto; lia.
        * destruct I as [[H N]|(H & N & _)]; rewrite H in N'; left; split; auto; lia.
        * destruct I as [H N]. rewrite H in N'. split; [exact H'|lia].
      + destruct EF as [H' N'].
        destruct pc as [| | | |[|e|?|?]]; cbn [pc_inv] in *; try contradiction; rewrite ?H', ?N'; try exact I.
        destruct I as [I|(H & N & Ex)]; [left; exact I|]. right. split; [exact H|]. split; [exact N|].
        destruct (deletes y) eqn:Dl.
        * right. exact Cv1.
        * rewrite (EX eq_refl). destruct Ex as [Ex|Ex]; [left; exact Ex|].
          right. cbn [existsb] in Ex. rewrite ID in Ex. exact Ex.
  Qed.

  Lemma inv_run sched : forall c, inv c -> inv (run sched c).
  Proof. induction sched as [|b tl IH]; intros c I; cbn [run fold_left]; [exact I|]. apply IH, inv_step, I. Qed.

  (** C04_race: every interleaving of the request with the termination program. *)
  Theorem race_outcome : forall s prog dy sched,
    idx_ok (s_tm s) -> live c0 s = true -> prog_ok prog ->
    has s = false -> nn s = n0 ->
    let c := run sched (mkcfg s (mklt k L_load) prog dy) in
    finished c = true ->
    match l_result (c_link c) with
    | RErr _ => has (c_st c) = false /\ nn (c_st c) = n0                    (* error: nothing delivered *)
    | ROk => (has (c_st c) = false /\ nn (c_st c) = S n0)                   (* exactly one notification *)
             \/ (has (c_st c) = true /\ nn (c_st c) = n0 /\ exists_target t (c_st c) = true)
                                                                            (* the target did not go away *)
    | _ => False
    end.
  Proof.
    intros s prog dy sched OK L PO H N c F.
    assert (I : inv c).
    { apply inv_run. apply inv_intro; [reflexivity | exact OK | exact L | exact PO | cbn [l_pc pc_inv]; split; assumption]. }
    destruct I as (_ & _ & _ & _ & I). unfold finished in F. unfold l_result.
    destruct (l_pc (c_link c)) as [| | | |res]; try discriminate.
    destruct (c_term c); [|discriminate]. cbn [pc_inv] in I.
    destruct res as [|e|?|?]; try contradiction; [|exact I].
    destruct I as [I|(A & B & [C|C])]; [left; exact I | right; auto | cbn in C; discriminate].
  Qed.
End Race.

(* the real termination program satisfies the structural premise (local target, requester is not
   the terminating process) *)
Lemma covered_app k l1 l2 : covered k l1 = true -> covered k l2 = true -> covered k (l1 ++ l2) = true.
Proof.
  induction l1 as [|y l1 IH]; intros C1 C2; cbn [app covered] in *; [exact C2|].
  apply andb_true_iff in C1. destruct C1 as [A B]. apply andb_true_iff. split; [|apply IH; auto].
  destruct (deletes k y); [|reflexivity]. rewrite existsb_app, A. reflexivity.
Qed.

Lemma covered_cons k y l :
  (deletes k y = true -> existsb (is_drain k) l = true) -> covered k l = true -> covered k (y :: l) = true.
Proof. intros H C. cbn [covered]. rewrite C. destruct (deletes k y); [rewrite H; reflexivity | reflexivity]. Qed.

Lemma covered_pair k y t' r' : (deletes k y = true -> t' = kt k) -> covered k [y; TDrain t' r'] = true.
Proof.
  intros H. cbn [covered existsb]. replace (deletes k (TDrain t' r')) with false by reflexivity.
  destruct (deletes k y) eqn:D; [|reflexivity]. rewrite (H eq_refl). unfold is_drain.
  destruct (target_dec (kt k) (kt k)); [reflexivity | congruence].
Qed.

Lemma is_drain_self k r' : is_drain k (TDrain (kt k) r') = true.
Proof. unfold is_drain. destruct (target_dec (kt k) (kt k)); [reflexivity | congruence]. Qed.

Lemma term_prog_ok k r p pr :
  target_node (kt k) = me -> kc k <> p -> prog_ok k r (term_prog_of p pr r).
Proof.
  intros TN NE. unfold prog_ok. split; [|split; [|split]].
  - unfold term_prog_of.
    assert (T : covered k (flat_map (fun a => [TDelAlias a; TDrain (TAlias me a) r]) (pr_aliases pr) ++
                           flat_map (fun e => [TDelEvent e; TDrain (TEvent e me) r]) (pr_events pr)) = true).
    { apply covered_app.
      - induction (pr_aliases pr) as [|a l IH]; [reflexivity|]. cbn [flat_map]. apply covered_app; [|exact IH].
        apply covered_pair. unfold deletes. destruct (kt k) as [| |nd a'| |]; try discriminate. cbn in TN. subst nd.
        intros E. apply N.eqb_eq in E. subst. reflexivity.
      - induction (pr_events pr) as [|e l IH]; [reflexivity|]. cbn [flat_map]. apply covered_app; [|exact IH].
        apply covered_pair. unfold deletes. destruct (kt k) as [| | |e' nd|]; try discriminate. cbn in TN. subst nd.
        intros E. apply N.eqb_eq in E. subst. reflexivity. }
    apply covered_cons.
    { (* TDelProc p is followed by the drain of TPid p *)
      intros D. unfold deletes in D. destruct (kt k) as [q| | | |] eqn:Ek; try discriminate.
      destruct (pid_dec p q) as [->|]; [|discriminate]. rewrite existsb_app. apply orb_true_iff. right.
      cbn [existsb]. rewrite <- Ek. rewrite is_drain_self. reflexivity. }
    destruct (pr_name pr) as [n|]; cbn [app].
    + apply covered_cons.
      { intros D. unfold deletes in D. destruct (kt k) as [|n' nd| | |] eqn:Ek; try discriminate. cbn in TN. subst nd.
        apply N.eqb_eq in D. subst n'. cbn [existsb]. rewrite <- Ek. rewrite is_drain_self.
        rewrite !orb_true_r. reflexivity. }
      apply covered_cons; [intros D; discriminate|]. apply covered_cons; [intros D; discriminate|].
      apply covered_cons; [intros D; discriminate|]. exact T.
    + apply covered_cons; [intros D; discriminate|]. apply covered_cons; [intros D; discriminate|]. exact T.
  - intros t' r' HI _. apply term_prog_inv in HI.
    destruct HI as [H|[H|[H|[(n & _ & [H|H])|[(a & _ & [H|H])|(e & _ & [H|H])]]]]]; try discriminate; inversion H; reflexivity.
  - intros q HI. apply term_prog_inv in HI.
    destruct HI as [H|[H|[H|[(n & _ & [H|H])|[(a & _ & [H|H])|(e & _ & [H|H])]]]]]; try discriminate. inversion H; subst; auto.
  - intros q HI. apply term_prog_inv in HI.
    destruct HI as [H|[H|[H|[(n & _ & [H|H])|[(a & _ & [H|H])|(e & _ & [H|H])]]]]]; try discriminate. inversion H; subst; auto.
Qed.

(** The theorem for the real program: one link/monitor request on a local target by a live process
    other than p, against unregisterProcess(p, r), under every schedule. *)
Theorem race_link_vs_terminate : forall k r s p sched,
  idx_ok (s_tm s) -> live (kc k) s = true -> kc k <> p -> target_node (kt k) = me ->
  has k s = false ->
  let n0 := nn k r s in
  let c := run sched (race_cfg s k p r) in
  finished c = true ->
  match l_result (c_link c) with
  | RErr _ => has k (c_st c) = false /\ nn k r (c_st c) = n0
  | ROk => (has k (c_st c) = false /\ nn k r (c_st c) = S n0)
           \/ (has k (c_st c) = true /\ nn k r (c_st c) = n0 /\ exists_target (kt k) (c_st c) = true)
  | _ => False
  end.
Proof.
  intros k r s p sched OK L NE TN H n0 c F. unfold c, race_cfg in *.
  apply race_outcome; auto.
  unfold term_prog. destruct (aget pid_dec p (s_procs s)) as [pr|].
  - apply term_prog_ok; auto.
  - repeat split; intros; try reflexivity; destruct H0.
Qed.
