(* Rel engine — one link/monitor request against EVERY remover of a local target
   (unregisterProcess, node.UnregisterName, process.DeleteAlias, unregisterEvent), all schedules.
   The invariant of RaceProofs.v is parametric in the remover's program (prog_ok: every table
   delete of the target is followed by its drain); here: the programs of the explicit removers
   satisfy it, the target really is gone at the end, and the order "drain, then delete" does not. *)
From Ergo Require Import Common.Base Rel.Amap Rel.Model Rel.TMProofs Rel.RegProofs Rel.RaceProofs Rel.RaceGen.
Local Open Scope N_scope.

(* ---------- the explicit removers satisfy the structural premise ---------- *)
Lemma unreg_prog_ok k d t r :
  (deletes k d = true -> t = kt k) ->
  (forall q, d <> TDelProc q) -> (forall q, d <> TCleanCons q) -> (forall t' r', d <> TDrain t' r') ->
  prog_ok k r [d; TDrain t r].
Proof.
  intros D P Q R. unfold prog_ok. split; [|split; [|split]].
  - apply covered_pair. exact D.
  - intros t' r' [H|[H|[]]] _; [exfalso; eapply R; exact H | inversion H; reflexivity].
  - intros q [H|[H|[]]]; [exfalso; eapply P; exact H | discriminate].
  - intros q [H|[H|[]]]; [exfalso; eapply Q; exact H | discriminate].
Qed.

Lemma nil_prog_ok k r : prog_ok k r [].
Proof. repeat split; intros; try reflexivity; destruct H. Qed.

Lemma remover_prog_ok k x s :
  target_node (kt k) = me -> (forall p r, x = RmTerminate p r -> kc k <> p) ->
  prog_ok k (remover_reason x) (remover_prog s x).
Proof.
  intros TN NE. destruct x as [p r|n|p a|p e|n r]; unfold remover_prog; cbn [remover_prog_ord remover_reason].
  - unfold term_prog. destruct (aget pid_dec p (s_procs s)) as [pr|]; [|apply nil_prog_ok].
    apply term_prog_ok; [exact TN | exact (NE p r eq_refl)].
  - destruct (aget N.eq_dec n (s_names s)) as [q|]; [|apply nil_prog_ok]. cbn [unreg_steps steps_ord].
    apply unreg_prog_ok; try (intros; discriminate).
    unfold deletes. destruct (kt k) as [|n' nd| | |]; try discriminate. cbn in TN. subst nd.
    intros E. apply N.eqb_eq in E. subst. reflexivity.
  - destruct (owned_by a p (s_aliases s)); [|apply nil_prog_ok]. cbn [unreg_steps steps_ord].
    apply unreg_prog_ok; try (intros; discriminate).
    unfold deletes. destruct (kt k) as [| |nd a'| |]; try discriminate. cbn in TN. subst nd.
    intros E. apply N.eqb_eq in E. subst. reflexivity.
  - destruct (owned_by e p (s_events s)); [|apply nil_prog_ok]. cbn [unreg_steps steps_ord].
    apply unreg_prog_ok; try (intros; discriminate).
    unfold deletes. destruct (kt k) as [| | |e' nd|]; try discriminate. cbn in TN. subst nd.
    intros E. apply N.eqb_eq in E. subst. reflexivity.
  - destruct (aget N.eq_dec n (s_names s)) as [q|]; [|apply nil_prog_ok]. cbn [steps_ord].
    apply unreg_prog_ok; try (intros; discriminate).
    unfold deletes. destruct (kt k) as [|n' nd| | |]; try discriminate. cbn in TN. subst nd.
    intros E. apply N.eqb_eq in E. subst. reflexivity.
Qed.

(** Every schedule of one request against any remover. *)
Theorem race_link_vs_remover : forall k x s sched,
  idx_ok (s_tm s) -> live (kc k) s = true -> (forall p r, x = RmTerminate p r -> kc k <> p) ->
  target_node (kt k) = me -> has k s = false ->
  let r := remover_reason x in
  let n0 := nn k r s in
  let c := run sched (remover_cfg s k x) in
  finished c = true ->
  match l_result (c_link c) with
  | RErr _ => has k (c_st c) = false /\ nn k r (c_st c) = n0
  | ROk => (has k (c_st c) = false /\ nn k r (c_st c) = S n0)
           \/ (has k (c_st c) = true /\ nn k r (c_st c) = n0 /\ exists_target (kt k) (c_st c) = true)
  | _ => False
  end.
Proof.
  intros k x s sched OK L NE TN H r n0 c F. unfold c, remover_cfg, remover_cfg_ord in *.
  apply race_outcome; auto. apply remover_prog_ok; assumption.
Qed.

(* ---------- the node tables along a run: only the remover writes them ---------- *)
Definition tabs : Type := (list (pid * proc) * list (atom * pid) * list (N * pid) * list (atom * pid))%type.
Definition tables (s : st) : tabs := (s_procs s, s_names s, s_aliases s, s_events s).
Definition tstep_tab (y : tstep) (tb : tabs) : tabs :=
  let '(pr, nm, al, ev) := tb in
  match y with
  | TDelProc p => (adel pid_dec p pr, nm, al, ev)
  | TDelName n p => (pr, cdel n p nm, al, ev)
  | TDelAlias a => (pr, nm, adel N.eq_dec a al, ev)
  | TDelEvent e => (pr, nm, al, adel N.eq_dec e ev)
  | TDrain _ _ | TCleanCons _ => tb
  end.
Definition exists_tab (t : target) (tb : tabs) : bool :=
  let '(pr, nm, al, ev) := tb in
  match t with
  | TPid p => ahas pid_dec p pr
  | TName n _ => ahas N.eq_dec n nm
  | TAlias _ a => ahas N.eq_dec a al
  | TEvent e _ => ahas N.eq_dec e ev
  | TNode _ => true
  end.
Definition tab_run (l : list tstep) (tb : tabs) : tabs := fold_left (fun tb y => tstep_tab y tb) l tb.

Lemma exists_tab_eq t s : exists_target t s = exists_tab t (tables s).
Proof. destruct t; reflexivity. Qed.

Lemma tstep_tables y s : tables (tstep_exec y s) = tstep_tab y (tables s).
Proof.
  destruct y as [q|t' r'|q|n pn|a|e]; cbn [tstep_exec]; try reflexivity.
  destruct (drain_frame t' r' s) as (A & B & C & E & _). unfold tables. rewrite A, B, C, E. reflexivity.
Qed.

Lemma lstep_tables d l s : tables (snd (lstep d l s)) = tables s.
Proof.
  unfold lstep. destruct (l_pc l).
  - destruct (exists_target _ s); [destruct (km _ && _)|]; reflexivity.
  - destruct (tm_add _ _) as [m' [|]]; reflexivity.
  - destruct (exists_target _ s); reflexivity.
  - destruct (tm_remove _ _) as [m' [|]]; reflexivity.
  - reflexivity.
Qed.

Lemma run_tables sched : forall c,
  finished (run sched c) = true -> tables (c_st (run sched c)) = tab_run (c_term c) (tables (c_st c)).
Proof.
  induction sched as [|b tl IH]; intros c F; cbn [run fold_left] in *.
  - unfold finished in F. destruct (l_pc (c_link c)); try discriminate. destruct (c_term c); [reflexivity|discriminate].
  - fold (run tl (step b c)) in *. rewrite (IH _ F). destruct b; cbn [step].
    + pose proof (lstep_tables (c_dying c) (c_link c) (c_st c)) as T.
      destruct (lstep (c_dying c) (c_link c) (c_st c)) as [l' s']. cbn [snd] in T. cbn [c_term c_st]. rewrite T. reflexivity.
    + destruct (c_term c) as [|y rest] eqn:E; [rewrite E; reflexivity|]. cbn [c_term c_st].
      rewrite tstep_tables. reflexivity.
Qed.

(* deletes only: what is gone stays gone *)
Lemma ahas_adel_false {K V} (dec : forall a b : K, {a = b} + {a <> b}) k k' (m : list (K * V)) :
  ahas dec k m = false -> ahas dec k (adel dec k' m) = false.
Proof.
  unfold ahas. intros H. destruct (dec k k') as [->|NE]; [rewrite aget_adel_eq; reflexivity|].
  rewrite aget_adel_neq by exact NE. exact H.
Qed.
Lemma ahas_adel_self {K V} (dec : forall a b : K, {a = b} + {a <> b}) k (m : list (K * V)) :
  ahas dec k (adel dec k m) = false.
Proof. unfold ahas. rewrite aget_adel_eq. reflexivity. Qed.

Lemma cdel_cases n p nm : cdel n p nm = nm \/ cdel n p nm = adel N.eq_dec n nm.
Proof. unfold cdel. destruct (aget N.eq_dec n nm) as [q|]; [destruct (pid_dec q p)|]; auto. Qed.

Lemma tstep_tab_mono t y tb : exists_tab t tb = false -> exists_tab t (tstep_tab y tb) = false.
Proof.
  destruct tb as [[[pr nm] al] ev]. intros H.
  destruct y as [q|t' r'|q|n pn|a|e]; cbn [tstep_tab]; try exact H; destruct t; cbn [exists_tab] in *; try exact H.
  - apply ahas_adel_false, H.
  - destruct (cdel_cases n pn nm) as [->| ->]; [exact H | apply ahas_adel_false, H].
  - apply ahas_adel_false, H.
  - apply ahas_adel_false, H.
Qed.
Lemma tab_run_mono t l : forall tb, exists_tab t tb = false -> exists_tab t (tab_run l tb) = false.
Proof.
  induction l as [|y l IH]; intros tb H; cbn [tab_run fold_left]; [exact H|].
  apply IH, tstep_tab_mono, H.
Qed.
Lemma tab_run_kill t y l : In y l -> (forall tb, exists_tab t (tstep_tab y tb) = false) ->
  forall tb, exists_tab t (tab_run l tb) = false.
Proof.
  induction l as [|z l IH]; intros HI K tb; [destruct HI|]. cbn [tab_run fold_left].
  destruct HI as [->|HI]; [apply tab_run_mono, K | apply IH; assumption].
Qed.

Lemma owned_by_get k p tbl : owned_by k p tbl = true -> aget N.eq_dec k tbl = Some p.
Proof. unfold owned_by. destruct (aget N.eq_dec k tbl) as [q|]; [|discriminate]. destruct (pid_dec q p); [congruence|discriminate]. Qed.

(** the remover really takes the target away *)
Lemma remover_gone x t s : removes x t s = true -> exists_tab t (tab_run (remover_prog s x) (tables s)) = false.
Proof.
  unfold tables, remover_prog. destruct x as [p r|n|p a|p e|n r]; cbn [removes remover_prog_ord]; intros R.
  - (* unregisterProcess *)
    unfold term_prog, live, ahas in *.
    destruct t as [q|n nd|nd a|e nd|]; try discriminate; repeat (apply andb_true_iff in R; destruct R as [R ?]).
    + destruct (pid_dec p q) as [<-|]; [|discriminate].
      destruct (aget pid_dec p (s_procs s)) as [pr|]; [|discriminate].
      apply (tab_run_kill _ (TDelProc p)); [left; reflexivity|].
      intros [[[a b] c] d]. apply ahas_adel_self.
    + destruct (aget pid_dec p (s_procs s)) as [pr|] eqn:EP; [|discriminate].
      destruct (pr_name pr) as [n'|] eqn:EN; [|discriminate]. apply N.eqb_eq in H. subst n'.
      apply owned_by_get in H0. unfold term_prog_of. rewrite EN. cbn [app tab_run fold_left tstep_tab].
      fold (tab_run (TDrain (TPid p) r :: TCleanCons p :: [TDrain (TName n me) r] ++
              flat_map (fun a => [TDelAlias a; TDrain (TAlias me a) r]) (pr_aliases pr) ++
              flat_map (fun e => [TDelEvent e; TDrain (TEvent e me) r]) (pr_events pr))
             (adel pid_dec p (s_procs s), cdel n p (s_names s), s_aliases s, s_events s)).
      apply tab_run_mono. cbn [exists_tab]. unfold cdel. rewrite H0.
      destruct (pid_dec p p); [|congruence]. apply ahas_adel_self.
    + destruct (aget pid_dec p (s_procs s)) as [pr|]; [|discriminate]. apply memb_In in H.
      apply (tab_run_kill _ (TDelAlias a)).
      * unfold term_prog_of. right. rewrite in_app_iff. right. right. right. rewrite in_app_iff. right. rewrite in_app_iff. left.
        apply in_flat_map. exists a. split; [exact H | left; reflexivity].
      * intros [[[x1 x2] x3] x4]. apply ahas_adel_self.
    + destruct (aget pid_dec p (s_procs s)) as [pr|]; [|discriminate]. apply memb_In in H.
      apply (tab_run_kill _ (TDelEvent e)).
      * unfold term_prog_of. right. rewrite in_app_iff. right. right. right. rewrite in_app_iff. right. rewrite in_app_iff. right.
        apply in_flat_map. exists e. split; [exact H | left; reflexivity].
      * intros [[[x1 x2] x3] x4]. apply ahas_adel_self.
  - (* node.UnregisterName *)
    destruct t as [|n' nd| | |]; try discriminate. repeat (apply andb_true_iff in R; destruct R as [R ?]).
    apply N.eqb_eq in R. subst n'. unfold ahas in H. destruct (aget N.eq_dec n (s_names s)) as [q|] eqn:E; [|discriminate].
    cbn [unreg_steps steps_ord tab_run fold_left tstep_tab exists_tab]. unfold cdel. rewrite E.
    destruct (pid_dec q q); [|congruence]. apply ahas_adel_self.
  - (* DeleteAlias *)
    destruct t as [| |nd a'| |]; try discriminate. repeat (apply andb_true_iff in R; destruct R as [R ?]).
    apply N.eqb_eq in R. subst a'. rewrite H. cbn [unreg_steps steps_ord tab_run fold_left tstep_tab exists_tab]. apply ahas_adel_self.
  - (* unregisterEvent *)
    destruct t as [| | |e' nd|]; try discriminate. repeat (apply andb_true_iff in R; destruct R as [R ?]).
    apply N.eqb_eq in R. subst e'. rewrite H. cbn [unreg_steps steps_ord tab_run fold_left tstep_tab exists_tab]. apply ahas_adel_self.
  - (* spawn: ProcessInit failed *)
    destruct t as [|n' nd| | |]; try discriminate. repeat (apply andb_true_iff in R; destruct R as [R ?]).
    apply N.eqb_eq in R. subst n'. unfold ahas in H. destruct (aget N.eq_dec n (s_names s)) as [q|] eqn:E; [|discriminate].
    cbn [steps_ord tab_run fold_left tstep_tab exists_tab]. unfold cdel. rewrite E.
    destruct (pid_dec q q); [|congruence]. apply ahas_adel_self.
Qed.

(** C04 for a request racing with ANY remover of its target: it fails and leaves no relation and
    no notification, or it succeeds and exactly one notification is delivered. *)
Theorem race_exactly_one : forall k x s sched,
  idx_ok (s_tm s) -> live (kc k) s = true -> (forall p r, x = RmTerminate p r -> kc k <> p) ->
  target_node (kt k) = me -> has k s = false ->
  removes x (kt k) s = true ->
  let r := remover_reason x in
  let n0 := nn k r s in
  let c := run sched (remover_cfg s k x) in
  finished c = true ->
  exists_target (kt k) (c_st c) = false /\
  match l_result (c_link c) with
  | RErr _ => has k (c_st c) = false /\ nn k r (c_st c) = n0
  | ROk => has k (c_st c) = false /\ nn k r (c_st c) = S n0
  | _ => False
  end.
Proof.
  intros k x s sched OK L NE TN H RM r n0 c F.
  assert (G : exists_target (kt k) (c_st c) = false).
  { rewrite exists_tab_eq. unfold c. rewrite (run_tables _ _ F). apply remover_gone. exact RM. }
  split; [exact G|].
  pose proof (race_link_vs_remover k x s sched OK L NE TN H F) as R. fold c r n0 in R.
  destruct (l_result (c_link c)); try exact R.
  destruct R as [R|(_ & _ & E)]; [exact R | congruence].
Qed.

(* the same through the predicate the monitor evaluates on the implementation *)
Corollary race_outcome_ok : forall k x s sched,
  idx_ok (s_tm s) -> live (kc k) s = true -> (forall p r, x = RmTerminate p r -> kc k <> p) ->
  target_node (kt k) = me -> has k s = false ->
  let r := remover_reason x in
  let c := run sched (remover_cfg s k x) in
  finished c = true ->
  exists d, nn k r (c_st c) = (nn k r s + d)%nat /\
            outcome_ok (l_result (c_link c)) (has k (c_st c)) d (exists_target (kt k) (c_st c)) = true.
Proof.
  intros k x s sched OK L NE TN H r c F.
  pose proof (race_link_vs_remover k x s sched OK L NE TN H F) as R. fold c r in R.
  destruct (l_result (c_link c)); try contradiction.
  - destruct R as [(A & B)|(A & B & C)].
    + exists 1%nat. split; [lia|]. cbn [outcome_ok]. rewrite A. reflexivity.
    + exists 0%nat. split; [lia|]. cbn [outcome_ok]. rewrite A, C. reflexivity.
  - destruct R as (A & B). exists 0%nat. split; [lia|]. cbn [outcome_ok]. rewrite A. reflexivity.
Qed.

(* ---------- the order "drain, then delete" loses the request ---------- *)
Definition lost_run (kind : N) (mon : bool) (sched : list bool) : bool :=
  let s := ilv_state kind in
  let k := mkkey ilv_obs (ilv_target kind) mon in
  let x := ilv_remover kind in
  let c := run sched (remover_cfg_ord false s k x) in
  live (kc k) s && N.eqb (target_node (kt k)) me && negb (has k s) && removes x (kt k) s &&
  finished c &&
  outcome_lost (l_result (c_link c)) (has k (c_st c))
               (nn k (remover_reason x) (c_st c) - nn k (remover_reason x) s) (exists_target (kt k) (c_st c)).

(* schedule: CleanupTarget (finds nothing) | existence load, insert, re-check: all pass | table delete *)
Definition lost_sched : list bool := [false; true; true; true; false].

Lemma ilv_state_idx_ok kind : idx_ok (s_tm (ilv_state kind)).
Proof.
  assert (E : s_tm (ilv_state kind) = s_tm (fst (run_ops (ilv_setup kind) (st0 1000 0)))).
  { unfold ilv_state. destruct kind as [|p]; [reflexivity|].
    destruct p as [p|p|]; try reflexivity. destruct p as [p|p|]; try reflexivity.
    destruct p as [p|p|]; try reflexivity. destruct p as [p|p|]; reflexivity. }
  rewrite E. apply run_ops_idx_ok, idx_ok_empty.
Qed.

(** unregisterEvent written as "RouteTerminateEvent; events.Delete": a LinkEvent / MonitorEvent
    returns nil, its relation stays on an event that no longer exists, nobody is ever told. *)
Theorem unregister_event_drain_first_refuted : forall mon, lost_run 7 mon lost_sched = true.
Proof. intros [|]; vm_compute; reflexivity. Qed.
Theorem unregister_name_drain_first_refuted : forall mon, lost_run 4 mon lost_sched = true.
Proof. intros [|]; vm_compute; reflexivity. Qed.
Theorem delete_alias_drain_first_refuted : forall mon, lost_run 6 mon lost_sched = true.
Proof. intros [|]; vm_compute; reflexivity. Qed.

(** node.spawn before the fix: a failing ProcessInit deleted the registered name and drained nothing.
    The program [TDelName] alone: a request that passed the existence load before the delete keeps its
    relation (the re-check finds the name gone, the undo succeeds -> error) or, when it came earlier,
    succeeds and is never told.  Witness: the request runs to the end, then the name is deleted. *)
Definition init_fail_old_lost (mon : bool) : bool :=
  let s := ilv_state 8 in
  let k := mkkey ilv_obs (TName 5 me) mon in
  let c := run [true; true; true; false] (mkcfg s (mklt k L_load) [TDelName 5 (lpid 1003)] None) in
  finished c && outcome_lost (l_result (c_link c)) (has k (c_st c)) (nn k 17 (c_st c) - nn k 17 s) (exists_target (kt k) (c_st c)).
Theorem spawn_init_fail_without_drain_refuted : forall mon, init_fail_old_lost mon = true.
Proof. intros [|]; vm_compute; reflexivity. Qed.

(* and the same schedules are harmless in the order of the code (non-vacuity of the theorem on
   exactly these states: the request fails, or is told once) *)
Definition good_run (kind : N) (mon : bool) (sched : list bool) : bool :=
  let s := ilv_state kind in
  let k := mkkey ilv_obs (ilv_target kind) mon in
  let x := ilv_remover kind in
  let c := run (sched ++ repeat true 4 ++ repeat false 12) (remover_cfg s k x) in
  removes x (kt k) s && finished c &&
  outcome_ok (l_result (c_link c)) (has k (c_st c))
             (nn k (remover_reason x) (c_st c) - nn k (remover_reason x) s) (exists_target (kt k) (c_st c)).
Example code_order_same_schedules :
  forallb (fun kind => good_run kind false lost_sched && good_run kind true lost_sched &&
                       good_run kind false [true; false; true; false; true; true]) [0; 1; 2; 3; 4; 6; 7; 8] = true.
Proof. vm_compute. reflexivity. Qed.
