(* Association-list finite maps with decidable keys (library for the Rel engine).
   Go maps / sync.Map are modelled by these: [aget] = load, [aset] = store (update in place or
   append), [adel] = delete (removes every binding of the key).  The four map laws below are
   all the proofs use; no axioms. *)
From Ergo Require Import Common.Base.

Section Amap.
  Context {K V : Type}.
  Variable dec : forall a b : K, {a = b} + {a <> b}.

  Fixpoint aget (k : K) (m : list (K * V)) : option V :=
    match m with
    | [] => None
    | (k', v) :: tl => if dec k k' then Some v else aget k tl
    end.

  Fixpoint aset (k : K) (v : V) (m : list (K * V)) : list (K * V) :=
    match m with
    | [] => [(k, v)]
    | (k', v') :: tl => if dec k k' then (k, v) :: tl else (k', v') :: aset k v tl
    end.

  Fixpoint adel (k : K) (m : list (K * V)) : list (K * V) :=
    match m with
    | [] => []
    | (k', v') :: tl => if dec k k' then adel k tl else (k', v') :: adel k tl
    end.

  Definition ahas (k : K) (m : list (K * V)) : bool :=
    match aget k m with Some _ => true | None => false end.

  Lemma aget_aset_eq k v m : aget k (aset k v m) = Some v.
  Proof.
    induction m as [|[k' v'] tl IH]; cbn [aset aget].
    - destruct (dec k k); congruence.
    - destruct (dec k k') as [E|NE]; cbn [aget].
      + destruct (dec k k); congruence.
      + destruct (dec k k'); congruence.
  Qed.

  Lemma aget_aset_neq k k' v m : k' <> k -> aget k' (aset k v m) = aget k' m.
  Proof.
    intros NE. induction m as [|[k2 v2] tl IH]; cbn [aset aget].
    - destruct (dec k' k); congruence.
    - destruct (dec k k2) as [E|NE2]; cbn [aget].
      + subst. destruct (dec k' k2); congruence.
      + destruct (dec k' k2); congruence.
  Qed.

  Lemma aget_adel_eq k m : aget k (adel k m) = None.
  Proof.
    induction m as [|[k' v'] tl IH]; cbn [adel aget]; [reflexivity|].
    destruct (dec k k') as [E|NE]; [exact IH|]. cbn [aget].
    destruct (dec k k'); congruence.
  Qed.

  Lemma aget_adel_neq k k' m : k' <> k -> aget k' (adel k m) = aget k' m.
  Proof.
    intros NE. induction m as [|[k2 v2] tl IH]; cbn [adel aget]; [reflexivity|].
    destruct (dec k k2) as [E|NE2].
    - subst. destruct (dec k' k2); congruence.
    - cbn [aget]. destruct (dec k' k2); congruence.
  Qed.

  Lemma aget_In k v m : aget k m = Some v -> In (k, v) m.
  Proof.
    induction m as [|[k' v'] tl IH]; cbn [aget]; [discriminate|].
    destruct (dec k k') as [E|NE]; intros H.
    - inversion H; subst. left; reflexivity.
    - right; auto.
  Qed.

  Lemma aget_None_notin k m : aget k m = None -> forall v, ~ In (k, v) m.
  Proof.
    induction m as [|[k' v'] tl IH]; cbn [aget]; intros H v HI; [exact HI|].
    destruct (dec k k') as [E|NE]; [discriminate|].
    destruct HI as [HI|HI]; [inversion HI; congruence | eapply IH; eauto].
  Qed.

  Lemma In_aget_some k v m : In (k, v) m -> exists v', aget k m = Some v'.
  Proof.
    induction m as [|[k' v'] tl IH]; cbn [aget]; intros HI; [destruct HI|].
    destruct (dec k k') as [E|NE]; [eauto|].
    destruct HI as [HI|HI]; [inversion HI; congruence | auto].
  Qed.

  Lemma In_adel k' v' k m : In (k', v') (adel k m) <-> In (k', v') m /\ k' <> k.
  Proof.
    induction m as [|[k2 v2] tl IH]; cbn [adel]; [cbn; tauto|].
    destruct (dec k k2) as [E|NE].
    - subst. rewrite IH. cbn [In]. split.
      + intros [H1 H2]; auto.
      + intros [[H|H] H2]; [inversion H; congruence | auto].
    - cbn [In]. rewrite IH. split.
      + intros [H|[H1 H2]]; [inversion H; subst; split; auto | auto].
      + intros [[H|H] H2]; auto.
  Qed.
End Amap.

(* list-as-set helpers over a decidable type *)
Section SetList.
  Context {A : Type}.
  Variable dec : forall a b : A, {a = b} + {a <> b}.

  Definition memb (x : A) (l : list A) : bool := if in_dec dec x l then true else false.

  Lemma memb_In x l : memb x l = true <-> In x l.
  Proof. unfold memb. destruct (in_dec dec x l); split; intros; auto; discriminate. Qed.

  Lemma memb_false x l : memb x l = false <-> ~ In x l.
  Proof. unfold memb. destruct (in_dec dec x l); split; intros; auto; try discriminate; contradiction. Qed.

  Lemma In_remove x y l : In x (remove dec y l) <-> In x l /\ x <> y.
  Proof.
    split.
    - intros H. apply in_remove in H. exact H.
    - intros [H1 H2]. apply in_in_remove; auto.
  Qed.

  Lemma NoDup_remove_keep y l : NoDup l -> NoDup (remove dec y l).
  Proof.
    induction 1 as [|x l Hx Hl IH]; cbn [remove]; [constructor|].
    destruct (dec y x); [exact IH|]. constructor; [|exact IH].
    intros HI. apply In_remove in HI. tauto.
  Qed.

  Lemma NoDup_filter (f : A -> bool) l : NoDup l -> NoDup (filter f l).
  Proof.
    induction 1 as [|x l Hx Hl IH]; cbn [filter]; [constructor|].
    destruct (f x); [constructor|]; auto. intros HI. apply filter_In in HI. tauto.
  Qed.

  (* multiplicity of an element of a duplicate-free list *)
  Lemma count_NoDup x l : NoDup l -> count_occ dec l x = if memb x l then 1%nat else 0%nat.
  Proof.
    intros ND. destruct (memb x l) eqn:E.
    - apply memb_In in E. apply NoDup_count_occ' ; auto.
    - apply memb_false in E. apply count_occ_not_In; auto.
  Qed.
End SetList.
