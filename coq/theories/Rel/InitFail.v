(* Rel/InitFail.v — the registered name of a process that is still INITIALISING.
   node.spawn claims the name before ProcessInit runs (the name is visible from then on), the process enters the
   process table only when ProcessInit succeeded, and meanwhile anybody may take the name away
   (node.UnregisterName) and give it to somebody else (node.RegisterName, another SpawnRegister).
   State: the node's name table (n.names), the name field of every process object (p.name; None = ""),
   the process table with the processes still inside ProcessInit kept apart. Definitions only.

   node.spawn:            if _, exist := n.names.LoadOrStore(options.Register, p); exist { return ErrTaken }
                          p.name = options.Register; p.registered.Store(true)
                          ... if err := behavior.ProcessInit(...); err != nil { n.names.Delete(p.name); ... return }
                          ... n.processes.Store(p.pid, p)
   node.UnregisterName:   value, exist := n.names.LoadAndDelete(name); p := value; p.name = ""; p.registered.Store(false)
   node.RegisterName:     p := n.processes.Load(pid) (else ErrProcessUnknown); registered CAS false->true (else ErrTaken);
                          n.names.LoadOrStore(name, p) (exist -> ErrTaken); p.name = name
   unregisterProcess:     if p.registered.Load() { n.names.CompareAndDelete(p.name, p) }                              *)
From Ergo Require Import Common.Base Rel.Amap.
Local Open Scope N_scope.

Definition iatom := N.
Definition ipid := N.

Record ist := mk_ist {
  i_names : list (iatom * ipid);            (* n.names *)
  i_rec : list (ipid * iatom);              (* p.name of every existing process object that has one *)
  i_init : list ipid;                       (* inside ProcessInit (not in n.processes) *)
  i_live : list ipid;                       (* in n.processes *)
  i_next : ipid                             (* n.nextID *)
}.

Definition ist0 : ist := mk_ist [] [] [] [] 1000.

Inductive iop :=
| ISpawn (n : iatom)          (* SpawnRegister(n, ...) up to the call of ProcessInit *)
| IInitOk (p : ipid)          (* ProcessInit of p returns nil *)
| IInitFail (p : ipid)        (* ProcessInit of p returns an error *)
| IUnreg (n : iatom)          (* node.UnregisterName(n) *)
| IReg (n : iatom) (q : ipid) (* node.RegisterName(n, q) *)
| ITerm (q : ipid).           (* q terminates (unregisterProcess) *)

Definition mem (p : ipid) (l : list ipid) : bool := existsb (N.eqb p) l.
Definition drop (p : ipid) (l : list ipid) : list ipid := filter (fun x => negb (x =? p)) l.

(* how the failing init gives the name back: the name the process HOLDS (p.name), not the one it asked for *)
Definition release_held (p : ipid) (s : ist) : list (iatom * ipid) :=
  match aget N.eq_dec p (i_rec s) with
  | Some n => adel N.eq_dec n (i_names s)
  | None => i_names s                        (* n.names.Delete("") *)
  end.

Definition istep (s : ist) (o : iop) : ist :=
  match o with
  | ISpawn n =>
      let p := i_next s + 1 in
      if ahas N.eq_dec n (i_names s) then mk_ist (i_names s) (i_rec s) (i_init s) (i_live s) p
      else mk_ist (aset N.eq_dec n p (i_names s)) (aset N.eq_dec p n (i_rec s)) (p :: i_init s) (i_live s) p
  | IInitOk p =>
      if mem p (i_init s) then mk_ist (i_names s) (i_rec s) (drop p (i_init s)) (p :: i_live s) (i_next s) else s
  | IInitFail p =>
      if mem p (i_init s)
      then mk_ist (release_held p s) (adel N.eq_dec p (i_rec s)) (drop p (i_init s)) (i_live s) (i_next s)
      else s
  | IUnreg n =>
      match aget N.eq_dec n (i_names s) with
      | Some q => mk_ist (adel N.eq_dec n (i_names s)) (adel N.eq_dec q (i_rec s)) (i_init s) (i_live s) (i_next s)
      | None => s
      end
  | IReg n q =>
      if mem q (i_live s) && negb (ahas N.eq_dec q (i_rec s)) && negb (ahas N.eq_dec n (i_names s))
      then mk_ist (aset N.eq_dec n q (i_names s)) (aset N.eq_dec q n (i_rec s)) (i_init s) (i_live s) (i_next s)
      else s
  | ITerm q =>
      if mem q (i_live s)
      then mk_ist (match aget N.eq_dec q (i_rec s) with
                   | Some n => match aget N.eq_dec n (i_names s) with
                               | Some q' => if q' =? q then adel N.eq_dec n (i_names s) else i_names s
                               | None => i_names s end
                   | None => i_names s end)
                  (adel N.eq_dec q (i_rec s)) (i_init s) (drop q (i_live s)) (i_next s)
      else s
  end.

Definition irun (l : list iop) : ist := fold_left istep l ist0.

(* the variant that deletes the name the spawn ASKED for (no ownership check) *)
Definition istep_req (req : ipid -> option iatom) (s : ist) (o : iop) : ist :=
  match o with
  | IInitFail p =>
      if mem p (i_init s)
      then mk_ist (match req p with Some n => adel N.eq_dec n (i_names s) | None => i_names s end)
                  (adel N.eq_dec p (i_rec s)) (drop p (i_init s)) (i_live s) (i_next s)
      else s
  | _ => istep s o
  end.

(* table and records agree, names are held by existing processes only *)
Definition agree_tr (s : ist) : Prop :=
  (forall n q, aget N.eq_dec n (i_names s) = Some q -> aget N.eq_dec q (i_rec s) = Some n) /\
  (forall q n, aget N.eq_dec q (i_rec s) = Some n -> aget N.eq_dec n (i_names s) = Some q) /\
  (forall q n, aget N.eq_dec q (i_rec s) = Some n -> mem q (i_init s) = true \/ mem q (i_live s) = true).

Definition agree_b (s : ist) : bool :=
  forallb (fun e => match aget N.eq_dec (snd e) (i_rec s) with Some n => n =? fst e | None => false end) (i_names s) &&
  forallb (fun e => match aget N.eq_dec (snd e) (i_names s) with Some q => q =? fst e | None => false end) (i_rec s).
