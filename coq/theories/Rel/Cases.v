(* Rel engine — correspondence + monitor definitions evaluated over implementation observations
   (cases files written by go/harness/cmd/rel). *)
From Ergo Require Import Common.Base Rel.Amap Rel.Model.
Local Open Scope N_scope.

(* ---- comparison up to permutation (Go map iteration order is unspecified) ---- *)
Section Perm.
  Context {A : Type}.
  Variable dec : forall a b : A, {a = b} + {a <> b}.
  Fixpoint remove_one (x : A) (l : list A) : option (list A) :=
    match l with
    | [] => None
    | h :: tl => if dec x h then Some tl else
                   match remove_one x tl with Some r => Some (h :: r) | None => None end
    end.
  Fixpoint perm_eqb (a b : list A) : bool :=
    match a with
    | [] => match b with [] => true | _ => false end
    | x :: a' => match remove_one x b with Some b' => perm_eqb a' b' | None => false end
    end.
End Perm.

Definition tp_dec : forall a b : target * pid, {a = b} + {a <> b}.
Proof. decide equality; [apply pid_dec | apply target_dec]. Defined.

(* ================= (i) target manager driven directly ================= *)
Record tmcase := mk_tmcase { tc_steps : list (tmop * tmres) }.

Definition tmres_eqb (a b : tmres) : bool :=
  match a, b with
  | XBool x, XBool y => Bool.eqb x y
  | XTargets l m, XTargets l' m' => perm_eqb target_dec l l' && perm_eqb target_dec m m'
  | XPids l m, XPids l' m' => perm_eqb pid_dec l l' && perm_eqb pid_dec m m'
  | XPairs l m, XPairs l' m' => perm_eqb tp_dec l l' && perm_eqb tp_dec m m'
  | XPidList l, XPidList l' => perm_eqb pid_dec l l'
  | _, _ => false
  end.

Fixpoint tm_corr_from (m : tm) (l : list (tmop * tmres)) : bool :=
  match l with
  | [] => true
  | (o, r) :: tl => let '(m', r') := tm_exec o m in tmres_eqb r' r && tm_corr_from m' tl
  end.
Fixpoint tm_spec_from (S : rset) (l : list (tmop * tmres)) : bool :=
  match l with
  | [] => true
  | (o, r) :: tl => let '(S', r') := set_exec o S in tmres_eqb r' r && tm_spec_from S' tl
  end.

(* model = implementation, step by step *)
Definition corr_tm (c : tmcase) : bool := tm_corr_from tm_empty (tc_steps c).
(* the property (the manager behaves as the relation set) evaluated on what the implementation answered *)
Definition spec_tm (c : tmcase) : bool := tm_spec_from [] (tc_steps c).
(* non-triviality: some cleanup reported at least one relation *)
Definition nonempty_res (r : tmres) : bool :=
  match r with
  | XTargets l m => negb (Nat.eqb (length l + length m) 0)
  | XPids l m => negb (Nat.eqb (length l + length m) 0)
  | XPairs l m => negb (Nat.eqb (length l + length m) 0)
  | _ => false
  end.
Definition premise_tm (c : tmcase) : bool := existsb (fun x => nonempty_res (snd x)) (tc_steps c).
