(* Rel engine — correspondence + monitor definitions evaluated over implementation observations
   (cases files written by go/harness/cmd/rel). *)
From Ergo Require Import Common.Base Rel.Amap Rel.Model.
Local Open Scope N_scope.

(* ---- comparison up to permutation (Go map iteration order is unspecified) ---- *)
Section Perm.
  Context {A : Type}.
  Variable dec : forall a b : A, {a = b} + {a <> b}.
  Fixpoint remove_one (x : A) (l : list A) : option (list A) :=
    match l with
    | [] => None
    | h :: tl => if dec x h then Some tl else
                   match remove_one x tl with Some r => Some (h :: r) | None => None end
    end.
  Fixpoint perm_eqb (a b : list A) : bool :=
    match a with
    | [] => match b with [] => true | _ => false end
    | x :: a' => match remove_one x b with Some b' => perm_eqb a' b' | None => false end
    end.
End Perm.

Definition tp_dec : forall a b : target * pid, {a = b} + {a <> b}.
Proof. decide equality; [apply pid_dec | apply target_dec]. Defined.

(* ================= (i) target manager driven directly ================= *)
Record tmcase := mk_tmcase { tc_steps : list (tmop * tmres) }.

Definition tmres_eqb (a b : tmres) : bool :=
  match a, b with
  | XBool x, XBool y => Bool.eqb x y
  | XTargets l m, XTargets l' m' => perm_eqb target_dec l l' && perm_eqb target_dec m m'
  | XPids l m, XPids l' m' => perm_eqb pid_dec l l' && perm_eqb pid_dec m m'
  | XPairs l m, XPairs l' m' => perm_eqb tp_dec l l' && perm_eqb tp_dec m m'
  | XPidList l, XPidList l' => perm_eqb pid_dec l l'
  | _, _ => false
  end.

Fixpoint tm_corr_from (m : tm) (l : list (tmop * tmres)) : bool :=
  match l with
  | [] => true
  | (o, r) :: tl => let '(m', r') := tm_exec o m in tmres_eqb r' r && tm_corr_from m' tl
  end.
Fixpoint tm_spec_from (S : rset) (l : list (tmop * tmres)) : bool :=
  match l with
  | [] => true
  | (o, r) :: tl => let '(S', r') := set_exec o S in tmres_eqb r' r && tm_spec_from S' tl
  end.

(* model = implementation, step by step *)
Definition corr_tm (c : tmcase) : bool := tm_corr_from tm_empty (tc_steps c).
(* the property (the manager behaves as the relation set) evaluated on what the implementation answered *)
Definition spec_tm (c : tmcase) : bool := tm_spec_from [] (tc_steps c).
(* non-triviality: some cleanup reported at least one relation *)
Definition nonempty_res (r : tmres) : bool :=
  match r with
  | XTargets l m => negb (Nat.eqb (length l + length m) 0)
  | XPids l m => negb (Nat.eqb (length l + length m) 0)
  | XPairs l m => negb (Nat.eqb (length l + length m) 0)
  | _ => false
  end.
Definition premise_tm (c : tmcase) : bool := existsb (fun x => nonempty_res (snd x)) (tc_steps c).

(* ================= (ii) histories on one real node ================= *)
(* next process id at the start; the operations with the observed return values; per actor
   (pid, parent, exit/down messages handled); observed process list; observed relation set;
   per name / alias: 0 = a send was accepted, 1 = unknown, 2 = other error; per event: free? *)
Record hcase := mk_hcase {
  h_next : N;
  h_steps : list (op * res);
  h_actors : list (pid * pid * list note);
  h_plist : list pid;
  h_rels : list key;
  h_names : list (atom * N);
  h_aliases : list (N * N);
  h_events : list (atom * bool) }.

Definition is_parent_exit (parent : pid) (x : note) : bool :=
  negb (n_down x) && (if target_dec (n_target x) (TPid parent) then true else false).
(* a trapping actor handles its mailbox up to and including an exit signal of its parent *)
Fixpoint visible (parent : pid) (l : list note) : list note :=
  match l with
  | [] => []
  | x :: tl => if is_parent_exit parent x then [x] else x :: visible parent tl
  end.

Definition res_eqb (a b : res) : bool := if res_dec a b then true else false.
Fixpoint reslist_eqb (a b : list res) : bool :=
  match a, b with
  | [], [] => true
  | x :: a', y :: b' => res_eqb x y && reslist_eqb a' b'
  | _, _ => false
  end.

Definition resolve_code {K} (dec : forall a b : K, {a = b} + {a <> b}) (k : K) (tbl : list (K * pid)) (s : st) : N :=
  match aget dec k tbl with
  | None => 1
  | Some q => if live q s then 0 else 2
  end.

Definition hist_final (c : hcase) : st * list res := run_ops (map fst (h_steps c)) (st0 (h_next c) 0).

(* multiset inclusion *)
Fixpoint sub_multiset {A} (dec : forall a b : A, {a = b} + {a <> b}) (a b : list A) : bool :=
  match a with
  | [] => true
  | x :: a' => match remove_one dec x b with Some b' => sub_multiset dec a' b' | None => false end
  end.

(* An actor that receives an exit signal of its parent dies of it.  The signal sits in the Urgent
   queue, so notifications pushed to the System queue during the same cascade (the operation that
   started it and the OCascade steps after it, concurrent in the implementation) may or may not be
   handled before it.  [victim_base] = the inbox before the operation that started the cascade in
   which p received its parent's exit (None: p never did). *)
Fixpoint victim_base (parent p : pid) (ops : list op) (s root : st) : option (list note) :=
  match ops with
  | [] => None
  | o :: tl =>
      let root' := match o with OCascade => root | _ => s end in
      let s' := fst (exec o s) in
      if existsb (is_parent_exit parent) (inbox_of p s') && negb (existsb (is_parent_exit parent) (inbox_of p s))
      then Some (inbox_of p root')
      else victim_base parent p tl s' root'
  end.

Definition actor_corr (ops : list op) (s0 sf : st) (a : pid * pid * list note) : bool :=
  let '(p, parent, obs) := a in
  match victim_base parent p ops s0 s0 with
  | None => perm_eqb note_dec (inbox_of p sf) obs
  | Some base =>
      sub_multiset note_dec (base ++ filter (is_parent_exit parent) (inbox_of p sf)) obs &&
      sub_multiset note_dec obs (inbox_of p sf)
  end.

(* model = implementation: return values, what every actor handled, process list, relation set, tables *)
Definition corr_hist (c : hcase) : bool :=
  let '(s, rs) := hist_final c in
  reslist_eqb rs (map snd (h_steps c)) &&
  forallb (actor_corr (map fst (h_steps c)) (st0 (h_next c) 0) s) (h_actors c) &&
  perm_eqb pid_dec (map fst (s_procs s)) (h_plist c) &&
  perm_eqb key_dec (rels (s_tm s)) (h_rels c) &&
  forallb (fun x => resolve_code N.eq_dec (fst x) (s_names s) s =? snd x) (h_names c) &&
  forallb (fun x => resolve_code N.eq_dec (fst x) (s_aliases s) s =? snd x) (h_aliases c) &&
  forallb (fun x => Bool.eqb (negb (ahas N.eq_dec (fst x) (s_events s))) (snd x)) (h_events c).

(* C04 on the implementation's observations: every actor handled, for every note, exactly the number
   of copies the specification [expected] prescribes over the history.  For an actor killed by its
   parent's exit signal: at least what was due before the cascade started plus that signal, at most
   what was due in total (see victim_base). Returns (lower, upper). *)
Fixpoint exp_bounds (parent p : pid) (x : note) (ops : list op) (s : st) (acc accroot lower : nat) (dying : bool) : nat * nat :=
  match ops with
  | [] => if dying then (lower, acc) else (acc, acc)
  | o :: tl =>
      let e := expected o s p x in
      let s' := fst (exec o s) in
      if dying then exp_bounds parent p x tl s' (acc + e) accroot lower true
      else
        let accroot' := match o with OCascade => accroot | _ => acc end in
        let kills := existsb (fun gr => if target_dec (fst gr) (TPid parent) then
                                           Nat.eqb (expected o s p (mknote false (TPid parent) (snd gr))) 1 else false) (gone o s) in
        if kills then exp_bounds parent p x tl s' (acc + e) accroot' (accroot' + (if is_parent_exit parent x then e else 0)) true
        else exp_bounds parent p x tl s' (acc + e) accroot' lower false
  end.

Definition spec_hist_c04 (c : hcase) : bool :=
  let ops := map fst (h_steps c) in
  let s0 := st0 (h_next c) 0 in
  let sf := fst (hist_final c) in
  forallb (fun a => let '(p, parent, obs) := a in
     forallb (fun x => let '(lo, hi) := exp_bounds parent p x ops s0 0 0 0 false in
                       let n := count_occ note_dec obs x in Nat.leb lo n && Nat.leb n hi)
             (obs ++ inbox_of p sf)) (h_actors c).

(* C06 on the implementation's observations only: the observed relation set mentions only listed
   (live) processes as consumers and only resolvable targets; no name / alias resolves to a dead
   process; no actor of the case that is absent from the process list is named anywhere *)
Definition code_of {K} (dec : forall a b : K, {a = b} + {a <> b}) (k : K) (l : list (K * N)) : N :=
  match aget dec k l with Some x => x | None => 1 end.
Definition target_resolvable (c : hcase) (t : target) : bool :=
  match t with
  | TPid p => memb pid_dec p (h_plist c)
  | TName n _ => code_of N.eq_dec n (h_names c) =? 0
  | TAlias _ a => code_of N.eq_dec a (h_aliases c) =? 0
  | TEvent e _ => match aget N.eq_dec e (h_events c) with Some free => negb free | None => false end
  | TNode _ => true
  end.
Definition spec_hist_c06 (c : hcase) : bool :=
  forallb (fun k => memb pid_dec (kc k) (h_plist c) && target_resolvable c (kt k)) (h_rels c) &&
  forallb (fun x => negb (snd x =? 2)) (h_names c) &&
  forallb (fun x => negb (snd x =? 2)) (h_aliases c) &&
  (* returned process ids strictly increase *)
  (fix inc (lo : N) (l : list (op * res)) : bool :=
     match l with
     | [] => true
     | (_, RPid p) :: tl => (lo <? pnum p) && inc (pnum p) tl
     | _ :: tl => inc lo tl
     end) (h_next c) (h_steps c).

(* non-triviality: somebody terminated and somebody was notified *)
Definition premise_hist (c : hcase) : bool :=
  existsb (fun a => match snd a with [] => false | _ => true end) (h_actors c) &&
  existsb (fun x => match fst x with OTerminate _ _ => match snd x with ROk => true | _ => false end | _ => false end) (h_steps c).
