(* Rel/InitFailProofs.v — name table and process records agree after EVERY history of spawns with a registered
   name, successful and failing initialisations, UnregisterName / RegisterName by anybody in between, and
   terminations; deleting the requested name instead of the held one is refuted. *)
From Ergo Require Import Common.Base Rel.Amap Rel.InitFail.
Local Open Scope N_scope.

Lemma ahas_get {V} k (m : list (N * V)) : ahas N.eq_dec k m = match aget N.eq_dec k m with Some _ => true | None => false end.
Proof. unfold ahas. destruct (aget N.eq_dec k m); reflexivity. Qed.

Lemma mem_drop_neq q p l : q <> p -> mem q (drop p l) = mem q l.
Proof.
  intros Hne. induction l as [|x l IH]; [reflexivity|].
  unfold drop, mem in *. cbn [filter existsb].
  destruct (N.eqb_spec x p) as [->|Hx]; cbn [negb existsb].
  - destruct (N.eqb_spec q p); [contradiction|]. cbn [orb]. exact IH.
  - rewrite IH. reflexivity.
Qed.

Lemma mem_cons q p l : mem q (p :: l) = (q =? p) || mem q l.
Proof. reflexivity. Qed.

Definition IInv (s : ist) : Prop :=
  (forall n q, aget N.eq_dec n (i_names s) = Some q -> aget N.eq_dec q (i_rec s) = Some n) /\
  (forall q n, aget N.eq_dec q (i_rec s) = Some n -> aget N.eq_dec n (i_names s) = Some q) /\
  (forall q n, aget N.eq_dec q (i_rec s) = Some n -> mem q (i_init s) = true \/ mem q (i_live s) = true) /\
  (forall q, mem q (i_init s) = true \/ mem q (i_live s) = true -> q <= i_next s).

Lemma mem_drop_sub q p l : mem q (drop p l) = true -> mem q l = true.
Proof.
  induction l as [|x l IH]; [intros H; exact H|].
  unfold drop, mem in *. cbn [filter existsb].
  destruct (N.eqb_spec x p) as [->|Hx]; cbn [negb existsb]; intros H.
  - rewrite (IH H). apply orb_true_r.
  - apply orb_true_iff in H. destruct H as [H|H]; [rewrite H; reflexivity|rewrite (IH H); apply orb_true_r].
Qed.

Lemma mem_cons_true q p l : mem q (p :: l) = true -> q = p \/ mem q l = true.
Proof. rewrite mem_cons. intros H. apply orb_true_iff in H. destruct H as [H|H]; [left; apply N.eqb_eq; exact H|right; exact H]. Qed.

Lemma IInv0 : IInv ist0.
Proof. repeat split; intros; try discriminate. destruct H; discriminate. Qed.

Lemma IInv_step s o : IInv s -> IInv (istep s o).
Proof.
  intros (A & B & C & D). destruct o as [n|p|p|n|n q|q]; cbn [istep].
  - (* ISpawn *)
    rewrite ahas_get. destruct (aget N.eq_dec n (i_names s)) as [q0|] eqn:Hn.
    + repeat split; cbn [i_names i_rec i_init i_live i_next]; intros; eauto.
      specialize (D _ H). lia.
    + set (p := i_next s + 1).
      assert (Hfresh : forall q m, aget N.eq_dec q (i_rec s) = Some m -> q <> p).
      { intros q m Hq. specialize (D _ (C _ _ Hq)). unfold p. lia. }
      repeat split; cbn [i_names i_rec i_init i_live i_next].
      * intros n' q Hq. destruct (N.eq_dec n' n) as [->|Hne].
        -- rewrite aget_aset_eq in Hq. inversion Hq; subst. apply aget_aset_eq.
        -- rewrite aget_aset_neq in Hq by exact Hne. pose proof (A _ _ Hq) as Hr.
           rewrite aget_aset_neq; [exact Hr|]. exact (Hfresh _ _ Hr).
      * intros q n' Hq. destruct (N.eq_dec q p) as [->|Hne].
        -- rewrite aget_aset_eq in Hq. inversion Hq; subst. apply aget_aset_eq.
        -- rewrite aget_aset_neq in Hq by exact Hne. pose proof (B _ _ Hq) as Hr.
           rewrite aget_aset_neq; [exact Hr|]. intros ->. rewrite Hn in Hr. discriminate.
      * intros q n' Hq. destruct (N.eq_dec q p) as [->|Hne].
        -- left. rewrite mem_cons, N.eqb_refl. reflexivity.
        -- rewrite aget_aset_neq in Hq by exact Hne. destruct (C _ _ Hq) as [H|H]; [left|right; exact H].
           rewrite mem_cons, H. apply orb_true_r.
      * intros q [H|H].
        -- apply mem_cons_true in H. destruct H as [->|H]; [lia|]. specialize (D _ (or_introl H)). unfold p. lia.
        -- specialize (D _ (or_intror H)). unfold p. lia.
  - (* IInitOk *)
    destruct (mem p (i_init s)) eqn:Hm; [|repeat split; assumption].
    repeat split; cbn [i_names i_rec i_init i_live i_next]; eauto.
    + intros q n Hq. destruct (N.eq_dec q p) as [->|Hne].
      * right. rewrite mem_cons, N.eqb_refl. reflexivity.
      * destruct (C _ _ Hq) as [H|H].
        -- left. rewrite mem_drop_neq by exact Hne. exact H.
        -- right. rewrite mem_cons, H. apply orb_true_r.
    + intros q [H|H].
      * apply D. left. exact (mem_drop_sub _ _ _ H).
      * apply mem_cons_true in H. destruct H as [->|H]; apply D; [left; exact Hm|right; exact H].
  - (* IInitFail *)
    destruct (mem p (i_init s)) eqn:Hm; [|repeat split; assumption].
    assert (HD : forall q, mem q (drop p (i_init s)) = true \/ mem q (i_live s) = true -> q <= i_next s).
    { intros q [H|H]; apply D; [left; exact (mem_drop_sub _ _ _ H)|right; exact H]. }
    assert (HC : forall q n', aget N.eq_dec q (adel N.eq_dec p (i_rec s)) = Some n' ->
                 mem q (drop p (i_init s)) = true \/ mem q (i_live s) = true).
    { intros q n' Hq. destruct (N.eq_dec q p) as [->|Hne]; [rewrite aget_adel_eq in Hq; discriminate|].
      rewrite aget_adel_neq in Hq by exact Hne. destruct (C _ _ Hq) as [H|H]; [left|right; exact H].
      rewrite mem_drop_neq by exact Hne. exact H. }
    unfold release_held. destruct (aget N.eq_dec p (i_rec s)) as [n|] eqn:Hp.
    + repeat split; cbn [i_names i_rec i_init i_live i_next]; [| |exact HC|exact HD].
      * intros n' q Hq. destruct (N.eq_dec n' n) as [->|Hne]; [rewrite aget_adel_eq in Hq; discriminate|].
        rewrite aget_adel_neq in Hq by exact Hne. pose proof (A _ _ Hq) as Hr.
        rewrite aget_adel_neq; [exact Hr|]. intros ->. rewrite Hp in Hr. inversion Hr. congruence.
      * intros q n' Hq. destruct (N.eq_dec q p) as [->|Hne]; [rewrite aget_adel_eq in Hq; discriminate|].
        rewrite aget_adel_neq in Hq by exact Hne. pose proof (B _ _ Hq) as Hr.
        rewrite aget_adel_neq; [exact Hr|]. intros ->. rewrite (B _ _ Hp) in Hr. inversion Hr. congruence.
    + repeat split; cbn [i_names i_rec i_init i_live i_next]; [| |exact HC|exact HD].
      * intros n' q Hq. pose proof (A _ _ Hq) as Hr.
        rewrite aget_adel_neq; [exact Hr|]. intros ->. rewrite Hp in Hr. discriminate.
      * intros q n' Hq. destruct (N.eq_dec q p) as [->|Hne]; [rewrite aget_adel_eq in Hq; discriminate|].
        rewrite aget_adel_neq in Hq by exact Hne. exact (B _ _ Hq).
  - (* IUnreg *)
    destruct (aget N.eq_dec n (i_names s)) as [q0|] eqn:Hn; [|repeat split; assumption].
    pose proof (A _ _ Hn) as Hq0.
    repeat split; cbn [i_names i_rec i_init i_live i_next]; [| | |exact D].
    + intros n' q Hq. destruct (N.eq_dec n' n) as [->|Hne]; [rewrite aget_adel_eq in Hq; discriminate|].
      rewrite aget_adel_neq in Hq by exact Hne. pose proof (A _ _ Hq) as Hr.
      rewrite aget_adel_neq; [exact Hr|]. intros ->. rewrite Hq0 in Hr. inversion Hr. congruence.
    + intros q n' Hq. destruct (N.eq_dec q q0) as [->|Hne]; [rewrite aget_adel_eq in Hq; discriminate|].
      rewrite aget_adel_neq in Hq by exact Hne. pose proof (B _ _ Hq) as Hr.
      rewrite aget_adel_neq; [exact Hr|]. intros ->. rewrite Hn in Hr. inversion Hr. congruence.
    + intros q n' Hq. destruct (N.eq_dec q q0) as [->|Hne]; [rewrite aget_adel_eq in Hq; discriminate|].
      rewrite aget_adel_neq in Hq by exact Hne. exact (C _ _ Hq).
  - (* IReg *)
    rewrite !ahas_get.
    destruct (mem q (i_live s)) eqn:Hm; [|repeat split; assumption].
    destruct (aget N.eq_dec q (i_rec s)) as [?|] eqn:Hq0; [repeat split; assumption|].
    destruct (aget N.eq_dec n (i_names s)) as [?|] eqn:Hn; [repeat split; assumption|].
    cbn [andb negb].
    repeat split; cbn [i_names i_rec i_init i_live i_next]; [| | |exact D].
    + intros n' q' Hq. destruct (N.eq_dec n' n) as [->|Hne].
      * rewrite aget_aset_eq in Hq. inversion Hq; subst. apply aget_aset_eq.
      * rewrite aget_aset_neq in Hq by exact Hne. pose proof (A _ _ Hq) as Hr.
        rewrite aget_aset_neq; [exact Hr|]. intros ->. rewrite Hq0 in Hr. discriminate.
    + intros q' n' Hq. destruct (N.eq_dec q' q) as [->|Hne].
      * rewrite aget_aset_eq in Hq. inversion Hq; subst. apply aget_aset_eq.
      * rewrite aget_aset_neq in Hq by exact Hne. pose proof (B _ _ Hq) as Hr.
        rewrite aget_aset_neq; [exact Hr|]. intros ->. rewrite Hn in Hr. discriminate.
    + intros q' n' Hq. destruct (N.eq_dec q' q) as [->|Hne]; [right; exact Hm|].
      rewrite aget_aset_neq in Hq by exact Hne. exact (C _ _ Hq).
  - (* ITerm *)
    destruct (mem q (i_live s)) eqn:Hm; [|repeat split; assumption].
    assert (HD : forall q', mem q' (i_init s) = true \/ mem q' (drop q (i_live s)) = true -> q' <= i_next s).
    { intros q' [H|H]; apply D; [left; exact H|right; exact (mem_drop_sub _ _ _ H)]. }
    destruct (aget N.eq_dec q (i_rec s)) as [n|] eqn:Hq.
    + rewrite (B _ _ Hq), N.eqb_refl.
      repeat split; cbn [i_names i_rec i_init i_live i_next]; [| | |exact HD].
      * intros n' q' Hq'. destruct (N.eq_dec n' n) as [->|Hne]; [rewrite aget_adel_eq in Hq'; discriminate|].
        rewrite aget_adel_neq in Hq' by exact Hne. pose proof (A _ _ Hq') as Hr.
        rewrite aget_adel_neq; [exact Hr|]. intros ->. rewrite Hq in Hr. inversion Hr. congruence.
      * intros q' n' Hq'. destruct (N.eq_dec q' q) as [->|Hne]; [rewrite aget_adel_eq in Hq'; discriminate|].
        rewrite aget_adel_neq in Hq' by exact Hne. pose proof (B _ _ Hq') as Hr.
        rewrite aget_adel_neq; [exact Hr|]. intros ->. rewrite (B _ _ Hq) in Hr. inversion Hr. congruence.
      * intros q' n' Hq'. destruct (N.eq_dec q' q) as [->|Hne]; [rewrite aget_adel_eq in Hq'; discriminate|].
        rewrite aget_adel_neq in Hq' by exact Hne. destruct (C _ _ Hq') as [H|H]; [left; exact H|right].
        rewrite mem_drop_neq by exact Hne. exact H.
    + repeat split; cbn [i_names i_rec i_init i_live i_next]; [| | |exact HD].
      * intros n' q' Hq'. pose proof (A _ _ Hq') as Hr.
        rewrite aget_adel_neq; [exact Hr|]. intros ->. rewrite Hq in Hr. discriminate.
      * intros q' n' Hq'. destruct (N.eq_dec q' q) as [->|Hne]; [rewrite aget_adel_eq in Hq'; discriminate|].
        rewrite aget_adel_neq in Hq' by exact Hne. exact (B _ _ Hq').
      * intros q' n' Hq'. destruct (N.eq_dec q' q) as [->|Hne]; [rewrite aget_adel_eq in Hq'; discriminate|].
        rewrite aget_adel_neq in Hq' by exact Hne. destruct (C _ _ Hq') as [H|H]; [left; exact H|right].
        rewrite mem_drop_neq by exact Hne. exact H.
Qed.

Lemma IInv_run l : forall s, IInv s -> IInv (fold_left istep l s).
Proof. induction l as [|o l IH]; intros s H; [exact H|]. cbn [fold_left]. apply IH, IInv_step, H. Qed.

(* after EVERY history: whoever the table gives a name to holds it in its record and exists; whoever holds a name
   in its record owns the table entry *)
Theorem initfail_agree : forall l, agree_tr (irun l).
Proof.
  intros l. destruct (IInv_run l ist0 IInv0) as (A & B & C & _). repeat split; assumption.
Qed.

(* deleting the name the spawn asked for: a live process keeps a name the table no longer knows *)
Definition ex_req (p : ipid) : option iatom := if p =? 1001 then Some 7 else None.
Definition ex_hist : list iop := [ISpawn 7; IUnreg 7; ISpawn 7; IInitOk 1002; IInitFail 1001].

Theorem initfail_by_requested_name_refuted :
  exists req l, ~ agree_tr (fold_left (istep_req req) l ist0).
Proof.
  exists ex_req, ex_hist. intros (_ & B & _).
  specialize (B 1002 7). vm_compute in B. specialize (B eq_refl). discriminate.
Qed.

Example initfail_example :
  agree_b (irun ex_hist) = true /\ i_names (irun ex_hist) = [(7, 1002)] /\ i_live (irun ex_hist) = [1002] /\
  agree_b (fold_left (istep_req ex_req) ex_hist ist0) = false.
Proof. vm_compute. repeat split; reflexivity. Qed.
