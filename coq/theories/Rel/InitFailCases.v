(* Rel/InitFailCases.v — checkers for the harness family `initfail` (go/harness/cmd/rel/initfail.go): histories
   over the registered name of processes held inside ProcessInit on a real node; after every operation the
   name table (name, owner) and, for every process in the process table, its name field (pid, name). *)
From Ergo Require Import Common.Base Rel.Amap Rel.InitFail.
Local Open Scope N_scope.

Definition iobs := (list (iatom * ipid) * list (ipid * iatom) * list ipid)%type.   (* table, records of live processes, live *)

Record icase := mk_icase { ic_ops : list iop; ic_obs : list iobs }.

Definition pair_eqb (a b : N * N) : bool := (fst a =? fst b) && (snd a =? snd b).
Definition same_set (a b : list (N * N)) : bool :=
  forallb (fun x => existsb (pair_eqb x) b) a && forallb (fun x => existsb (pair_eqb x) a) b.
Definition same_pids (a b : list N) : bool :=
  forallb (fun x => existsb (N.eqb x) b) a && forallb (fun x => existsb (N.eqb x) a) b.

Definition obs_of (s : ist) : iobs :=
  (i_names s, filter (fun e => mem (fst e) (i_live s)) (i_rec s), i_live s).

Definition obs_eqb (m o : iobs) : bool :=
  same_set (fst (fst m)) (fst (fst o)) && same_set (snd (fst m)) (snd (fst o)) && same_pids (snd m) (snd o).

Fixpoint corr_from (s : ist) (ops : list iop) (obs : list iobs) : bool :=
  match ops, obs with
  | [], [] => true
  | o :: ops', b :: obs' => let s' := istep s o in obs_eqb (obs_of s') b && corr_from s' ops' obs'
  | _, _ => false
  end.
Definition corr_initfail (c : icase) : bool := corr_from ist0 (ic_ops c) (ic_obs c).

(* the property on what the implementation did, after every operation: a name the table binds to a process of the
   process table is the name that process shows, and every name a process shows is bound to it in the table *)
Definition obs_agree (b : iobs) : bool :=
  let '(tab, recs, live) := b in
  forallb (fun e => negb (mem (snd e) live) || existsb (pair_eqb (snd e, fst e)) recs) tab &&
  forallb (fun e => existsb (pair_eqb (snd e, fst e)) tab) recs.
Definition spec_initfail (c : icase) : bool := forallb obs_agree (ic_obs c).

(* non-trivial: an initialisation failed after somebody had touched a name *)
Definition premise_initfail (c : icase) : bool :=
  existsb (fun o => match o with IInitFail _ => true | _ => false end) (ic_ops c) &&
  existsb (fun o => match o with IUnreg _ | IReg _ _ => true | _ => false end) (ic_ops c).
