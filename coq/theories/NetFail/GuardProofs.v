(* NetFail engine — proofs about the incarnation guard table (NetFail/Guard.v). *)
From Ergo Require Import Common.Base Rel.Amap Rel.Model NetFail.Model NetFail.Guard.
Local Open Scope N_scope.

(** every operation that is handed a stamped identifier of the peer has the guard line *)
Lemma conn_table_complete : forall op, takes_stamped op = true -> conn_table op = GPeer.
Proof. intros op; destruct op; cbn; intros H; try reflexivity; discriminate. Qed.

Lemma takes_stamped_in : forall op, takes_stamped op = true <-> In op stamped_ops.
Proof.
  intros op. unfold stamped_ops. rewrite filter_In. split; [|tauto].
  intros H. split; [|exact H]. destruct op; cbn; tauto.
Qed.

Lemma stamped_ops_list : stamped_ops =
  [CSendPID; CSendAlias; CSendExit; CSendResponse; CSendResponseError; CCallPID; CCallAlias;
   CLinkPID; CUnlinkPID; CLinkAlias; CUnlinkAlias; CMonitorPID; CDemonitorPID; CMonitorAlias; CDemonitorAlias].
Proof. reflexivity. Qed.

Lemma accepts_stamped_creation : forall op i,
  takes_stamped op = true -> accepts op i = true -> exists cr, ident_creation i = Some cr.
Proof.
  intros op i T A. unfold accepts in A.
  destruct i; cbn [ident_creation kind_of] in *; eauto;
    destruct op; cbn in T, A; discriminate.
Qed.

(** * The table as it is: every stale identifier is refused and nothing is written *)
Theorem guard_refuses_stale : forall op i cr pc from fcr mcr,
  takes_stamped op = true -> accepts op i = true ->
  ident_creation i = Some cr -> cr <> pc ->
  conn_op conn_table op from fcr mcr i pc = (NErr e_incarnation, []).
Proof.
  intros op i cr pc from fcr mcr T _ IC NE. unfold conn_op.
  rewrite (conn_table_complete op T), IC. cbn [refuses].
  apply N.eqb_neq in NE. rewrite NE. reflexivity.
Qed.

(** ... so nothing reaches any process of the peer, whatever lives there *)
Corollary stale_reaches_nobody : forall op i cr pc from fcr mcr live rnode rcr,
  takes_stamped op = true -> accepts op i = true ->
  ident_creation i = Some cr -> cr <> pc ->
  delivered live rnode rcr (snd (conn_op conn_table op from fcr mcr i pc)) = [].
Proof.
  intros. erewrite guard_refuses_stale by eassumption. reflexivity.
Qed.

(** the same through the process API (local relation checks come first: they also refuse, without a frame) *)
Theorem proc_refuses_stale : forall held op i cr pc from mcr,
  takes_stamped op = true -> accepts op i = true ->
  ident_creation i = Some cr -> cr <> pc ->
  let '(r, fs) := proc_op conn_table held op from mcr i pc in
  fs = [] /\ (r = NErr e_incarnation \/ r = NErr e_exist \/ r = NErr e_norel).
Proof.
  intros held op i cr pc from mcr T A IC NE. unfold proc_op.
  destruct (is_add op && held); [auto|].
  destruct (is_del op && negb held); [auto|].
  erewrite guard_refuses_stale by eassumption. auto.
Qed.

(** an identifier of the CURRENT incarnation passes: one frame, which the receiver resolves to exactly
    the identifier that was addressed (non-vacuity of the table: it does not refuse everything) *)
Theorem guard_passes_current : forall op i pc from fcr mcr rnode,
  takes_stamped op = true -> accepts op i = true ->
  ident_creation i = Some pc ->
  (match i with IPid n _ _ | IAlias n _ _ => n | IName _ n | IEvent _ n => n end) = rnode ->
  exists w, conn_op conn_table op from fcr mcr i pc = (NOk, [w]) /\ resolve rnode pc (w_to w) = i.
Proof.
  intros op i pc from fcr mcr rnode T A IC RN. unfold conn_op.
  rewrite (conn_table_complete op T), IC. cbn [refuses]. rewrite N.eqb_refl. cbn [negb].
  eexists. split; [reflexivity|]. cbn [w_to]. unfold on_wire.
  destruct i; cbn in IC; try discriminate; inversion IC; subst;
    destruct (binary_frame op); reflexivity.
Qed.

(** operations on identifiers without a creation stamp (names, events) or on identifiers of the
    sending node itself are never refused by an incarnation comparison *)
Theorem unstamped_never_refused : forall op i pc from fcr mcr,
  takes_stamped op = false ->
  fst (conn_op conn_table op from fcr mcr i pc) = NOk.
Proof.
  intros op i pc from fcr mcr T. unfold conn_op.
  destruct op; cbn in T; try discriminate; reflexivity.
Qed.

(** * Any table: sound iff every operation taking a stamped identifier has the guard line *)
Definition sound (t : table) : Prop :=
  forall op i cr pc from mcr,
    takes_stamped op = true -> accepts op i = true -> ident_creation i = Some cr -> cr <> pc ->
    conn_op t op from mcr mcr i pc = (NErr e_incarnation, []).

Definition witness_ident (op : cop) (cr : N) : ident :=
  match arg_kind op with
  | KPid => IPid 2 1004 cr
  | KAlias => IAlias 2 1004 cr
  | KName => IName 1 2
  | KEvent => IEvent 1 2
  end.

Lemma witness_accepted : forall op cr, accepts op (witness_ident op cr) = true.
Proof. intros op cr. unfold accepts, witness_ident. destruct (arg_kind op); reflexivity. Qed.

Lemma witness_creation : forall op cr, takes_stamped op = true -> ident_creation (witness_ident op cr) = Some cr.
Proof.
  intros op cr T. unfold witness_ident. unfold takes_stamped in T.
  destruct (arg_kind op); try reflexivity; rewrite andb_false_r in T; discriminate.
Qed.

Theorem sound_iff_guarded : forall t,
  sound t <-> (forall op, takes_stamped op = true -> t op = GPeer).
Proof.
  intros t. split.
  - intros S op T.
    specialize (S op (witness_ident op 1000) 1000 1001 7 5 T (witness_accepted op 1000) (witness_creation op 1000 T)).
    assert (NE : 1000 <> 1001) by lia. specialize (S NE).
    unfold conn_op in S. destruct (t op) eqn:G; [reflexivity| |]; cbn [refuses] in S.
    + discriminate.
    + rewrite N.eqb_refl in S. cbn in S. discriminate.
  - intros G op i cr pc from mcr T _ IC NE. unfold conn_op. rewrite (G op T), IC. cbn [refuses].
    apply N.eqb_neq in NE. rewrite NE. reflexivity.
Qed.

Corollary conn_table_sound : sound conn_table.
Proof. apply sound_iff_guarded. exact conn_table_complete. Qed.

(** * Refutations: a missing or a wrong guard line *)

(* node 2 restarted: creation 1000 then 1001; its process 1004 of the new incarnation is alive *)
Definition twin_live : list ident := [IPid 2 1004 1001; IAlias 2 1004 1001].

(** without the line, for EVERY operation of the binary-frame family the stale identifier produces a frame
    that the receiver resolves to the process / alias of the new incarnation with the same number *)
Theorem guard_missing_refuted : forall op,
  takes_stamped op = true -> binary_frame op = true ->
  exists i cr pc w,
    ident_creation i = Some cr /\ cr <> pc /\ accepts op i = true /\
    conn_op (set_line conn_table op GNone) op 1001 5 5 i pc = (NOk, [w]) /\
    reaches twin_live 2 pc w = true /\ resolve 2 pc (w_to w) <> i.
Proof.
  intros op T B.
  exists (witness_ident op 1000), 1000, 1001.
  destruct op; cbn in T, B; try discriminate;
    (eexists; split; [reflexivity|]; split; [lia|]; split; [reflexivity|];
     split; [vm_compute; reflexivity|]; split; [vm_compute; reflexivity|]; vm_compute; discriminate).
Qed.

(** the seeded change of SendExit: the comparison looks at the sender (a process of this node, so it
    never differs from the node's creation).  The exit signal addressed to <2.1004> of incarnation 1000
    is written and resolves to <2.1004> of incarnation 1001. *)
Theorem guard_sendexit_from_refuted :
  exists i cr pc from mcr w,
    ident_creation i = Some cr /\ cr <> pc /\
    conn_op seeded_table CSendExit from mcr mcr i pc = (NOk, [w]) /\
    delivered twin_live 2 pc [w] = [w] /\ resolve 2 pc (w_to w) = IPid 2 1004 pc /\ resolve 2 pc (w_to w) <> i.
Proof.
  exists (IPid 2 1004 1000), 1000, 1001, 1001, 5. eexists.
  split; [reflexivity|]. split; [lia|]. split; [vm_compute; reflexivity|].
  split; [vm_compute; reflexivity|]. split; [reflexivity|]. vm_compute. discriminate.
Qed.

Corollary seeded_table_unsound : ~ sound seeded_table.
Proof.
  intros S. pose proof (proj1 (sound_iff_guarded seeded_table) S CSendExit eq_refl) as G. vm_compute in G. discriminate.
Qed.

(** every other operation of the seeded table still refuses (why only SendExit shows the defect) *)
Theorem seeded_table_others : forall op i cr pc from mcr,
  op <> CSendExit -> takes_stamped op = true -> accepts op i = true ->
  ident_creation i = Some cr -> cr <> pc ->
  conn_op seeded_table op from mcr mcr i pc = (NErr e_incarnation, []).
Proof.
  intros op i cr pc from mcr NO T A IC NE.
  replace (conn_op seeded_table op from mcr mcr i pc) with (conn_op conn_table op from mcr mcr i pc).
  - eapply guard_refuses_stale; eassumption.
  - unfold conn_op, seeded_table, set_line. destruct (cop_dec op CSendExit); [contradiction|reflexivity].
Qed.

(** * Bridge to the history model (NetFail/Model.v): its [stale] test is the guard line *)
Lemma stale_is_guard_line : forall op t cr pc fcr mcr,
  takes_stamped op = true -> stamped t = true ->
  stale t cr pc = refuses (conn_table op) (Some cr) pc fcr mcr.
Proof.
  intros op t cr pc fcr mcr T ST. rewrite (conn_table_complete op T). unfold stale. rewrite ST. reflexivity.
Qed.

(** * The monitors: an attempt on which the implementation agrees with the model table satisfies the
    property monitor (so a [spec_guard] failure with [corr_guard] intact cannot happen for table rows) *)
From Ergo Require Import NetFail.GuardCases.

Theorem corr_implies_spec : forall o,
  takes_stamped (go_op o) = true -> accepts (go_op o) (go_ident o) = true ->
  corr_one o = true -> spec_one o = true.
Proof.
  intros o T A C. unfold spec_one. destruct (is_stale o) eqn:S; [|reflexivity].
  unfold is_stale in S. destruct (ident_creation (go_ident o)) as [cr|] eqn:IC; [|discriminate].
  apply negb_true_iff, N.eqb_neq in S.
  unfold corr_one, model_obs in C. destruct (go_proc o).
  - pose proof (proc_refuses_stale (go_held o) (go_op o) (go_ident o) cr (go_pc o) 1001 5 T A IC S) as P.
    destruct (proc_op conn_table (go_held o) (go_op o) 1001 5 (go_ident o) (go_pc o)) as [r fs].
    destruct P as [ -> [ -> | [ -> | -> ] ] ]; apply andb_true_iff in C; destruct C as [C1 C2];
      rewrite C1, C2; cbn; rewrite ?orb_true_r; reflexivity.
  - rewrite (guard_refuses_stale (go_op o) (go_ident o) cr (go_pc o) 1001 5 5 T A IC S) in C.
    apply andb_true_iff in C. destruct C as [C1 C2]. rewrite C1, C2. reflexivity.
Qed.
