(* NetFail engine — model (definitions only) of the notification fan-out with FAILING deliveries
   (property C14, round "gap C14-nodedown-stops-at-first-failed-delivery"):

     node/core.go   RouteNodeDown            two nested loops (target -> consumers) for links and monitors
                    RouteTerminate{PID,ProcessID,Alias,Event}   one loop over link consumers, one over monitor consumers
                    sendExitMessage          delivery of MessageExit*  (mailbox.Urgent)
     node/route.go  RouteSendPID (local)     delivery of MessageDown*  (mailbox.System, MessagePriorityHigh)

   NetFail/Model.v's [fanout] uses Rel's [send], which can fail in one way only (the process is not in
   n.processes).  Here every way a delivery to ONE consumer fails is a case of [wtake]:
     ErrProcessUnknown      the consumer is not in n.processes (inside unregisterProcess / gone)
     ErrProcessTerminated   p.isAlive() == false: killed while busy in a callback, still registered (zombie);
                            RouteSendPID only — sendExitMessage has no such test and pushes the exit
     ErrProcessMailboxFull  bounded mailbox (ProcessOptions.MailboxSize), queue full, no fallback
   and the loops are transcribed with what they do after a failed delivery: go on (the code), `return`
   (the seeded change, also in the link loop), `break` out of the consumer loop. *)
From Ergo Require Import Common.Base Rel.Amap Rel.Model NetFail.Model.
Local Open Scope N_scope.

(** * The consumer as a delivery sees it *)
Record wproc := mkw {
  w_alive : bool;          (* p.isAlive(): state is neither Zombee nor Terminated *)
  w_urg : option N;        (* free slots of mailbox.Urgent; None: unbounded (MailboxSize == 0) *)
  w_sys : option N;        (* free slots of mailbox.System *)
  w_box : list note }.     (* exit / down messages pushed so far, in order *)

(* n.processes: sync.Map pid -> *process *)
Definition wst := pid -> option wproc.
Definition upd (c : pid) (w : wproc) (s : wst) : wst := fun q => if pid_dec q c then Some w else s q.

Inductive derr := DOk | DUnknown | DTerminated | DFull.

(*  queueLimitMPSC.Push: if q.Len()+1 > q.limit { return false }  (flush == false for mailboxes) *)
Definition room (f : option N) : bool := match f with Some 0 => false | _ => true end.
Definition take (f : option N) : option N := match f with Some k => Some (k - 1) | None => None end.

(*  sendExitMessage(from, to, message):                       RouteSendPID(from, to, {Priority: High}, message), local:
      value, loaded := n.processes.Load(to)                      value, found := n.processes.Load(to)
      if loaded == false { return ErrProcessUnknown }            if found == false { return ErrProcessUnknown }
      qm := ...                                                  if alive := p.isAlive(); alive == false { return ErrProcessTerminated }
      if ok := p.mailbox.Urgent.Push(qm); ok == false {          queue = p.mailbox.System
          return ErrProcessMailboxFull }                         if ok := queue.Push(qm); ok == false {
      p.run(); return nil                                            if p.fallback.Enable == false { return ErrProcessMailboxFull } ... }
                                                                 p.run(); return nil
    (fallback processes are not modelled: Fallback.Enable == false) *)
Definition wtake (x : note) (w : wproc) : wproc * derr :=
  if n_down x then
    if negb (w_alive w) then (w, DTerminated) else
    if room (w_sys w) then (mkw (w_alive w) (w_urg w) (take (w_sys w)) (w_box w ++ [x]), DOk) else (w, DFull)
  else
    if room (w_urg w) then (mkw (w_alive w) (take (w_urg w)) (w_sys w) (w_box w ++ [x]), DOk) else (w, DFull).

Definition deliver (c : pid) (x : note) (s : wst) : wst * derr :=
  match s c with
  | None => (s, DUnknown)
  | Some w => let '(w', e) := wtake x w in (upd c w' s, e)
  end.

Definition is_ok (e : derr) : bool := match e with DOk => true | _ => false end.

(* what the process itself handles later: a zombie never runs a callback again *)
Definition handled (c : pid) (s : wst) : list note :=
  match s c with Some w => if w_alive w then w_box w else [] | None => [] end.
Definition box (c : pid) (s : wst) : list note :=
  match s c with Some w => w_box w | None => [] end.

(** * The loops.  A Go map target -> []consumer is a list of groups; its iteration order and the
    order inside a group are arbitrary (the theorems quantify over every permutation). *)
Definition groups := list (target * list pid).

(*  for _, pid := range consumers { n.sendExitMessage(from, pid, message) }        (error ignored)
    for _, pid := range consumers { n.RouteSendPID(n.corePID, pid, opts, message) } (error ignored) *)
Fixpoint send_all (down : bool) (t : target) (r : N) (cs : list pid) (s : wst) : wst :=
  match cs with
  | [] => s
  | c :: tl => send_all down t r tl (fst (deliver c (mknote down t r) s))
  end.

(*  for target, consumers := range targetsWithConsumers { message := ...{target, reason}; <inner loop> } *)
Fixpoint fan (down : bool) (r : N) (gs : groups) (s : wst) : wst :=
  match gs with
  | [] => s
  | (t, cs) :: tl => fan down r tl (send_all down t r cs s)
  end.

(*  RouteNodeDown(name): CleanupNode(name), then the link loop, then the monitor loop, reason ErrNoConnection *)
Definition node_down_fan (gl gm : groups) (s : wst) : wst := fan true r_noconn gm (fan false r_noconn gl s).

(*  RouteTerminate*(target, reason): CleanupTarget(target), link consumers, then monitor consumers *)
Definition terminate_fan (t : target) (r : N) (lc mc : list pid) (s : wst) : wst :=
  send_all true t r mc (send_all false t r lc s).

(** ** Variants that look at the error of a delivery *)

(* inner loop left at the first failed delivery; the flag says that it was left *)
Fixpoint send_all_stop (down : bool) (t : target) (r : N) (cs : list pid) (s : wst) : wst * bool :=
  match cs with
  | [] => (s, false)
  | c :: tl => let '(s', e) := deliver c (mknote down t r) s in
               if is_ok e then send_all_stop down t r tl s' else (s', true)
  end.

(*  if err := deliver(...); err != nil { return }      — leaves RouteNodeDown altogether *)
Fixpoint fan_return (down : bool) (r : N) (gs : groups) (s : wst) : wst * bool :=
  match gs with
  | [] => (s, false)
  | (t, cs) :: tl => let '(s', ab) := send_all_stop down t r cs s in
                     if ab then (s', true) else fan_return down r tl s'
  end.

(*  if err := deliver(...); err != nil { break }       — leaves the consumer loop of this target *)
Fixpoint fan_break (down : bool) (r : N) (gs : groups) (s : wst) : wst :=
  match gs with
  | [] => s
  | (t, cs) :: tl => fan_break down r tl (fst (send_all_stop down t r cs s))
  end.

(* the seeded change: `return` in the monitor loop *)
Definition node_down_fan_mon_return (gl gm : groups) (s : wst) : wst :=
  fst (fan_return true r_noconn gm (fan false r_noconn gl s)).
(* the same in the link loop: the monitor loop is not even reached *)
Definition node_down_fan_link_return (gl gm : groups) (s : wst) : wst :=
  let '(s', ab) := fan_return false r_noconn gl s in
  if ab then s' else fan true r_noconn gm s'.
Definition node_down_fan_break (gl gm : groups) (s : wst) : wst :=
  fan_break true r_noconn gm (fan_break false r_noconn gl s).
Definition terminate_fan_break (t : target) (r : N) (lc mc : list pid) (s : wst) : wst :=
  fst (send_all_stop true t r mc (fst (send_all_stop false t r lc s))).

(** * The loops as one list of deliveries *)
Record dlv := mkdlv { d_down : bool; d_t : target; d_c : pid }.
Definition dlv_dec : forall a b : dlv, {a = b} + {a <> b}.
Proof. decide equality; [apply pid_dec | apply target_dec | apply bool_dec]. Defined.

Definition flat (down : bool) (gs : groups) : list dlv :=
  flat_map (fun g => map (mkdlv down (fst g)) (snd g)) gs.
Definition d_note (r : N) (d : dlv) : note := mknote (d_down d) (d_t d) r.

Fixpoint run (r : N) (dl : list dlv) (s : wst) : wst :=
  match dl with
  | [] => s
  | d :: tl => run r tl (fst (deliver (d_c d) (d_note r d) s))
  end.

(* one consumer's share *)
Definition mine (c : pid) (dl : list dlv) : list dlv :=
  filter (fun d => if pid_dec (d_c d) c then true else false) dl.
Fixpoint wrun (r : N) (l : list dlv) (w : wproc) : wproc :=
  match l with
  | [] => w
  | d :: tl => wrun r tl (fst (wtake (d_note r d) w))
  end.

(* "its own delivery succeeds": the consumer is alive (or is owed exits only) and each of its two
   queues has room for what is addressed to it — nothing here mentions any other consumer *)
Definition n_exits (l : list dlv) : N := N.of_nat (length (filter (fun d => negb (d_down d)) l)).
Definition n_downs (l : list dlv) : N := N.of_nat (length (filter d_down l)).
Definition enough (f : option N) (k : N) : bool := match f with None => true | Some m => k <=? m end.
Definition able (w : wproc) (l : list dlv) : bool :=
  (w_alive w || (n_downs l =? 0)) && enough (w_urg w) (n_exits l) && enough (w_sys w) (n_downs l).

(* the deliveries RouteNodeDown(n) owes for a relation set K: CleanupNode reports every relation whose
   target lives on n and whose consumer does not (Rel.TMProofs.cleanup_node_spec) *)
Definition key_dlv (k : key) : dlv := mkdlv (km k) (kt k) (kc k).
Definition node_dlvs (n : atom) (K : list key) : list dlv := map key_dlv (filter (node_report n) K).
Definition target_dlvs (t : target) (K : list key) : list dlv := map key_dlv (filter (is_target t) K).

Inductive sublist {A} : list A -> list A -> Prop :=
| sub_nil : sublist [] []
| sub_skip x l1 l2 : sublist l1 l2 -> sublist l1 (x :: l2)
| sub_keep x l1 l2 : sublist l1 l2 -> sublist (x :: l1) (x :: l2).
