(* NetFail engine — the accepting side of a new connection against network.stop (node/network.go).

     stop():    n.running.CompareAndSwap(true, false)                 [SFlag]
                for _, a := range n.acceptors { a.l.Close() }
                n.connections.Range(.. c.Terminate(..) ..)            [SWalk]
     accept():  result := a.handshake.Accept(..)      (the dialing side's GetNode returns here)
                n.registerConnection(result.Peer, conn) ; conn.Join(c, ..) ; go n.serve(..)   [AReg]
                if n.running.Load() == false { conn.Terminate(..) }   [ACheck]  (fix e1f48c0; absent before)

   One connection in flight; the two goroutines interleave freely.  [open]: the TCP link is open, i.e. the
   dialing node still believes its peer is up and nobody holding a link / monitor there is notified. *)
From Ergo Require Import Common.Base.

Record ast := mkast { a_running : bool; a_registered : bool; a_open : bool }.
Inductive aev := SFlag | SWalk | AReg | ACheck.

Definition astep (e : aev) (s : ast) : ast :=
  match e with
  | SFlag => mkast false (a_registered s) (a_open s)
  | SWalk => if a_registered s then mkast (a_running s) true false else s
  | AReg => mkast (a_running s) true true
  | ACheck => if a_running s then s else mkast false (a_registered s) false
  end.
Definition arun (l : list aev) : ast := fold_left (fun s e => astep e s) l (mkast true false false).

(* all interleavings of two sequences, each keeping its own order *)
Fixpoint interleave (fuel : nat) (a b : list aev) : list (list aev) :=
  match fuel with
  | O => []
  | S f =>
    match a, b with
    | [], _ => [b]
    | _, [] => [a]
    | x :: a', y :: b' => map (cons x) (interleave f a' b) ++ map (cons y) (interleave f a b')
    end
  end.

Definition stop_thread : list aev := [SFlag; SWalk].
Definition accept_fixed : list aev := [AReg; ACheck].
Definition accept_before : list aev := [AReg].

Definition all_closed (acc : list aev) : bool :=
  forallb (fun l => negb (a_open (arun l))) (interleave 10 stop_thread acc).

(** with the re-check every interleaving ends with the link closed: the peer sees the node go down *)
Theorem accept_stop_closed : forall l, In l (interleave 10 stop_thread accept_fixed) -> a_open (arun l) = false.
Proof.
  assert (H : all_closed accept_fixed = true) by (vm_compute; reflexivity).
  intros l HI. unfold all_closed in H. rewrite forallb_forall in H. specialize (H l HI).
  apply negb_true_iff in H. exact H.
Qed.

Lemma interleave_count : length (interleave 10 stop_thread accept_fixed) = 6%nat.
Proof. reflexivity. Qed.

(** without it: the walk first, the registration afterwards — the link stays open on a stopped node *)
Theorem accept_stop_before_refuted :
  exists l, In l (interleave 10 stop_thread accept_before) /\ a_open (arun l) = true /\ a_running (arun l) = false.
Proof. exists [SFlag; SWalk; AReg]. split; [vm_compute; tauto|]. split; reflexivity. Qed.
