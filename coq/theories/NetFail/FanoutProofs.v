(* NetFail engine — the fan-out of RouteNodeDown / RouteTerminate* with failing deliveries:
   who is notified = everybody whose OWN delivery succeeds, exactly once, whatever the others do and
   in whatever order the maps are walked; `return` / `break` after a failed delivery are refuted. *)
From Coq Require Import Permutation.
From Ergo Require Import Common.Base Rel.Amap Rel.Model Rel.TMProofs Rel.RegProofs NetFail.Model NetFail.Proofs NetFail.Fanout.
Local Open Scope N_scope.

(** * The loops are one run over the flattened delivery list *)
Lemma run_app r a b s : run r (a ++ b) s = run r b (run r a s).
Proof. revert s; induction a as [|d a IH]; intros s; cbn [run app]; [reflexivity | apply IH]. Qed.

Lemma send_all_run down t r cs s : send_all down t r cs s = run r (map (mkdlv down t) cs) s.
Proof. revert s; induction cs as [|c cs IH]; intros s; cbn [send_all run map]; [reflexivity | apply IH]. Qed.

Lemma fan_run down r gs s : fan down r gs s = run r (flat down gs) s.
Proof.
  revert s; induction gs as [|[t cs] gs IH]; intros s; [reflexivity|].
  cbn [fan]. unfold flat; cbn [flat_map fst snd]. rewrite run_app, <- send_all_run. apply IH.
Qed.

Lemma node_down_fan_run gl gm s :
  node_down_fan gl gm s = run r_noconn (flat false gl ++ flat true gm) s.
Proof. unfold node_down_fan. now rewrite run_app, !fan_run. Qed.

Lemma terminate_fan_run t r lc mc s :
  terminate_fan t r lc mc s = run r (map (mkdlv false t) lc ++ map (mkdlv true t) mc) s.
Proof. unfold terminate_fan. now rewrite run_app, !send_all_run. Qed.

(** * A delivery touches its own consumer only *)
Lemma deliver_other c x s q : q <> c -> fst (deliver c x s) q = s q.
Proof.
  intros Hq. unfold deliver. destruct (s c) as [w|]; [|reflexivity].
  destruct (wtake x w) as [w' e]. cbn [fst]. unfold upd. destruct (pid_dec q c); [contradiction | reflexivity].
Qed.

Lemma deliver_self c x s : fst (deliver c x s) c = option_map (fun w => fst (wtake x w)) (s c).
Proof.
  unfold deliver. destruct (s c) as [w|] eqn:E; cbn [option_map]; [|exact E].
  destruct (wtake x w) as [w' e]. cbn [fst]. unfold upd. destruct (pid_dec c c); [reflexivity | contradiction].
Qed.

(* projection: what the whole run does to c is what c's own deliveries do to c's record *)
Lemma run_proj r dl : forall s c, run r dl s c = option_map (wrun r (mine c dl)) (s c).
Proof.
  induction dl as [|d dl IH]; intros s c; cbn [run mine filter wrun].
  - destruct (s c); reflexivity.
  - rewrite IH. fold (mine c dl). destruct (pid_dec (d_c d) c) as [E|NE].
    + subst c. rewrite deliver_self. destruct (s (d_c d)); reflexivity.
    + rewrite deliver_other by congruence. reflexivity.
Qed.

(** ** independent of everybody else: two node states that agree on c give c the same *)
Theorem fan_independent r dl s s' c : s c = s' c -> run r dl s c = run r dl s' c.
Proof. intros H. now rewrite !run_proj, H. Qed.

Theorem fan_unknown r dl s c : s c = None -> run r dl s c = None.
Proof. intros H. now rewrite run_proj, H. Qed.

(** * One record *)
Lemma n_exits_cons d l : n_exits (d :: l) = (if d_down d then 0 else 1) + n_exits l.
Proof. unfold n_exits; cbn [filter]. destruct (d_down d); cbn [negb length]; lia. Qed.
Lemma n_downs_cons d l : n_downs (d :: l) = (if d_down d then 1 else 0) + n_downs l.
Proof. unfold n_downs; cbn [filter]. destruct (d_down d); cbn [length]; lia. Qed.

Lemma wrun_alive r l : forall w, w_alive (wrun r l w) = w_alive w.
Proof.
  induction l as [|d l IH]; intros w; cbn [wrun]; [reflexivity|]. rewrite IH.
  unfold wtake. destruct (n_down (d_note r d)); [destruct (negb (w_alive w)); [reflexivity|]|];
    match goal with |- context [room ?f] => destruct (room f) end; reflexivity.
Qed.

Lemma wtake_ok x w :
  (if n_down x then w_alive w && room (w_sys w) else room (w_urg w)) = true ->
  wtake x w = (mkw (w_alive w) (if n_down x then w_urg w else take (w_urg w))
                   (if n_down x then take (w_sys w) else w_sys w) (w_box w ++ [x]), DOk).
Proof.
  unfold wtake. destruct (n_down x).
  - intros H. apply andb_true_iff in H as [-> ->]. reflexivity.
  - intros ->. reflexivity.
Qed.

Lemma room_enough f k : enough f (1 + k) = true -> room f = true /\ enough (take f) k = true.
Proof. destruct f as [[|p]|]; cbn [enough room take]; intros H; split; try reflexivity; lia. Qed.

Lemma wrun_able r l : forall w, able w l = true -> w_box (wrun r l w) = w_box w ++ map (d_note r) l.
Proof.
  induction l as [|d l IH]; intros w H; cbn [wrun map]; [now rewrite app_nil_r|].
  unfold able in H. rewrite n_exits_cons, n_downs_cons in H.
  apply andb_true_iff in H as [H H3]. apply andb_true_iff in H as [H1 H2].
  rewrite wtake_ok.
  - cbn [fst]. rewrite IH; [cbn [w_box]; now rewrite <- app_assoc|].
    unfold able. cbn [w_alive w_urg w_sys]. unfold d_note; cbn [n_down].
    destruct (d_down d).
    + apply room_enough in H3 as [_ H3]. rewrite H3, N.add_0_l in *. rewrite H2.
      destruct (w_alive w); [reflexivity | cbn [orb] in H1; lia].
    + apply room_enough in H2 as [_ H2]. rewrite H2, N.add_0_l in *. rewrite H3, H1. reflexivity.
  - unfold d_note; cbn [n_down]. destruct (d_down d).
    + apply room_enough in H3 as [-> _]. destruct (w_alive w); [reflexivity | cbn [orb] in H1; lia].
    + now apply room_enough in H2 as [-> _].
Qed.

Lemma wrun_sub r l : forall w, exists l', sublist l' l /\ w_box (wrun r l w) = w_box w ++ map (d_note r) l'.
Proof.
  induction l as [|d l IH]; intros w; cbn [wrun].
  - exists []. split; [constructor | now rewrite app_nil_r].
  - destruct (wtake (d_note r d) w) as [w' e] eqn:E. cbn [fst].
    destruct (IH w') as (l' & Hs & Hb).
    assert (Hc : w_box w' = w_box w \/ w_box w' = w_box w ++ [d_note r d]).
    { unfold wtake in E. destruct (n_down (d_note r d)); [destruct (negb (w_alive w)); [inversion E; now left|]|];
        match type of E with context [room ?f] => destruct (room f) end; inversion E; cbn [w_box]; auto. }
    destruct Hc as [Hc|Hc].
    + exists l'. split; [now constructor | now rewrite Hb, Hc].
    + exists (d :: l'). split; [now constructor|]. rewrite Hb, Hc. cbn [map]. now rewrite <- app_assoc.
Qed.

Lemma sublist_In {A} (a b : list A) x : sublist a b -> In x a -> In x b.
Proof. induction 1; cbn; intuition. Qed.
Lemma sublist_NoDup {A} (a b : list A) : sublist a b -> NoDup b -> NoDup a.
Proof.
  induction 1; intros Hn; [constructor | inversion Hn; auto |].
  inversion Hn; subst. constructor; [|auto]. intros Hi. eapply sublist_In in Hi; eauto.
Qed.

(** * Who is notified *)

(* (a) a consumer whose own deliveries succeed gets every note addressed to it, each once, in the
       order of the walk — whatever happens to the deliveries of the others *)
Theorem fan_exact r dl s c w :
  s c = Some w -> able w (mine c dl) = true ->
  box c (run r dl s) = w_box w ++ map (d_note r) (mine c dl) /\
  handled c (run r dl s) = if w_alive w then w_box w ++ map (d_note r) (mine c dl) else [].
Proof.
  intros Hs Ha. unfold box, handled. rewrite run_proj, Hs. cbn [option_map].
  rewrite wrun_alive, wrun_able by exact Ha. split; [reflexivity|]. destruct (w_alive w) eqn:E; [reflexivity|].
  reflexivity.
Qed.

(* (b) nobody gets anything that is not addressed to it, and nothing twice *)
Theorem fan_at_most_once r dl s c w :
  s c = Some w ->
  exists l', sublist l' (mine c dl) /\ box c (run r dl s) = w_box w ++ map (d_note r) l'.
Proof.
  intros Hs. unfold box. rewrite run_proj, Hs. cbn [option_map]. apply wrun_sub.
Qed.

(** ** every order of the walk *)
Lemma Permutation_filter' {A} (f : A -> bool) l l' : Permutation l l' -> Permutation (filter f l) (filter f l').
Proof.
  induction 1 as [|x l l' Hp IH|x y l|l l' l'' H1 IH1 H2 IH2]; cbn [filter].
  - constructor.
  - destruct (f x); [now constructor | assumption].
  - destruct (f x), (f y); try apply Permutation_refl. apply perm_swap.
  - eapply Permutation_trans; eauto.
Qed.

Lemma able_perm w l l' : Permutation l l' -> able w l = able w l'.
Proof.
  intros H. unfold able, n_exits, n_downs.
  rewrite (Permutation_length (Permutation_filter' (fun d => negb (d_down d)) _ _ H)).
  now rewrite (Permutation_length (Permutation_filter' d_down _ _ H)).
Qed.

Theorem fan_order_free r dl dl' s c w :
  Permutation dl dl' -> s c = Some w -> able w (mine c dl) = true ->
  Permutation (box c (run r dl s)) (box c (run r dl' s)).
Proof.
  intros Hp Hs Ha.
  assert (Hm : Permutation (mine c dl) (mine c dl')) by (apply Permutation_filter'; exact Hp).
  destruct (fan_exact r dl s c w Hs Ha) as [-> _].
  assert (Ha' : able w (mine c dl') = true) by (rewrite <- (able_perm w _ _ Hm); exact Ha).
  destruct (fan_exact r dl' s c w Hs Ha') as [-> _].
  apply Permutation_app_head, Permutation_map, Hm.
Qed.

(** ** counting form (the shape of C14_node_down_once) *)
Definition due_dlv (r : N) (dl : list dlv) (c : pid) (x : note) : nat :=
  if (n_reason x =? r) && memb dlv_dec (mkdlv (n_down x) (n_target x) c) dl then 1%nat else 0%nat.

Lemma count_notes r c l x :
  (forall d, In d l -> d_c d = c) -> NoDup l ->
  count_occ note_dec (map (d_note r) l) x =
  if (n_reason x =? r) && memb dlv_dec (mkdlv (n_down x) (n_target x) c) l then 1%nat else 0%nat.
Proof.
  induction l as [|d l IH]; intros Hc Hn; cbn [map count_occ].
  - now rewrite andb_false_r.
  - inversion Hn as [|? ? Hni Hn']; subst.
    rewrite IH by (auto; intros; apply Hc; now right).
    assert (Hd : d_c d = c) by (apply Hc; now left).
    destruct (note_dec (d_note r d) x) as [E|NE].
    + subst x. unfold d_note. cbn [n_reason n_down n_target]. rewrite N.eqb_refl. cbn [andb].
      assert (E1 : mkdlv (d_down d) (d_t d) c = d) by (destruct d; cbn in *; now subst).
      rewrite E1. destruct (memb dlv_dec d l) eqn:Em.
      * apply memb_In in Em. contradiction.
      * destruct (memb dlv_dec d (d :: l)) eqn:Em'; [reflexivity|].
        apply memb_false in Em'. exfalso. apply Em'. now left.
    + destruct (n_reason x =? r) eqn:Er; cbn [andb]; [|reflexivity].
      apply N.eqb_eq in Er.
      destruct (memb dlv_dec (mkdlv (n_down x) (n_target x) c) (d :: l)) eqn:E1;
      destruct (memb dlv_dec (mkdlv (n_down x) (n_target x) c) l) eqn:E2; try reflexivity.
      * apply memb_In in E1. apply memb_false in E2. destruct E1 as [E1|E1]; [|contradiction].
        exfalso. apply NE. subst d. unfold d_note. cbn. destruct x; cbn in *; now subst.
      * apply memb_In in E2. apply memb_false in E1. exfalso. apply E1. now right.
Qed.

Lemma mine_memb c dl d : d_c d = c -> memb dlv_dec d (mine c dl) = memb dlv_dec d dl.
Proof.
  intros Hc. destruct (memb dlv_dec d dl) eqn:E.
  - apply memb_In. apply memb_In in E. unfold mine. apply filter_In. split; [exact E|].
    destruct (pid_dec (d_c d) c); [reflexivity | contradiction].
  - apply memb_false. apply memb_false in E. intros Hi. apply E. unfold mine in Hi. now apply filter_In in Hi.
Qed.

Theorem fan_counts r dl s c w x :
  NoDup dl -> s c = Some w -> able w (mine c dl) = true ->
  count_occ note_dec (box c (run r dl s)) x = (count_occ note_dec (w_box w) x + due_dlv r dl c x)%nat.
Proof.
  intros Hn Hs Ha. destruct (fan_exact r dl s c w Hs Ha) as [-> _].
  rewrite count_occ_app. f_equal. unfold due_dlv.
  rewrite (count_notes r c).
  - now rewrite mine_memb by reflexivity.
  - intros d Hd. unfold mine in Hd. apply filter_In in Hd as [_ Hd]. destruct (pid_dec (d_c d) c); [assumption | discriminate].
  - unfold mine. now apply NoDup_filter.
Qed.

(** * RouteNodeDown: the deliveries are those CleanupNode reports, in any grouping and order *)
Definition pair_dlv (down : bool) (tc : target * pid) : dlv := mkdlv down (fst tc) (snd tc).

Lemma partition_perm {A} (f : A -> bool) l : Permutation (filter (fun x => negb (f x)) l ++ filter f l) l.
Proof.
  induction l as [|x l IH]; cbn [filter]; [constructor|].
  destruct (f x); cbn [negb app].
  - apply Permutation_sym. eapply Permutation_trans; [|apply Permutation_middle].
    constructor. now apply Permutation_sym.
  - now constructor.
Qed.

Lemma cleanup_node_dlvs n m m' l mo :
  tm_cleanup_node n m = (m', l, mo) ->
  Permutation (map (pair_dlv false) l ++ map (pair_dlv true) mo) (node_dlvs n (rels m)).
Proof.
  unfold tm_cleanup_node. intros H. inversion H; subst; clear H.
  unfold node_dlvs. set (rep := filter (node_report n) (rels m)).
  eapply Permutation_trans; [|apply Permutation_map, (partition_perm km rep)].
  rewrite map_app, !map_map. unfold links_of, monitors_of.
  apply Permutation_app; apply Permutation_refl'; apply map_ext_in; intros k Hk; apply filter_In in Hk as [_ Hk];
    unfold pair_dlv, tc_pair, key_dlv; cbn [fst snd]; destruct (km k); cbn in Hk; congruence.
Qed.

Lemma key_dlv_inj a b : key_dlv a = key_dlv b -> a = b.
Proof. destruct a, b; unfold key_dlv; cbn; congruence. Qed.

Lemma node_dlvs_NoDup n K : NoDup K -> NoDup (node_dlvs n K).
Proof.
  intros H. unfold node_dlvs. apply FinFun.Injective_map_NoDup; [intros a b; apply key_dlv_inj | now apply NoDup_filter].
Qed.

(* the 'no connection' notes RouteNodeDown(n) owes c for the relation set K *)
Definition due_node (n : atom) (K : list key) (c : pid) (x : note) : nat :=
  if (n_reason x =? r_noconn) && (target_node (n_target x) =? n) && negb (pnode c =? n)
     && mem_key (mkkey c (n_target x) (n_down x)) K
  then 1%nat else 0%nat.

Lemma due_node_dlv n K c x : due_dlv r_noconn (node_dlvs n K) c x = due_node n K c x.
Proof.
  unfold due_dlv, due_node. destruct (n_reason x =? r_noconn); cbn [andb]; [|reflexivity].
  set (k := mkkey c (n_target x) (n_down x)).
  assert (Hk : mkdlv (n_down x) (n_target x) c = key_dlv k) by reflexivity. rewrite Hk.
  assert (Hiff : In (key_dlv k) (node_dlvs n K) <-> node_report n k = true /\ In k K).
  { unfold node_dlvs. rewrite in_map_iff. split.
    - intros (k' & E & Hi). apply key_dlv_inj in E. subst k'. apply filter_In in Hi. tauto.
    - intros [Hr Hi]. exists k. split; [reflexivity | apply filter_In; tauto]. }
  unfold node_report, consumer_on, target_on in Hiff. cbn [kc kt k] in Hiff.
  destruct (memb dlv_dec (key_dlv k) (node_dlvs n K)) eqn:E1.
  - apply memb_In in E1. apply Hiff in E1 as [Hr Hi]. apply andb_true_iff in Hr as [H1 H2].
    rewrite H2, H1. cbn [andb]. unfold mem_key. assert (memb key_dec k K = true) as -> by now apply memb_In.
    reflexivity.
  - apply memb_false in E1.
    destruct ((target_node (n_target x) =? n) && negb (pnode c =? n) && mem_key k K) eqn:E2; [|reflexivity].
    exfalso. apply E1, Hiff. apply andb_true_iff in E2 as [E2 E3]. apply andb_true_iff in E2 as [E2 E4].
    split; [now rewrite E4, E2 | unfold mem_key in E3; apply memb_In in E3; exact E3].
Qed.

(* MAIN (node down).  For every relation set held by the target manager, every grouping / iteration
   order of the two maps CleanupNode returns, every state of every other process: a consumer whose own
   deliveries succeed has after RouteNodeDown(n) exactly one more 'no connection' exit per link and
   down per monitor it held on something of n, and nothing else. *)
Theorem node_down_fan_exact n m m' l mo gl gm s c w x :
  NoDup (rels m) -> tm_cleanup_node n m = (m', l, mo) ->
  Permutation (flat false gl) (map (pair_dlv false) l) ->
  Permutation (flat true gm) (map (pair_dlv true) mo) ->
  s c = Some w -> able w (mine c (node_dlvs n (rels m))) = true ->
  count_occ note_dec (box c (node_down_fan gl gm s)) x
  = (count_occ note_dec (w_box w) x + due_node n (rels m) c x)%nat.
Proof.
  intros Hn Hc Hl Hm Hs Ha. rewrite node_down_fan_run.
  assert (Hp : Permutation (flat false gl ++ flat true gm) (node_dlvs n (rels m))).
  { eapply Permutation_trans; [apply Permutation_app; eassumption | eapply cleanup_node_dlvs; eassumption]. }
  assert (Hnd : NoDup (flat false gl ++ flat true gm)).
  { eapply Permutation_NoDup; [apply Permutation_sym, Hp | now apply node_dlvs_NoDup]. }
  assert (Ha' : able w (mine c (flat false gl ++ flat true gm)) = true).
  { rewrite (able_perm w _ (mine c (node_dlvs n (rels m)))); [exact Ha | apply Permutation_filter', Hp]. }
  rewrite (fan_counts _ _ _ _ _ x Hnd Hs Ha'). f_equal.
  rewrite <- due_node_dlv. unfold due_dlv.
  assert (Hmm : memb dlv_dec (mkdlv (n_down x) (n_target x) c) (flat false gl ++ flat true gm)
                = memb dlv_dec (mkdlv (n_down x) (n_target x) c) (node_dlvs n (rels m))).
  { destruct (memb dlv_dec (mkdlv (n_down x) (n_target x) c) (node_dlvs n (rels m))) eqn:E.
    - apply memb_In. apply memb_In in E. eapply Permutation_in; [apply Permutation_sym, Hp | exact E].
    - apply memb_false. apply memb_false in E. intros Hi. apply E. eapply Permutation_in; [apply Hp | exact Hi]. }
  now rewrite Hmm.
Qed.

(* nobody is notified twice or about a relation it did not hold, able or not *)
Theorem node_down_fan_at_most_once n m m' l mo gl gm s c w :
  NoDup (rels m) -> tm_cleanup_node n m = (m', l, mo) ->
  Permutation (flat false gl) (map (pair_dlv false) l) ->
  Permutation (flat true gm) (map (pair_dlv true) mo) ->
  s c = Some w ->
  exists l', box c (node_down_fan gl gm s) = w_box w ++ map (d_note r_noconn) l' /\ NoDup l' /\
             forall d, In d l' -> d_c d = c /\ In (mkkey c (d_t d) (d_down d)) (rels m) /\ target_node (d_t d) = n.
Proof.
  intros Hn Hc Hl Hm Hs. rewrite node_down_fan_run.
  assert (Hp : Permutation (flat false gl ++ flat true gm) (node_dlvs n (rels m))).
  { eapply Permutation_trans; [apply Permutation_app; eassumption | eapply cleanup_node_dlvs; eassumption]. }
  destruct (fan_at_most_once r_noconn (flat false gl ++ flat true gm) s c w Hs) as (l' & Hsub & Hb).
  exists l'. split; [exact Hb|]. split.
  - eapply sublist_NoDup; [exact Hsub|]. unfold mine. apply NoDup_filter.
    eapply Permutation_NoDup; [apply Permutation_sym, Hp | now apply node_dlvs_NoDup].
  - intros d Hd. eapply sublist_In in Hd; [|exact Hsub]. unfold mine in Hd. apply filter_In in Hd as [Hd Hcc].
    destruct (pid_dec (d_c d) c) as [E|]; [|discriminate]. split; [exact E|].
    eapply Permutation_in in Hd; [|exact Hp]. unfold node_dlvs in Hd. apply in_map_iff in Hd as (k & Ek & Hk).
    apply filter_In in Hk as [Hk Hr]. subst d. unfold key_dlv in *. cbn [d_c d_t d_down] in *. subst c.
    split; [now destruct k|]. unfold node_report, target_on in Hr. apply andb_true_iff in Hr as [_ Hr]. now apply N.eqb_eq.
Qed.

(** * Agreement with the first C14 model (NetFail/Model.v [node_down_st], deliveries by Rel's [send]):
    when every registered process is healthy (alive, unbounded mailbox) the two models give every live
    process the same messages — the older theorems (C14_node_down_once ...) are the special case
    "no delivery fails" of this one *)
Definition wst_of (s : st) : wst :=
  fun q => if live q s then Some (mkw true None None (inbox_of q s)) else None.

Lemma able_healthy b l : able (mkw true None None b) l = true.
Proof. reflexivity. Qed.

Theorem fan_agrees_with_rel n s m' l mo gl gm c x :
  idx_ok (s_tm s) -> tm_cleanup_node n (s_tm s) = (m', l, mo) ->
  Permutation (flat false gl) (map (pair_dlv false) l) ->
  Permutation (flat true gm) (map (pair_dlv true) mo) ->
  live c s = true ->
  count_occ note_dec (box c (node_down_fan gl gm (wst_of s))) x = cnt x c (node_down_st n s).
Proof.
  intros OK Hc Hl Hm Hlive.
  rewrite (node_down_exact n s c x OK).
  assert (Hs : wst_of s c = Some (mkw true None None (inbox_of c s))) by (unfold wst_of; now rewrite Hlive).
  rewrite (node_down_fan_exact n (s_tm s) m' l mo gl gm (wst_of s) c _ x (proj1 OK) Hc Hl Hm Hs (able_healthy _ _)).
  cbn [w_box]. unfold cnt. f_equal. unfold due_node, due_down. rewrite Hlive, andb_true_r. reflexivity.
Qed.

(** * RouteTerminate*(t, r): the same for the consumers CleanupTarget returns *)
Definition term_dlvs (t : target) (lc mc : list pid) : list dlv := map (mkdlv false t) lc ++ map (mkdlv true t) mc.
Definition due_target (t : target) (r : N) (lc mc : list pid) (c : pid) (x : note) : nat :=
  if (n_reason x =? r) && ((if target_dec (n_target x) t then true else false)
                           && memb pid_dec c (if n_down x then mc else lc))
  then 1%nat else 0%nat.

Lemma term_dlvs_In t lc mc d :
  In d (term_dlvs t lc mc) <-> d_t d = t /\ In (d_c d) (if d_down d then mc else lc).
Proof.
  unfold term_dlvs. rewrite in_app_iff, !in_map_iff. split.
  - intros [(c & E & Hi)|(c & E & Hi)]; subst d; cbn; auto.
  - intros [Ht Hi]. destruct d as [[|] t' c]; cbn in *; subst t'; [right | left]; exists c; auto.
Qed.

Lemma NoDup_app_disj {A} (a b : list A) :
  NoDup a -> NoDup b -> (forall x, In x a -> In x b -> False) -> NoDup (a ++ b).
Proof.
  induction a as [|x a IH]; intros Ha Hb Hd; cbn [app]; [exact Hb|].
  inversion Ha; subst. constructor.
  - rewrite in_app_iff. intros [Hi|Hi]; [contradiction | eapply Hd; [now left | exact Hi]].
  - apply IH; auto. intros y Hy. apply Hd. now right.
Qed.

Lemma term_dlvs_NoDup t lc mc : NoDup lc -> NoDup mc -> NoDup (term_dlvs t lc mc).
Proof.
  intros Hl Hm. unfold term_dlvs.
  assert (Hinj : forall b, FinFun.Injective (mkdlv b t)) by (intros b x y E; now inversion E).
  apply NoDup_app_disj; try (apply FinFun.Injective_map_NoDup; auto).
  intros x H1 H2. apply in_map_iff in H1 as (c1 & E1 & _). apply in_map_iff in H2 as (c2 & E2 & _).
  subst x. discriminate.
Qed.

(* MAIN (remote / local termination).  RouteTerminate*(t, r) with the consumers CleanupTarget returned,
   in any order: a consumer whose own delivery succeeds gets exactly one exit (t, r) if it held a link
   and one down (t, r) if it held a monitor, whatever happens to the other consumers *)
Theorem terminate_fan_exact t r lc mc s c w x :
  NoDup lc -> NoDup mc -> s c = Some w -> able w (mine c (term_dlvs t lc mc)) = true ->
  count_occ note_dec (box c (terminate_fan t r lc mc s)) x
  = (count_occ note_dec (w_box w) x + due_target t r lc mc c x)%nat.
Proof.
  intros Hl Hm Hs Ha. rewrite terminate_fan_run. fold (term_dlvs t lc mc).
  rewrite (fan_counts _ _ _ _ _ x (term_dlvs_NoDup t lc mc Hl Hm) Hs Ha). f_equal.
  unfold due_dlv, due_target. destruct (n_reason x =? r); cbn [andb]; [|reflexivity].
  set (d := mkdlv (n_down x) (n_target x) c).
  destruct (memb dlv_dec d (term_dlvs t lc mc)) eqn:E.
  - apply memb_In in E. apply term_dlvs_In in E as [Et Ec]. cbn [d d_t d_c d_down] in *.
    destruct (target_dec (n_target x) t); [|contradiction]. cbn [andb].
    assert (memb pid_dec c (if n_down x then mc else lc) = true) as -> by now apply memb_In. reflexivity.
  - apply memb_false in E.
    destruct ((if target_dec (n_target x) t then true else false) && memb pid_dec c (if n_down x then mc else lc)) eqn:E2; [|reflexivity].
    exfalso. apply E, term_dlvs_In. apply andb_true_iff in E2 as [E2 E3]. cbn [d d_t d_c d_down].
    destruct (target_dec (n_target x) t); [|discriminate]. split; [assumption | now apply memb_In in E3].
Qed.

Theorem terminate_fan_order_free t r lc mc lc' mc' s c w :
  Permutation lc lc' -> Permutation mc mc' -> s c = Some w -> able w (mine c (term_dlvs t lc mc)) = true ->
  Permutation (box c (terminate_fan t r lc mc s)) (box c (terminate_fan t r lc' mc' s)).
Proof.
  intros Hl Hm Hs Ha. rewrite !terminate_fan_run. eapply fan_order_free; eauto.
  apply Permutation_app; now apply Permutation_map.
Qed.

(** * Refuted: leaving a loop after a failed delivery *)
Definition healthy : wproc := mkw true None None [].
Definition zombie : wproc := mkw false None None [].
Definition full0 : wproc := mkw true (Some 0) (Some 0) [].

(* processes 1001..1003 of this node; 1001 cannot take the message *)
Definition wit_st (bad : wproc) : wst :=
  fun q => if pid_dec q (lpid 1001) then Some bad
           else if pid_dec q (lpid 1002) then Some healthy
           else if pid_dec q (lpid 1003) then Some healthy else None.
Definition wit_t1 : target := TPid (mkpid 2 1).
Definition wit_t2 : target := TName 101 2.
(* 1001 and 1002 hold a relation on t1, 1003 on t2; the walk meets 1001 first *)
Definition wit_groups : groups := [(wit_t1, [lpid 1001; lpid 1002]); (wit_t2, [lpid 1003])].

Definition boxes (s : wst) : list (list note) := map (fun c => box c s) [lpid 1001; lpid 1002; lpid 1003].

(* the code: everybody who can take the message gets it *)
Example fan_witness_ok :
  boxes (node_down_fan [] wit_groups (wit_st zombie))
  = [[]; [mknote true wit_t1 r_noconn]; [mknote true wit_t2 r_noconn]] /\
  boxes (node_down_fan wit_groups [] (wit_st full0))
  = [[]; [mknote false wit_t1 r_noconn]; [mknote false wit_t2 r_noconn]].
Proof. split; vm_compute; reflexivity. Qed.

(* the seeded change: `return` in the monitor loop — one zombie silences every later monitor consumer *)
Theorem fan_mon_return_refuted :
  exists gl gm s c w x,
    s c = Some w /\ able w (mine c (flat false gl ++ flat true gm)) = true /\
    In (mkdlv (n_down x) (n_target x) c) (flat false gl ++ flat true gm) /\ n_reason x = r_noconn /\
    count_occ note_dec (box c (node_down_fan gl gm s)) x = 1%nat /\
    count_occ note_dec (box c (node_down_fan_mon_return gl gm s)) x = 0%nat.
Proof.
  exists [], wit_groups, (wit_st zombie), (lpid 1003), healthy, (mknote true wit_t2 r_noconn).
  vm_compute. repeat split; auto.
Qed.

(* the same `return` in the link loop: a full Urgent queue silences the later link consumers AND all monitors *)
Theorem fan_link_return_refuted :
  exists gl gm s c w x,
    s c = Some w /\ able w (mine c (flat false gl ++ flat true gm)) = true /\
    In (mkdlv (n_down x) (n_target x) c) (flat false gl ++ flat true gm) /\ n_reason x = r_noconn /\
    count_occ note_dec (box c (node_down_fan gl gm s)) x = 1%nat /\
    count_occ note_dec (box c (node_down_fan_link_return gl gm s)) x = 0%nat.
Proof.
  exists wit_groups, [(wit_t2, [lpid 1002])], (wit_st full0), (lpid 1002), healthy, (mknote true wit_t2 r_noconn).
  vm_compute. repeat split; auto.
Qed.

(* `break` out of the consumer loop: the later consumers of THAT target are skipped *)
Theorem fan_break_refuted :
  exists gl gm s c w x,
    s c = Some w /\ able w (mine c (flat false gl ++ flat true gm)) = true /\
    In (mkdlv (n_down x) (n_target x) c) (flat false gl ++ flat true gm) /\ n_reason x = r_noconn /\
    count_occ note_dec (box c (node_down_fan gl gm s)) x = 1%nat /\
    count_occ note_dec (box c (node_down_fan_break gl gm s)) x = 0%nat.
Proof.
  exists [], wit_groups, (wit_st zombie), (lpid 1002), healthy, (mknote true wit_t1 r_noconn).
  vm_compute. repeat split; auto.
Qed.

Theorem terminate_break_refuted :
  exists t r lc mc s c w x,
    s c = Some w /\ able w (mine c (term_dlvs t lc mc)) = true /\ due_target t r lc mc c x = 1%nat /\
    count_occ note_dec (box c (terminate_fan t r lc mc s)) x = 1%nat /\
    count_occ note_dec (box c (terminate_fan_break t r lc mc s)) x = 0%nat.
Proof.
  exists wit_t1, 13, [], [lpid 1001; lpid 1002], (wit_st zombie), (lpid 1002), healthy, (mknote true wit_t1 13).
  vm_compute. repeat split; auto.
Qed.

(* the order matters for the variants only: with the unable consumer LAST in the walk they behave like the code,
   so a test with a fixed lucky order (or a single consumer) does not tell them apart *)
Example fan_return_lucky_order :
  boxes (node_down_fan_mon_return [] [(wit_t2, [lpid 1003]); (wit_t1, [lpid 1002; lpid 1001])] (wit_st zombie))
  = boxes (node_down_fan [] wit_groups (wit_st zombie)).
Proof. vm_compute. reflexivity. Qed.

(* the hypotheses of the main theorems are satisfiable by a non-trivial state: an able consumer with a bounded
   mailbox holding a link and a monitor next to a zombie and a full one *)
Example fan_premises_nontrivial :
  let s := fun q => if pid_dec q (lpid 1001) then Some zombie
                    else if pid_dec q (lpid 1002) then Some (mkw true (Some 1) (Some 1) [])
                    else if pid_dec q (lpid 1003) then Some full0 else None in
  let dl := flat false [(wit_t1, [lpid 1003; lpid 1002; lpid 1001])] ++ flat true [(wit_t1, [lpid 1001; lpid 1003; lpid 1002])] in
  able (mkw true (Some 1) (Some 1) []) (mine (lpid 1002) dl) = true /\
  box (lpid 1002) (run r_noconn dl s) = [mknote false wit_t1 r_noconn; mknote true wit_t1 r_noconn] /\
  handled (lpid 1001) (run r_noconn dl s) = [] /\ box (lpid 1003) (run r_noconn dl s) = [].
Proof. vm_compute. repeat split; reflexivity. Qed.
