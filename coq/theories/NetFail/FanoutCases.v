(* NetFail engine — correspondence and monitor definitions for the fan-out with failing deliveries,
   evaluated over what two REAL nodes did (cases written by `netfail fan`): many watchers on node A hold
   links / monitors on targets of node B (pid, name, alias, event, the node); a few of them cannot take a
   message (zombie, bounded mailbox with full queues, killed at the very moment); optionally a target
   terminates on B first (Terminate* frames -> RouteTerminate* on A); then the connection is lost. *)
From Ergo Require Import Common.Base Rel.Amap Rel.Model Rel.Cases NetFail.Model NetFail.Cases NetFail.Fanout.
Local Open Scope N_scope.

(* class of a watcher *)
Definition cl_ok : N := 0.       (* healthy, unbounded mailbox *)
Definition cl_zombie : N := 1.   (* Node.Kill while blocked in a callback: registered, not alive, never runs again *)
Definition cl_bounded : N := 2.  (* MailboxSize > 0, blocked in a callback, queues (partly) filled; released after the loss *)
Definition cl_racy : N := 3.     (* Node.Kill (idle process) concurrently with the loss: either outcome is legitimate *)
Definition cl_busy : N := 4.     (* healthy but blocked in a callback during the fan-out; released afterwards *)

Record fwatch := mk_fw {
  fw_pid : pid;
  fw_class : N;
  fw_alive : bool;           (* state when the fan-outs start *)
  fw_urg : option N;         (* free slots of Urgent / System at that moment (None: unbounded) *)
  fw_sys : option N;
  fw_obs : list note }.      (* exit / down messages its HandleMessage received *)

Record fcase := mk_fcase {
  fc_watch : list fwatch;
  fc_rels : list key;              (* relations the implementation confirmed (Link* / Monitor* returned nil) *)
  fc_terms : list (target * N);    (* Terminate* frames that arrived before the loss: target, reason *)
  fc_relax : bool }.               (* the peer was stopped: remote reasons race 'no connection' *)

Definition pid_eqb (a b : pid) : bool := if pid_dec a b then true else false.
Definition target_eqb (a b : target) : bool := if target_dec a b then true else false.

(** ** the model run *)
Definition st_of (ws : list fwatch) : wst :=
  fun q => match find (fun w => pid_eqb (fw_pid w) q) ws with
           | Some w => Some (mkw (fw_alive w) (fw_urg w) (fw_sys w) [])
           | None => None
           end.

Definition consumers (down : bool) (t : target) (K : list key) : list pid :=
  map kc (filter (fun k => is_target t k && Bool.eqb (km k) down) K).

Fixpoint run_terms (terms : list (target * N)) (K : list key) (s : wst) : list key * wst :=
  match terms with
  | [] => (K, s)
  | (t, r) :: tl =>
      run_terms tl (filter (fun k => negb (is_target t k)) K)
                (terminate_fan t r (consumers false t K) (consumers true t K) s)
  end.

(* one concrete rendering of a Go map target -> []consumer: groups in order of first appearance *)
Definition group_by (ks : list key) : groups :=
  fold_left (fun g k => aset target_dec (kt k)
                          (match aget target_dec (kt k) g with Some l => l ++ [kc k] | None => [kc k] end) g) ks [].

Definition peer : atom := 2.

Definition model_run (order : bool) (c : fcase) : list key * wst * (groups * groups) :=
  let K0 := if order then rev (fc_rels c) else fc_rels c in
  let '(K1, s1) := run_terms (fc_terms c) K0 (st_of (fc_watch c)) in
  let rep := filter (node_report peer) K1 in
  let gl := group_by (links_of rep) in
  let gm := group_by (monitors_of rep) in
  (K1, node_down_fan gl gm s1, (gl, gm)).

Definition n_kind (down : bool) (l : list note) : nat := length (filter (fun x => Bool.eqb (n_down x) down) l).

Definition corr_watch (relax : bool) (s : wst) (w : fwatch) : bool :=
  if fw_class w =? cl_racy then true
  else if fw_class w =? cl_bounded
  then Nat.eqb (n_kind false (handled (fw_pid w) s)) (n_kind false (fw_obs w))
       && Nat.eqb (n_kind true (handled (fw_pid w) s)) (n_kind true (fw_obs w))
  else inbox_eqb relax (handled (fw_pid w) s) (fw_obs w).

(* the model, walked in the order the relations were created AND in the reverse order, predicts what
   every watcher handled (bounded watchers: how many exits and downs — which ones fit depends on the order) *)
Definition corr_fan (c : fcase) : bool :=
  forallb (corr_watch (fc_relax c) (snd (fst (model_run false c)))) (fc_watch c)
  && forallb (corr_watch (fc_relax c) (snd (fst (model_run true c)))) (fc_watch c).

(** ** the property on the implementation's answers alone *)
Definition owed_note (terms : list (target * N)) (k : key) : list note :=
  match find (fun tr => target_eqb (fst tr) (kt k)) terms with
  | Some (t, r) => [mknote (km k) (kt k) r]
  | None => if target_node (kt k) =? peer then [mknote (km k) (kt k) r_noconn] else []
  end.
Definition owed_fan (c : fcase) (p : pid) : list note :=
  flat_map (fun k => if pid_eqb (kc k) p then owed_note (fc_terms c) k else []) (fc_rels c).

Fixpoint sub_multiset (a b : list note) : bool :=
  match a with
  | [] => true
  | x :: a' => match remove_one note_dec x b with Some b' => sub_multiset a' b' | None => false end
  end.

Definition is_able_class (w : fwatch) : bool := (fw_class w =? cl_ok) || (fw_class w =? cl_busy).

(* every watcher that can take its messages got exactly one exit per link / down per monitor with the
   right reason; nobody got a message twice or one it was not owed; a zombie handled nothing *)
Definition spec_watch (c : fcase) (w : fwatch) : bool :=
  let owed := owed_fan c (fw_pid w) in
  (if is_able_class w then inbox_eqb (fc_relax c) owed (fw_obs w) else true)
  && sub_multiset (map (relax_note (fc_relax c)) (fw_obs w)) (map (relax_note (fc_relax c)) owed)
  && (if fw_class w =? cl_zombie then match fw_obs w with [] => true | _ => false end else true).
Definition spec_fan (c : fcase) : bool := forallb (spec_watch c) (fc_watch c).

(** ** premises of the theorems / non-triviality *)
Definition wrec (w : fwatch) : wproc := mkw (fw_alive w) (fw_urg w) (fw_sys w) [].
Definition all_dlvs (c : fcase) : list dlv :=
  flat_map (fun tr => target_dlvs (fst tr) (fc_rels c)) (fc_terms c) ++ node_dlvs peer (fc_rels c).

(* a watcher at least one of whose deliveries fails *)
Definition fails_some (c : fcase) (w : fwatch) : bool :=
  negb (fw_class w =? cl_racy) && negb (able (wrec w) (mine (fw_pid w) (all_dlvs c))).

Fixpoint nodup_keys (l : list key) : bool :=
  match l with [] => true | k :: tl => negb (mem_key k tl) && nodup_keys tl end.

Definition premise_fan (c : fcase) : bool :=
  let '(K1, _, (gl, gm)) := model_run false c in
  (* hypotheses of node_down_fan_exact on this case *)
  nodup_keys (fc_rels c)
  && perm_eqb dlv_dec (flat false gl ++ flat true gm) (node_dlvs peer K1)
  && forallb (fun w => negb (is_able_class w) || able (wrec w) (mine (fw_pid w) (all_dlvs c))) (fc_watch c)
  (* the situation of the refuted variants: some delivery fails while at least five able watchers are owed something *)
  && existsb (fails_some c) (fc_watch c)
  && (5 <=? length (filter (fun w => is_able_class w && negb (Nat.eqb (length (owed_fan c (fw_pid w))) 0)) (fc_watch c)))%nat.
