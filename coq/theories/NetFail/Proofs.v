(* NetFail engine — proofs for property C14.
   The target-manager facts (CleanupNode as set comprehension, CleanupTarget counts, the invariant
   idx_ok) and the exactness of a drain are the Rel engine's theorems: cited, not re-proved. *)
From Coq Require Import Permutation.
From Ergo Require Import Common.Base Rel.Amap Rel.Model Rel.TMProofs Rel.RegProofs NetFail.Model.
Local Open Scope N_scope.

Definition tp_dec : forall a b : target * pid, {a = b} + {a <> b}.
Proof. decide equality; [apply pid_dec | apply target_dec]. Defined.

(* ------------------------------------------------------------------------------------ *)
(** * 1. Node down: the fan-out *)

Lemma send_live c' y s c : live c (send c' y s) = live c s.
Proof. unfold live. destruct (send_frame c' y s) as (A & _). rewrite A. reflexivity. Qed.

Lemma send_tm c' y s : s_tm (send c' y s) = s_tm s.
Proof. destruct (send_frame c' y s) as (_ & _ & _ & _ & E & _). exact E. Qed.

Lemma fanout_tm down l : forall s, s_tm (fanout down l s) = s_tm s.
Proof.
  induction l as [|[t c'] l IH]; intros s; unfold fanout in *; cbn [fold_left]; [reflexivity|].
  rewrite IH. apply send_tm.
Qed.

Lemma fanout_live down l c : forall s, live c (fanout down l s) = live c s.
Proof.
  induction l as [|[t c'] l IH]; intros s; unfold fanout in *; cbn [fold_left]; [reflexivity|].
  rewrite IH. apply send_live.
Qed.

Lemma fanout_procs down l : forall s, s_procs (fanout down l s) = s_procs s.
Proof.
  induction l as [|[t c'] l IH]; intros s; unfold fanout in *; cbn [fold_left]; [reflexivity|].
  rewrite IH. destruct (send_frame c' (mknote down t r_noconn) s) as (A & _). exact A.
Qed.

(* every pair (target, consumer) of the list produces one note at that consumer, nothing else *)
Lemma fanout_cnt down l : forall s c x,
  cnt x c (fanout down l s) =
  (cnt x c s + (if live c s then
                  if Bool.eqb (n_down x) down && (N.eqb (n_reason x) r_noconn)
                  then count_occ tp_dec l (n_target x, c) else 0 else 0))%nat.
Proof.
  induction l as [|[t c'] l IH]; intros s c x; unfold fanout in *; cbn [fold_left count_occ].
  - destruct (live c s), (Bool.eqb (n_down x) down && (N.eqb (n_reason x) r_noconn)); lia.
  - rewrite IH, send_cnt, send_live. cbn [fst snd].
    destruct (pid_dec c c') as [->|D].
    + destruct (live c' s) eqn:L; [|lia].
      destruct (note_dec (mknote down t r_noconn) x) as [E|NE].
      * subst x. cbn [n_down n_reason n_target]. rewrite eqb_reflx, N.eqb_refl. cbn [andb].
        destruct (tp_dec (t, c') (t, c')); [lia | congruence].
      * destruct (Bool.eqb (n_down x) down && (N.eqb (n_reason x) r_noconn)) eqn:B; [|lia].
        apply andb_true_iff in B. destruct B as [B1 B2]. apply eqb_prop in B1. apply N.eqb_eq in B2.
        destruct (tp_dec (t, c') (n_target x, c')) as [E|_]; [|lia].
        exfalso. apply NE. destruct x as [xd xt xr]. cbn in *. inversion E. subst. reflexivity.
    + destruct (tp_dec (t, c') (n_target x, c)) as [E|_]; [inversion E; congruence|]. lia.
Qed.

Lemma count_nodup_In {A} (dec : forall a b : A, {a = b} + {a <> b}) l x :
  NoDup l -> count_occ dec l x = if in_dec dec x l then 1%nat else 0%nat.
Proof.
  intros ND. destruct (in_dec dec x l) as [HI|HN].
  - apply NoDup_count_occ'; auto.
  - apply count_occ_not_In; auto.
Qed.

(** RouteNodeDown: exactly one note per relation whose target lives on n held by a live local
    process, with the 'no connection' reason; nothing else; afterwards no relation mentions n.
    Rests on Rel's [cleanup_node_spec] (C14_cleanup_node). *)
Theorem node_down_exact n s c x :
  idx_ok (s_tm s) ->
  cnt x c (node_down_st n s) = (cnt x c s + due_down n s c x)%nat.
Proof.
  intros OK. unfold node_down_st.
  destruct (tm_cleanup_node n (s_tm s)) as [[m' l] mo] eqn:E.
  destruct (cleanup_node_spec n (s_tm s) m' l mo OK E) as (_ & _ & HL & HM & NDl & NDm).
  rewrite !fanout_cnt, fanout_live.
  assert (LV : live c (set_tm m' s) = live c s) by reflexivity.
  assert (CN : cnt x c (set_tm m' s) = cnt x c s) by reflexivity.
  rewrite LV, CN. unfold due_down.
  rewrite (count_nodup_In tp_dec l _ NDl), (count_nodup_In tp_dec mo _ NDm).
  destruct (live c s) eqn:L; [|rewrite andb_false_r; lia].
  rewrite andb_true_r.
  destruct (N.eqb (n_reason x) r_noconn) eqn:R; [|rewrite !andb_false_r; cbn [andb]; lia].
  rewrite !andb_true_r. cbn [andb].
  destruct x as [xd xt xr]. cbn [n_down n_target n_reason] in *.
  unfold mem_key.
  destruct xd; cbn [Bool.eqb].
  - (* down: only the monitor list counts *)
    destruct (in_dec tp_dec (xt, c) mo) as [HI|HN].
    + apply HM in HI. destruct HI as (H1 & H2 & H3).
      apply N.eqb_eq in H2. apply N.eqb_neq in H3. rewrite H2, H3. cbn [negb andb].
      apply (memb_In key_dec) in H1. rewrite H1. lia.
    + destruct ((target_node xt =? n) && negb (pnode c =? n) && memb key_dec (mkkey c xt true) (rels (s_tm s))) eqn:B; [|lia].
      exfalso. apply HN, HM. apply andb_true_iff in B. destruct B as [B B3]. apply andb_true_iff in B. destruct B as [B1 B2].
      apply N.eqb_eq in B1. apply negb_true_iff in B2. apply N.eqb_neq in B2. apply (memb_In key_dec) in B3. auto.
  - destruct (in_dec tp_dec (xt, c) l) as [HI|HN].
    + apply HL in HI. destruct HI as (H1 & H2 & H3).
      apply N.eqb_eq in H2. apply N.eqb_neq in H3. rewrite H2, H3. cbn [negb andb].
      apply (memb_In key_dec) in H1. rewrite H1. lia.
    + destruct ((target_node xt =? n) && negb (pnode c =? n) && memb key_dec (mkkey c xt false) (rels (s_tm s))) eqn:B; [|lia].
      exfalso. apply HN, HL. apply andb_true_iff in B. destruct B as [B B3]. apply andb_true_iff in B. destruct B as [B1 B2].
      apply N.eqb_eq in B1. apply negb_true_iff in B2. apply N.eqb_neq in B2. apply (memb_In key_dec) in B3. auto.
Qed.

Lemma node_down_tm n s : s_tm (node_down_st n s) = fst (fst (tm_cleanup_node n (s_tm s))).
Proof.
  unfold node_down_st. destruct (tm_cleanup_node n (s_tm s)) as [[m' l] mo]. rewrite !fanout_tm. reflexivity.
Qed.

Lemma node_down_rels n s k : idx_ok (s_tm s) ->
  (In k (rels (s_tm (node_down_st n s))) <-> In k (rels (s_tm s)) /\ pnode (kc k) <> n /\ target_node (kt k) <> n).
Proof.
  intros OK. rewrite node_down_tm. destruct (tm_cleanup_node n (s_tm s)) as [[m' l] mo] eqn:E.
  destruct (cleanup_node_spec n (s_tm s) m' l mo OK E) as (_ & HR & _). apply HR.
Qed.

Lemma node_down_idx_ok n s : idx_ok (s_tm s) -> idx_ok (s_tm (node_down_st n s)).
Proof.
  intros OK. rewrite node_down_tm. destruct (tm_cleanup_node n (s_tm s)) as [[m' l] mo] eqn:E.
  destruct (cleanup_node_spec n (s_tm s) m' l mo OK E) as (H & _). exact H.
Qed.

Lemma node_down_procs n s : s_procs (node_down_st n s) = s_procs s.
Proof.
  unfold node_down_st. destruct (tm_cleanup_node n (s_tm s)) as [[m' l] mo]. rewrite !fanout_procs. reflexivity.
Qed.

(* ------------------------------------------------------------------------------------ *)
(** * 2. The invariant over all histories *)

Lemma with_tm_tm m s : ntm (with_tm m s) = m. Proof. reflexivity. Qed.
Lemma emit_tm n f s : ntm (emit n f s) = ntm s. Proof. reflexivity. Qed.

Lemma tm_add_ok k m : idx_ok m -> idx_ok (fst (tm_add k m)).
Proof. intros OK. destruct (tm_add k m) as [m' b] eqn:E. destruct (tm_add_spec k m m' b E OK) as (H & _). exact H. Qed.
Lemma tm_remove_ok k m : idx_ok m -> idx_ok (fst (tm_remove k m)).
Proof. intros OK. destruct (tm_remove k m) as [m' b] eqn:E. destruct (tm_remove_spec k m m' b E OK) as (H & _). exact H. Qed.

Lemma op_add_idx_ok self mon c t cr ans s : idx_ok (ntm s) -> idx_ok (ntm (fst (op_add self mon c t cr ans s))).
Proof.
  intros OK. unfold op_add.
  destruct (target_node t =? self); [exact OK|].
  destruct (tm_has _ _); [exact OK|].
  destruct (conn_of _ s) as [pc|]; [|exact OK].
  assert (G : idx_ok (ntm (fst (
     if stale t cr pc then (s, NErr e_incarnation) else
        let s1 := emit (target_node t) (FLink mon c t) s in
        match ans with
        | ANone => (s1, NErr e_timeout)
        | AErr e => (s1, NErr e)
        | AOk => let '(m', ok) := tm_add (mkkey c t mon) (ntm s1) in
                 if ok then (with_tm m' s1, NOk) else (s1, NErr e_exist)
        end)))).
  { destruct (stale t cr pc); [exact OK|]. cbn zeta. destruct ans; cbn [fst]; try exact OK.
    rewrite emit_tm. pose proof (tm_add_ok (mkkey c t mon) (ntm s) OK) as H.
    destruct (tm_add (mkkey c t mon) (ntm s)) as [m' ok]. cbn [fst] in H. destruct ok; cbn [fst]; [exact H | exact OK]. }
  destruct t; try exact G. cbn [fst]. rewrite with_tm_tm. apply tm_add_ok, OK.
Qed.

Lemma op_del_idx_ok self mon c t cr ans s : idx_ok (ntm s) -> idx_ok (ntm (fst (op_del self mon c t cr ans s))).
Proof.
  intros OK. unfold op_del.
  destruct (target_node t =? self); [exact OK|].
  destruct (negb (tm_has _ _)); [exact OK|].
  assert (G : idx_ok (ntm (fst (
    match conn_of (target_node t) s with
    | None => (s, NErr e_noconn)
    | Some pc =>
        if stale t cr pc then (s, NErr e_incarnation) else
        let s1 := emit (target_node t) (FUnlink mon c t) s in
        match ans with
        | ANone => (s1, NErr e_timeout)
        | AErr e => (s1, NErr e)
        | AOk => let '(m', ok) := tm_remove (mkkey c t mon) (ntm s1) in
                 if ok then (with_tm m' s1, NOk) else (s1, NErr e_norel)
        end
    end)))).
  { destruct (conn_of _ s) as [pc|]; [|exact OK].
    destruct (stale t cr pc); [exact OK|]. cbn zeta. destruct ans; cbn [fst]; try exact OK.
    rewrite emit_tm. pose proof (tm_remove_ok (mkkey c t mon) (ntm s) OK) as H.
    destruct (tm_remove (mkkey c t mon) (ntm s)) as [m' ok]. cbn [fst] in H. destruct ok; cbn [fst]; [exact H | exact OK]. }
  destruct t; try exact G. cbn [fst]. rewrite with_tm_tm. apply tm_remove_ok, OK.
Qed.

Lemma complete_st ref o s : n_st (complete ref o s) = n_st s.
Proof. unfold complete. destruct (ahas _ _ _); reflexivity. Qed.

Theorem nexec_idx_ok self o s : idx_ok (ntm s) -> idx_ok (ntm (fst (nexec self o s))).
Proof.
  intros OK. destruct o; cbn [nexec fst].
  - exact OK.
  - apply op_add_idx_ok, OK.
  - apply op_del_idx_ok, OK.
  - unfold op_send. destruct (_ =? _); [exact OK|]. destruct (conn_of _ _); [|exact OK]. destruct (stale _ _ _); exact OK.
  - unfold op_call. destruct (_ =? _); [exact OK|]. destruct (conn_of _ _); [|exact OK]. destruct (stale _ _ _); exact OK.
  - unfold ntm. rewrite complete_st. exact OK.
  - unfold ntm. rewrite complete_st. exact OK.
  - unfold remote_terminate, ntm. cbn [n_st set_st]. apply drain_idx_ok, OK.
  - unfold node_down, ntm. cbn [n_st set_st set_conns]. apply node_down_idx_ok, OK.
Qed.

Theorem nrun_idx_ok self ops : forall s, idx_ok (ntm s) -> idx_ok (ntm (fst (nrun self ops s))).
Proof.
  induction ops as [|o ops IH]; intros s OK; cbn [nrun]; [exact OK|].
  pose proof (nexec_idx_ok self o s OK) as H. destruct (nexec self o s) as [s1 r]. cbn [fst] in H.
  specialize (IH s1 H). destruct (nrun self ops s1) as [s2 rs]. exact IH.
Qed.

Lemma init_idx_ok procs : idx_ok (ntm (init procs)).
Proof. apply idx_ok_empty. Qed.

(** ** C14_node_down_once: after ANY history of connects, links, monitors, unlinks, demonitors
    (every target kind, any nodes, any answers of the peers), sends, calls, arriving Terminate*
    frames and earlier node-downs, the loss of node n delivers to every process c exactly
    [due_down] more copies of every note x, and afterwards no relation mentions n. *)
Theorem node_down_once self ops procs n c x :
  let s := fst (nrun self ops (init procs)) in
  let s' := node_down n s in
  cnt x c (n_st s') = (cnt x c (n_st s) + due_down n (n_st s) c x)%nat /\
  (forall k, In k (rels (ntm s')) <-> In k (rels (ntm s)) /\ pnode (kc k) <> n /\ target_node (kt k) <> n) /\
  conn_of n s' = None.
Proof.
  cbn zeta. set (s := fst (nrun self ops (init procs))).
  assert (OK : idx_ok (ntm s)) by (apply nrun_idx_ok, init_idx_ok).
  split; [|split].
  - unfold node_down. cbn [n_st set_st]. apply node_down_exact, OK.
  - intros k. unfold node_down, ntm. cbn [n_st set_st]. apply node_down_rels, OK.
  - unfold node_down, conn_of. cbn [n_conns set_st set_conns]. apply aget_adel_eq.
Qed.

(* reading of [due_down]: who gets a note, who does not *)
Lemma due_down_one n s c x :
  n_reason x = r_noconn -> target_node (n_target x) = n -> pnode c <> n ->
  In (mkkey c (n_target x) (n_down x)) (rels (s_tm s)) -> live c s = true -> due_down n s c x = 1%nat.
Proof.
  intros R T P K L. unfold due_down. apply N.eqb_eq in R. apply N.eqb_eq in T. apply N.eqb_neq in P.
  apply (memb_In key_dec) in K. unfold mem_key. rewrite R, T, P, K, L. reflexivity.
Qed.
Lemma due_down_zero n s c x :
  (n_reason x <> r_noconn \/ target_node (n_target x) <> n \/
   ~ In (mkkey c (n_target x) (n_down x)) (rels (s_tm s))) -> due_down n s c x = 0%nat.
Proof.
  intros H. unfold due_down.
  destruct ((N.eqb (n_reason x) r_noconn) && (target_node (n_target x) =? n) && negb (pnode c =? n)
     && mem_key (mkkey c (n_target x) (n_down x)) (rels (s_tm s)) && live c s) eqn:B; [|reflexivity].
  exfalso. repeat (apply andb_true_iff in B; destruct B as [B ?]).
  apply N.eqb_eq in B. apply N.eqb_eq in H3. apply (memb_In key_dec) in H1. tauto.
Qed.

(* ------------------------------------------------------------------------------------ *)
(** * 3. Remote termination while connected *)

(** receiving side: the Terminate* frame for t with reason r gives every local holder exactly one
    exit/down (t, r) — Rel's [drain_exact] *)
Theorem remote_reason self ops procs t r c x :
  let s := fst (nrun self ops (init procs)) in
  cnt x c (n_st (remote_terminate t r s)) = (cnt x c (n_st s) + due t r (n_st s) c x)%nat /\
  (forall k, In k (rels (ntm (remote_terminate t r s))) <-> In k (rels (ntm s)) /\ kt k <> t).
Proof.
  cbn zeta. set (s := fst (nrun self ops (init procs))).
  assert (OK : idx_ok (ntm s)) by (apply nrun_idx_ok, init_idx_ok).
  unfold remote_terminate, ntm. cbn [n_st set_st]. split; [apply drain_exact, OK | intros k; apply drain_rels, OK].
Qed.

(** owner's side: the frames written by RouteTerminate* *)
Lemma emits_out ns t r : forall s,
  n_out (fold_left (fun s n => emit n (FTerminate t r) s) ns s) = n_out s ++ map (fun n => (n, FTerminate t r)) ns.
Proof.
  induction ns as [|n ns IH]; intros s; cbn [fold_left map]; [rewrite app_nil_r; reflexivity|].
  rewrite IH. cbn [emit n_out]. rewrite <- app_assoc. reflexivity.
Qed.

Lemma emits_st ns t r : forall s, n_st (fold_left (fun s n => emit n (FTerminate t r) s) ns s) = n_st s.
Proof. induction ns as [|n ns IH]; intros s; cbn [fold_left]; [reflexivity|]. rewrite IH. reflexivity. Qed.

Definition frame_dec : forall a b : atom * frame, {a = b} + {a <> b}.
Proof. decide equality; [decide equality; try apply N.eq_dec; try apply target_dec; try apply pid_dec; apply bool_dec | apply N.eq_dec]. Defined.

(** exactly one Terminate frame (t, r) goes to every connected node on which a consumer of t lives,
    none to any other node *)
Theorem local_terminate_frames self t r s :
  idx_ok (ntm s) ->
  exists fs, n_out (local_terminate self t r s) = n_out s ++ fs /\ NoDup fs /\
  forall n f, In (n, f) fs <->
     f = FTerminate t r /\ n <> self /\ conn_of n s <> None /\
     exists c mon, In (mkkey c t mon) (rels (ntm s)) /\ pnode c = n.
Proof.
  intros OK. unfold local_terminate. rewrite emits_out. cbn [set_st n_out].
  eexists. split; [reflexivity|]. split.
  - apply FinFun.Injective_map_NoDup; [intros a b H; inversion H; reflexivity|].
    unfold connected_nodes. apply NoDup_filter. unfold remote_nodes. apply NoDup_nodup.
  - intros n f. rewrite in_map_iff. unfold connected_nodes, remote_nodes, consumers_of. split.
    + intros (n' & E & HI). inversion E; subst n' f. clear E. apply filter_In in HI. destruct HI as [HI HC].
      apply nodup_In, in_map_iff in HI. destruct HI as (c & Ec & HI). apply filter_In in HI. destruct HI as [HI NS].
      apply in_map_iff in HI. destruct HI as (k & Ek & HK).
      destruct OK as (_ & IX & _). apply IX in HK. destruct HK as [HK KT].
      split; [reflexivity|]. split; [apply negb_true_iff, N.eqb_neq in NS; congruence|]. split.
      * unfold conn_of, ahas in *. destruct (aget N.eq_dec n (n_conns s)); [discriminate | discriminate].
      * exists c, (km k). split; [|exact Ec]. destruct k as [kc0 kt0 km0]. cbn in *. subst. exact HK.
    + intros (-> & NS & HC & c & mon & HK & <-). exists (pnode c). split; [reflexivity|].
      apply filter_In. split.
      * apply nodup_In, in_map_iff. exists c. split; [reflexivity|]. apply filter_In. split.
        -- apply in_map_iff. exists (mkkey c t mon). split; [reflexivity|]. destruct OK as (_ & IX & _). apply IX. auto.
        -- apply negb_true_iff, N.eqb_neq. exact NS.
      * unfold conn_of, ahas in *. destruct (aget N.eq_dec (pnode c) (n_conns s)); [reflexivity | congruence].
Qed.

(** the comparison as it was coded before fix 1ead0d4 suppressed the frame of a pid / alias
    whenever the two nodes had different creations: witness *)
Definition prefix_witness : nst :=
  fst (nexec 2 (NConnect 1 1000) (mknst (set_tm (fst (tm_add (mkkey (mkpid 1 1001) (TPid (mkpid 2 1004)) false) tm_empty)) (init_st []))
                                    [] [] [] [])).
Theorem terminate_frame_prefix_refuted :
  exists s my_creation t r,
    n_out (local_terminate 2 t r s) = [(1, FTerminate t r)] /\
    n_out (local_terminate_prefix 2 my_creation t r s) = [].
Proof. exists prefix_witness, 1001, (TPid (mkpid 2 1004)), 13. vm_compute. split; reflexivity. Qed.

(* ------------------------------------------------------------------------------------ *)
(** * 4. No second notification for the same relation *)

(** a remote termination followed by the loss of the node: for notes naming t, only the
    termination's one was delivered; the node-down adds none (the relation is gone) *)
Theorem no_double self ops procs t r c x :
  let s := fst (nrun self ops (init procs)) in
  n_target x = t ->
  cnt x c (n_st (node_down (target_node t) (remote_terminate t r s))) = (cnt x c (n_st s) + due t r (n_st s) c x)%nat.
Proof.
  cbn zeta. set (s := fst (nrun self ops (init procs))). intros T.
  assert (OK : idx_ok (ntm s)) by (apply nrun_idx_ok, init_idx_ok).
  unfold node_down, remote_terminate. cbn [n_st set_st set_conns].
  rewrite node_down_exact by (apply drain_idx_ok, OK).
  rewrite drain_exact by exact OK.
  rewrite due_down_zero; [lia|]. right. right. rewrite T. intros HI.
  apply drain_rels in HI; [|exact OK]. cbn [kt] in HI. tauto.
Qed.

(** and the other way round: after the node went down a late Terminate frame finds nothing *)
Theorem no_double_late self ops procs t r c x :
  let s := fst (nrun self ops (init procs)) in
  let s1 := node_down (target_node t) s in
  cnt x c (n_st (remote_terminate t r s1)) = cnt x c (n_st s1).
Proof.
  cbn zeta. set (s := fst (nrun self ops (init procs))).
  assert (OK : idx_ok (ntm s)) by (apply nrun_idx_ok, init_idx_ok).
  unfold remote_terminate, node_down. cbn [n_st set_st set_conns].
  rewrite drain_exact by (apply node_down_idx_ok, OK).
  unfold due. destruct (target_dec (n_target x) t) as [E|]; [|lia].
  destruct (N.eq_dec (n_reason x) r); [|lia].
  destruct (mem_key _ _) eqn:M; [|lia]. exfalso.
  apply (memb_In key_dec) in M. apply node_down_rels in M; [|exact OK]. cbn [kt] in M. tauto.
Qed.

(* ------------------------------------------------------------------------------------ *)
(** * 5. Incarnations *)

Definition stale_op (o : nop) (s : nst) : bool :=
  match o with
  | NAdd _ _ t cr _ | NDel _ _ t cr _ | NSend _ t cr | NCall _ t cr _ =>
      match conn_of (target_node t) s with Some pc => stale t cr pc | None => false end
  | _ => false
  end.

(** every Send / Call / Link / Unlink / Monitor / Demonitor whose identifier's creation differs from
    the peer creation of the connection writes no frame, starts no call, touches no relation and no
    mailbox; its result is the incarnation error (or the purely local refusal that precedes the
    network: relation already / not present, target on this node) *)
Theorem incarnation_refused self o s :
  stale_op o s = true ->
  let '(s', r) := nexec self o s in
  s' = s /\ (r = NErr e_incarnation \/ r = NErr e_exist \/ r = NErr e_norel \/ r = NErr e_local).
Proof.
  intros ST. destruct o; cbn [stale_op] in ST; try discriminate; cbn [nexec].
  - unfold op_add. destruct (target_node t =? self); [auto 6|].
    destruct (tm_has _ _); [auto 6|].
    destruct (conn_of (target_node t) s) as [pc|]; [|discriminate]. rewrite ST.
    destruct t; try (unfold stale in ST; cbn in ST; discriminate); auto.
  - unfold op_del. destruct (target_node t =? self); [auto 6|].
    destruct (negb (tm_has _ _)); [auto 6|].
    destruct (conn_of (target_node t) s) as [pc|]; [|discriminate]. rewrite ST.
    destruct t; try (unfold stale in ST; cbn in ST; discriminate); auto.
  - unfold op_send. destruct (target_node t =? self); [auto 6|].
    destruct (conn_of (target_node t) s) as [pc|]; [|discriminate]. rewrite ST. auto.
  - unfold op_call. destruct (target_node t =? self); [auto 6|].
    destruct (conn_of (target_node t) s) as [pc|]; [|discriminate]. rewrite ST. auto.
Qed.

(** with the local refusals excluded the result IS the incarnation error *)
Corollary incarnation_send self c t cr s pc :
  target_node t <> self -> conn_of (target_node t) s = Some pc -> stamped t = true -> cr <> pc ->
  op_send self c t cr s = (s, NErr e_incarnation) /\ forall ref, op_call self c t cr ref s = (s, NErr e_incarnation).
Proof.
  intros NS C ST NE. apply N.eqb_neq in NS. apply N.eqb_neq in NE.
  unfold op_send, op_call, stale. rewrite NS, C, ST, NE. cbn. auto.
Qed.

(** Restart of the peer under the same name.  [t1], [t2]: start times (ms) of two incarnations;
    an identifier minted by the first one is used on the connection with the second one. *)
Definition restart_history (b : atom) (t1 t2 : N) (o : N -> nop) : list nop :=
  [NConnect b (creation_of t1); NDown b; NConnect b (creation_of t2); o (creation_of t1)].

Definition stale_accepted_b (t1 t2 : N) : bool :=
  let '(s, rs) := nrun 1 (restart_history 2 t1 t2 (fun cr => NSend (lpid 1001) (TPid (mkpid 2 1004)) cr)) (init [lpid 1001]) in
  (t1 <? t2) && (if nres_dec (last rs (NErr 0)) NOk then true else false)
  && negb (Nat.eqb (length (n_out s)) 0).

(** the full claim "an identifier of an earlier incarnation is refused" is false: creations are whole
    seconds, two incarnations started within the same second are indistinguishable *)
Theorem incarnation_same_second_refuted :
  exists t1 t2, t1 < t2 /\
    let '(s, rs) := nrun 1 (restart_history 2 t1 t2 (fun cr => NSend (lpid 1001) (TPid (mkpid 2 1004)) cr)) (init [lpid 1001]) in
    last rs (NErr 0) = NOk /\ n_out s = [(2, FSend (lpid 1001) (TPid (mkpid 2 1004)))].
Proof. exists 5000100, 5000900. split; [lia|]. vm_compute. split; reflexivity. Qed.

(** guard: the two incarnations have different creations (they did not start in the same second) *)
Theorem incarnation_partial b t1 t2 c t ref :
  b <> 1 -> target_node t = b -> stamped t = true ->
  creation_of t1 <> creation_of t2 ->
  forall o, In o [NSend c t; (fun cr => NCall c t cr ref)] ->
  let '(s, rs) := nrun 1 (restart_history b t1 t2 o) (init [c]) in
  last rs NOk = NErr e_incarnation /\ n_out s = [] /\ n_pending s = [].
Proof.
  intros NB TN ST NE o HO.
  assert (C : forall s0, conn_of b (set_conns (aset N.eq_dec b (creation_of t2) (n_conns s0)) s0) = Some (creation_of t2)).
  { intros s0. unfold conn_of. cbn [n_conns set_conns]. apply aget_aset_eq. }
  apply N.eqb_neq in NB. apply N.eqb_neq in NE.
  destruct HO as [<-|[<-|[]]]; unfold restart_history; cbn [nrun nexec];
    unfold op_send, op_call; rewrite TN, NB, C; unfold stale; rewrite ST, NE; cbn; auto.
Qed.

(* ------------------------------------------------------------------------------------ *)
(** * 6. Calls in flight end *)

Lemma complete_pending ref o s ref' :
  In ref' (map fst (n_pending (complete ref o s))) <-> In ref' (map fst (n_pending s)) /\ ref' <> ref.
Proof.
  unfold complete. destruct (ahas N.eq_dec ref (n_pending s)) eqn:H.
  - cbn [n_pending set_done set_pending]. rewrite !in_map_iff. split.
    + intros ([r c] & E & HI). cbn in E. subst r. apply In_adel in HI. destruct HI as [HI NE].
      split; [exists (ref', c); auto | exact NE].
    + intros [([r c] & E & HI) NE]. cbn in E. subst r. exists (ref', c). split; [reflexivity|]. apply In_adel. auto.
  - split; [|tauto]. intros HI. split; [exact HI|]. intros ->.
    apply in_map_iff in HI. destruct HI as ([r c] & E & HI). cbn in E. subst r.
    apply (In_aget_some N.eq_dec) in HI. destruct HI as [v HV]. unfold ahas in H. rewrite HV in H. discriminate.
Qed.

Lemma op_add_pending self mon c t cr ans s : n_pending (fst (op_add self mon c t cr ans s)) = n_pending s.
Proof.
  unfold op_add. destruct (_ =? _); [reflexivity|]. destruct (tm_has _ _); [reflexivity|].
  destruct (conn_of _ _) as [pc|]; [|reflexivity].
  assert (G : n_pending (fst (
     if stale t cr pc then (s, NErr e_incarnation) else
        let s1 := emit (target_node t) (FLink mon c t) s in
        match ans with
        | ANone => (s1, NErr e_timeout)
        | AErr e => (s1, NErr e)
        | AOk => let '(m', ok) := tm_add (mkkey c t mon) (ntm s1) in
                 if ok then (with_tm m' s1, NOk) else (s1, NErr e_exist)
        end)) = n_pending s).
  { destruct (stale t cr pc); [reflexivity|]. cbn zeta. destruct ans; try reflexivity.
    destruct (tm_add _ _) as [m' [|]]; reflexivity. }
  destruct t; try exact G. reflexivity.
Qed.

Lemma op_del_pending self mon c t cr ans s : n_pending (fst (op_del self mon c t cr ans s)) = n_pending s.
Proof.
  unfold op_del. destruct (_ =? _); [reflexivity|]. destruct (negb (tm_has _ _)); [reflexivity|].
  assert (G : n_pending (fst (
    match conn_of (target_node t) s with
    | None => (s, NErr e_noconn)
    | Some pc =>
        if stale t cr pc then (s, NErr e_incarnation) else
        let s1 := emit (target_node t) (FUnlink mon c t) s in
        match ans with
        | ANone => (s1, NErr e_timeout)
        | AErr e => (s1, NErr e)
        | AOk => let '(m', ok) := tm_remove (mkkey c t mon) (ntm s1) in
                 if ok then (with_tm m' s1, NOk) else (s1, NErr e_norel)
        end
    end)) = n_pending s).
  { destruct (conn_of _ _) as [pc|]; [|reflexivity].
    destruct (stale t cr pc); [reflexivity|]. cbn zeta. destruct ans; try reflexivity.
    destruct (tm_remove _ _) as [m' [|]]; reflexivity. }
  destruct t; try exact G. reflexivity.
Qed.

Lemma nexec_pending self o s ref' :
  In ref' (map fst (n_pending (fst (nexec self o s)))) ->
  In ref' (map fst (n_pending s)) \/ (exists c t cr, o = NCall c t cr ref').
Proof.
  destruct o; cbn [nexec fst]; try (left; assumption).
  - rewrite op_add_pending. auto.
  - rewrite op_del_pending. auto.
  - unfold op_send. destruct (_ =? _); [auto|]. destruct (conn_of _ _); [|auto]. destruct (stale _ _ _); auto.
  - unfold op_call. destruct (_ =? _); [auto|]. destruct (conn_of _ _); [|auto]. destruct (stale _ _ _); [auto|].
    cbn [fst n_pending set_pending emit]. rewrite map_app, in_app_iff. cbn [map fst In].
    intros [H|[H|[]]]; [auto|]. subst. right. eauto.
  - intros H. apply complete_pending in H. tauto.
  - intros H. apply complete_pending in H. tauto.
Qed.

Lemma nexec_completes self o s ref : completes ref o = true -> ~ In ref (map fst (n_pending (fst (nexec self o s)))).
Proof.
  destruct o; cbn [completes]; try discriminate; intros E; apply N.eqb_eq in E; subst; cbn [nexec fst];
    intros H; apply complete_pending in H; tauto.
Qed.

Section Timers.
  (** The runtime hypothesis (time.Timer, modelled not verified): a timer that was started fires
      unless the call completed before — every call of the history is followed by its response
      or by its timer event. *)
  Variable self : atom.
  Variable ops : list nop.
  Hypothesis timer_fires : timers_fair ops = true.

  Lemma calls_end_from : forall (l : list nop) s,
    timers_fair l = true ->
    (forall ref, In ref (map fst (n_pending s)) -> existsb (completes ref) l = true) ->
    n_pending (fst (nrun self l s)) = [].
  Proof.
    induction l as [|o l IH]; intros s F P; cbn [nrun].
    - cbn [fst]. destruct (n_pending s) as [|[r c] tl]; [reflexivity|].
      specialize (P r (or_introl eq_refl)). discriminate.
    - destruct (nexec self o s) as [s1 r1] eqn:E1.
      assert (E1' : s1 = fst (nexec self o s)) by (rewrite E1; reflexivity).
      assert (F' : timers_fair l = true).
      { destruct o; cbn [timers_fair] in F; try exact F. apply andb_true_iff in F. tauto. }
      specialize (IH s1 F'). destruct (nrun self l s1) as [s2 rs]. cbn [fst] in *. apply IH.
      intros ref HI. rewrite E1' in HI.
      destruct (completes ref o) eqn:Co.
      + exfalso. eapply nexec_completes; eauto.
      + apply nexec_pending in HI. destruct HI as [HI|(c & t & cr & ->)].
        * specialize (P ref HI). cbn [existsb] in P. rewrite Co in P. exact P.
        * cbn [timers_fair] in F. apply andb_true_iff in F. tauto.
  Qed.

  (** C14_calls_fail: whatever happens to the connection in between (NDown included: it does not touch
      the pending calls), at the end of the history no call is still waiting *)
  Theorem calls_end procs : n_pending (fst (nrun self ops (init procs))) = [].
  Proof using timer_fires. apply calls_end_from; [exact timer_fires|]. cbn. tauto. Qed.
End Timers.

(** a call whose connection is lost and whose response never comes ends with the timeout *)
Theorem call_lost_times_out c t cr ref pc procs :
  target_node t <> 1 -> stale t cr pc = false ->
  let ops := [NConnect (target_node t) pc; NCall c t cr ref; NDown (target_node t); NTimer ref] in
  let s := fst (nrun 1 ops (init procs)) in
  n_pending s = [] /\ n_done s = [(ref, e_timeout)].
Proof.
  intros NS ST. apply N.eqb_neq in NS. cbn [nrun nexec fst]. unfold op_call. rewrite NS.
  assert (C : conn_of (target_node t) (set_conns (aset N.eq_dec (target_node t) pc (n_conns (init procs))) (init procs)) = Some pc).
  { unfold conn_of. cbn [n_conns set_conns]. apply aget_aset_eq. }
  rewrite C, ST. cbn [fst]. unfold complete, node_down. cbn [n_pending set_pending set_st set_conns emit init n_done set_done app].
  unfold ahas. cbn [aget]. destruct (N.eq_dec ref ref); [|congruence]. cbn [adel n_pending n_done set_done set_pending].
  destruct (N.eq_dec ref ref); [|congruence]. auto.
Qed.
