(* NetFail engine — model (definitions only) of the incarnation guard of EVERY outgoing operation of
   net/proto/connection.go (gen.Connection) that is handed an identifier: property C14, last sentence
   ("identifiers minted by an earlier incarnation of a restarted node are refused with an incarnation
   error and never reach a process of the new incarnation").

   The table below was read off the Go source, one row per method (net/proto/connection.go):

     method                      identifier argument        first statement (the guard)
     --------------------------  -------------------------  ---------------------------------------------
     SendPID(from,to,..)         to gen.PID      (peer)     if to.Creation != c.peer_creation { return gen.ErrProcessIncarnation }
     SendAlias(from,to,..)       to gen.Alias    (peer)     if to.Creation != c.peer_creation { return gen.ErrProcessIncarnation }
     SendExit(from,to,reason)    to gen.PID      (peer)     if to.Creation != c.peer_creation { return gen.ErrProcessIncarnation }
     SendResponse(from,to,..)    to gen.PID      (peer)     if to.Creation != c.peer_creation { return gen.ErrProcessIncarnation }
     SendResponseError(..)       to gen.PID      (peer)     if to.Creation != c.peer_creation { return gen.ErrProcessIncarnation }
     CallPID(from,to,..)         to gen.PID      (peer)     if to.Creation != c.peer_creation { return gen.ErrProcessIncarnation }
     CallAlias(from,to,..)       to gen.Alias    (peer)     if to.Creation != c.peer_creation { return gen.ErrProcessIncarnation }
     LinkPID(pid,target)         target gen.PID  (peer)     if target.Creation != c.peer_creation { return gen.ErrProcessIncarnation }
     UnlinkPID(pid,target)       target gen.PID  (peer)     the same line
     LinkAlias / UnlinkAlias     target gen.Alias(peer)     the same line
     MonitorPID / DemonitorPID   target gen.PID  (peer)     the same line
     MonitorAlias/DemonitorAlias target gen.Alias(peer)     the same line
     SendProcessID, CallProcessID, {Link,Unlink,Monitor,Demonitor}ProcessID
                                 gen.ProcessID   (peer)     none: {Name, Node} has no Creation field
     {Link,Unlink,Monitor,Demonitor}Event
                                 gen.Event       (peer)     none: {Name, Node} has no Creation field
     SendEvent(from,..,message)  message.Event   (OWN)      none: an event of the sending node
     SendTerminatePID/Alias      target          (OWN)      none since fix 1ead0d4 (they compared the creation of
                                                            their LOCAL target with the peer's)
     SendTerminateProcessID/Event target         (OWN)      none
     Spawn, SpawnRegister, RemoteSpawn, ApplicationStart*: names (atoms) only, no identifier of the peer.

   What goes on the wire: the binary frames (protoMessagePID / Alias / Exit / Response / ResponseError /
   RequestPID / RequestAlias) carry the NUMERIC id only
        binary.BigEndian.PutUint64(buf.B[17:25], to.ID)
   and the receiver stamps it with its own current creation (handleRecvQueue)
        to := gen.PID{Node: c.core.Name(), ID: idTO, Creation: c.core.Creation()}
   so a frame written for an identifier of an earlier incarnation addresses whichever process of the
   NEW incarnation has the same numeric id (ids restart at 1000 after a node restart).  Link / Monitor
   requests travel EDF-encoded (sendAny) with the whole identifier (encodePID writes Node, ID, Creation). *)
From Ergo Require Import Common.Base Rel.Amap Rel.Model NetFail.Model.
Local Open Scope N_scope.

(** * Identifiers *)
Inductive ident :=
| IPid (node : atom) (id : N) (cr : N)       (* gen.PID{Node, ID, Creation} *)
| IAlias (node : atom) (id : N) (cr : N)     (* gen.Alias{Node, ID, Creation} *)
| IName (name : N) (node : atom)             (* gen.ProcessID{Name, Node} *)
| IEvent (name : N) (node : atom).           (* gen.Event{Name, Node} *)

Definition ident_dec : forall a b : ident, {a = b} + {a <> b}.
Proof. decide equality; apply N.eq_dec. Defined.

Definition ident_creation (i : ident) : option N :=
  match i with IPid _ _ cr | IAlias _ _ cr => Some cr | _ => None end.

Inductive ikind := KPid | KAlias | KName | KEvent.
Definition kind_of (i : ident) : ikind :=
  match i with IPid _ _ _ => KPid | IAlias _ _ _ => KAlias | IName _ _ => KName | IEvent _ _ => KEvent end.
Definition ikind_eqb (a b : ikind) : bool :=
  match a, b with KPid, KPid | KAlias, KAlias | KName, KName | KEvent, KEvent => true | _, _ => false end.

(** * The outgoing operations of gen.Connection that take an identifier *)
Inductive cop :=
| CSendPID | CSendAlias | CSendExit | CSendResponse | CSendResponseError
| CCallPID | CCallAlias
| CLinkPID | CUnlinkPID | CLinkAlias | CUnlinkAlias
| CMonitorPID | CDemonitorPID | CMonitorAlias | CDemonitorAlias
| CSendProcessID | CCallProcessID
| CLinkProcessID | CUnlinkProcessID | CMonitorProcessID | CDemonitorProcessID
| CLinkEvent | CUnlinkEvent | CMonitorEvent | CDemonitorEvent
| CSendEvent
| CSendTerminatePID | CSendTerminateProcessID | CSendTerminateAlias | CSendTerminateEvent.

Definition cop_dec : forall a b : cop, {a = b} + {a <> b}.
Proof. decide equality. Defined.
Definition cop_eqb (a b : cop) : bool := if cop_dec a b then true else false.

Definition all_ops : list cop :=
  [CSendPID; CSendAlias; CSendExit; CSendResponse; CSendResponseError; CCallPID; CCallAlias;
   CLinkPID; CUnlinkPID; CLinkAlias; CUnlinkAlias; CMonitorPID; CDemonitorPID; CMonitorAlias; CDemonitorAlias;
   CSendProcessID; CCallProcessID; CLinkProcessID; CUnlinkProcessID; CMonitorProcessID; CDemonitorProcessID;
   CLinkEvent; CUnlinkEvent; CMonitorEvent; CDemonitorEvent;
   CSendEvent; CSendTerminatePID; CSendTerminateProcessID; CSendTerminateAlias; CSendTerminateEvent].

(* kind of the identifier argument (its Go type) *)
Definition arg_kind (op : cop) : ikind :=
  match op with
  | CSendPID | CSendExit | CSendResponse | CSendResponseError | CCallPID
  | CLinkPID | CUnlinkPID | CMonitorPID | CDemonitorPID | CSendTerminatePID => KPid
  | CSendAlias | CCallAlias | CLinkAlias | CUnlinkAlias | CMonitorAlias | CDemonitorAlias | CSendTerminateAlias => KAlias
  | CSendProcessID | CCallProcessID | CLinkProcessID | CUnlinkProcessID | CMonitorProcessID | CDemonitorProcessID
  | CSendTerminateProcessID => KName
  | CLinkEvent | CUnlinkEvent | CMonitorEvent | CDemonitorEvent | CSendEvent | CSendTerminateEvent => KEvent
  end.
Definition accepts (op : cop) (i : ident) : bool := ikind_eqb (arg_kind op) (kind_of i).

(* whose identifier: the peer's (the addressee lives there) or one of the sending node itself *)
Definition own_ident (op : cop) : bool :=
  match op with
  | CSendEvent | CSendTerminatePID | CSendTerminateProcessID | CSendTerminateAlias | CSendTerminateEvent => true
  | _ => false
  end.

(* the operation is handed an identifier of the PEER that carries a creation stamp *)
Definition takes_stamped (op : cop) : bool :=
  negb (own_ident op) && match arg_kind op with KPid | KAlias => true | _ => false end.

Definition stamped_ops : list cop := filter takes_stamped all_ops.

(** * The guard line of a method *)
Inductive gline :=
| GPeer          (* if to.Creation != c.peer_creation { return gen.ErrProcessIncarnation } *)
| GNone          (* no comparison *)
| GFromLocal.    (* if from.Creation != c.core.Creation() {..}: compares the SENDER, a process of this node *)

Definition table := cop -> gline.

(* the table of net/proto/connection.go as it is (see the header) *)
Definition conn_table : table := fun op =>
  match op with
  | CSendPID | CSendAlias | CSendExit | CSendResponse | CSendResponseError | CCallPID | CCallAlias
  | CLinkPID | CUnlinkPID | CLinkAlias | CUnlinkAlias
  | CMonitorPID | CDemonitorPID | CMonitorAlias | CDemonitorAlias => GPeer
  | _ => GNone
  end.

Definition set_line (t : table) (op : cop) (g : gline) : table :=
  fun o => if cop_dec o op then g else t o.

(* [icr]: creation carried by the identifier argument; [pc]: c.peer_creation; [fcr]: from.Creation;
   [mcr]: c.core.Creation() *)
Definition refuses (g : gline) (icr : option N) (pc fcr mcr : N) : bool :=
  match g with
  | GPeer => match icr with Some cr => negb (cr =? pc) | None => false end
  | GNone => false
  | GFromLocal => negb (fcr =? mcr)
  end.

(** * What is written *)
Inductive wident :=
| WNumPid (id : N)        (* binary header: the numeric process id only *)
| WNumAlias (id : N)      (* binary header: the three id words of the alias only *)
| WFull (i : ident).      (* EDF-encoded request / name bytes: the whole identifier *)

Record wire := mkwire { w_op : cop; w_from : N; w_to : wident }.

Definition binary_frame (op : cop) : bool :=
  match op with
  | CSendPID | CSendAlias | CSendExit | CSendResponse | CSendResponseError | CCallPID | CCallAlias
  | CSendTerminatePID | CSendTerminateAlias => true
  | _ => false
  end.
Definition on_wire (op : cop) (i : ident) : wident :=
  if binary_frame op then
    match i with IPid _ id _ => WNumPid id | IAlias _ id _ => WNumAlias id | _ => WFull i end
  else WFull i.

(* one outgoing operation on a connection whose peer creation is [pc], by the process numbered [from]
   (creation [fcr]) of a node whose creation is [mcr]: result and frames written.  When the guard
   lets the operation through exactly one frame is written (c.send / c.sendAny); what the peer answers
   to a request is not part of this function. *)
Definition conn_op (t : table) (op : cop) (from fcr mcr : N) (i : ident) (pc : N) : nres * list wire :=
  if refuses (t op) (ident_creation i) pc fcr mcr then (NErr e_incarnation, [])
  else (NOk, [mkwire op from (on_wire op i)]).

(* process.Link* / Monitor*:   if HasLink(pid, target) { return ErrTargetExist }   before Route*
   process.Unlink*/Demonitor*: if HasLink(..) == false { return ErrTargetUnknown } before Route*
   [held]: the calling process holds the relation locally *)
Definition is_add (op : cop) : bool :=
  match op with
  | CLinkPID | CLinkAlias | CMonitorPID | CMonitorAlias | CLinkProcessID | CMonitorProcessID | CLinkEvent | CMonitorEvent => true
  | _ => false
  end.
Definition is_del (op : cop) : bool :=
  match op with
  | CUnlinkPID | CUnlinkAlias | CDemonitorPID | CDemonitorAlias | CUnlinkProcessID | CDemonitorProcessID
  | CUnlinkEvent | CDemonitorEvent => true
  | _ => false
  end.
Definition proc_op (t : table) (held : bool) (op : cop) (from mcr : N) (i : ident) (pc : N) : nres * list wire :=
  if is_add op && held then (NErr e_exist, []) else
  if is_del op && negb held then (NErr e_norel, []) else
  conn_op t op from mcr mcr i pc.

(** * The receiving node: handleRecvQueue stamps a numeric id with ITS OWN current creation;
    an EDF-encoded identifier is taken as it is (core.processes / core.aliases are keyed by the whole value) *)
Definition resolve (rnode : atom) (rcr : N) (w : wident) : ident :=
  match w with
  | WNumPid id => IPid rnode id rcr
  | WNumAlias id => IAlias rnode id rcr
  | WFull i => i
  end.

(* the frame addresses an identifier that exists on the receiving node ([live]: its pids and aliases) *)
Definition reaches (live : list ident) (rnode : atom) (rcr : N) (w : wire) : bool :=
  if in_dec ident_dec (resolve rnode rcr (w_to w)) live then true else false.
Definition delivered (live : list ident) (rnode : atom) (rcr : N) (fs : list wire) : list wire :=
  filter (reaches live rnode rcr) fs.

(* the change made to SendExit by the seeded mutation C14-sendexit-wrong-creation *)
Definition seeded_table : table := set_line conn_table CSendExit GFromLocal.
