(* NetFail engine — correspondence and monitor definitions for the incarnation guard table, evaluated
   over what two REAL nodes did (cases written by `netfail guard`): node B is stopped and started again
   under the same name at least one second later with the same spawn order (so the numeric ids of its
   processes coincide with those of the previous incarnation), A connects again and attempts every
   operation of gen.Connection with identifiers minted by the previous incarnation. *)
From Ergo Require Import Common.Base Rel.Amap Rel.Model NetFail.Model NetFail.Guard.
Local Open Scope N_scope.

(* one attempted operation *)
Record gobs := mk_gobs {
  go_proc : bool;      (* true: through the process API (Send, SendExit, Call, Link ...); false: the method of the
                          connection object itself (gen.Connection) *)
  go_held : bool;      (* process API: the caller holds the relation locally *)
  go_op : cop;
  go_ident : ident;    (* creations renamed 1000, 1001, .. in order of appearance *)
  go_pc : N;           (* creation of the connected incarnation of the peer *)
  go_res : N;          (* 0 = nil, otherwise the error class of NetFail.Model *)
  go_frames : N }.     (* frames the operation added to the connection's MessagesOut counter *)

Record gcase := mk_gcase {
  gc_obs : list gobs;
  gc_delivered : N;    (* payloads / requests / exit signals of stale operations that a process of the NEW
                          incarnation received *)
  gc_killed : N;       (* twin processes of the new incarnation that are not alive at the end *)
  gc_twins : bool;     (* the numeric ids of the new incarnation's processes and aliases coincide with the old ones *)
  gc_creations : list N }.

Definition is_stale (o : gobs) : bool :=
  match ident_creation (go_ident o) with Some cr => negb (cr =? go_pc o) | None => false end.

Definition res_class (r : nres) : N := match r with NOk => 0 | NErr e => e end.

(* the model's answer for this attempt: the sender is a process of A, so from.Creation = core.Creation() *)
Definition model_obs (t : table) (o : gobs) : nres * list wire :=
  if go_proc o then proc_op t (go_held o) (go_op o) 1001 5 (go_ident o) (go_pc o)
  else conn_op t (go_op o) 1001 5 5 (go_ident o) (go_pc o).

(** ** corr: the guard table of the model answers as the implementation did: refused with the same
    error and no frame, or let through (whatever the peer then answered) with exactly one frame *)
Definition corr_one (o : gobs) : bool :=
  let '(r, fs) := model_obs conn_table o in
  match r with
  | NErr e => (go_res o =? e) && (go_frames o =? 0)
  | NOk => negb (go_res o =? e_incarnation) && (go_frames o =? N.of_nat (length fs))
  end.
Definition corr_guard (c : gcase) : bool := forallb corr_one (gc_obs c).

(** ** spec: the property on the observation alone.  Every attempt with an identifier whose creation
    differs from the connected incarnation's was refused with the incarnation error (through the process
    API the local relation check may answer first), wrote no frame; nothing reached a process of the new
    incarnation and none of them was terminated *)
Definition spec_one (o : gobs) : bool :=
  if is_stale o then
    ((go_res o =? e_incarnation) || (go_proc o && ((go_res o =? e_exist) || (go_res o =? e_norel))))
    && (go_frames o =? 0)
  else true.
Definition spec_guard (c : gcase) : bool :=
  forallb spec_one (gc_obs c) && (gc_delivered c =? 0) && (gc_killed c =? 0).

(** ** premise: the case really is the situation of the theorems — creations differ, numeric ids coincide,
    and EVERY operation of the table that takes a stamped identifier was attempted on the connection object
    with a stale identifier and, as a control, with a current one *)
Fixpoint adjacent_distinct (l : list N) : bool :=
  match l with
  | a :: (b :: _) as tl => negb (a =? b) && adjacent_distinct tl
  | _ => true
  end.
Definition attempted (c : gcase) (stale : bool) (op : cop) : bool :=
  existsb (fun o => negb (go_proc o) && cop_eqb (go_op o) op && accepts op (go_ident o) && Bool.eqb (is_stale o) stale)
          (gc_obs c).
Definition premise_guard (c : gcase) : bool :=
  gc_twins c && adjacent_distinct (gc_creations c) && (2 <=? N.of_nat (length (gc_creations c)))
  && forallb (attempted c true) stamped_ops && forallb (attempted c false) stamped_ops.

(** ** the request / response rows alone (property C07: a reply made for a request of a node's previous
    incarnation never reaches the process that has the same numeric id in the next one; a request
    addressed to the previous incarnation of a process never reaches its successor) *)
Definition is_call_op (op : cop) : bool :=
  match op with CSendResponse | CSendResponseError | CCallPID | CCallAlias => true | _ => false end.
Definition call_ops : list cop := [CSendResponse; CSendResponseError; CCallPID; CCallAlias].
Definition spec_guard_calls (c : gcase) : bool :=
  forallb (fun o => negb (is_call_op (go_op o)) || spec_one o) (gc_obs c) && (gc_delivered c =? 0).
Definition premise_guard_calls (c : gcase) : bool :=
  gc_twins c && adjacent_distinct (gc_creations c) && (2 <=? N.of_nat (length (gc_creations c)))
  && forallb (attempted c true) call_ops && forallb (attempted c false) call_ops.
