(* NetFail engine — model (definitions only) of remote failure detection (property C14):

     node/network.go     registerConnection / unregisterConnection (connection table)
     node/core.go        remote branch of Route{Link,Unlink,Monitor,Demonitor,Send,Call}*,
                         RouteTerminate* (owner side: Terminate* frames to the consumers' nodes;
                         receiving side: drain), RouteNodeDown (CleanupNode + fan-out)
     node/process.go     Link* / Unlink* / Monitor* / Demonitor* / LinkNode / MonitorNode wrappers,
                         Call* + waitResponse (pending request with a timer)
     net/proto/connection.go   creation-stamp comparison before every remote operation,
                         request/response with waitResult, Terminate* frames

   One node is described from its own point of view: its target manager and mailboxes are the
   Rel engine's ([Rel.Model.st], [send], [drain], [tm_cleanup_node]); added here are the table of
   connections (peer -> peer creation), the frames written per peer, the pending calls.
   What the peer does enters as input: the answer to a request ([rans]), Terminate* frames and
   responses that arrive, the loss of the connection, a new connection with a given peer creation.

   Identifiers: gen.PID and gen.Alias carry the creation of the node that minted them; the
   operations below take it as a separate argument [cr] next to the Rel target.  It is not part of
   the relation key: a relation is inserted only after the comparison with the peer creation of the
   live connection passed, and CleanupNode removes every relation of a node when its connection
   goes away, so all stored relations of one node carry the same creation.
   gen.ProcessID, gen.Event and node names carry no creation. *)
From Ergo Require Import Common.Base Rel.Amap Rel.Model.
Local Open Scope N_scope.

(** * Reasons and results *)
Definition r_noconn : N := 5.        (* gen.ErrNoConnection; MessageExitNode / MessageDownNode carry no
                                        reason field: the harness records them with this class *)

Definition e_noconn : N := 1.        (* gen.ErrNoConnection / gen.ErrNoRoute from GetConnection *)
Definition e_incarnation : N := 2.   (* gen.ErrProcessIncarnation *)
Definition e_timeout : N := 3.       (* gen.ErrTimeout *)
Definition e_exist : N := 5.         (* gen.ErrTargetExist *)
Definition e_norel : N := 6.         (* gen.ErrTargetUnknown *)
Definition e_local : N := 98.        (* target lives on this node: the local branch belongs to C04 *)

Inductive nres := NOk | NErr (e : N).
Definition nres_dec : forall a b : nres, {a = b} + {a <> b}.
Proof. decide equality; apply N.eq_dec. Defined.

(* what the peer does with a request: answers nil, answers an error, or nothing comes back
   (frame or answer lost: waitResult's timer fires after gen.DefaultRequestTimeout) *)
Inductive rans := AOk | AErr (e : N) | ANone.

(* identifiers that carry a creation stamp *)
Definition stamped (t : target) : bool :=
  match t with TPid _ | TAlias _ _ => true | _ => false end.

(** * Frames written to a peer *)
Inductive frame :=
| FLink (mon : bool) (c : pid) (t : target)      (* MessageLink* / MessageMonitor* request *)
| FUnlink (mon : bool) (c : pid) (t : target)    (* MessageUnlink* / MessageDemonitor* request *)
| FSend (c : pid) (t : target)                   (* protoMessagePID / Name / Alias *)
| FCall (c : pid) (t : target) (ref : N)         (* protoRequestPID / Name / Alias *)
| FTerminate (t : target) (r : N).               (* protoMessageTerminate{PID,Name,Alias,Event} *)

(** * State of one node *)
Record nst := mknst {
  n_st : st;                          (* processes, target manager, mailboxes (Rel) *)
  n_conns : list (atom * N);          (* network.connections: peer -> peer_creation of the connection *)
  n_out : list (atom * frame);        (* frames written, in order *)
  n_pending : list (N * pid);         (* calls in waitResponse: ref -> caller; each started a timer *)
  n_done : list (N * N) }.            (* finished calls: ref -> 0 (response) | e_timeout *)

Definition set_st v s := mknst v (n_conns s) (n_out s) (n_pending s) (n_done s).
Definition set_conns v s := mknst (n_st s) v (n_out s) (n_pending s) (n_done s).
Definition emit (n : atom) (f : frame) s := mknst (n_st s) (n_conns s) (n_out s ++ [(n, f)]) (n_pending s) (n_done s).
Definition set_pending v s := mknst (n_st s) (n_conns s) (n_out s) v (n_done s).
Definition set_done v s := mknst (n_st s) (n_conns s) (n_out s) (n_pending s) v.

Definition ntm (s : nst) : tm := s_tm (n_st s).
Definition with_tm (m : tm) (s : nst) : nst := set_st (set_tm m (n_st s)) s.

(* processes of this node: observers spawned by the node (parent = core pid) *)
Definition init_st (procs : list pid) : st :=
  mkst (map (fun p => (p, mkproc core_pid None [] [])) procs) [] [] [] tm_empty [] [] 1000 0.
Definition init (procs : list pid) : nst := mknst (init_st procs) [] [] [] [].

(*  GetConnection(node): connections.Load; otherwise an attempt to connect, which the harness
    performs as an explicit [NConnect] step; no route / peer gone -> ErrNoRoute *)
Definition conn_of (n : atom) (s : nst) : option N := aget N.eq_dec n (n_conns s).

(*  connection.{Send,Call,Link,Unlink,Monitor,Demonitor}{PID,Alias}:
      if target.Creation != c.peer_creation { return gen.ErrProcessIncarnation }
    the ProcessID / Event variants have no such line *)
Definition stale (t : target) (cr pc : N) : bool := stamped t && negb (cr =? pc).

(** ** Link / Monitor on a remote target

    process.Link*:   if HasLink(pid, target) { return ErrTargetExist } ; RouteLink*
    RouteLink* (remote branch):
        connection, err := n.network.GetConnection(target.Node); if err != nil { return err }
        if err := connection.Link*(pid, target); err != nil { return err }      // request + waitResult
        return n.targetManager.AddLink(pid, target)
    process.LinkNode: HasLink -> ErrTargetExist ; Network().GetNode(target) ; AddLink (no frame)     *)
Definition op_add (self : atom) (mon : bool) (c : pid) (t : target) (cr : N) (ans : rans) (s : nst) : nst * nres :=
  let k := mkkey c t mon in
  if target_node t =? self then (s, NErr e_local) else
  if tm_has k (ntm s) then (s, NErr e_exist) else
  match conn_of (target_node t) s with
  | None => (s, NErr e_noconn)
  | Some pc =>
      match t with
      | TNode _ => (with_tm (fst (tm_add k (ntm s))) s, NOk)
      | _ =>
        if stale t cr pc then (s, NErr e_incarnation) else
        let s1 := emit (target_node t) (FLink mon c t) s in
        match ans with
        | ANone => (s1, NErr e_timeout)
        | AErr e => (s1, NErr e)
        | AOk => let '(m', ok) := tm_add k (ntm s1) in
                 if ok then (with_tm m' s1, NOk) else (s1, NErr e_exist)
        end
      end
  end.

(** ** Unlink / Demonitor
    process.Unlink*: if HasLink(..) == false { return ErrTargetUnknown } ; RouteUnlink*
    RouteUnlink* (remote): GetConnection ; connection.Unlink* (request) ; RemoveLink
    process.UnlinkNode: HasLink check ; RemoveLink (no connection needed)                          *)
Definition op_del (self : atom) (mon : bool) (c : pid) (t : target) (cr : N) (ans : rans) (s : nst) : nst * nres :=
  let k := mkkey c t mon in
  if target_node t =? self then (s, NErr e_local) else
  if negb (tm_has k (ntm s)) then (s, NErr e_norel) else
  match t with
  | TNode _ => (with_tm (fst (tm_remove k (ntm s))) s, NOk)
  | _ =>
    match conn_of (target_node t) s with
    | None => (s, NErr e_noconn)
    | Some pc =>
        if stale t cr pc then (s, NErr e_incarnation) else
        let s1 := emit (target_node t) (FUnlink mon c t) s in
        match ans with
        | ANone => (s1, NErr e_timeout)
        | AErr e => (s1, NErr e)
        | AOk => let '(m', ok) := tm_remove k (ntm s1) in
                 if ok then (with_tm m' s1, NOk) else (s1, NErr e_norel)
        end
    end
  end.

(** ** Send / Call to a remote pid, name, alias
    RouteSend* (remote): GetConnection ; connection.Send*(...) -> creation check, frame
    RouteCall* (remote): the same with a request frame; process.Call* then waits in waitResponse
    with a timer of [timeout] seconds *)
Definition op_send (self : atom) (c : pid) (t : target) (cr : N) (s : nst) : nst * nres :=
  if target_node t =? self then (s, NErr e_local) else
  match conn_of (target_node t) s with
  | None => (s, NErr e_noconn)
  | Some pc => if stale t cr pc then (s, NErr e_incarnation)
               else (emit (target_node t) (FSend c t) s, NOk)
  end.

Definition op_call (self : atom) (c : pid) (t : target) (cr : N) (ref : N) (s : nst) : nst * nres :=
  if target_node t =? self then (s, NErr e_local) else
  match conn_of (target_node t) s with
  | None => (s, NErr e_noconn)
  | Some pc => if stale t cr pc then (s, NErr e_incarnation)
               else (set_pending (n_pending s ++ [(ref, c)]) (emit (target_node t) (FCall c t ref) s), NOk)
  end.

(* the call [ref] leaves waitResponse with outcome [o]; nothing happens if it is not waiting
   (a response after the timeout is dropped: `got late response ... dropped`) *)
Definition complete (ref o : N) (s : nst) : nst :=
  if ahas N.eq_dec ref (n_pending s)
  then set_done (n_done s ++ [(ref, o)]) (set_pending (adel N.eq_dec ref (n_pending s)) s)
  else s.

(** ** RouteNodeDown(name):
      linkTargetsWithConsumers, monitorTargetsWithConsumers := n.targetManager.CleanupNode(name)
      for target, consumers := range links    { for pid := range consumers { sendExitMessage(.., pid, MessageExit*{target, ErrNoConnection}) } }
      for target, consumers := range monitors { for pid := range consumers { RouteSendPID(.., pid, MessageDown*{target, ErrNoConnection}) } }  *)
Definition fanout (down : bool) (l : list (target * pid)) (s : st) : st :=
  fold_left (fun s tc => send (snd tc) (mknote down (fst tc) r_noconn) s) l s.
Definition node_down_st (n : atom) (s : st) : st :=
  let '(m', l, mo) := tm_cleanup_node n (s_tm s) in
  fanout true mo (fanout false l (set_tm m' s)).

(*  unregisterConnection(name): n.connections.Delete(name) ; n.node.RouteNodeDown(name, reason)
    pending calls are not touched: they end by their timers *)
Definition node_down (n : atom) (s : nst) : nst :=
  set_st (node_down_st n (n_st s)) (set_conns (adel N.eq_dec n (n_conns s)) s).

(** ** A Terminate* frame arrives (handleRecvQueue: target := {Node: c.peer, Creation: c.peer_creation, ..};
    c.core.RouteTerminate*(target, reason)): on the receiving node CleanupTarget + notifications = Rel's [drain] *)
Definition remote_terminate (t : target) (r : N) (s : nst) : nst := set_st (drain t r (n_st s)) s.

(** ** The owner's side: RouteTerminate*(target, reason) for a target of THIS node
      consumers := CleanupTarget(target) ; local consumers get their message ;
      remote[pid.Node] = true for the others ;
      for name := range remote { if connection, err := GetConnection(name); err == nil { connection.SendTerminate*(target, reason) } }
    SendTerminate* write the frame unconditionally [fix 1ead0d4: they compared the creation of their
    local target with the peer creation] *)
Definition consumers_of (t : target) (m : tm) : list pid := map kc (idx_keys t (tidx m)).
Definition remote_nodes (self : atom) (cs : list pid) : list atom :=
  nodup N.eq_dec (map pnode (filter (fun c => negb (pnode c =? self)) cs)).
Definition connected_nodes (s : nst) (ns : list atom) : list atom :=
  filter (fun n => ahas N.eq_dec n (n_conns s)) ns.
Definition local_terminate (self : atom) (t : target) (r : N) (s : nst) : nst :=
  let ns := connected_nodes s (remote_nodes self (consumers_of t (ntm s))) in
  let s1 := set_st (drain t r (n_st s)) s in
  fold_left (fun s n => emit n (FTerminate t r) s) ns s1.

(* the same with the comparison as it was coded before the fix *)
Definition local_terminate_prefix (self : atom) (my_creation : N) (t : target) (r : N) (s : nst) : nst :=
  let ns := connected_nodes s (remote_nodes self (consumers_of t (ntm s))) in
  let pass n := match conn_of n s with Some pc => negb (stale t my_creation pc) | None => false end in
  let s1 := set_st (drain t r (n_st s)) s in
  fold_left (fun s n => emit n (FTerminate t r) s) (filter pass ns) s1.

(** * Histories *)
Inductive nop :=
| NConnect (n : atom) (cr : N)                       (* registerConnection after a handshake: PeerCreation = cr *)
| NAdd (mon : bool) (c : pid) (t : target) (cr : N) (ans : rans)
| NDel (mon : bool) (c : pid) (t : target) (cr : N) (ans : rans)
| NSend (c : pid) (t : target) (cr : N)
| NCall (c : pid) (t : target) (cr : N) (ref : N)
| NResponse (ref : N)                                (* the response frame of a call arrives *)
| NTimer (ref : N)                                   (* the timer of a call fires *)
| NTermFrame (t : target) (r : N)                    (* a Terminate* frame arrives *)
| NDown (n : atom).                                  (* the connection with n is lost *)

Definition nexec (self : atom) (o : nop) (s : nst) : nst * nres :=
  match o with
  | NConnect n cr => (set_conns (aset N.eq_dec n cr (n_conns s)) s, NOk)
  | NAdd mon c t cr ans => op_add self mon c t cr ans s
  | NDel mon c t cr ans => op_del self mon c t cr ans s
  | NSend c t cr => op_send self c t cr s
  | NCall c t cr ref => op_call self c t cr ref s
  | NResponse ref => (complete ref 0 s, NOk)
  | NTimer ref => (complete ref e_timeout s, NOk)
  | NTermFrame t r => (remote_terminate t r s, NOk)
  | NDown n => (node_down n s, NOk)
  end.

Fixpoint nrun (self : atom) (ops : list nop) (s : nst) : nst * list nres :=
  match ops with
  | [] => (s, [])
  | o :: tl => let '(s1, r) := nexec self o s in let '(s2, rs) := nrun self tl s1 in (s2, r :: rs)
  end.

(** * Specification side: what a lost connection owes to whom *)

(* copies of note x that the loss of node n must deliver to c in state s: one iff x carries the
   'no connection' reason, its target lives on n, c does not, and c holds that relation
   (link for an exit, monitor for a down) and is alive *)
Definition due_down (n : atom) (s : st) (c : pid) (x : note) : nat :=
  if (n_reason x =? r_noconn) && (target_node (n_target x) =? n) && negb (pnode c =? n)
     && mem_key (mkkey c (n_target x) (n_down x)) (rels (s_tm s)) && live c s
  then 1%nat else 0%nat.

(* node creation = time.Now().Unix() of node.Start: whole seconds (time in milliseconds here) *)
Definition creation_of (start_ms : N) : N := start_ms / 1000.

(* a call has a completion event later in the history *)
Definition completes (ref : N) (o : nop) : bool :=
  match o with NResponse r | NTimer r => r =? ref | _ => false end.
Fixpoint timers_fair (ops : list nop) : bool :=
  match ops with
  | [] => true
  | NCall _ _ _ ref :: tl => existsb (completes ref) tl && timers_fair tl
  | _ :: tl => timers_fair tl
  end.
Definition call_refs (ops : list nop) : list N :=
  flat_map (fun o => match o with NCall _ _ _ ref => [ref] | _ => [] end) ops.
