(* NetFail engine — correspondence and monitor definitions evaluated over what two REAL nodes did
   (cases written by go/harness/cmd/netfail). *)
From Ergo Require Import Common.Base Rel.Amap Rel.Model Rel.Cases NetFail.Model.
Local Open Scope N_scope.

(* One case: a history seen from node A (= node 1, the survivor) with the observed result of every
   step; what every observer actor handled; the calls with outcome and latency; the steps that used
   an identifier minted by an EARLIER incarnation of the peer than the one connected at that moment;
   how many payloads of such steps reached a process of the later incarnation. *)
Record ncase := mk_ncase {
  nc_obs : list pid;
  nc_steps : list (nop * nres);
  nc_relax : bool;              (* the peer was stopped while connected: the Terminate* frames of its dying
                                   processes race the loss of the connection, either reason is legitimate *)
  nc_inbox : list (pid * list note);
  nc_calls : list (N * (N * (N * N)));   (* ref, (outcome: 0 response | 3 timeout | 99 still waiting), (latency ms, timeout ms) *)
  nc_stale : list nat;
  nc_stale_delivered : N;
  nc_creations : list N         (* creations of the successive incarnations of the peer *)
}.

Definition nres_eqb (a b : nres) : bool := if nres_dec a b then true else false.
Fixpoint nreslist_eqb (a b : list nres) : bool :=
  match a, b with
  | [], [] => true
  | x :: a', y :: b' => nres_eqb x y && nreslist_eqb a' b'
  | _, _ => false
  end.

(* reasons that may stand for each other when the peer was stopped: 'no connection', shutdown, kill *)
Definition relax_note (relax : bool) (x : note) : note :=
  if relax then
    match n_target x with
    | TNode _ => x
    | _ => if (n_reason x =? r_noconn) || (n_reason x =? 3) || (n_reason x =? r_kill)
           then mknote (n_down x) (n_target x) r_noconn else x
    end
  else x.

Definition inbox_eqb (relax : bool) (a b : list note) : bool :=
  perm_eqb note_dec (map (relax_note relax) a) (map (relax_note relax) b).

Definition obs_inbox (c : ncase) (p : pid) : list note :=
  match aget pid_dec p (nc_inbox c) with Some l => l | None => [] end.

(** ** corr: the model run over the same history answers the same and fills the same mailboxes *)
Definition model_final (c : ncase) : nst * list nres := nrun 1 (map fst (nc_steps c)) (init (nc_obs c)).

Definition corr_results (c : ncase) : bool :=
  nreslist_eqb (snd (model_final c)) (map snd (nc_steps c)).
Definition corr_inbox (c : ncase) : bool :=
  let s := fst (model_final c) in
  forallb (fun p => inbox_eqb (nc_relax c) (inbox_of p (n_st s)) (obs_inbox c p)) (nc_obs c)
  && forallb (fun e => memb pid_dec (fst e) (nc_obs c)) (nc_inbox c).

(** ** spec: the property itself on the implementation's answers (no target manager involved).
    [held]: relations the implementation confirmed and has not given up; each owes exactly one note
    when its target terminates remotely (with that reason) or its node is lost ('no connection'). *)
Definition key_eqb (a b : key) : bool := if key_dec a b then true else false.
Definition owe (r : N) (k : key) : pid * note := (kc k, mknote (km k) (kt k) r).

Fixpoint owed (steps : list (nop * nres)) (held : list key) : list (pid * note) :=
  match steps with
  | [] => []
  | (NAdd mon c t _ _, NOk) :: tl => owed tl (mkkey c t mon :: held)
  | (NDel mon c t _ _, NOk) :: tl => owed tl (filter (fun k => negb (key_eqb k (mkkey c t mon))) held)
  | (NTermFrame t r, _) :: tl =>
      map (owe r) (filter (fun k => if target_dec (kt k) t then true else false) held)
      ++ owed tl (filter (fun k => if target_dec (kt k) t then false else true) held)
  | (NDown n, _) :: tl =>
      map (owe r_noconn) (filter (fun k => target_node (kt k) =? n) held)
      ++ owed tl (filter (fun k => negb (target_node (kt k) =? n)) held)
  | _ :: tl => owed tl held
  end.

Definition owed_to (p : pid) (l : list (pid * note)) : list note :=
  map snd (filter (fun e => if pid_dec (fst e) p then true else false) l).

(* exactly once, right reason, nobody else *)
Definition spec_once (c : ncase) : bool :=
  let o := owed (nc_steps c) [] in
  forallb (fun p => inbox_eqb (nc_relax c) (owed_to p o) (obs_inbox c p)) (nc_obs c)
  && forallb (fun e => memb pid_dec (fst e) (nc_obs c)) (nc_inbox c).

(* at the end of the history (which ends with the loss of every connection) nothing is owed any more:
   every confirmed relation was settled by a termination or a node-down *)
Fixpoint held_after (steps : list (nop * nres)) (held : list key) : list key :=
  match steps with
  | [] => held
  | (NAdd mon c t _ _, NOk) :: tl => held_after tl (mkkey c t mon :: held)
  | (NDel mon c t _ _, NOk) :: tl => held_after tl (filter (fun k => negb (key_eqb k (mkkey c t mon))) held)
  | (NTermFrame t r, _) :: tl => held_after tl (filter (fun k => if target_dec (kt k) t then false else true) held)
  | (NDown n, _) :: tl => held_after tl (filter (fun k => negb (target_node (kt k) =? n)) held)
  | _ :: tl => held_after tl held
  end.

(* incarnations: every step that used an identifier of an earlier incarnation was refused with the
   incarnation error (or by the local relation check) and nothing reached the new incarnation *)
Definition refused (r : nres) : bool :=
  match r with NErr e => (e =? e_incarnation) || (e =? e_exist) || (e =? e_norel) | NOk => false end.
Definition spec_incarnation (c : ncase) : bool :=
  forallb (fun i => match nth_error (nc_steps c) i with Some (_, r) => refused r | None => false end) (nc_stale c)
  && (nc_stale_delivered c =? 0).

(* calls: none hangs; each ends within its timeout (+ 1.5 s of scheduling slack) *)
Definition spec_calls (c : ncase) : bool :=
  forallb (fun e => let '(_, (o, (lat, tmo))) := e in ((o =? 0) || (o =? e_timeout)) && (lat <=? tmo + 1500)) (nc_calls c).

(* model side of calls: the history closes every call it opened (the harness records the timer or the
   response event when the call returns), i.e. the hypothesis of C14_calls_fail holds on this case *)
Definition premise_timers (c : ncase) : bool := timers_fair (map fst (nc_steps c)).

(** ** premises / non-triviality *)
Definition is_down (o : nop) : bool := match o with NDown _ => true | _ => false end.
(* a connection was lost while some confirmed relation was held, and somebody was notified *)
Definition premise_hist (c : ncase) : bool :=
  existsb (fun e => is_down (fst e)) (nc_steps c)
  && negb (Nat.eqb (length (owed (nc_steps c) [])) 0).
(* guard of C14_incarnation_partial: successive incarnations have different creations *)
Fixpoint adjacent_distinct (l : list N) : bool :=
  match l with
  | a :: (b :: _) as tl => negb (a =? b) && adjacent_distinct tl
  | _ => true
  end.
Definition premise_creations (c : ncase) : bool := adjacent_distinct (nc_creations c).
