(* Common imports and settings for every model / proof file. *)
From Coq Require Export List Arith ZArith NArith Lia Bool.
From Coq Require Export ZifyBool ZifyNat ZifyN.
Export ListNotations.

Global Arguments N.add : simpl never.
Global Arguments N.mul : simpl never.
Global Arguments N.div : simpl never.
Global Arguments N.modulo : simpl never.
Global Arguments N.ltb : simpl never.
Global Arguments N.leb : simpl never.
Global Arguments N.of_nat : simpl never.
Global Arguments N.to_nat : simpl never.
Global Arguments Z.add : simpl never.
Global Arguments Z.sub : simpl never.
Global Arguments Z.mul : simpl never.
Global Arguments Z.div : simpl never.
Global Arguments Z.modulo : simpl never.
Global Arguments Z.ltb : simpl never.
Global Arguments Z.leb : simpl never.
Global Arguments Z.gtb : simpl never.
Global Arguments Z.geb : simpl never.
Global Arguments Z.eqb : simpl never.
Global Arguments Z.of_nat : simpl never.
Global Arguments Z.to_nat : simpl never.

(* lia understands / and mod after this hook *)
Ltac Zify.zify_post_hook ::= Z.div_mod_to_equations.

(* generic helpers used by the correspondence files (cases_*.v) *)
Fixpoint zlist_eqb (a b : list Z) : bool :=
  match a, b with
  | [], [] => true
  | x :: a', y :: b' => Z.eqb x y && zlist_eqb a' b'
  | _, _ => false
  end.

Lemma zlist_eqb_eq a b : zlist_eqb a b = true <-> a = b.
Proof.
  revert b; induction a as [|x a IH]; intros [|y b]; cbn [zlist_eqb]; split; intros H;
    try reflexivity; try discriminate.
  - apply andb_true_iff in H as [H1 H2]. apply Z.eqb_eq in H1. apply IH in H2. congruence.
  - inversion H; subst. apply andb_true_iff; split; [apply Z.eqb_refl | apply IH; reflexivity].
Qed.

(* index every element: used to report the numbers of the failing cases *)
Fixpoint failing_from {A} (f : A -> bool) (n : nat) (l : list A) : list nat :=
  match l with
  | [] => []
  | x :: tl => if f x then failing_from f (S n) tl else n :: failing_from f (S n) tl
  end.
Definition failing {A} (f : A -> bool) (l : list A) : list nat := failing_from f 0 l.
