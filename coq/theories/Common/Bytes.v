(* Bytes: a byte is an [N] below 256, a byte string a [list N].  Big-endian fixed-width
   integers ([put_be k] / [get_be k], k = number of bytes) with round-trip lemmas, two's
   complement conversion, and the hex-string reader used by the harness output
   (util.Hex prints byte strings as Coq string literals of hex digits). *)
From Ergo Require Import Common.Base.
From Coq Require Import Ascii String.
From Coq Require Import List.
Import ListNotations.
Local Open Scope N_scope.

Definition bytes := list N.

Definition blen (b : bytes) : N := N.of_nat (length b).

Lemma blen_app a b : blen (a ++ b) = blen a + blen b.
Proof. unfold blen. rewrite app_length. lia. Qed.

Lemma blen_nil : blen [] = 0.
Proof. reflexivity. Qed.

Lemma blen_cons x b : blen (x :: b) = 1 + blen b.
Proof. unfold blen. cbn [length]. lia. Qed.

Definition is_byte (x : N) : bool := x <? 256.
Definition all_bytes (b : bytes) : bool := forallb is_byte b.

(* ---- take / drop by an N count (Go: packet[:n], packet[n:]) ------------------------------- *)
Definition btake (n : N) (b : bytes) : bytes := firstn (N.to_nat n) b.
Definition bdrop (n : N) (b : bytes) : bytes := skipn (N.to_nat n) b.

Lemma btake_app a r : btake (blen a) (a ++ r) = a.
Proof.
  unfold btake, blen. rewrite Nat2N.id.
  rewrite firstn_app, Nat.sub_diag, firstn_all. cbn [firstn]. apply app_nil_r.
Qed.

Lemma bdrop_app a r : bdrop (blen a) (a ++ r) = r.
Proof.
  unfold bdrop, blen. rewrite Nat2N.id.
  rewrite skipn_app, Nat.sub_diag, skipn_all. reflexivity.
Qed.

(* ---- big-endian unsigned integers of k bytes ----------------------------------------------- *)
Fixpoint put_be (k : nat) (n : N) : bytes :=
  match k with
  | O => []
  | S k' => ((n / 256 ^ N.of_nat k') mod 256) :: put_be k' n
  end.

(* value of the first k bytes; None when fewer than k bytes are available *)
Fixpoint get_be (k : nat) (b : bytes) : option (N * bytes) :=
  match k with
  | O => Some (0, b)
  | S k' =>
    match b with
    | [] => None
    | x :: b' =>
      match get_be k' b' with
      | None => None
      | Some (v, r) => Some (x * 256 ^ N.of_nat k' + v, r)
      end
    end
  end.

Lemma put_be_length k n : length (put_be k n) = k.
Proof. induction k as [|k IH]; cbn [put_be length]; congruence. Qed.

Lemma blen_put_be k n : blen (put_be k n) = N.of_nat k.
Proof. unfold blen. now rewrite put_be_length. Qed.

Lemma pow256_pos k : 0 < 256 ^ k.
Proof. apply N.neq_0_lt_0. apply N.pow_nonzero. discriminate. Qed.

Lemma get_put_be k : forall n r, get_be k (put_be k n ++ r) = Some (n mod 256 ^ N.of_nat k, r).
Proof.
  induction k as [|k IH]; intros n r.
  - cbn [put_be get_be app]. change (N.of_nat 0) with 0. rewrite N.pow_0_r, N.mod_1_r. reflexivity.
  - cbn [put_be get_be app]. rewrite IH. f_equal. f_equal.
    rewrite Nat2N.inj_succ, N.pow_succ_r by lia.
    set (p := 256 ^ N.of_nat k).
    assert (Hp : p <> 0) by (unfold p; apply N.pow_nonzero; discriminate).
    rewrite (N.mul_comm 256 p).
    rewrite N.mod_mul_r by (try assumption; discriminate).
    lia.
Qed.

Lemma get_put_be_small k n r :
  n < 256 ^ N.of_nat k -> get_be k (put_be k n ++ r) = Some (n, r).
Proof. intros H. rewrite get_put_be. now rewrite N.mod_small. Qed.

Lemma get_be_short k : forall b, (length b < k)%nat -> get_be k b = None.
Proof.
  induction k as [|k IH]; intros b H; [lia|].
  destruct b as [|x b]; cbn [get_be]; [reflexivity|].
  cbn [length] in H. rewrite IH by lia. reflexivity.
Qed.

Lemma put_be_all_bytes k n : all_bytes (put_be k n) = true.
Proof.
  induction k as [|k IH]; cbn [put_be all_bytes forallb]; [reflexivity|].
  apply andb_true_iff; split; [|exact IH].
  unfold is_byte. apply N.ltb_lt. apply N.mod_lt. discriminate.
Qed.

(* ---- two's complement ------------------------------------------------------------------------ *)
(* Go: uint64(int64 value) etc. w = width in bits *)
Definition to_unsigned (w : N) (z : Z) : N := Z.to_N (z mod 2 ^ Z.of_N w)%Z.
Definition to_signed (w : N) (n : N) : Z :=
  if n <? 2 ^ (w - 1) then Z.of_N n else (Z.of_N n - 2 ^ Z.of_N w)%Z.
Definition in_signed (w : N) (z : Z) : bool :=
  ((- 2 ^ (Z.of_N w - 1) <=? z) && (z <? 2 ^ (Z.of_N w - 1)))%Z.
Definition in_unsigned (w : N) (z : Z) : bool := ((0 <=? z) && (z <? 2 ^ Z.of_N w))%Z.

Lemma to_unsigned_lt w z : to_unsigned w z < 2 ^ w.
Proof.
  unfold to_unsigned.
  assert (H : (0 <= z mod 2 ^ Z.of_N w < 2 ^ Z.of_N w)%Z) by (apply Z.mod_pos_bound; apply Z.pow_pos_nonneg; lia).
  apply N2Z.inj_lt. rewrite Z2N.id by lia. rewrite N2Z.inj_pow. cbn. lia.
Qed.

Lemma signed_roundtrip w z : 0 < w -> in_signed w z = true -> to_signed w (to_unsigned w z) = z.
Proof.
  intros Hw H. unfold in_signed in H. apply andb_true_iff in H as [H1 H2].
  apply Z.leb_le in H1. apply Z.ltb_lt in H2.
  assert (Hpow : (2 ^ Z.of_N w = 2 * 2 ^ (Z.of_N w - 1))%Z).
  { rewrite <- Z.pow_succ_r by lia. f_equal. lia. }
  assert (Hpos : (0 < 2 ^ (Z.of_N w - 1))%Z) by (apply Z.pow_pos_nonneg; lia).
  unfold to_signed, to_unsigned.
  assert (Hn : Z.of_N (2 ^ (w - 1)) = (2 ^ (Z.of_N w - 1))%Z).
  { rewrite N2Z.inj_pow, N2Z.inj_sub by lia. reflexivity. }
  destruct (Z.ltb_spec z 0) as [Hneg|Hnn].
  - assert (Hm : (z mod 2 ^ Z.of_N w = z + 2 ^ Z.of_N w)%Z).
    { symmetry. apply Z.mod_unique_pos with (q := (-1)%Z); lia. }
    rewrite Hm. rewrite Z2N.id by lia.
    destruct (N.ltb_spec (Z.to_N (z + 2 ^ Z.of_N w)) (2 ^ (w - 1))) as [Hlt|Hge]; [|lia].
    apply N2Z.inj_lt in Hlt. rewrite Z2N.id, Hn in Hlt by lia. lia.
  - rewrite Z.mod_small by lia. rewrite Z2N.id by lia.
    destruct (N.ltb_spec (Z.to_N z) (2 ^ (w - 1))) as [Hlt|Hge]; [reflexivity|].
    apply N2Z.inj_le in Hge. rewrite Z2N.id, Hn in Hge by lia. lia.
Qed.

Lemma unsigned_roundtrip w z : in_unsigned w z = true -> Z.of_N (to_unsigned w z) = z.
Proof.
  intros H. unfold in_unsigned in H. apply andb_true_iff in H as [H1 H2].
  apply Z.leb_le in H1. apply Z.ltb_lt in H2.
  unfold to_unsigned. rewrite Z.mod_small by lia. apply Z2N.id; lia.
Qed.

(* ---- hex strings ------------------------------------------------------------------------------ *)
Definition hexval (c : ascii) : N :=
  let n := N_of_ascii c in
  if (48 <=? n) && (n <=? 57) then n - 48
  else if (97 <=? n) && (n <=? 102) then n - 87
  else if (65 <=? n) && (n <=? 70) then n - 55
  else 0.

(* tail recursive: cases may carry byte strings of 64 KiB *)
Fixpoint hex_go (s : string) (acc : bytes) : bytes :=
  match s with
  | String a (String b s') => hex_go s' ((hexval a * 16 + hexval b) :: acc)
  | _ => acc
  end.
Definition hx (s : string) : bytes := rev_append (hex_go s []) [].

(* n copies of a (short) byte pattern: large boundary values are printed as [rp 65534 "61"] *)
Definition rp (n : N) (s : string) : bytes :=
  let p := hx s in N.iter n (fun acc => p ++ acc) [].

Example hx_example : hx "00ff8d0a" = [0; 255; 141; 10] /\ rp 3 "61" = [97; 97; 97].
Proof. vm_compute. split; reflexivity. Qed.

Fixpoint bytes_eqb (a b : bytes) : bool :=
  match a, b with
  | [], [] => true
  | x :: a', y :: b' => (x =? y) && bytes_eqb a' b'
  | _, _ => false
  end.

Lemma bytes_eqb_eq a b : bytes_eqb a b = true <-> a = b.
Proof.
  revert b; induction a as [|x a IH]; intros [|y b]; cbn [bytes_eqb]; split; intros H;
    try reflexivity; try discriminate.
  - apply andb_true_iff in H as [H1 H2]. apply N.eqb_eq in H1. apply IH in H2. congruence.
  - inversion H; subst. apply andb_true_iff; split; [apply N.eqb_refl | apply IH; reflexivity].
Qed.

Lemma bytes_eqb_refl a : bytes_eqb a a = true.
Proof. now apply bytes_eqb_eq. Qed.

Arguments hx s%string_scope.
Arguments rp n%N_scope s%string_scope.
