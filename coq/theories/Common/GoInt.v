(* Go's fixed-width integer arithmetic, as the expression translator (/verif/go/translate) writes it:
   every +, -, *, << and every conversion T(x) of the source is wrapped to the width of its Go type. *)
From Ergo Require Import Common.Base.
From Coq Require Export String.
Local Open Scope Z_scope.

Definition uwrap (w x : Z) : Z := x mod 2 ^ w.
Definition swrap (w x : Z) : Z := (x + 2 ^ (w - 1)) mod 2 ^ w - 2 ^ (w - 1).

Lemma uwrap_small w x : 0 <= x < 2 ^ w -> uwrap w x = x.
Proof. intros H; unfold uwrap; apply Z.mod_small; exact H. Qed.

Lemma swrap_small w x : 0 < w -> - 2 ^ (w - 1) <= x < 2 ^ (w - 1) -> swrap w x = x.
Proof.
  intros Hw H. assert (E : 2 ^ w = 2 * 2 ^ (w - 1)).
  { replace w with (Z.succ (w - 1)) at 1 by lia. apply Z.pow_succ_r. lia. }
  unfold swrap. rewrite Z.mod_small; lia.
Qed.

(* unfolds the wraps and turns the powers of two of Go's widths into numerals, for lia *)
Ltac gowrap :=
  unfold uwrap, swrap in *;
  change (2 ^ 8) with 256 in *; change (2 ^ 16) with 65536 in *;
  change (2 ^ 32) with 4294967296 in *; change (2 ^ 64) with 18446744073709551616 in *;
  change (2 ^ (8 - 1)) with 128 in *; change (2 ^ (16 - 1)) with 32768 in *;
  change (2 ^ (32 - 1)) with 2147483648 in *; change (2 ^ (64 - 1)) with 9223372036854775808 in *.

(* a translated site: (location in the source, the Go expressions that are its inputs, the formula) *)
Definition site (A : Type) : Type := (string * list string * A)%type.
Definition site_fn {A} (s : site A) : A := snd s.
Definition site_leaves {A} (s : site A) : list string := snd (fst s).

Fixpoint strs_eqb (a b : list string) : bool :=
  match a, b with
  | [], [] => true
  | x :: a', y :: b' => String.eqb x y && strs_eqb a' b'
  | _, _ => false
  end.

(* N <-> Z for the bit operations (the hand-written models of identifiers are over N) *)
Lemma of_N_land a b : Z.of_N (N.land a b) = Z.land (Z.of_N a) (Z.of_N b).
Proof. destruct a, b; reflexivity. Qed.

Lemma of_N_shiftr a k : Z.of_N (N.shiftr a k) = Z.shiftr (Z.of_N a) (Z.of_N k).
Proof.
  apply Z.bits_inj'; intros n Hn.
  rewrite Z.shiftr_spec by lia. rewrite !Z.testbit_of_N' by lia.
  rewrite N.shiftr_spec by lia. f_equal. lia.
Qed.

(* prove [Forall P sites] by running [tac] on every site of the (generated, concrete) list *)
Ltac each_site tac := repeat (apply Forall_cons; [tac|]); apply Forall_nil.
Definition site_loc {A} (s : site A) : string := fst (fst s).

(* prove [Exists P sites] by finding the first site on which [tac] proves P *)
Ltac find_site tac := first [ apply Exists_cons_hd; solve [tac] | apply Exists_cons_tl; find_site tac ].
