(* Codec combinators: result monad with explicit error classes, encoders [A -> res bytes],
   decoders [bytes -> res (A * bytes)] and the round-trip property [codec_ok] together with
   composition lemmas (seq, tagged, length-prefixed bytes with the bound check computed in a
   given integer width, vectors).  Used by Edf (C11, C16) and meant for Proto / Hs frames. *)
From Ergo Require Import Common.Base Common.Bytes.
Local Open Scope N_scope.

Inductive err :=
| EFuel      (* recursion budget of the model exhausted - never an implementation outcome *)
| ETooLong   (* encoder: value not representable (over-long atom / string / error / binary) *)
| EType      (* encoder: ill-typed model value (no Go value corresponds to it) / unknown type *)
| EData.     (* decoder: malformed input (end of data, bad tag, unknown id, recovered panic) *)

Inductive res (A : Type) := Ok (a : A) | Err (e : err).
Arguments Ok {A} a.
Arguments Err {A} e.

Definition bind {A B} (r : res A) (f : A -> res B) : res B :=
  match r with Ok a => f a | Err e => Err e end.
Notation "x <- r ;; k" := (bind r (fun x => k)) (at level 61, r at next level, right associativity).
Notation "' p <- r ;; k" := (bind r (fun x => let p := x in k))
  (at level 61, p pattern, r at next level, right associativity).

Definition is_ok {A} (r : res A) : bool := match r with Ok _ => true | Err _ => false end.

Lemma bind_ok {A B} (r : res A) (f : A -> res B) b :
  bind r f = Ok b -> exists a, r = Ok a /\ f a = Ok b.
Proof. destruct r as [a|e]; cbn [bind]; intros H; [eauto | discriminate]. Qed.

Definition enc (A : Type) := A -> res bytes.
Definition dec (A : Type) := bytes -> res (A * bytes).

(* round trip with an arbitrary continuation of the input, consuming exactly what was produced *)
Definition codec_ok {A} (e : enc A) (d : dec A) (P : A -> Prop) : Prop :=
  forall a bs rest, P a -> e a = Ok bs -> d (bs ++ rest) = Ok (a, rest).

(* ---- fixed-width integers -------------------------------------------------------------------- *)
Definition rd_be (k : nat) : dec N :=
  fun b => match get_be k b with Some r => Ok r | None => Err EData end.
Definition wr_be (k : nat) : enc N := fun n => Ok (put_be k n).

Lemma rd_put_be k n r : n < 256 ^ N.of_nat k -> rd_be k (put_be k n ++ r) = Ok (n, r).
Proof. intros H. unfold rd_be. now rewrite get_put_be_small. Qed.

Lemma rd_put_be_mod k n r : rd_be k (put_be k n ++ r) = Ok (n mod 256 ^ N.of_nat k, r).
Proof. unfold rd_be. now rewrite get_put_be. Qed.

Lemma be_codec_ok k : codec_ok (wr_be k) (rd_be k) (fun n => n < 256 ^ N.of_nat k).
Proof. intros n bs rest Hn H. inversion H; subst. now apply rd_put_be. Qed.

(* one byte *)
Definition rd_u8 : dec N := fun b => match b with x :: r => Ok (x, r) | [] => Err EData end.

(* ---- sequencing ------------------------------------------------------------------------------ *)
Definition seq_enc {A B} (ea : enc A) (eb : enc B) : enc (A * B) :=
  fun p => x <- ea (fst p) ;; y <- eb (snd p) ;; Ok (x ++ y).
Definition seq_dec {A B} (da : dec A) (db : dec B) : dec (A * B) :=
  fun b => '(a, r) <- da b ;; '(c, r') <- db r ;; Ok ((a, c), r').

Lemma seq_codec_ok {A B} (ea : enc A) da (eb : enc B) db PA PB :
  codec_ok ea da PA -> codec_ok eb db PB ->
  codec_ok (seq_enc ea eb) (seq_dec da db) (fun p => PA (fst p) /\ PB (snd p)).
Proof.
  intros Ha Hb [a c] bs rest [HPa HPb] H. unfold seq_enc in H. cbn [fst snd] in *.
  apply bind_ok in H as (x & Hx & H). apply bind_ok in H as (y & Hy & H). inversion H; subst.
  unfold seq_dec. rewrite <- app_assoc. rewrite (Ha _ _ _ HPa Hx). cbn [bind].
  rewrite (Hb _ _ _ HPb Hy). reflexivity.
Qed.

(* ---- tag byte ---------------------------------------------------------------------------------- *)
Definition tag_enc {A} (t : N) (e : enc A) : enc A := fun a => x <- e a ;; Ok (t :: x).
Definition tag_dec {A} (t : N) (d : dec A) : dec A :=
  fun b => match b with
           | x :: r => if x =? t then d r else Err EData
           | [] => Err EData
           end.

Lemma tag_codec_ok {A} t (e : enc A) d P : codec_ok e d P -> codec_ok (tag_enc t e) (tag_dec t d) P.
Proof.
  intros H a bs rest HP He. unfold tag_enc in He. apply bind_ok in He as (x & Hx & He).
  inversion He; subst. cbn [tag_dec app]. rewrite N.eqb_refl. now apply H.
Qed.

(* ---- length-prefixed bytes --------------------------------------------------------------------
   Go pattern:   l := <k-byte big endian>;  if len(packet) < T(k + l) { EOD };  packet[k : k+l]
   where the sum k+l is computed in an unsigned type of W bits before the conversion to int.
   With W = width of the prefix itself the sum wraps for the largest lengths: the check passes and
   the slice expression packet[k : (k+l) mod 2^W] panics (recovered as an error).  W = 64 models
   the repaired code ("k + int(l)"). [avail] = len(packet) including the prefix. *)
Definition put_lp (k : nat) (b : bytes) : bytes := put_be k (blen b) ++ b.

Definition get_lp (k : nat) (W : N) : dec bytes :=
  fun b =>
    '(l, r) <- rd_be k b ;;
    let e := (N.of_nat k + l) mod 2 ^ W in
    if blen b <? e then Err EData            (* errDecodeEOD *)
    else if e <? N.of_nat k then Err EData   (* slice bounds out of range -> recovered panic *)
    else if blen r <? l then Err EData       (* (only reachable when the sum wrapped) *)
    else Ok (btake l r, bdrop l r).

Lemma get_put_lp k W b r :
  blen b < 256 ^ N.of_nat k -> N.of_nat k + blen b < 2 ^ W ->
  get_lp k W (put_lp k b ++ r) = Ok (b, r).
Proof.
  intros Hl HW. unfold get_lp, put_lp. rewrite <- app_assoc. rewrite rd_put_be by assumption.
  cbn [bind]. rewrite N.mod_small by assumption.
  rewrite !blen_app, blen_put_be.
  destruct (N.ltb_spec (N.of_nat k + (blen b + blen r)) (N.of_nat k + blen b)) as [H|_]; [lia|].
  destruct (N.ltb_spec (N.of_nat k + blen b) (N.of_nat k)) as [H|_]; [lia|].
  destruct (N.ltb_spec (blen b + blen r) (blen b)) as [H|_]; [lia|].
  now rewrite btake_app, bdrop_app.
Qed.

(* the wrapping variant rejects its own output: symbolic form of the defect *)
Lemma get_lp_wraps k W b r :
  blen b < 256 ^ N.of_nat k -> (N.of_nat k + blen b) mod 2 ^ W < N.of_nat k ->
  get_lp k W (put_lp k b ++ r) = Err EData.
Proof.
  intros Hl HW. unfold get_lp, put_lp. rewrite <- app_assoc. rewrite rd_put_be by assumption.
  cbn [bind]. rewrite !blen_app, blen_put_be.
  destruct (N.ltb_spec (N.of_nat k + (blen b + blen r)) ((N.of_nat k + blen b) mod 2 ^ W)); [reflexivity|].
  destruct (N.ltb_spec ((N.of_nat k + blen b) mod 2 ^ W) (N.of_nat k)); [reflexivity|lia].
Qed.

(* the arithmetic fact behind the 65534 / 65535 byte strings of the unrepaired decodeString *)
Example lp16_wrap_witness :
  ((2 + 65534) mod 2 ^ 16 <? 2) = true /\ ((2 + 65535) mod 2 ^ 16 <? 2) = true /\
  ((2 + 65533) mod 2 ^ 16 <? 2) = false.
Proof. vm_compute. repeat split. Qed.

(* short input *)
Lemma get_lp_short k W b : (length b < k)%nat -> get_lp k W b = Err EData.
Proof. intros H. unfold get_lp, rd_be. now rewrite get_be_short. Qed.

(* ---- vectors: n items with the same codec ----------------------------------------------------- *)
Fixpoint enc_all {A} (e : enc A) (l : list A) : res bytes :=
  match l with
  | [] => Ok []
  | a :: l' => x <- e a ;; y <- enc_all e l' ;; Ok (x ++ y)
  end.

Fixpoint dec_n {A} (d : dec A) (n : nat) (b : bytes) : res (list A * bytes) :=
  match n with
  | O => Ok ([], b)
  | S n' => '(a, r) <- d b ;; '(l, r') <- dec_n d n' r ;; Ok (a :: l, r')
  end.

(* element-wise statement: the decoder may return a canonical form [c a] of each element *)
Lemma enc_dec_all {A} (e : enc A) (d : dec A) (c : A -> A) (l : list A) :
  (forall a bs rest, In a l -> e a = Ok bs -> d (bs ++ rest) = Ok (c a, rest)) ->
  forall bs rest, enc_all e l = Ok bs -> dec_n d (length l) (bs ++ rest) = Ok (map c l, rest).
Proof.
  induction l as [|a l IH]; intros H bs rest He.
  - cbn in He. inversion He; subst. reflexivity.
  - cbn [enc_all] in He. apply bind_ok in He as (x & Hx & He). apply bind_ok in He as (y & Hy & He).
    inversion He; subst. cbn [length dec_n map]. rewrite <- app_assoc.
    rewrite (H a x (y ++ rest) (or_introl eq_refl) Hx). cbn [bind].
    rewrite (IH (fun a' bs' rest' Hin => H a' bs' rest' (or_intror Hin)) y rest Hy). reflexivity.
Qed.

(* every element occupies at least one byte -> the whole vector occupies at least n bytes
   (this is what the "n > len(packet)" plausibility check of the slice decoders relies on) *)
Lemma enc_all_length {A} (e : enc A) (l : list A) :
  (forall a bs, In a l -> e a = Ok bs -> (1 <= length bs)%nat) ->
  forall bs, enc_all e l = Ok bs -> (length l <= length bs)%nat.
Proof.
  induction l as [|a l IH]; intros H bs He; cbn [length]; [lia|].
  cbn [enc_all] in He. apply bind_ok in He as (x & Hx & He). apply bind_ok in He as (y & Hy & He).
  inversion He; subst. rewrite app_length.
  pose proof (H a x (or_introl eq_refl) Hx).
  pose proof (IH (fun a' bs' Hin => H a' bs' (or_intror Hin)) y Hy). lia.
Qed.

Lemma vec_codec_ok {A} (e : enc A) d P :
  codec_ok e d P ->
  forall l bs rest, Forall P l -> enc_all e l = Ok bs -> dec_n d (length l) (bs ++ rest) = Ok (l, rest).
Proof.
  intros H l bs rest HP He. rewrite <- (map_id l) at 2.
  apply (enc_dec_all e d (fun a => a)); [|exact He].
  intros a bs' rest' Hin Hea. apply H; [|exact Hea]. rewrite Forall_forall in HP. now apply HP.
Qed.
