(* Proto engine: the write side of a pooled link (lib/flusher.go).  Every frame a connection sends goes through
   flusher.Write: the bytes are copied into a bufio.Writer and a timer (latency 300 ns, then the keep-alive
   period) flushes the buffer to the socket; bufio flushes by itself when the buffer is full and hands writes
   larger than the buffer straight to the socket AFTER flushing what it holds.  All of it under one mutex.

       func (f *flusher) Write(b []byte) (n int, err error) {
           f.Lock(); defer f.Unlock()
           ... f.writer.Write(b) ...
           if f.pending { return len(b), nil }
           f.pending = true
           f.timer.Reset(latency)
           return len(b), nil }
       timer:  f.Lock(); f.writer.Flush(); f.pending = false; f.Unlock()      (plus keep-alive bytes when idle)

   The network-FIFO argument (C13) and the reassembly argument (C12) assume that the bytes of one link reach the
   socket in the order of the Write calls.  Model: the buffer content, what reached the socket, the pending flag;
   the theorem is that order for every sequence of writes and timer firings, and that buffered bytes always have
   an armed timer (nothing is stranded).  [cap] is the buffer size; how bufio splits a write is abstracted to
   "some prefix of buffer ++ data goes out, the rest stays, less than cap" by an arbitrary split function. *)
From Ergo Require Import Common.Base.

Record fstate := mk_f { f_buf : list Z; f_out : list Z; f_pending : bool }.

Inductive fop :=
| FWrite (p : list Z) (keep : nat)   (* Write(p); bufio keeps the last [keep] bytes of buffer ++ p (keep < cap when it flushed) *)
| FTick.                             (* the timer function *)

Definition fstep (cap : nat) (s : fstate) (o : fop) : fstate :=
  match o with
  | FWrite p keep =>
      let all := f_buf s ++ p in
      if Nat.leb (length all) cap then mk_f all (f_out s) true                        (* fits: copied, timer armed *)
      else let k := Nat.min keep cap in
           let n := length all - k in
           mk_f (skipn n all) (f_out s ++ firstn n all) true                            (* bufio flushed a prefix *)
  | FTick => mk_f [] (f_out s ++ f_buf s) false
  end.

Definition frun (cap : nat) (ops : list fop) : fstate := fold_left (fstep cap) ops (mk_f [] [] false).

Definition written (ops : list fop) : list Z :=
  concat (map (fun o => match o with FWrite p _ => p | FTick => [] end) ops).
