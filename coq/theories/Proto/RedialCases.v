(* Proto engine - checkers for the observations of `go/harness/cmd/proto redial`: the dialing side of
   a pool link fed with real frames through handshake tails, sockets that drop, and re-dials.
     corr_*    : the model of serve()/Join's re-dial loop applied to the REAL bytes, split as the
                 harness split them, gives what the implementation did
     spec_*    : the properties evaluated on what the implementation did (C12: each frame that reached
                 the link whole is delivered exactly once, nothing else; C13: per pair in sending order)
     premise_* : the case has a re-dial and a non-empty tail *)
From Coq Require Import Uint63.
From Ergo Require Import Common.Base Proto.Model Proto.Cases Proto.Redial.
Local Open Scope Z_scope.

(* one epoch as observed: offset of its stream in the captured stream (frames written back to back by
   the sender), bytes handed over as tail, sizes of the successful socket writes (all of them were read
   by the receiver: net.Pipe), messages sent by the receiving node during the epoch / arrived at its peer *)
Record repoch := mk_repoch { re_off : Z; re_tail : Z; re_chunks : list Z; re_back_sent : Z; re_back_got : Z }.

Record rcase := mk_rcase {
  rc_frames : list bytes;     (* what the sending connection wrote, frame by frame *)
  rc_msgs : list Z;           (* pair of each frame *)
  rc_keeps : list bool;       (* KeepNetworkOrder of each pair *)
  rc_epochs : list repoch;    (* the epochs that took place *)
  rc_dials : Z;               (* calls of the dial function *)
  rc_left : bool;             (* the Join goroutine ended (link left the pool) *)
  rc_in : Z;                  (* connection counter MessagesIn = frames cut by serve() *)
  rc_delivered : list Z       (* frame index of every Route* call at the receiver, in order; -1 = unknown value *)
}.

Definition zsum (l : list Z) : Z := fold_right Z.add 0 l.

Definition epoch_of (stream : bytes) (r : repoch) : epoch :=
  let s := skipn (Z.to_nat (re_off r)) stream in
  let sock := firstn (Z.to_nat (zsum (re_chunks r))) (skipn (Z.to_nat (re_tail r)) s) in
  mk_epoch (firstn (Z.to_nat (re_tail r)) s) (split_sizes sock (re_chunks r)).

Definition model_epochs (c : rcase) : list (list bytes) :=
  join_loop 0 false (map (epoch_of (concat (rc_frames c))) (rc_epochs c)).

Fixpoint frame_index (frames : list bytes) (f : bytes) (i : Z) : Z :=
  match frames with
  | [] => -1
  | g :: tl => if bytes_eqb f g then i else frame_index tl f (i + 1)
  end.

Definition model_indices (c : rcase) : list Z :=
  map (fun f => frame_index (rc_frames c) f 0) (concat (model_epochs c)).

Definition count (i : Z) (l : list Z) : Z := Z.of_nat (length (filter (Z.eqb i) l)).
Definition pair_of (c : rcase) (i : Z) : Z := znth i (rc_msgs c) (-1).
Definition nframes (c : rcase) : Z := Z.of_nat (length (rc_frames c)).
Definition npairs (c : rcase) : Z := Z.of_nat (length (rc_keeps c)).
Definition keep_of (c : rcase) (k : Z) : bool := znth k (rc_keeps c) false.

(* the implementation delivered what the model's loop cuts: same frames the same number of times, per
   pair with order keeping in the same order (one receive queue, one worker), same count of frames *)
Definition corr_rd_delivery (c : rcase) : bool :=
  let m := model_indices c in
  forallb (fun i => count i (rc_delivered c) =? count i m) ((-1) :: zseq (nframes c)) &&
  forallb (fun k => negb (keep_of c k) ||
                    zlist_eqb (filter (fun i => pair_of c i =? k) (rc_delivered c)) (filter (fun i => pair_of c i =? k) m))
          (zseq (npairs c)) &&
  (rc_in c =? Z.of_nat (length m)).

(* the loop went through exactly the epochs the model serves, dialled as often as the model says
   (the harness answers one dial per further epoch and lets both addresses of the pool fail after the
   last one), and ended *)
Definition harness_dsns : Z := 2.
Definition corr_rd_loop (c : rcase) : bool :=
  let me := model_epochs c in
  let n := Z.of_nat (length (rc_epochs c)) in
  (Z.of_nat (length me) =? n) &&
  match rev me with
  | [] => rc_dials c =? 0
  | last :: _ => rc_dials c =? (n - 1) + (if may_redial (1 <? n) last then harness_dsns else 0)
  end &&
  rc_left c.

(* ---- the properties on the observation ---- *)
Fixpoint offsets_of (frames : list bytes) (o : Z) : list Z :=
  match frames with
  | [] => [o]
  | f :: tl => o :: offsets_of tl (o + blen f)
  end.

(* frame i reached the receiver whole within one epoch: tail + bytes it read before the drop *)
Definition reached (c : rcase) (i : Z) : bool :=
  let offs := offsets_of (rc_frames c) 0 in
  let a := znth i offs 0 in
  let b := znth (i + 1) offs 0 in
  existsb (fun r => (re_off r <=? a) && (b <=? re_off r + re_tail r + zsum (re_chunks r))) (rc_epochs c).

(* C12: exactly once what reached the link whole, nothing else, nothing unknown; and the messages of
   the receiving node to its peer over the (re-dialed) link all arrive *)
Definition spec_rd_once (c : rcase) : bool :=
  forallb (fun i => count i (rc_delivered c) =? (if reached c i then 1 else 0)) (zseq (nframes c)) &&
  (count (-1) (rc_delivered c) =? 0) &&
  forallb (fun d => (-1 <=? d) && (d <? nframes c)) (rc_delivered c) &&
  forallb (fun r => re_back_got r =? re_back_sent r) (rc_epochs c).

Fixpoint increasing (l : list Z) : bool :=
  match l with
  | x :: ((y :: _) as tl) => (x <? y) && increasing tl
  | _ => true
  end.

(* C13: per pair with order keeping, the delivered frames are in sending order, none twice *)
Definition spec_rd_fifo (c : rcase) : bool :=
  forallb (fun k => negb (keep_of c k) || increasing (filter (fun i => pair_of c i =? k) (rc_delivered c)))
          (zseq (npairs c)).

Definition premise_rd (c : rcase) : bool :=
  (1 <? Z.of_nat (length (rc_epochs c))) && existsb (fun r => 0 <? re_tail r) (rc_epochs c) &&
  existsb (fun b => b) (rc_keeps c).
