(* Proto engine — proofs about the model of net/proto/connection.go (C12, C13). *)
From Ergo Require Import Common.Base Proto.Model.
Local Open Scope Z_scope.

(* ==========================================================================================
   bytes, big-endian integers
   ========================================================================================== *)
Lemma blen_nil : blen [] = 0.
Proof. reflexivity. Qed.
Lemma blen_cons x (b : bytes) : blen (x :: b) = 1 + blen b.
Proof. unfold blen. cbn [length]. lia. Qed.
Lemma blen_app (a b : bytes) : blen (a ++ b) = blen a + blen b.
Proof. unfold blen. rewrite app_length. lia. Qed.
Lemma blen_nonneg (b : bytes) : 0 <= blen b.
Proof. unfold blen. lia. Qed.
Lemma be_length n x : length (be n x) = n.
Proof. induction n as [|n IH]; cbn [be length]; congruence. Qed.
Lemma blen_be n x : blen (be n x) = Z.of_nat n.
Proof. unfold blen. now rewrite be_length. Qed.
Lemma blen_nonempty (b : bytes) : b <> [] -> 1 <= blen b.
Proof. destruct b; [congruence|]. intros _. rewrite blen_cons. pose proof (blen_nonneg b). lia. Qed.

#[export] Hint Rewrite blen_nil blen_cons blen_app blen_be : blen.

Lemma de_be n : forall x acc, 0 <= x -> de (be n x) acc = acc * 256 ^ Z.of_nat n + x mod 256 ^ Z.of_nat n.
Proof.
  induction n as [|n IH]; intros x acc Hx.
  - cbn [be de]. change (256 ^ Z.of_nat 0) with 1. rewrite Z.mod_1_r. lia.
  - cbn [be de]. rewrite IH by assumption.
    rewrite Nat2Z.inj_succ, Z.pow_succ_r by lia.
    assert (Hp : 0 < 256 ^ Z.of_nat n) by (apply Z.pow_pos_nonneg; lia).
    rewrite (Z.mul_comm 256 (256 ^ Z.of_nat n)).
    rewrite (Z.rem_mul_r x (256 ^ Z.of_nat n) 256) by lia.
    lia.
Qed.

Lemma de_be_small n x : 0 <= x < 256 ^ Z.of_nat n -> de (be n x) 0 = x.
Proof. intros H. rewrite de_be by lia. rewrite Z.mod_small by lia. lia. Qed.

Lemma take_app n (a r : bytes) : blen a = n -> take n (a ++ r) = Some (a, r).
Proof.
  intros H. unfold take. rewrite blen_app.
  pose proof (blen_nonneg a). pose proof (blen_nonneg r).
  destruct (n <? 0) eqn:E1; [lia|]. destruct (blen a + blen r <? n) eqn:E2; [lia|].
  cbn [orb]. unfold blen in H. replace (Z.to_nat n) with (length a) by lia.
  rewrite firstn_app, skipn_app, firstn_all, skipn_all, Nat.sub_diag. cbn [firstn skipn]. now rewrite app_nil_r.
Qed.

Lemma take_be n x r : take (Z.of_nat n) (be n x ++ r) = Some (be n x, r).
Proof. apply take_app. apply blen_be. Qed.

(* ==========================================================================================
   C12 layout: parse (build m) = Some m
   ========================================================================================== *)
Definition field_ok (f : field) (m : msg) : Prop :=
  match f with
  | FFrom => u64 (m_from m)
  | FPrioImp => 0 <= m_prio m < 4
  | FPrioRaw => 0 <= m_prio m < 256
  | FPrioConst _ => True
  | FR0 => u64 (m_r0 m) | FR1 => u64 (m_r1 m) | FR2 => u64 (m_r2 m)
  | FTo => u64 (m_to m)
  | FA0 => u64 (m_a0 m) | FA1 => u64 (m_a1 m) | FA2 => u64 (m_a2 m)
  | FCache => 0 <= m_cache m < 2 ^ 16
  | FName => blen (m_name m) <= 255
  | FCode => True
  end.

(* the receiver's view of one field: copy it from m into the message under construction *)
Definition copy_field (f : field) (m m0 : msg) : msg :=
  match f with
  | FFrom => set_from (m_from m) m0
  | FPrioImp => set_prio (m_prio m) (m_imp m) m0
  | FPrioRaw => set_prio (m_prio m) (m_imp m0) m0
  | FPrioConst _ => m0
  | FR0 => set_r0 (m_r0 m) m0 | FR1 => set_r1 (m_r1 m) m0 | FR2 => set_r2 (m_r2 m) m0
  | FTo => set_to (m_to m) m0
  | FA0 => set_a0 (m_a0 m) m0 | FA1 => set_a1 (m_a1 m) m0 | FA2 => set_a2 (m_a2 m) m0
  | FCache => set_cache (m_cache m) m0
  | FName => set_name (m_name m) m0
  | FCode => set_code (m_code m) m0
  end.

Lemma u64_pow x : u64 x -> 0 <= x < 256 ^ Z.of_nat 8.
Proof. unfold u64. change (256 ^ Z.of_nat 8) with (2 ^ 64). trivial. Qed.

Lemma decode_u64 x r : u64 x -> take 8 (be 8 x ++ r) = Some (be 8 x, r) /\ de (be 8 x) 0 = x.
Proof.
  intros H. split.
  - apply (take_be 8).
  - apply de_be_small. now apply u64_pow.
Qed.

Lemma prio_imp_roundtrip p (i : bool) :
  0 <= p < 4 ->
  let x := if i then Z.lor (p mod 256) 128 else p mod 256 in
  Z.land x 3 = p /\ (0 <? Z.land x 128) = i.
Proof.
  intros H. assert (Hc : p = 0 \/ p = 1 \/ p = 2 \/ p = 3) by lia.
  destruct Hc as [-> | [-> | [-> | ->]]]; destruct i; split; reflexivity.
Qed.

Lemma decode_encode_field f m m0 rest :
  field_ok f m ->
  decode_field f (encode_field f m ++ rest) m0 = Some (copy_field f m m0, rest).
Proof.
  intros Hok.
  destruct f; cbn [field_ok] in Hok; cbn [decode_field encode_field copy_field];
    try (destruct (decode_u64 _ rest Hok) as [Ht Hd]; rewrite Ht, Hd; reflexivity).
  - (* FPrioImp *)
    cbn [app]. destruct (prio_imp_roundtrip (m_prio m) (m_imp m) Hok) as [H1 H2].
    cbv zeta in H1, H2. rewrite H1, H2. reflexivity.
  - (* FPrioRaw *)
    cbn [app]. rewrite Z.mod_small by lia. reflexivity.
  - reflexivity.
  - (* FCache *)
    rewrite (take_be 2). rewrite de_be_small; [reflexivity|]. change (256 ^ Z.of_nat 2) with (2 ^ 16). exact Hok.
  - (* FName *)
    cbn [app]. pose proof (blen_nonneg (m_name m)). rewrite Z.mod_small by lia.
    rewrite take_app by reflexivity. reflexivity.
  - reflexivity.
Qed.

Lemma decode_encode_fields fs : forall m m0 rest,
  Forall (fun f => field_ok f m) fs ->
  decode_fields fs (encode_fields fs m ++ rest) m0 = Some (fold_left (fun acc f => copy_field f m acc) fs m0, rest).
Proof.
  induction fs as [|f fs IH]; intros m m0 rest Hall.
  - reflexivity.
  - inversion Hall as [|? ? Hf Hfs]; subst.
    unfold encode_fields. cbn [map concat decode_fields fold_left]. rewrite <- app_assoc.
    rewrite decode_encode_field by assumption. apply IH. assumption.
Qed.

Lemma kind_of_type_byte k : kind_of_type (type_byte k) = Some k.
Proof. destruct k; reflexivity. Qed.

Lemma wf_fields m : wf m -> Forall (fun f => field_ok f m) (layout (m_kind m)).
Proof.
  unfold wf. intros (Ho & Hfrom & Hprio & H0 & H1 & H2 & Hto & Ha0 & Ha1 & Ha2 & Hc & Hn & Hcode & Hshort & Hlen).
  clear Hlen. unfold u64 in *.
  destruct (m_kind m); cbn [uses layout existsb orb] in *; repeat constructor; cbn [field_ok]; unfold u64;
    try tauto; try lia.
Qed.

Lemma blen_encode_fields_min m :
  wf m -> min_len (m_kind m) <= 8 + blen (body m).
Proof.
  unfold wf. intros (Ho & Hfrom & Hprio & H0 & H1 & H2 & Hto & Ha0 & Ha1 & Ha2 & Hc & Hn & Hcode & Hshort & Hlen).
  unfold body, encode_fields.
  pose proof (blen_nonneg (m_name m)) as Hnn. pose proof (blen_nonneg (m_payload m)) as Hpn.
  destruct (m_kind m); cbn [layout map concat encode_field min_len uses existsb orb] in *;
    autorewrite with blen; cbn [Z.of_nat Pos.of_succ_nat Pos.succ];
    try (destruct Hcode as [_ Hp]; apply blen_nonempty in Hp; lia).
  (* response error *)
  destruct Hcode as [[_ Hp] | [_ Hp]]; [apply blen_nonempty in Hp | rewrite Hp; autorewrite with blen]; lia.
Qed.

Lemma msg_eta m :
  m = mk_msg (m_kind m) (m_order m) (m_from m) (m_prio m) (m_imp m) (m_r0 m) (m_r1 m) (m_r2 m) (m_to m)
             (m_a0 m) (m_a1 m) (m_a2 m) (m_cache m) (m_name m) (m_code m) (m_payload m).
Proof. destruct m; reflexivity. Qed.

(* what the receiver reconstructs equals what the sender had *)
Lemma rebuild_fields m :
  wf m ->
  set_payload (m_payload m) (fold_left (fun acc f => copy_field f m acc) (layout (m_kind m)) (blank (m_kind m) (m_order m))) = m.
Proof.
  unfold wf. intros (Ho & Hfrom & Hprio & H0 & H1 & H2 & Hto & Ha0 & Ha1 & Ha2 & Hc & Hn & Hcode & Hshort & Hlen).
  destruct m as [k o from prio imp r0 r1 r2 to a0 a1 a2 cache name code payload].
  cbn [m_kind m_order m_from m_prio m_imp m_r0 m_r1 m_r2 m_to m_a0 m_a1 m_a2 m_cache m_name m_code m_payload] in *.
  destruct k; cbn [uses layout existsb orb] in *;
    cbn; unfold set_payload; cbn;
    repeat match goal with
           | H : _ /\ _ |- _ => destruct H
           end; subst; try reflexivity.
Qed.

Theorem parse_build m : wf m -> parse (build m) = Some m.
Proof.
  intros Hwf.
  pose proof (wf_fields m Hwf) as Hfields.
  pose proof (blen_encode_fields_min m Hwf) as Hmin.
  pose proof (rebuild_fields m Hwf) as Hre.
  unfold build, header. cbn [be app].
  unfold parse. rewrite kind_of_type_byte.
  match goal with |- context [blen ?b <? _] => replace (blen b) with (8 + blen (body m)) end.
  2:{ repeat rewrite blen_cons. lia. }
  destruct (8 + blen (body m) <? min_len (m_kind m)) eqn:E; [lia|].
  unfold body at 1. rewrite decode_encode_fields by assumption.
  destruct (m_kind m) eqn:Ek; try (rewrite Hre; reflexivity).
  (* response error: the code decides whether a payload follows *)
  unfold wf in Hwf. rewrite Ek in Hwf. cbn [uses layout existsb orb] in Hwf.
  destruct Hwf as (_ & _ & _ & _ & _ & _ & _ & _ & _ & _ & _ & _ & Hcode & _ & _).
  assert (Hc : m_code (fold_left (fun acc f => copy_field f m acc) (layout KResponseError) (blank KResponseError (m_order m))) = m_code m) by reflexivity.
  rewrite Hc.
  destruct Hcode as [[Hc255 _] | [Hc03 Hp]].
  - rewrite Hc255. cbn [Z.eqb Pos.eqb]. rewrite Hre. reflexivity.
  - destruct (m_code m =? 255) eqn:E255; [lia|].
    destruct ((0 <=? m_code m) && (m_code m <=? 3)) eqn:E03; [|lia].
    f_equal. etransitivity; [|exact Hre]. rewrite Hp. reflexivity.
Qed.

(* ==========================================================================================
   C12 reassembly: read()/serve() cut the same frames out of every segmentation of a stream
   ========================================================================================== *)
Definition drain_all (maxsize : Z) (b : bytes) : list bytes * lstate := drain (S (length b)) maxsize b.

Lemma frame_len_app (p c : bytes) : 6 <= blen p -> frame_len (p ++ c) = frame_len p.
Proof.
  unfold frame_len, blen. intros H.
  rewrite skipn_app. replace (2 - length p)%nat with 0%nat by lia. change (skipn 0 c) with c.
  rewrite firstn_app. rewrite skipn_length. replace (4 - (length p - 2))%nat with 0%nat by lia.
  change (firstn 0 c) with (@nil Z). now rewrite app_nil_r.
Qed.

Lemma read_step_frame_inv maxsize p f tail :
  read_step maxsize p = Frame f tail -> p = f ++ tail /\ 8 <= blen f /\ blen f = frame_len p /\ blen f <= blen p.
Proof.
  unfold read_step. intros H.
  destruct (blen p <? 8) eqn:E1; [discriminate|].
  destruct (frame_len p <? 8) eqn:E3; [discriminate|].
  destruct ((0 <? maxsize) && (maxsize <? frame_len p)) eqn:E2; [discriminate|].
  destruct (blen p <? frame_len p) eqn:E4; [discriminate|].
  inversion H; subst. split; [now rewrite firstn_skipn|].
  unfold blen in *. rewrite firstn_length. lia.
Qed.

Lemma read_step_app_frame maxsize p c f tail :
  read_step maxsize p = Frame f tail -> read_step maxsize (p ++ c) = Frame f (tail ++ c).
Proof.
  intros H. pose proof (read_step_frame_inv _ _ _ _ H) as (Hp & H8 & Hl & Hle).
  unfold read_step in *.
  destruct (blen p <? 8) eqn:E1; [discriminate|].
  rewrite frame_len_app by lia.
  destruct (frame_len p <? 8) eqn:E3; [discriminate|].
  destruct ((0 <? maxsize) && (maxsize <? frame_len p)) eqn:E2; [discriminate|].
  destruct (blen p <? frame_len p) eqn:E4; [discriminate|].
  rewrite blen_app. pose proof (blen_nonneg c).
  destruct (blen p + blen c <? 8) eqn:E5; [lia|].
  destruct (blen p + blen c <? frame_len p) eqn:E6; [lia|].
  inversion H; subst f tail. f_equal.
  - rewrite firstn_app. unfold blen in *. replace (Z.to_nat (frame_len p) - length p)%nat with 0%nat by lia.
    cbn [firstn]. now rewrite app_nil_r.
  - rewrite skipn_app. unfold blen in *. replace (Z.to_nat (frame_len p) - length p)%nat with 0%nat by lia.
    reflexivity.
Qed.

Lemma read_step_app_closed maxsize p c :
  read_step maxsize p = TooLong \/ read_step maxsize p = Bad -> read_step maxsize (p ++ c) = read_step maxsize p.
Proof.
  unfold read_step. intros H.
  destruct (blen p <? 8) eqn:E1; [destruct H; discriminate|].
  rewrite frame_len_app by lia. rewrite blen_app. pose proof (blen_nonneg c).
  destruct (blen p + blen c <? 8) eqn:E5; [lia|].
  destruct (frame_len p <? 8) eqn:E3; [reflexivity|].
  destruct ((0 <? maxsize) && (maxsize <? frame_len p)) eqn:E2; [reflexivity|].
  destruct (blen p <? frame_len p) eqn:E4; destruct H; discriminate.
Qed.

Lemma drain_fuel maxsize : forall n m b, (length b < n)%nat -> (length b < m)%nat -> drain n maxsize b = drain m maxsize b.
Proof.
  induction n as [|n IH]; intros m b Hn Hm; [lia|].
  destruct m as [|m]; [lia|]. cbn [drain].
  destruct (read_step maxsize b) as [|f tail| |] eqn:E; try reflexivity.
  destruct (header_ok f); [|reflexivity].
  pose proof (read_step_frame_inv _ _ _ _ E) as (Hp & H8 & _).
  assert (Hlt : (length tail < length b)%nat).
  { rewrite Hp, app_length. unfold blen in H8. lia. }
  rewrite (IH m tail) by lia. reflexivity.
Qed.

Lemma drain_all_app maxsize : forall n b c, (length b < n)%nat ->
  drain_all maxsize (b ++ c) =
  match drain n maxsize b with
  | (fs, Open r) => let (fs', st) := drain_all maxsize (r ++ c) in (fs ++ fs', st)
  | (fs, Closed) => (fs, Closed)
  end.
Proof.
  induction n as [|n IH]; intros b c Hn; [lia|].
  cbn [drain]. destruct (read_step maxsize b) as [|f tail| |] eqn:E.
  - (* NeedMore: nothing cut yet *)
    destruct (drain_all maxsize (b ++ c)) as [fs' st]. reflexivity.
  - pose proof (read_step_frame_inv _ _ _ _ E) as (Hp & H8 & _).
    assert (Hlt : (length tail < length b)%nat).
    { rewrite Hp, app_length. unfold blen in H8. lia. }
    unfold drain_all at 1. cbn [drain]. rewrite (read_step_app_frame _ _ c _ _ E).
    destruct (header_ok f); [|reflexivity].
    assert (Hfu : drain (length (b ++ c)) maxsize (tail ++ c) = drain_all maxsize (tail ++ c)).
    { unfold drain_all. apply drain_fuel; rewrite !app_length in *; lia. }
    rewrite Hfu. rewrite (IH tail c) by lia.
    destruct (drain n maxsize tail) as [fs [r|]].
    + destruct (drain_all maxsize (r ++ c)) as [fs' st]. reflexivity.
    + reflexivity.
  - unfold drain_all. cbn [drain]. rewrite read_step_app_closed by (left; exact E). rewrite E. reflexivity.
  - unfold drain_all. cbn [drain]. rewrite read_step_app_closed by (right; exact E). rewrite E. reflexivity.
Qed.

(* what is left in the buffer holds no complete frame *)
Lemma drain_residual maxsize : forall n b fs r, (length b < n)%nat ->
  drain n maxsize b = (fs, Open r) -> drain_all maxsize r = ([], Open r).
Proof.
  induction n as [|n IH]; intros b fs r Hn H; [lia|].
  cbn [drain] in H. destruct (read_step maxsize b) as [|f tail| |] eqn:E; try discriminate.
  - inversion H; subst. unfold drain_all. cbn [drain]. now rewrite E.
  - destruct (header_ok f); [|discriminate].
    pose proof (read_step_frame_inv _ _ _ _ E) as (Hp & H8 & _).
    assert (Hlt : (length tail < length b)%nat).
    { rewrite Hp, app_length. unfold blen in H8. lia. }
    destruct (drain n maxsize tail) as [fs1 st] eqn:Ed. inversion H; subst.
    eapply (IH tail); [lia | exact Ed].
Qed.

Lemma cut_all_closed maxsize chunks : cut_all maxsize Closed chunks = ([], Closed).
Proof. induction chunks as [|c tl IH]; [reflexivity|]. cbn [cut_all cut]. now rewrite IH. Qed.

(* feeding the chunks one by one = looking at the whole stream at once *)
Lemma cut_all_is_drain maxsize : forall chunks buf,
  drain_all maxsize buf = ([], Open buf) ->
  cut_all maxsize (Open buf) chunks = drain_all maxsize (buf ++ concat chunks).
Proof.
  induction chunks as [|c tl IH]; intros buf Hbuf.
  - cbn [cut_all concat]. now rewrite app_nil_r.
  - cbn [cut_all cut concat]. fold (drain_all maxsize (buf ++ c)).
    rewrite app_assoc.
    rewrite (drain_all_app maxsize (S (length (buf ++ c))) (buf ++ c) (concat tl)) by lia.
    fold (drain_all maxsize (buf ++ c)).
    destruct (drain_all maxsize (buf ++ c)) as [fs [r|]] eqn:Ed.
    + rewrite IH; [reflexivity|].
      eapply drain_residual; [|exact Ed]. lia.
    + now rewrite cut_all_closed, app_nil_r.
Qed.

Lemma drain_all_nil maxsize : drain_all maxsize [] = ([], Open []).
Proof. reflexivity. Qed.

Theorem cut_all_stream maxsize chunks :
  cut_all maxsize (Open []) chunks = drain_all maxsize (concat chunks).
Proof. apply (cut_all_is_drain maxsize chunks []). apply drain_all_nil. Qed.

Lemma read_step_good maxsize f rest :
  good_frame maxsize f -> read_step maxsize (f ++ rest) = Frame f rest.
Proof.
  intros (Hh & H8 & Hl & Hmax). unfold read_step.
  rewrite frame_len_app by lia. rewrite blen_app. pose proof (blen_nonneg rest).
  destruct (blen f + blen rest <? 8) eqn:E1; [lia|].
  rewrite Hl.
  destruct (blen f <? 8) eqn:E3; [lia|].
  destruct ((0 <? maxsize) && (maxsize <? blen f)) eqn:E2; [lia|].
  destruct (blen f + blen rest <? blen f) eqn:E4; [lia|].
  unfold blen. rewrite Nat2Z.id. rewrite firstn_app, skipn_app, Nat.sub_diag, firstn_all, skipn_all.
  cbn [firstn skipn app]. now rewrite app_nil_r.
Qed.

Lemma drain_all_good maxsize : forall frames,
  Forall (good_frame maxsize) frames -> drain_all maxsize (concat frames) = (frames, Open []).
Proof.
  induction frames as [|f fs IH]; intros Hall.
  - reflexivity.
  - inversion Hall as [|? ? Hf Hfs]; subst. cbn [concat]. unfold drain_all. cbn [drain].
    rewrite (read_step_good _ _ _ Hf). destruct Hf as (Hh & H8 & _). rewrite Hh.
    assert (Hfu : drain (length (f ++ concat fs)) maxsize (concat fs) = drain_all maxsize (concat fs)).
    { unfold drain_all. apply drain_fuel; rewrite ?app_length; unfold blen in H8; lia. }
    rewrite Hfu, (IH Hfs). reflexivity.
Qed.

Theorem reassembly maxsize frames chunks :
  Forall (good_frame maxsize) frames ->
  concat chunks = concat frames ->
  cut_all maxsize (Open []) chunks = (frames, Open []).
Proof. intros Hall Heq. rewrite cut_all_stream, Heq. now apply drain_all_good. Qed.

(* for ANY byte stream, well formed or not, the outcome does not depend on the segmentation *)
Theorem segmentation_irrelevant maxsize c1 c2 :
  concat c1 = concat c2 -> cut_all maxsize (Open []) c1 = cut_all maxsize (Open []) c2.
Proof. intros H. now rewrite !cut_all_stream, H. Qed.

(* ==========================================================================================
   frames the sender builds are accepted as they are by read()/serve()
   ========================================================================================== *)
Lemma be4_explicit x : exists a b c d, be 4 x = [a; b; c; d].
Proof. cbn [be]. eauto. Qed.

Lemma header_shape len o ty rest :
  exists a b c d, header len o ty ++ rest = proto_magic :: proto_version :: a :: b :: c :: d :: o :: ty :: rest
                  /\ be 4 (len mod 2 ^ 32) = [a; b; c; d].
Proof.
  unfold header. destruct (be4_explicit (len mod 2 ^ 32)) as (a & b & c & d & E).
  exists a, b, c, d. rewrite E. split; reflexivity.
Qed.

Lemma frame_len_header len o ty rest : frame_len (header len o ty ++ rest) = len mod 2 ^ 32.
Proof.
  destruct (header_shape len o ty rest) as (a & b & c & d & E & Eb). rewrite E.
  unfold frame_len. cbn [skipn firstn]. rewrite <- Eb.
  apply de_be_small. change (256 ^ Z.of_nat 4) with (2 ^ 32). apply Z.mod_pos_bound. lia.
Qed.

Lemma blen_header len o ty : blen (header len o ty) = 8.
Proof. destruct (header_shape len o ty []) as (a & b & c & d & E & _). rewrite app_nil_r in E. rewrite E. reflexivity. Qed.

Lemma header_ok_header len o ty rest : header_ok (header len o ty ++ rest) = true.
Proof. destruct (header_shape len o ty rest) as (a & b & c & d & E & _). rewrite E. reflexivity. Qed.

Lemma nth6_header len o ty rest : nth 6 (header len o ty ++ rest) 0 = o.
Proof. destruct (header_shape len o ty rest) as (a & b & c & d & E & _). rewrite E. reflexivity. Qed.

Lemma nth7_header len o ty rest : nth 7 (header len o ty ++ rest) 0 = ty.
Proof. destruct (header_shape len o ty rest) as (a & b & c & d & E & _). rewrite E. reflexivity. Qed.

Lemma blen_build m : blen (build m) = 8 + blen (body m).
Proof. unfold build. now rewrite blen_app, blen_header. Qed.

Lemma good_framed maxsize len o ty rest :
  len = 8 + blen rest -> len < 2 ^ 32 -> (maxsize <= 0 \/ len <= maxsize) ->
  good_frame maxsize (header len o ty ++ rest).
Proof.
  intros Hl Hlt Hmax. pose proof (blen_nonneg rest).
  unfold good_frame. rewrite header_ok_header, frame_len_header, blen_app, blen_header.
  rewrite Z.mod_small by lia. repeat split; lia.
Qed.

Lemma wf_len m : wf m -> 8 + blen (body m) < 2 ^ 32.
Proof. unfold wf. tauto. Qed.

Lemma good_build maxsize m :
  wf m -> (maxsize <= 0 \/ blen (build m) <= maxsize) -> good_frame maxsize (build m).
Proof.
  intros Hwf Hmax. rewrite blen_build in Hmax. unfold build.
  apply good_framed; [reflexivity | now apply wf_len | exact Hmax].
Qed.

(* ==========================================================================================
   C12 compression envelope, size limit, end-to-end delivery
   ========================================================================================== *)
Section CodecProofs.
  Variable compress : Z -> bytes -> bytes.
  Variable decompress : Z -> bytes -> option bytes.
  Hypothesis codec_roundtrip : forall t x, valid_ctype t = true -> decompress t (compress t x) = Some x.

  Lemma wrap_shape t f :
    exists a b c d, wrap compress t f =
      proto_magic :: proto_version :: a :: b :: c :: d :: nth 6 f 0 :: type_z :: t :: be 4 (blen f mod 2 ^ 32) ++ compress t f.
  Proof.
    unfold wrap.
    destruct (header_shape (13 + blen (compress t f)) (nth 6 f 0) type_z ([t] ++ be 4 (blen f mod 2 ^ 32) ++ compress t f))
      as (a & b & c & d & E & _).
    exists a, b, c, d. rewrite E. reflexivity.
  Qed.

  Lemma unwrap_wrap t f : valid_ctype t = true -> blen f < 2 ^ 32 -> unwrap decompress (wrap compress t f) = Some f.
  Proof.
    intros Hv Hlen. destruct (wrap_shape t f) as (a & b & c & d & E). rewrite E. clear E.
    unfold unwrap. pose proof (blen_nonneg f). pose proof (blen_nonneg (compress t f)).
    set (n4 := be 4 (blen f mod 2 ^ 32)).
    assert (Hn4 : length n4 = 4%nat) by apply be_length.
    assert (Hb : blen n4 = 4) by (unfold n4; now rewrite blen_be).
    repeat rewrite blen_cons. rewrite blen_app, Hb.
    destruct (1 + (1 + (1 + (1 + (1 + (1 + (1 + (1 + (1 + (4 + blen (compress t f)))))))))) <? 10) eqn:E1; [lia|].
    cbn [nth]. rewrite Hv.
    destruct (1 + (1 + (1 + (1 + (1 + (1 + (1 + (1 + (1 + (4 + blen (compress t f)))))))))) <? 13) eqn:E2; [lia|].
    match goal with |- context [skipn 13 ?L] => change (skipn 13 L) with (skipn 4 (n4 ++ compress t f)) end.
    match goal with |- context [skipn 9 ?L] => change (skipn 9 L) with (n4 ++ compress t f) end.
    replace (skipn 4 (n4 ++ compress t f)) with (compress t f).
    2:{ rewrite skipn_app, Hn4, Nat.sub_diag. rewrite skipn_all2 by lia. reflexivity. }
    replace (firstn 4 (n4 ++ compress t f)) with n4.
    2:{ rewrite firstn_app, Hn4, Nat.sub_diag. rewrite firstn_all2 by lia. change (firstn 0 (compress t f)) with (@nil Z). now rewrite app_nil_r. }
    rewrite codec_roundtrip by assumption.
    unfold n4. rewrite de_be_small.
    2:{ change (256 ^ Z.of_nat 4) with (2 ^ 32). apply Z.mod_pos_bound. lia. }
    rewrite Z.mod_small by lia. now rewrite Z.eqb_refl.
  Qed.

  (* zbuf.B[6] = buf.B[6]: the order byte, hence the receive queue, is the one of the plain frame *)
  Lemma wrap_keeps_order t f : nth 6 (wrap compress t f) 0 = nth 6 f 0.
  Proof. destruct (wrap_shape t f) as (a & b & c & d & E). rewrite E. reflexivity. Qed.

  Lemma wrap_type t f : nth 7 (wrap compress t f) 0 = type_z.
  Proof. destruct (wrap_shape t f) as (a & b & c & d & E). rewrite E. reflexivity. Qed.

  Lemma blen_wrap t f : blen (wrap compress t f) = 13 + blen (compress t f).
  Proof using compress.
    clear codec_roundtrip decompress. destruct (wrap_shape t f) as (a & b & c & d & E). rewrite E.
    repeat rewrite blen_cons. rewrite blen_app, blen_be. lia.
  Qed.

  Lemma valid_norm t : valid_ctype (norm_ctype t) = true.
  Proof.
    unfold norm_ctype, valid_ctype.
    destruct (t =? ctype_lzw) eqn:E1; destruct (t =? ctype_zlib) eqn:E2; cbn [orb]; try rewrite E1; try rewrite E2; reflexivity.
  Qed.

  Lemma type_not_z k : (type_byte k =? type_z) = false.
  Proof. destruct k; reflexivity. Qed.

  Lemma nth7_build m : nth 7 (build m) 0 = type_byte (m_kind m).
  Proof. unfold build. apply nth7_header. Qed.

  (* the threshold rule and what the receiver makes of either form *)
  Theorem recv_wire c m : wf m -> recv decompress 2 (wire compress c (build m)) = Some m.
  Proof.
    intros Hwf. unfold wire.
    destruct (c_enable c && (c_threshold c <? blen (build m))).
    - cbn [recv]. rewrite wrap_type, Z.eqb_refl.
      rewrite unwrap_wrap; [| apply valid_norm | rewrite blen_build; now apply wf_len].
      rewrite nth7_build, type_not_z. now apply parse_build.
    - cbn [recv]. rewrite nth7_build, type_not_z. now apply parse_build.
  Qed.

  Theorem wire_threshold c f :
    wire compress c f = if c_enable c && (c_threshold c <? blen f) then wrap compress (norm_ctype (c_type c)) f else f.
  Proof. reflexivity. Qed.

  Theorem wire_keeps_order c f : 8 <= blen f -> nth 6 (wire compress c f) 0 = nth 6 f 0.
  Proof. intros _. unfold wire. destruct (c_enable c && (c_threshold c <? blen f)); [apply wrap_keeps_order | reflexivity]. Qed.

  (* refused exactly when the frame (or, for the kinds that check before send(), the plain frame)
     is beyond the peer's limit *)
  Theorem too_large_iff peer_max k c f :
    send_frame compress peer_max k c f = None <->
    (precheck k = true /\ 0 < peer_max < blen f) \/ (0 < peer_max < blen (wire compress c f)).
  Proof using compress.
    clear codec_roundtrip decompress. unfold send_frame.
    destruct (precheck k); cbn [andb];
      destruct (0 <? peer_max) eqn:E0; cbn [andb];
      destruct (peer_max <? blen f) eqn:E1;
      destruct (peer_max <? blen (wire compress c f)) eqn:E2; split; intros H;
      try discriminate; try reflexivity; try lia; try (destruct H as [[? ?]|?]; try discriminate; lia).
  Qed.

  Theorem accepted_fits peer_max k c f w :
    send_frame compress peer_max k c f = Some w -> w = wire compress c f /\ (peer_max <= 0 \/ blen w <= peer_max).
  Proof using compress.
    clear codec_roundtrip decompress. unfold send_frame.
    destruct (precheck k && (0 <? peer_max) && (peer_max <? blen f)); [discriminate|].
    destruct ((0 <? peer_max) && (peer_max <? blen (wire compress c f))) eqn:E; [discriminate|].
    intros H. inversion H; subst. split; [reflexivity | lia].
  Qed.

  Theorem refused_emits_nothing peer_max k c f :
    send_frame compress peer_max k c f = None -> emitted (send_frame compress peer_max k c f) = [].
  Proof. intros ->. reflexivity. Qed.

  Lemma good_wire maxsize c m :
    wf m -> blen (compress (norm_ctype (c_type c)) (build m)) < 2 ^ 31 ->
    (maxsize <= 0 \/ blen (wire compress c (build m)) <= maxsize) ->
    good_frame maxsize (wire compress c (build m)).
  Proof using compress.
    clear codec_roundtrip decompress. intros Hwf Hz Hmax. unfold wire in *.
    destruct (c_enable c && (c_threshold c <? blen (build m))).
    - rewrite blen_wrap in Hmax. unfold wrap.
      pose proof (blen_nonneg (compress (norm_ctype (c_type c)) (build m))).
      apply good_framed; [| lia | lia].
      rewrite !blen_app, blen_be, blen_cons, blen_nil. lia.
    - now apply good_build.
  Qed.

  (* what the sender puts on one link for a list of messages: refused ones leave no byte *)
  Definition offered := list (msg * comp).
  Definition sent_bytes (peer_max : Z) (l : offered) : list bytes :=
    map (fun mc => emitted (send_frame compress peer_max (m_kind (fst mc)) (snd mc) (build (fst mc)))) l.
  Definition accepted_msgs (peer_max : Z) (l : offered) : list msg :=
    map fst (filter (fun mc => match send_frame compress peer_max (m_kind (fst mc)) (snd mc) (build (fst mc)) with
                               | Some _ => true | None => false end) l).

  (* exactly once, unchanged, in order, nothing else: for every segmentation of the link's stream
     the receiver decodes exactly the accepted messages *)
  Theorem exactly_once peer_max (l : offered) chunks :
    Forall (fun mc => wf (fst mc) /\ blen (compress (norm_ctype (c_type (snd mc))) (build (fst mc))) < 2 ^ 31) l ->
    concat chunks = concat (sent_bytes peer_max l) ->
    exists frames,
      cut_all peer_max (Open []) chunks = (frames, Open []) /\
      map (recv decompress 2) frames = map Some (accepted_msgs peer_max l).
  Proof.
    intros Hall Hc.
    exists (map (fun m_c => wire compress (snd m_c) (build (fst m_c)))
                (filter (fun mc => match send_frame compress peer_max (m_kind (fst mc)) (snd mc) (build (fst mc)) with
                                   | Some _ => true | None => false end) l)).
    split.
    - apply reassembly.
      + clear Hc. induction l as [|[m c] l IH]; [constructor|].
        inversion Hall as [|? ? [Hwf Hz] Hl]; subst. cbn [filter fst snd].
        destruct (send_frame compress peer_max (m_kind m) c (build m)) as [w|] eqn:E.
        * cbn [map fst snd]. constructor; [| now apply IH].
          apply accepted_fits in E as [-> Hfit]. now apply good_wire.
        * now apply IH.
      + rewrite Hc. clear Hc Hall. induction l as [|[m c] l IH]; [reflexivity|].
        unfold sent_bytes in *. cbn [map concat filter fst snd].
        destruct (send_frame compress peer_max (m_kind m) c (build m)) as [w|] eqn:E.
        * cbn [emitted map concat fst snd]. apply accepted_fits in E as [-> _]. now rewrite IH.
        * cbn [emitted app]. exact IH.
    - clear Hc. unfold accepted_msgs. rewrite !map_map.
      induction l as [|[m c] l IH]; [reflexivity|].
      inversion Hall as [|? ? [Hwf Hz] Hl]; subst. cbn [filter fst snd].
      destruct (send_frame compress peer_max (m_kind m) c (build m)); [|now apply IH].
      cbn [map fst snd]. rewrite recv_wire by assumption. f_equal. now apply IH.
  Qed.
End CodecProofs.

(* ==========================================================================================
   C13 selection of link and receive queue
   ========================================================================================== *)
Lemma order_of_id_range id : 1 <= order_of_id id <= 255.
Proof. unfold order_of_id. pose proof (Z.mod_pos_bound id 255). lia. Qed.

(* a byte derived from an id never asks for round robin *)
Lemma link_sel_ordered id l rr : link_sel (order_of_id id) l rr = (link_of (order_of_id id) l, rr).
Proof.
  unfold link_sel, link_of. pose proof (order_of_id_range id).
  destruct (order_of_id id =? 0) eqn:E; [lia | reflexivity].
Qed.

Lemma queue_sel_ordered id nq recvN : queue_sel (order_of_id id) nq recvN = queue_of (order_of_id id) nq.
Proof.
  unfold queue_sel, queue_of. pose proof (order_of_id_range id).
  destruct (0 <? order_of_id id) eqn:E; [reflexivity | lia].
Qed.

Definition addressed (a : addr) : bool := match a with ToNone => false | _ => true end.

Lemma peer_order_pos from a : addressed a = true -> 1 <= peer_order true from a <= 255.
Proof. destruct a; cbn [addressed peer_order]; intros H; try discriminate; apply order_of_id_range. Qed.

(* with order keeping on, link and queue of a (from, to) pair do not depend on the round-robin
   counters, i.e. on what anybody else sends: every frame of the pair takes the same ones *)
Theorem selection from a l nq :
  addressed a = true ->
  forall rr rr' recvN recvN',
    fst (link_sel (link_order true from) l rr) = fst (link_sel (link_order true from) l rr') /\
    fst (link_sel (link_order true from) l rr) = link_of (order_of_id from) l /\
    snd (link_sel (link_order true from) l rr) = rr /\
    queue_sel (peer_order true from a) nq recvN = queue_sel (peer_order true from a) nq recvN' /\
    queue_sel (peer_order true from a) nq recvN = queue_of (peer_order true from a) nq.
Proof.
  intros Ha rr rr' recvN recvN'. cbn [link_order]. rewrite !link_sel_ordered. cbn [fst snd].
  pose proof (peer_order_pos from a Ha) as Hp.
  unfold queue_sel, queue_of. destruct (0 <? peer_order true from a) eqn:E; [|lia].
  repeat split; reflexivity.
Qed.

(* what order byte 0 means on both sides: the choice follows the counters *)
Example order_zero_is_round_robin :
  fst (link_sel 0 2 0) <> fst (link_sel 0 2 1) /\ queue_sel 0 4 1 <> queue_sel 0 4 2.
Proof. split; vm_compute; discriminate. Qed.

(* before fix 4fdc7a5 the byte was ID mod 255: 0 for 1020, 1275, ... *)
Example order_byte_old_formula_zero : 1020 mod 255 = 0 /\ order_of_id 1020 = 1.
Proof. split; reflexivity. Qed.

(* ==========================================================================================
   C13 FIFO: links and queues are FIFO lists, their consumers interleave arbitrarily
   ========================================================================================== *)
Section Fifo.
  Context {A : Type}.

  (* out is an interleaving of the lists ls that drains all of them, each in its own order *)
  Inductive Merge : list (list A) -> list A -> Prop :=
  | merge_done ls : Forall (fun l => l = []) ls -> Merge ls []
  | merge_step ls i x rest out :
      nth_error ls i = Some (x :: rest) -> Merge (replace_nth i rest ls) out -> Merge ls (x :: out).

  Lemma nth_replace_same (ls : list (list A)) : forall i x, (i < length ls)%nat -> nth i (replace_nth i x ls) [] = x.
  Proof.
    induction ls as [|y ls IH]; intros i x H; cbn [length] in H; [lia|].
    destruct i; cbn [replace_nth nth]; [reflexivity|]. apply IH. lia.
  Qed.

  Lemma nth_replace_other (ls : list (list A)) : forall i j x, j <> i -> nth j (replace_nth i x ls) [] = nth j ls [].
  Proof.
    induction ls as [|y ls IH]; intros i j x H.
    - destruct i; reflexivity.
    - destruct i, j; cbn [replace_nth nth]; try reflexivity; try lia. apply IH. lia.
  Qed.

  Lemma filter_nil_cons (P : A -> bool) x l : filter P (x :: l) = [] -> P x = false /\ filter P l = [].
  Proof. cbn [filter]. destruct (P x); [discriminate | auto]. Qed.

  (* if only list i holds elements satisfying P, they come out in the order of list i *)
  Lemma merge_filter (P : A -> bool) ls out :
    Merge ls out ->
    forall i, (forall j, j <> i -> filter P (nth j ls []) = []) -> filter P out = filter P (nth i ls []).
  Proof.
    induction 1 as [ls Hall | ls k x rest out Hk HM IH]; intros i Hothers.
    - destruct (nth_in_or_default i ls []) as [Hin | ->]; [|reflexivity].
      rewrite Forall_forall in Hall. now rewrite (Hall _ Hin).
    - assert (Hlt : (k < length ls)%nat) by (apply nth_error_Some; congruence).
      assert (Hnk : nth k ls [] = x :: rest) by (now apply nth_error_nth).
      destruct (Nat.eq_dec k i) as [-> | Hne].
      + rewrite Hnk. cbn [filter].
        rewrite (IH i).
        * rewrite nth_replace_same by assumption. reflexivity.
        * intros j Hj. rewrite nth_replace_other by assumption. now apply Hothers.
      + pose proof (Hothers k Hne) as Hk0. rewrite Hnk in Hk0. apply filter_nil_cons in Hk0 as [Hx Hrest].
        cbn [filter]. rewrite Hx. rewrite (IH i).
        * rewrite nth_replace_other by (intro; subst; congruence). reflexivity.
        * intros j Hj. destruct (Nat.eq_dec j k) as [-> | Hjk].
          -- rewrite nth_replace_same by assumption. exact Hrest.
          -- rewrite nth_replace_other by assumption. now apply Hothers.
  Qed.

  Lemma filter_filter_imp (P Q : A -> bool) l :
    (forall x, P x = true -> Q x = true) -> filter P (filter Q l) = filter P l.
  Proof.
    intros H. induction l as [|x l IH]; [reflexivity|]. cbn [filter].
    destruct (Q x) eqn:EQ; cbn [filter]; destruct (P x) eqn:EP; try rewrite IH; try reflexivity.
    rewrite (H x EP) in EQ. discriminate.
  Qed.

  Lemma filter_filter_none (P Q : A -> bool) l :
    (forall x, P x = true -> Q x = false) -> filter P (filter Q l) = [].
  Proof.
    intros H. induction l as [|x l IH]; [reflexivity|]. cbn [filter].
    destruct (Q x) eqn:EQ; [|exact IH]. cbn [filter]. destruct (P x) eqn:EP; [|exact IH].
    rewrite (H x EP) in EQ. discriminate.
  Qed.

  Lemma filter_none (P : A -> bool) l : (forall x, In x l -> P x = false) -> filter P l = [].
  Proof.
    induction l as [|x l IH]; intros H; [reflexivity|]. cbn [filter].
    rewrite (H x (or_introl eq_refl)). apply IH. intros y Hy. apply H. now right.
  Qed.

  Variable link : A -> nat.     (* pool index chosen by send() for the frame *)
  Variable queue : A -> nat.    (* receive queue chosen by serve() from byte 6 *)
  Variable nl nq : nat.
  Variable sent : list A.       (* frames in the order of the Write calls (one process sends sequentially) *)

  (* TCP: serve() of link i obtains exactly the frames written to link i, in that order
     (this is C12 reassembly applied to a stream that TCP delivers in order) *)
  Variable received_on : nat -> list A.
  Hypothesis tcp_fifo : forall i, received_on i = filter (fun x => Nat.eqb (link x) i) sent.

  (* serve() pushes each frame to its queue in the order it cut them; the serve goroutines of
     different links interleave arbitrarily *)
  Variable arrived : list (list A).
  Hypothesis arrived_len : length arrived = nq.
  Hypothesis pushed_in_order : forall q, (q < nq)%nat ->
    Merge (map (fun i => filter (fun x => Nat.eqb (queue x) q) (received_on i)) (seq 0 nl)) (nth q arrived []).

  (* one worker per queue pops in order and calls Route*; workers of different queues interleave arbitrarily *)
  Variable delivered : list A.
  Hypothesis one_worker_per_queue : Merge arrived delivered.

  Lemma nth_links q i : nth i (map (fun i => filter (fun x => Nat.eqb (queue x) q) (received_on i)) (seq 0 nl)) [] =
                        if (i <? nl)%nat then filter (fun x => Nat.eqb (queue x) q) (received_on i) else [].
  Proof.
    set (f := fun i => filter (fun x => Nat.eqb (queue x) q) (received_on i)).
    destruct (i <? nl)%nat eqn:E.
    - apply Nat.ltb_lt in E.
      rewrite (nth_indep _ [] (f 0%nat)) by (rewrite map_length, seq_length; exact E).
      rewrite map_nth. rewrite seq_nth by exact E. reflexivity.
    - apply Nat.ltb_ge in E. apply nth_overflow. rewrite map_length, seq_length. exact E.
  Qed.

  (* all frames of the pair (predicate P) use link i0 and queue q0 (C13 selection): they are
     delivered in the order they were sent *)
  Theorem fifo (P : A -> bool) (i0 q0 : nat) :
    (forall x, P x = true -> link x = i0 /\ queue x = q0) ->
    (i0 < nl)%nat -> (q0 < nq)%nat ->
    filter P delivered = filter P sent.
  Proof.
    intros Hsel Hi Hq.
    assert (Hqueue : forall q, (q < nq)%nat -> filter P (nth q arrived []) =
                                              if Nat.eqb q q0 then filter P sent else []).
    { intros q Hlt. rewrite (merge_filter P _ _ (pushed_in_order q Hlt) i0).
      - rewrite nth_links. apply Nat.ltb_lt in Hi. rewrite Hi. rewrite tcp_fifo.
        destruct (Nat.eqb q q0) eqn:E.
        + apply Nat.eqb_eq in E. subst q.
          rewrite filter_filter_imp by (intros x Hx; destruct (Hsel x Hx) as [_ ->]; apply Nat.eqb_refl).
          apply filter_filter_imp. intros x Hx. destruct (Hsel x Hx) as [-> _]. apply Nat.eqb_refl.
        + apply filter_filter_none. intros x Hx. destruct (Hsel x Hx) as [_ ->].
          rewrite Nat.eqb_sym. exact E.
      - intros j Hj. rewrite nth_links. destruct (j <? nl)%nat; [|reflexivity].
        rewrite tcp_fifo. apply filter_none. intros x Hx.
        apply filter_In in Hx as [Hx _]. apply filter_In in Hx as [_ Hl]. apply Nat.eqb_eq in Hl.
        destruct (P x) eqn:EP; [|reflexivity]. destruct (Hsel x EP) as [Hli _]. congruence. }
    rewrite (merge_filter P _ _ one_worker_per_queue q0).
    - rewrite (Hqueue q0 Hq). now rewrite Nat.eqb_refl.
    - intros j Hj. destruct (Nat.lt_ge_cases j nq) as [Hlt | Hge].
      + rewrite (Hqueue j Hlt). apply Nat.eqb_neq in Hj. now rewrite Hj.
      + rewrite nth_overflow by (rewrite arrived_len; exact Hge). reflexivity.
  Qed.
End Fifo.

(* the guard "constant pool" cannot be dropped: once a second link has joined, the same sender is
   mapped to another link and the frame on the new link may overtake the one on the old link *)
Theorem fifo_refuted_pool_grows :
  exists (from : Z) (sent : list Z) (pool_len : Z -> Z) (delivered : list Z),
    let link x := Z.to_nat (link_of (order_of_id from) (pool_len x)) in
    Merge (map (fun i => filter (fun x => Nat.eqb (link x) i) sent) (seq 0 2)) delivered /\
    delivered <> sent.
Proof.
  exists 1001, [0; 1], (fun x => x + 1), [1; 0]. cbv beta zeta.
  assert (E : map (fun i => filter (fun x => Nat.eqb (Z.to_nat (link_of (order_of_id 1001) (x + 1))) i) [0; 1]) (seq 0 2)
              = [[0]; [1]]) by (vm_compute; reflexivity).
  rewrite E. split; [|discriminate].
  eapply (merge_step _ 1%nat 1 []); [reflexivity|]. cbn [replace_nth].
  eapply (merge_step _ 0%nat 0 []); [reflexivity|]. cbn [replace_nth].
  apply merge_done. repeat constructor.
Qed.

(* ==========================================================================================
   C12 important delivery: the acknowledgement carries the sender's reference and the result
   ========================================================================================== *)
Definition result_ok (code : Z) (rpay : bytes) : Prop :=
  (code = 255 /\ rpay <> [] /\ blen rpay < 2 ^ 31) \/ (0 <= code <= 3).

Lemma wf_resp_err from to prio r0 r1 r2 code rpay :
  u64 from -> u64 to -> 0 <= prio < 256 -> u64 r0 -> u64 r1 -> u64 r2 -> result_ok code rpay ->
  wf (resp_err from to prio (r0, r1, r2) code rpay).
Proof.
  intros Hf Ht Hp H0 H1 H2 Hr. unfold resp_err, wf. unfold u64 in *.
  cbn [m_kind m_order m_from m_prio m_imp m_r0 m_r1 m_r2 m_to m_a0 m_a1 m_a2 m_cache m_name m_code m_payload
       uses layout existsb orb].
  repeat split; try assumption; try lia; try reflexivity.
  - destruct Hr as [(-> & Hne & _) | Hc].
    + left. split; [reflexivity | change (255 =? 255) with true; cbv iota; exact Hne].
    + right. split; [exact Hc|]. destruct (code =? 255) eqn:E; [lia | reflexivity].
  - unfold body, encode_fields.
    cbn [m_kind m_order m_from m_prio m_imp m_r0 m_r1 m_r2 m_to m_a0 m_a1 m_a2 m_cache m_name m_code m_payload
         layout map concat encode_field].
    autorewrite with blen. pose proof (blen_nonneg rpay).
    destruct Hr as [(-> & _ & Hl) | Hc].
    + change (255 =? 255) with true. cbv iota. lia.
    + destruct (code =? 255) eqn:E; [lia|]. autorewrite with blen. lia.
Qed.

Lemma u64_0 : u64 0.
Proof. unfold u64. lia. Qed.

Theorem important_ack m code rpay :
  wf m -> m_imp m = true ->
  m_kind m = KPid \/ m_kind m = KName \/ m_kind m = KNameCache \/ m_kind m = KAlias ->
  result_ok code rpay ->
  exists a, ack true m code rpay = Some a /\ wf a /\ parse (build a) = Some a /\
            m_kind a = KResponseError /\
            (m_r0 a, m_r1 a, m_r2 a) = (m_r0 m, 0, 0) /\ m_code a = code /\ m_to a = m_from m.
Proof.
  intros Hwf Himp Hk Hr.
  assert (Hfields : u64 (m_from m) /\ 0 <= m_prio m < 4 /\ u64 (m_r0 m) /\ (m_kind m = KPid -> u64 (m_to m))).
  { unfold wf in Hwf. destruct Hwf as (_ & Hfrom & Hprio & H0 & _ & _ & Hto & _).
    destruct Hk as [E | [E | [E | E]]]; rewrite E in *; cbn [uses layout existsb orb] in *;
      (split; [exact Hfrom | split; [exact Hprio | split; [exact H0 | intros E'; try discriminate E'; try exact Hto]]]). }
  destruct Hfields as (Hfrom & Hprio & H0 & Hto).
  unfold ack. rewrite Himp. cbn [andb].
  destruct Hk as [E | [E | [E | E]]]; rewrite E.
  - eexists. split; [reflexivity|].
    assert (Hw : wf (resp_err (m_to m) (m_from m) (m_prio m) (m_r0 m, 0, 0) code rpay))
      by (apply wf_resp_err; auto using u64_0; lia).
    split; [exact Hw|]. split; [now apply parse_build|]. repeat split.
  - eexists. split; [reflexivity|].
    assert (Hw : wf (resp_err 0 (m_from m) (m_prio m) (m_r0 m, 0, 0) code rpay))
      by (apply wf_resp_err; auto using u64_0; lia).
    split; [exact Hw|]. split; [now apply parse_build|]. repeat split.
  - eexists. split; [reflexivity|].
    assert (Hw : wf (resp_err 0 (m_from m) (m_prio m) (m_r0 m, 0, 0) code rpay))
      by (apply wf_resp_err; auto using u64_0; lia).
    split; [exact Hw|]. split; [now apply parse_build|]. repeat split.
  - eexists. split; [reflexivity|].
    assert (Hw : wf (resp_err 0 (m_from m) (m_prio m) (m_r0 m, 0, 0) code rpay))
      by (apply wf_resp_err; auto using u64_0; lia).
    split; [exact Hw|]. split; [now apply parse_build|]. repeat split.
Qed.

(* ==========================================================================================
   non-vacuity and the excluded corner of wf
   ========================================================================================== *)
Definition example_msg : msg :=
  mk_msg KPid (order_of_id 1002) 1001 1 true 81985529216486895 0 0 1002 0 0 0 0 [] 0 [149; 0; 3; 1; 2; 3].

Example example_msg_wf : wf example_msg.
Proof.
  unfold wf, example_msg, u64.
  cbn [m_kind m_order m_from m_prio m_imp m_r0 m_r1 m_r2 m_to m_a0 m_a1 m_a2 m_cache m_name m_code m_payload
       uses layout existsb orb].
  repeat split; try lia; try reflexivity; try discriminate; try (vm_compute; reflexivity); try (vm_compute; discriminate).
Qed.

Example example_frame :
  build example_msg =
  [78; 1; 0; 0; 0; 39; 238; 101;  0; 0; 0; 0; 0; 0; 3; 233;  129;  1; 35; 69; 103; 137; 171; 205; 239;
   0; 0; 0; 0; 0; 0; 3; 234;  149; 0; 3; 1; 2; 3]
  /\ parse (build example_msg) = Some example_msg
  /\ offsets example_msg = [8; 16; 17; 25; 33].
Proof. vm_compute. repeat split. Qed.

(* the one-byte slack of the event / terminate-by-name guards (outside wf, not producible by EDF) *)
Example short_event_refuted :
  exists m, m_kind m = KEvent /\ m_name m = [] /\ blen (m_payload m) = 1 /\ parse (build m) = None.
Proof.
  exists (mk_msg KEvent 1 1001 0 false 5 0 0 0 0 0 0 0 [] 0 [255]). vm_compute. repeat split.
Qed.

(* reassembly: two frames cut at awkward places *)
Example example_reassembly :
  let f := build example_msg in
  cut_all 0 (Open []) [firstn 5 f; skipn 5 f ++ firstn 9 f; skipn 9 f] = ([f; f], Open []).
Proof. vm_compute. reflexivity. Qed.

(* C03 on the remote path: whatever the important-delivery flag, the frame the sender builds is parsed by
   the receiver into a message of the SAME priority (the value RouteSend* / RouteCall* select the mailbox
   queue with) and the same flag *)
Lemma remote_priority m : wf m ->
  exists m', parse (build m) = Some m' /\ m_prio m' = m_prio m /\ m_imp m' = m_imp m.
Proof. intros H. exists m. split; [exact (parse_build m H)|split; reflexivity]. Qed.
