(* Proto engine: proofs about the receive-queue lock (model: RecvLock.v).

   For every number of pooled links, every list of frames per link and EVERY schedule:
     * at most one goroutine is inside the frame loop of handleRecvQueue of a queue (so the MPSC queue
       has the single consumer its Pop() needs, and frames are handed to the core one at a time);
     * frames are handed over in the order they were pushed: delivered ++ in-work ++ queued = pushed;
     * nothing is stranded: when every goroutine has finished, every pushed frame was handed over.
   With Lock() written as "load, then store" (two_step) the first two fail: witness schedule. *)
From Ergo Require Import Common.Base Proto.RecvLock.

Definition b2n (b : bool) : nat := if b then 1 else 0.

Lemma count_app f a b : count f (a ++ b) = count f a + count f b.
Proof. unfold count. rewrite filter_app, app_length. reflexivity. Qed.

Lemma count_cons f p l : count f (p :: l) = b2n (f p) + count f l.
Proof. unfold count. cbn [filter]. destruct (f p); reflexivity. Qed.

Lemma count_nil f : count f [] = 0.
Proof. reflexivity. Qed.

Lemma in_work_app a b : in_work (a ++ b) = in_work a ++ in_work b.
Proof. unfold in_work. apply flat_map_app. Qed.

Lemma in_work_cons p l : in_work (p :: l) = (match p with H_work f => [f] | _ => [] end) ++ in_work l.
Proof. reflexivity. Qed.

Lemma no_holder_no_work l : count holder l = 0 -> in_work l = [].
Proof.
  induction l as [|p l IH]; [reflexivity|]. rewrite count_cons, in_work_cons. intros H.
  destruct p; cbn [holder b2n] in H; try discriminate; cbn [app]; apply IH; lia.
Qed.

Lemma set_nth_split l i p p' :
  nth_error l i = Some p -> exists a b, l = a ++ p :: b /\ set_nth l i p' = a ++ p' :: b.
Proof.
  revert i. induction l as [|x l IH]; intros [|i] H; cbn in H; try discriminate.
  - injection H as ->. exists [], l. split; reflexivity.
  - destruct (IH i H) as (a & b & -> & E). exists (x :: a), b. cbn [set_nth app]. rewrite E. split; reflexivity.
Qed.

(* pcs of the broken two-step Lock(): never present when Lock() is the swap *)
Definition two_step_pc (p : pc) : bool := match p with P_lock2 _ | H_relock2 => true | _ => false end.

Record Inv (s : shared) (t : list pc) : Prop := mk_inv {
  inv_token : count holder t = b2n (lock s);
  inv_oblig : queue s = [] \/ lock s = true \/ 1 <= count obliged t;
  inv_order : pushed s = delivered s ++ in_work t ++ queue s;
  inv_swap : count two_step_pc t = 0
}.

Definition work_of (p : pc) : list nat := match p with H_work f => [f] | _ => [] end.

Lemma in_work_cons' p l : in_work (p :: l) = work_of p ++ in_work l.
Proof. reflexivity. Qed.

Lemma next_push_plain todo :
  holder (next_push todo) = false /\ obliged (next_push todo) = false /\ two_step_pc (next_push todo) = false /\
  work_of (next_push todo) = [].
Proof. destruct todo; repeat split; reflexivity. Qed.

Ltac counts :=
  repeat rewrite ?count_app, ?count_cons, ?count_nil, ?in_work_app, ?in_work_cons' in *;
  cbn [holder obliged two_step_pc b2n work_of app] in *.

Lemma step_inv s a p b s' p' sp :
  Inv s (a ++ p :: b) -> step_pc false s p = Some (s', p', sp) ->
  Inv s' (a ++ p' :: b ++ match sp with Some np => [np] | None => [] end).
Proof.
  intros [It Io Ir Is] Hs.
  assert (Hab : lock s = true -> holder p = true -> count holder a = 0 /\ count holder b = 0).
  { intros Hl Hp. counts. rewrite Hl, Hp in It. cbn [b2n] in It. lia. }
  destruct p; cbn [step_pc] in Hs.
  - (* P_push *)
    destruct todo as [|f todo]; injection Hs as <- <- <-; counts; rewrite ?app_nil_r.
    + constructor; counts; auto.
    + constructor; cbn [lock queue pushed delivered]; counts; auto.
      * right; right. lia.
      * rewrite Ir. rewrite !app_assoc. reflexivity.
  - (* P_lock *)
    destruct (lock s) eqn:L; injection Hs as <- <- <-; rewrite ?app_nil_r;
      destruct (next_push_plain todo) as (N1 & N2 & N3 & N4).
    + constructor; counts; rewrite ?N1, ?N2, ?N3, ?N4 in *; cbn [b2n app] in *; rewrite ?L; auto.
    + constructor; cbn [lock queue pushed delivered]; counts; auto. cbn [b2n] in *. lia.
  - (* P_lock2: absent *)
    counts. lia.
  - (* P_spawn *)
    injection Hs as <- <- <-. destruct (next_push_plain todo) as (N1 & N2 & N3 & N4).
    constructor; counts; rewrite ?N1, ?N2, ?N3, ?N4 in *; cbn [b2n app] in *.
    + lia.
    + destruct Io as [Io|[Io|Io]]; auto. right; right. lia.
    + rewrite Ir. cbn [in_work flat_map app]. rewrite ?app_nil_r. reflexivity.
    + lia.
  - (* H_pop *)
    assert (L : lock s = true). { counts. destruct (lock s); [reflexivity | cbn [b2n] in It; lia]. }
    destruct (Hab L eq_refl) as [Ha Hb].
    destruct (queue s) as [|f q] eqn:Q; injection Hs as <- <- <-; rewrite ?app_nil_r.
    + constructor; counts; rewrite ?Q; auto.
    + constructor; cbn [lock queue pushed delivered]; counts; auto.
      rewrite (no_holder_no_work a Ha), (no_holder_no_work b Hb) in *. exact Ir.
  - (* H_work *)
    assert (L : lock s = true). { counts. destruct (lock s); [reflexivity | cbn [b2n] in It; lia]. }
    destruct (Hab L eq_refl) as [Ha Hb].
    injection Hs as <- <- <-; rewrite ?app_nil_r.
    constructor; cbn [lock queue pushed delivered]; counts; auto.
    rewrite Ir. rewrite (no_holder_no_work a Ha), (no_holder_no_work b Hb). cbn [app]. rewrite <- app_assoc. reflexivity.
  - (* H_unlock *)
    assert (L : lock s = true). { counts. destruct (lock s); [reflexivity | cbn [b2n] in It; lia]. }
    destruct (Hab L eq_refl) as [Ha Hb].
    injection Hs as <- <- <-; rewrite ?app_nil_r.
    constructor; cbn [lock queue pushed delivered]; counts; auto.
    + lia.
    + right; right. lia.
  - (* H_item *)
    destruct (queue s) as [|f q] eqn:Q; injection Hs as <- <- <-; rewrite ?app_nil_r.
    + constructor; counts; rewrite ?Q; auto.
    + constructor; counts; rewrite ?Q; auto.
  - (* H_relock *)
    destruct (lock s) eqn:L; injection Hs as <- <- <-; rewrite ?app_nil_r.
    + constructor; counts; rewrite ?L; auto.
    + constructor; cbn [lock queue pushed delivered]; counts; auto. cbn [b2n] in *. lia.
  - (* H_relock2: absent *)
    counts. lia.
  - discriminate.
Qed.

Lemma step_cfg_inv c i c' :
  Inv (sh c) (thr c) -> step false c i = Some c' -> Inv (sh c') (thr c').
Proof.
  intros HI Hs. unfold step in Hs.
  destruct (nth_error (thr c) i) as [p|] eqn:N; [|discriminate].
  destruct (step_pc false (sh c) p) as [[[s' p'] sp]|] eqn:S; [|discriminate].
  injection Hs as <-. cbn [sh thr].
  destruct (set_nth_split (thr c) i p p' N) as (a & b & E1 & E2). rewrite E2. rewrite E1 in HI.
  pose proof (step_inv _ _ _ _ _ _ _ HI S) as R.
  destruct sp; cbn [app] in *; rewrite <- ?app_assoc in *; cbn [app] in *; [exact R|]. rewrite app_nil_r in R. exact R.
Qed.

Lemma init_inv links : Inv (sh (init_cfg links)) (thr (init_cfg links)).
Proof.
  unfold init_cfg. cbn [sh thr]. induction links as [|l links IH].
  - constructor; cbn; auto.
  - destruct IH as [I1 I2 I3 I4]. cbn [map]. constructor; cbn [lock queue pushed delivered] in *; counts; auto.
Qed.

Theorem reachable_inv links sched :
  let c := run false sched (init_cfg links) in Inv (sh c) (thr c).
Proof.
  cbn zeta. generalize (init_inv links). generalize (init_cfg links).
  induction sched as [|i tl IH]; intros c HI; cbn [run]; [exact HI|].
  destruct (step false c i) as [c'|] eqn:S; [|now apply IH].
  apply IH. eapply step_cfg_inv; eauto.
Qed.

Lemma handling_le_holder l : count handling l <= count holder l.
Proof.
  induction l as [|p l IH]; [reflexivity|]. rewrite !count_cons. destruct p; cbn [handling holder b2n]; lia.
Qed.

(* ---- the statements --------------------------------------------------------------------------- *)

(* one handler per queue, for every schedule *)
Theorem single_handler links sched :
  count handling (thr (run false sched (init_cfg links))) <= 1.
Proof.
  destruct (reachable_inv links sched) as [It _ _ _].
  pose proof (handling_le_holder (thr (run false sched (init_cfg links)))) as H.
  rewrite It in H. destruct (lock _); cbn [b2n] in H; lia.
Qed.

(* hand-over in push order, at every moment of every schedule *)
Theorem handover_in_push_order links sched :
  let c := run false sched (init_cfg links) in
  pushed (sh c) = delivered (sh c) ++ in_work (thr c) ++ queue (sh c) /\ length (in_work (thr c)) <= 1.
Proof.
  cbn zeta. destruct (reachable_inv links sched) as [It _ Ir _]. split; [exact Ir|].
  set (t := thr (run false sched (init_cfg links))) in *.
  assert (G : forall l, length (in_work l) <= count holder l).
  { induction l as [|p l IH]; [reflexivity|]. rewrite in_work_cons, app_length, count_cons.
    destruct p; cbn [holder b2n length]; lia. }
  specialize (G t). rewrite It in G. destruct (lock _); cbn [b2n] in G; lia.
Qed.

Lemma quiescent_counts l : forallb is_done l = true ->
  count holder l = 0 /\ count obliged l = 0 /\ in_work l = [].
Proof.
  induction l as [|p l IH]; [repeat split; reflexivity|]. cbn [forallb]. intros H. apply andb_true_iff in H as [Hp Hl].
  destruct p; try discriminate. destruct (IH Hl) as (A & B & C). counts. rewrite A, B, C. repeat split; reflexivity.
Qed.

(* no frame is stranded: when every goroutine has finished, everything pushed was handed over, in order *)
Theorem nothing_stranded links sched :
  let c := run false sched (init_cfg links) in
  quiescent c = true -> queue (sh c) = [] /\ delivered (sh c) = pushed (sh c) /\ lock (sh c) = false.
Proof.
  cbn zeta. intros Q. destruct (reachable_inv links sched) as [It Io Ir _].
  unfold quiescent in Q. destruct (quiescent_counts _ Q) as (A & B & C).
  rewrite A in It. assert (L : lock (sh (run false sched (init_cfg links))) = false) by (destruct (lock _); [discriminate|reflexivity]).
  assert (E : queue (sh (run false sched (init_cfg links))) = []).
  { destruct Io as [Io|[Io|Io]]; [exact Io | congruence | lia]. }
  rewrite C, E in Ir. rewrite !app_nil_r in Ir. repeat split; auto.
Qed.

(* every frame a serve goroutine was given is eventually pushed exactly once: at quiescence the pushed
   multiset is the frames of all links (count_occ) *)
Definition todo_of (p : pc) : list nat :=
  match p with P_push t | P_lock t | P_lock2 t | P_spawn t => t | _ => [] end.
Definition pending (l : list pc) : list nat := flat_map todo_of l.

Lemma pending_app a b : pending (a ++ b) = pending a ++ pending b.
Proof. apply flat_map_app. Qed.

Lemma count_occ_app' (x : nat) a b : count_occ Nat.eq_dec (a ++ b) x = count_occ Nat.eq_dec a x + count_occ Nat.eq_dec b x.
Proof. apply count_occ_app. Qed.

Lemma step_pushed (ts : bool) s a p b s' p' sp x :
  step_pc ts s p = Some (s', p', sp) ->
  count_occ Nat.eq_dec (pushed s' ++ pending (a ++ p' :: b ++ match sp with Some np => [np] | None => [] end)) x =
  count_occ Nat.eq_dec (pushed s ++ pending (a ++ p :: b)) x.
Proof.
  intros Hs. rewrite !pending_app. change (pending (p' :: ?l)) with (todo_of p' ++ pending l).
  change (pending (p :: b)) with (todo_of p ++ pending b). rewrite !pending_app.
  assert (NP : forall t, todo_of (next_push t) = t) by (intros [|? ?]; reflexivity).
  destruct p; cbn [step_pc] in Hs;
    repeat match type of Hs with
    | context [match ?t with [] => _ | _ :: _ => _ end] => destruct t
    | context [if ?c then _ else _] => destruct c
    end; try discriminate; injection Hs as <- <- <-; cbn [pushed todo_of pending flat_map app];
    rewrite ?NP, ?app_nil_r; repeat rewrite ?count_occ_app'; cbn [count_occ]; try lia;
    repeat match goal with |- context [Nat.eq_dec ?y x] => destruct (Nat.eq_dec y x) end; repeat rewrite ?count_occ_app'; lia.
Qed.

Theorem all_frames_pushed links sched x :
  let c := run false sched (init_cfg links) in
  count_occ Nat.eq_dec (pushed (sh c) ++ pending (thr c)) x = count_occ Nat.eq_dec (concat links) x.
Proof.
  cbn zeta.
  assert (I0 : count_occ Nat.eq_dec (pushed (sh (init_cfg links)) ++ pending (thr (init_cfg links))) x =
               count_occ Nat.eq_dec (concat links) x).
  { unfold init_cfg. cbn [sh thr pushed app]. induction links as [|l links IH]; [reflexivity|].
    cbn [map concat]. change (pending (P_push l :: ?t)) with (l ++ pending t). rewrite !count_occ_app'. rewrite IH. reflexivity. }
  revert I0. generalize (init_cfg links). induction sched as [|i tl IH]; intros c HI; cbn [run]; [exact HI|].
  destruct (step false c i) as [c'|] eqn:S; [|now apply IH]. apply IH. rewrite <- HI. clear HI IH.
  unfold step in S. destruct (nth_error (thr c) i) as [p|] eqn:N; [|discriminate].
  destruct (step_pc false (sh c) p) as [[[s' p'] sp]|] eqn:SP; [|discriminate]. injection S as <-. cbn [sh thr].
  destruct (set_nth_split (thr c) i p p' N) as (a & b & E1 & E2). rewrite E2, E1.
  pose proof (step_pushed false _ a _ b _ _ _ x SP) as R.
  destruct sp; cbn [app] in *; rewrite <- ?app_assoc in *; cbn [app] in *; [exact R|]. rewrite app_nil_r in R. exact R.
Qed.

(* ---- the broken Lock(): load, then store --------------------------------------------------------- *)
Definition bad_sched : list nat := [0; 1; 0; 1; 0; 1; 0; 1; 2; 3; 3; 2].

Theorem two_step_lock_refuted :
  exists links sched,
    count handling (thr (run true (firstn 10 sched) (init_cfg links))) = 2 /\
    let c := run true sched (init_cfg links) in
    pushed (sh c) = [1; 2] /\ delivered (sh c) = [2; 1].
Proof. exists [[1]; [2]], bad_sched. vm_compute. repeat split. Qed.

(* non-vacuity: three links, frames interleaved, a schedule that runs to quiescence *)
Example recv_example :
  let c := run false (concat (repeat [0; 1; 2; 3; 4; 5; 6; 7] 30)) (init_cfg [[1; 2]; [3]; [4; 5]]) in
  quiescent c = true /\ delivered (sh c) = pushed (sh c) /\ length (delivered (sh c)) = 5.
Proof. vm_compute. repeat split. Qed.
