(* Proto engine: the receive queues of a connection (net/proto/connection.go serve() /
   handleRecvQueue(), lib/mpsc.go Lock() / Unlock()).  Definitions only; proofs in RecvLockProofs.v.

   serve() of every pooled link, for each frame read from its socket:

       queue := c.recvQueues[qN]
       queue.Push(buf)
       if queue.Lock() { go c.handleRecvQueue(queue) }        // Lock: atomic.SwapUint32(&q.lock, 1) == 0

   handleRecvQueue(q):

       for {
           v, ok := q.Pop()
           if ok == false {
               q.Unlock()                                      // atomic.SwapUint32(&q.lock, 0)
               if i := q.Item(); i == nil { return }
               if locked := q.Lock(); locked == false { return }
               continue
           }
           ... decode the frame, hand it to the core (the Route functions) ...
       }

   One receive queue, any number of serve goroutines (one per pooled link) pushing into it, each
   any number of frames.  A step is one shared access.  The queue itself is an atomic FIFO here: its
   pointer-level refinement (pushers against ONE popper) is Mbox/MpscProofs.v - which is exactly why
   "at most one handler per queue" must hold.  [two_step] switches Lock() to the broken variant
   "load, then store" (a seeded change): the theorems are proved for two_step = false and refuted for
   two_step = true. *)
From Ergo Require Import Common.Base.

Inductive pc :=
(* a serve goroutine with the frames it still has to push *)
| P_push (todo : list nat)          (* queue.Push(buf) *)
| P_lock (todo : list nat)          (* queue.Lock(): swap *)
| P_lock2 (todo : list nat)         (* (two_step only) the store after a load that saw 0 *)
| P_spawn (todo : list nat)         (* go c.handleRecvQueue(queue) *)
(* a handler goroutine *)
| H_pop                             (* q.Pop() *)
| H_work (f : nat)                  (* decoding / routing frame f; ends with the hand-over to the core *)
| H_unlock                          (* q.Unlock() *)
| H_item                            (* q.Item() *)
| H_relock                          (* q.Lock(): swap *)
| H_relock2                         (* (two_step only) the store after a load that saw 0 *)
| Done.

Record shared := mk_sh {
  lock : bool;
  queue : list nat;                 (* pushed, not yet popped; head = oldest *)
  pushed : list nat;                (* ghost: every frame in push order *)
  delivered : list nat              (* ghost: frames in the order of their hand-over to the core *)
}.

Record cfg := mk_cfg { sh : shared; thr : list pc }.

Definition next_push (todo : list nat) : pc := match todo with [] => Done | _ => P_push todo end.

Definition step_pc (two_step : bool) (s : shared) (p : pc) : option (shared * pc * option pc) :=
  match p with
  | P_push [] => Some (s, Done, None)
  | P_push (f :: todo) => Some (mk_sh (lock s) (queue s ++ [f]) (pushed s ++ [f]) (delivered s), P_lock todo, None)
  | P_lock todo =>
      if two_step then (if lock s then Some (s, next_push todo, None) else Some (s, P_lock2 todo, None))
      else if lock s then Some (s, next_push todo, None)
           else Some (mk_sh true (queue s) (pushed s) (delivered s), P_spawn todo, None)
  | P_lock2 todo => Some (mk_sh true (queue s) (pushed s) (delivered s), P_spawn todo, None)
  | P_spawn todo => Some (s, next_push todo, Some H_pop)
  | H_pop =>
      match queue s with
      | f :: q => Some (mk_sh (lock s) q (pushed s) (delivered s), H_work f, None)
      | [] => Some (s, H_unlock, None)
      end
  | H_work f => Some (mk_sh (lock s) (queue s) (pushed s) (delivered s ++ [f]), H_pop, None)
  | H_unlock => Some (mk_sh false (queue s) (pushed s) (delivered s), H_item, None)
  | H_item => match queue s with [] => Some (s, Done, None) | _ => Some (s, H_relock, None) end
  | H_relock =>
      if two_step then (if lock s then Some (s, Done, None) else Some (s, H_relock2, None))
      else if lock s then Some (s, Done, None)
           else Some (mk_sh true (queue s) (pushed s) (delivered s), H_pop, None)
  | H_relock2 => Some (mk_sh true (queue s) (pushed s) (delivered s), H_pop, None)
  | Done => None
  end.

Fixpoint set_nth (l : list pc) (i : nat) (p : pc) : list pc :=
  match l, i with
  | [], _ => []
  | _ :: tl, O => p :: tl
  | x :: tl, S j => x :: set_nth tl j p
  end.

Definition step (two_step : bool) (c : cfg) (i : nat) : option cfg :=
  match nth_error (thr c) i with
  | None => None
  | Some p =>
      match step_pc two_step (sh c) p with
      | None => None
      | Some (s', p', sp) =>
          let t' := set_nth (thr c) i p' in
          Some (mk_cfg s' (match sp with Some np => t' ++ [np] | None => t' end))
      end
  end.

(* a schedule is any list of thread indices; choices that are not enabled are skipped *)
Fixpoint run (two_step : bool) (sched : list nat) (c : cfg) : cfg :=
  match sched with
  | [] => c
  | i :: tl => match step two_step c i with Some c' => run two_step tl c' | None => run two_step tl c end
  end.

(* the serve goroutines of the pooled links, each with its frames; lock free, queue empty *)
Definition init_cfg (links : list (list nat)) : cfg :=
  mk_cfg (mk_sh false [] [] []) (map P_push links).

(* ---- classification --------------------------------------------------------------------------- *)
(* owns the queue: between a winning Lock() and the Unlock() (a spawn that is still pending included) *)
Definition holder (p : pc) : bool :=
  match p with P_spawn _ | H_pop | H_work _ | H_unlock => true | _ => false end.
(* is inside the frame loop of handleRecvQueue *)
Definition handling (p : pc) : bool :=
  match p with H_pop | H_work _ => true | _ => false end.
(* still obliged to look at the queue / try the lock *)
Definition obliged (p : pc) : bool :=
  match p with P_lock _ | H_item | H_relock => true | _ => false end.

Definition count (f : pc -> bool) (l : list pc) : nat := length (filter f l).
Definition is_done (p : pc) : bool := match p with Done => true | _ => false end.
Definition quiescent (c : cfg) : bool := forallb is_done (thr c).

(* frames being worked on, in thread order *)
Definition in_work (l : list pc) : list nat :=
  flat_map (fun p => match p with H_work f => [f] | _ => [] end) l.
