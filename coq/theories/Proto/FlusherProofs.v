(* Proofs about the flusher model: byte order and "no stranded bytes" for every history. *)
From Ergo Require Import Common.Base Proto.Flusher.

Definition FInv (w : list Z) (s : fstate) : Prop :=
  f_out s ++ f_buf s = w /\ (f_pending s = false -> f_buf s = []).

Lemma fstep_inv cap w s o :
  FInv w s -> FInv (w ++ match o with FWrite p _ => p | FTick => [] end) (fstep cap s o).
Proof.
  intros [Ho Hp]. destruct o as [p keep|]; cbn [fstep].
  - destruct (Nat.leb (length (f_buf s ++ p)) cap).
    + split; cbn [f_out f_buf f_pending]; [|discriminate]. rewrite app_assoc, Ho. reflexivity.
    + split; cbn [f_out f_buf f_pending]; [|discriminate].
      rewrite <- app_assoc, firstn_skipn. rewrite app_assoc, Ho. reflexivity.
  - split; cbn [f_out f_buf f_pending]; [|reflexivity]. rewrite !app_nil_r. exact Ho.
Qed.

Lemma written_app a b : written (a ++ b) = written a ++ written b.
Proof. unfold written. rewrite map_app, concat_app. reflexivity. Qed.

Lemma frun_from_inv cap ops : forall s w, FInv w s -> FInv (w ++ written ops) (fold_left (fstep cap) ops s).
Proof.
  induction ops as [|o ops IH]; intros s w H; cbn [fold_left].
  - unfold written. cbn. rewrite app_nil_r. exact H.
  - change (o :: ops) with ([o] ++ ops). rewrite written_app, app_assoc.
    apply IH. replace (written [o]) with (match o with FWrite p _ => p | FTick => [] end).
    + now apply fstep_inv.
    + unfold written. cbn. now rewrite app_nil_r.
Qed.

(* at every moment of every history: what reached the socket, followed by what is buffered, is what was
   written, in the order of the Write calls; and buffered bytes have an armed timer *)
Theorem flusher_keeps_order cap ops :
  let s := frun cap ops in
  f_out s ++ f_buf s = written ops /\ (f_pending s = false -> f_buf s = []).
Proof.
  cbn zeta. pose proof (frun_from_inv cap ops (mk_f [] [] false) [] (conj eq_refl (fun _ => eq_refl))) as H.
  exact H.
Qed.

(* so what the socket has seen is always a prefix of what was written, and once the timer has fired with
   nothing written after it, everything has reached the socket *)
Corollary flusher_prefix cap ops : exists rest, written ops = f_out (frun cap ops) ++ rest.
Proof. destruct (flusher_keeps_order cap ops) as [H _]. eexists. symmetry. exact H. Qed.

Corollary flusher_complete_after_tick cap ops : f_out (frun cap (ops ++ [FTick])) = written ops.
Proof.
  destruct (flusher_keeps_order cap (ops ++ [FTick])) as [H _].
  unfold frun in *. rewrite fold_left_app in *. cbn [fold_left fstep f_out f_buf] in *.
  rewrite app_nil_r in H. rewrite H, written_app. unfold written at 2. cbn. now rewrite app_nil_r.
Qed.

(* a writer that hands large chunks straight to the socket WITHOUT flushing the buffer first (a seeded change)
   lets a later frame overtake an earlier one *)
Definition fstep_bypass (cap limit : nat) (s : fstate) (o : fop) : fstate :=
  match o with
  | FWrite p keep => if Nat.ltb limit (length p) then mk_f (f_buf s) (f_out s ++ p) (f_pending s) else fstep cap s o
  | FTick => fstep cap s o
  end.
Theorem bypass_reorders_refuted :
  exists ops, f_out (fold_left (fstep_bypass 16 4) ops (mk_f [] [] false)) = [9; 9; 9; 9; 9; 1; 2]%Z /\
              written ops = [1; 2; 9; 9; 9; 9; 9]%Z.
Proof. exists [FWrite [1; 2]%Z 0; FWrite [9; 9; 9; 9; 9]%Z 0; FTick]. split; reflexivity. Qed.

Example flusher_example :
  f_out (frun 4 [FWrite [1; 2]%Z 0; FWrite [3; 4; 5]%Z 1; FTick; FWrite [6]%Z 0]) = [1; 2; 3; 4; 5]%Z /\
  f_buf (frun 4 [FWrite [1; 2]%Z 0; FWrite [3; 4; 5]%Z 1; FTick; FWrite [6]%Z 0]) = [6]%Z.
Proof. split; reflexivity. Qed.
