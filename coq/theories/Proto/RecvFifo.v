(* Proto engine: the receive-queue model (RecvLock.v) discharges the two hypotheses about the CODE that the
   network-FIFO theorem (Proofs.v, Section Fifo) takes as premises, for one receive queue:

     pushed_in_order       what the queue receives is an interleaving (Merge) of what the serve goroutines
                           of the pooled links cut from their sockets, each link in its own order;
     one_worker_per_queue  what is handed to the core is what the queue received, in that order.

   Both hold at quiescence of every schedule of the small-step model. *)
From Ergo Require Import Common.Base Proto.Model Proto.Proofs Proto.RecvLock Proto.RecvLockProofs.

Lemma replace_nth_app {A} (ls : list A) i (x y : A) :
  (i < length ls)%nat -> replace_nth i x (ls ++ [y]) = replace_nth i x ls ++ [y].
Proof.
  revert i. induction ls as [|z ls IH]; intros i H; cbn [length] in H; [lia|].
  destruct i; cbn [replace_nth app]; [reflexivity|]. rewrite IH by lia. reflexivity.
Qed.

(* an empty list more or less does not change what can be merged *)
Lemma merge_drop_empty {A} (ls : list (list A)) out : Merge (ls ++ [[]]) out -> Merge ls out.
Proof.
  remember (ls ++ [[]]) as l eqn:E. intros H. revert ls E.
  induction H as [l Hall | l i x rest out Hi HM IH]; intros ls E; subst l.
  - apply merge_done. apply Forall_app in Hall. tauto.
  - assert (Hlt : (i < length ls)%nat).
    { destruct (Nat.lt_ge_cases i (length ls)) as [|Hge]; [assumption|].
      rewrite nth_error_app2 in Hi by exact Hge. destruct (i - length ls)%nat as [|[|?]]; cbn in Hi; discriminate. }
    rewrite nth_error_app1 in Hi by exact Hlt.
    apply merge_step with (i := i) (rest := rest); [exact Hi|].
    apply IH. apply replace_nth_app. exact Hlt.
Qed.

Lemma replace_nth_mid {A} (a b : list A) (p q : A) : replace_nth (length a) q (a ++ p :: b) = a ++ q :: b.
Proof. induction a as [|x a IH]; cbn [length replace_nth app]; [reflexivity|]. now rewrite IH. Qed.

Lemma nth_error_mid {A} (a b : list A) (p : A) : nth_error (a ++ p :: b) (length a) = Some p.
Proof. rewrite nth_error_app2 by lia. rewrite Nat.sub_diag. reflexivity. Qed.

Definition todos (t : list pc) : list (list nat) := map todo_of t.

(* whatever the goroutines still have to push, merged in any way, extends [pushed] to a merge of the links *)
Definition MInv (links : list (list nat)) (s : shared) (t : list pc) : Prop :=
  forall out, Merge (todos t) out -> Merge links (pushed s ++ out).

Lemma todo_next_push l : todo_of (next_push l) = l.
Proof. destruct l; reflexivity. Qed.

Lemma step_minv links s a p b s' p' sp :
  MInv links s (a ++ p :: b) -> step_pc false s p = Some (s', p', sp) ->
  MInv links s' (a ++ p' :: b ++ match sp with Some np => [np] | None => [] end).
Proof.
  intros HI Hs out HM.
  (* the thread's remaining frames change only in P_push; a spawned handler has none *)
  assert (Hsame : forall s1 q, pushed s1 = pushed s -> todo_of q = todo_of p ->
                  Merge (todos (a ++ q :: b)) out -> Merge links (pushed s1 ++ out)).
  { intros s1 q E1 E2 M. rewrite E1. apply HI. unfold todos in *. rewrite map_app in *. cbn [map] in *. rewrite <- E2. exact M. }
  assert (Hdrop : forall q, Merge (todos (a ++ q :: b ++ [H_pop])) out -> Merge (todos (a ++ q :: b)) out).
  { intros q M. unfold todos in *. rewrite map_app in M. cbn [map] in M. rewrite map_app in M. cbn [map todo_of] in M.
    rewrite app_comm_cons, app_assoc in M. apply merge_drop_empty in M. rewrite map_app. cbn [map]. exact M. }
  destruct p; cbn [step_pc] in Hs.
  - destruct todo as [|f todo]; injection Hs as <- <- <-; rewrite ?app_nil_r in HM.
    + apply (Hsame s Done eq_refl); [reflexivity | exact HM].
    + cbn [pushed]. rewrite <- app_assoc. cbn [app]. apply HI.
      unfold todos in *. rewrite map_app in *. cbn [map todo_of] in *.
      apply merge_step with (i := length (map todo_of a)) (rest := todo).
      * apply nth_error_mid.
      * rewrite replace_nth_mid. exact HM.
  - destruct (lock s); injection Hs as <- <- <-; rewrite ?app_nil_r in HM.
    + apply (Hsame s (next_push todo) eq_refl); [apply todo_next_push | exact HM].
    + apply (Hsame _ (P_spawn todo) eq_refl); [reflexivity | exact HM].
  - injection Hs as <- <- <-; rewrite ?app_nil_r in HM. apply (Hsame _ (P_spawn todo) eq_refl); [reflexivity | exact HM].
  - injection Hs as <- <- <-. apply (Hsame s (next_push todo) eq_refl); [apply todo_next_push|]. apply Hdrop. exact HM.
  - destruct (queue s); injection Hs as <- <- <-; rewrite ?app_nil_r in HM.
    + apply (Hsame s H_unlock eq_refl); [reflexivity | exact HM].
    + apply (Hsame _ (H_work n) eq_refl); [reflexivity | exact HM].
  - injection Hs as <- <- <-; rewrite ?app_nil_r in HM. apply (Hsame _ H_pop eq_refl); [reflexivity | exact HM].
  - injection Hs as <- <- <-; rewrite ?app_nil_r in HM. apply (Hsame _ H_item eq_refl); [reflexivity | exact HM].
  - destruct (queue s); injection Hs as <- <- <-; rewrite ?app_nil_r in HM.
    + apply (Hsame s Done eq_refl); [reflexivity | exact HM].
    + apply (Hsame s H_relock eq_refl); [reflexivity | exact HM].
  - destruct (lock s); injection Hs as <- <- <-; rewrite ?app_nil_r in HM.
    + apply (Hsame s Done eq_refl); [reflexivity | exact HM].
    + apply (Hsame _ H_pop eq_refl); [reflexivity | exact HM].
  - injection Hs as <- <- <-; rewrite ?app_nil_r in HM. apply (Hsame _ H_pop eq_refl); [reflexivity | exact HM].
  - discriminate.
Qed.

Lemma run_minv links sched : forall c,
  MInv links (sh c) (thr c) -> MInv links (sh (run false sched c)) (thr (run false sched c)).
Proof.
  induction sched as [|i tl IH]; intros c HI; cbn [run]; [exact HI|].
  destruct (step false c i) as [c'|] eqn:S; [|now apply IH]. apply IH. clear IH.
  unfold step in S. destruct (nth_error (thr c) i) as [p|] eqn:N; [|discriminate].
  destruct (step_pc false (sh c) p) as [[[s' p'] sp]|] eqn:SP; [|discriminate]. injection S as <-. cbn [sh thr].
  destruct (set_nth_split (thr c) i p p' N) as (a & b & E1 & E2). rewrite E2. rewrite E1 in HI.
  pose proof (step_minv _ _ _ _ _ _ _ _ HI SP) as R.
  destruct sp; cbn [app] in *; rewrite <- ?app_assoc in *; cbn [app] in *; [exact R|]. rewrite app_nil_r in R. exact R.
Qed.

Theorem reachable_minv links sched :
  let c := run false sched (init_cfg links) in MInv links (sh c) (thr c).
Proof.
  cbn zeta. apply run_minv.
  intros out M. unfold init_cfg in *. cbn [sh thr pushed app] in *. unfold todos in M. rewrite map_map in M. cbn [todo_of] in M.
  rewrite map_id in M. exact M.
Qed.

Lemma quiescent_todos l : forallb is_done l = true -> Forall (fun x => x = []) (todos l).
Proof.
  induction l as [|p l IH]; [constructor|]. cbn [forallb]. intros H. apply andb_true_iff in H as [Hp Hl].
  destruct p; try discriminate. constructor; [reflexivity | now apply IH].
Qed.

(* [pushed_in_order] and [one_worker_per_queue] of Section Fifo, for one queue: at quiescence of EVERY
   schedule what was handed to the core is an interleaving of the links' frame lists that drains all of
   them, each in its own order *)
Theorem recv_queue_merges_links links sched :
  let c := run false sched (init_cfg links) in
  quiescent c = true -> Merge links (pushed (sh c)) /\ delivered (sh c) = pushed (sh c).
Proof.
  cbn zeta. intros Q. split.
  - pose proof (reachable_minv links sched) as HI. cbn zeta in HI.
    specialize (HI [] (merge_done _ (quiescent_todos _ Q))). rewrite app_nil_r in HI. exact HI.
  - now apply nothing_stranded.
Qed.
