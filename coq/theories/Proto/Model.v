(* Proto engine — model of net/proto/connection.go (ENP frames), definitions only.
   Transcribed function by function from /repo/net/proto/connection.go, lib/buffer.go, lib/compress.go.
   Payloads are opaque byte strings here (EDF belongs to the Edf engine). *)
From Ergo Require Import Common.Base.
Local Open Scope Z_scope.

Definition bytes := list Z.
Definition blen (b : bytes) : Z := Z.of_nat (length b).

(* ------------------------------------------------------------------------------------------
   big-endian integers: binary.BigEndian.PutUintNN / UintNN
   ------------------------------------------------------------------------------------------ *)
Fixpoint be (n : nat) (x : Z) : bytes :=
  match n with
  | O => []
  | S k => (x / 256 ^ Z.of_nat k) mod 256 :: be k x
  end.

Fixpoint de (b : bytes) (acc : Z) : Z :=
  match b with
  | [] => acc
  | x :: tl => de tl (acc * 256 + x)
  end.

(* take n bytes: the slice b[:n], b[n:] with its bounds check *)
Definition take (n : Z) (b : bytes) : option (bytes * bytes) :=
  if (n <? 0) || (blen b <? n) then None
  else Some (firstn (Z.to_nat n) b, skipn (Z.to_nat n) b).

(* ------------------------------------------------------------------------------------------
   message kinds = the type byte (net/proto/types.go)
   ------------------------------------------------------------------------------------------ *)
Inductive kind :=
  | KPid | KName | KNameCache | KAlias | KEvent | KEventCache | KExit
  | KReqPid | KReqName | KReqNameCache | KReqAlias | KResponse | KResponseError
  | KTermPid | KTermName | KTermNameCache | KTermAlias | KTermEvent | KTermEventCache
  | KAny.

Definition all_kinds : list kind :=
  [KPid; KName; KNameCache; KAlias; KEvent; KEventCache; KExit; KReqPid; KReqName; KReqNameCache; KReqAlias;
   KResponse; KResponseError; KTermPid; KTermName; KTermNameCache; KTermAlias; KTermEvent; KTermEventCache; KAny].

Definition proto_magic : Z := 78.
Definition proto_version : Z := 1.
Definition type_z : Z := 200. (* protoMessageZ *)

Definition type_byte (k : kind) : Z :=
  match k with
  | KPid => 101 | KName => 102 | KNameCache => 103 | KAlias => 104 | KEvent => 105 | KEventCache => 106 | KExit => 107
  | KReqPid => 121 | KReqName => 122 | KReqNameCache => 123 | KReqAlias => 124 | KResponse => 129 | KResponseError => 130
  | KTermPid => 181 | KTermName => 182 | KTermNameCache => 183 | KTermAlias => 184 | KTermEvent => 185 | KTermEventCache => 186
  | KAny => 199
  end.

Definition kind_of_type (t : Z) : option kind :=
  find (fun k => type_byte k =? t) all_kinds.

(* ------------------------------------------------------------------------------------------
   a message at frame level: every fixed field any kind may carry; fields a kind does not
   carry are 0 / [] / false (see wf)
   ------------------------------------------------------------------------------------------ *)
Record msg := mk_msg {
  m_kind : kind;
  m_order : Z;          (* byte 6: selects the receive queue at the peer; 0 = none *)
  m_from : Z;           (* sender process id *)
  m_prio : Z;
  m_imp : bool;         (* important-delivery flag, bit 128 of the priority byte *)
  m_r0 : Z; m_r1 : Z; m_r2 : Z;   (* reference (r0 alone: important ref of a send / event timestamp) *)
  m_to : Z;             (* addressee process id *)
  m_a0 : Z; m_a1 : Z; m_a2 : Z;   (* addressee alias *)
  m_cache : Z;          (* atom cache id of the addressee name *)
  m_name : bytes;       (* addressee name *)
  m_code : Z;           (* response error code *)
  m_payload : bytes
}.

Definition blank (k : kind) (order : Z) : msg := mk_msg k order 0 0 false 0 0 0 0 0 0 0 0 [] 0 [].

(* the fixed fields, in wire order.  THE layout table: one line per Send* / Call* function and the
   matching case of handleRecvQueue. *)
Inductive field :=
  | FFrom              (* 8 bytes  process id from *)
  | FPrioImp           (* 1 byte   priority | 128 if important; read back as &3 and &128 *)
  | FPrioRaw           (* 1 byte   priority, read back whole *)
  | FPrioConst (c : Z) (* 1 byte   constant written, ignored by the receiver *)
  | FR0 | FR1 | FR2    (* 8 bytes each *)
  | FTo                (* 8 bytes  process id to *)
  | FA0 | FA1 | FA2    (* 8 bytes each: alias id *)
  | FCache             (* 2 bytes  atom cache id *)
  | FName              (* 1 byte length + name bytes *)
  | FCode.             (* 1 byte   response error code *)

Definition layout (k : kind) : list field :=
  match k with
  (* SendPID: B[8:16] from, B[16] prio|128, B[17:25] ref0 (only written if important), B[25:33] to *)
  | KPid => [FFrom; FPrioImp; FR0; FTo]
  (* SendProcessID: from, prio|128, ref0, B[25] len, B[26:] name  /  B[25:27] cache id *)
  | KName => [FFrom; FPrioImp; FR0; FName]
  | KNameCache => [FFrom; FPrioImp; FR0; FCache]
  (* SendAlias: from, prio|128, ref0, B[25:49] alias *)
  | KAlias => [FFrom; FPrioImp; FR0; FA0; FA1; FA2]
  (* SendEvent: from, prio, B[17:25] timestamp, name / cache id *)
  | KEvent => [FFrom; FPrioRaw; FR0; FName]
  | KEventCache => [FFrom; FPrioRaw; FR0; FCache]
  (* SendExit: from, B[16] = MessagePriorityMax, B[17:25] to *)
  | KExit => [FFrom; FPrioConst 2; FTo]
  (* CallPID: from, prio|128, B[17:41] ref, B[41:49] to *)
  | KReqPid => [FFrom; FPrioImp; FR0; FR1; FR2; FTo]
  | KReqName => [FFrom; FPrioImp; FR0; FR1; FR2; FName]
  | KReqNameCache => [FFrom; FPrioImp; FR0; FR1; FR2; FCache]
  | KReqAlias => [FFrom; FPrioImp; FR0; FR1; FR2; FA0; FA1; FA2]
  (* SendResponse: from, prio, B[17:25] to, B[25:49] ref *)
  | KResponse => [FFrom; FPrioRaw; FTo; FR0; FR1; FR2]
  (* SendResponseError: ... B[49] code *)
  | KResponseError => [FFrom; FPrioRaw; FTo; FR0; FR1; FR2; FCode]
  (* SendTerminate*: B[8] = MessagePriorityHigh, target *)
  | KTermPid => [FPrioConst 1; FTo]
  | KTermName => [FPrioConst 1; FName]
  | KTermNameCache => [FPrioConst 1; FCache]
  | KTermAlias => [FPrioConst 1; FA0; FA1; FA2]
  | KTermEvent => [FPrioConst 1; FName]
  | KTermEventCache => [FPrioConst 1; FCache]
  (* sendAny: header only *)
  | KAny => []
  end.

(* `if buf.Len() < N` guard of each case of handleRecvQueue *)
Definition min_len (k : kind) : Z :=
  match k with
  | KPid => 33 | KName => 26 | KNameCache => 28 | KAlias => 49 | KEvent => 28 | KEventCache => 28 | KExit => 26
  | KReqPid => 50 | KReqName => 43 | KReqNameCache => 43 | KReqAlias => 66 | KResponse => 49 | KResponseError => 50
  | KTermPid => 18 | KTermName => 12 | KTermNameCache => 12 | KTermAlias => 34 | KTermEvent => 12 | KTermEventCache => 12
  | KAny => 9
  end.

(* width of a field and the offset table derived from the layout *)
Definition field_width (f : field) (m : msg) : Z :=
  match f with
  | FFrom | FR0 | FR1 | FR2 | FTo | FA0 | FA1 | FA2 => 8
  | FPrioImp | FPrioRaw | FPrioConst _ | FCode => 1
  | FCache => 2
  | FName => 1 + blen (m_name m)
  end.

Fixpoint offsets_from (o : Z) (fs : list field) (m : msg) : list Z :=
  match fs with
  | [] => [o]
  | f :: tl => o :: offsets_from (o + field_width f m) tl m
  end.
(* offsets of the fixed fields followed by the payload offset *)
Definition offsets (m : msg) : list Z := offsets_from 8 (layout (m_kind m)) m.

(* --- setters --- *)
Definition set_from v m := mk_msg (m_kind m) (m_order m) v (m_prio m) (m_imp m) (m_r0 m) (m_r1 m) (m_r2 m) (m_to m) (m_a0 m) (m_a1 m) (m_a2 m) (m_cache m) (m_name m) (m_code m) (m_payload m).
Definition set_prio v i m := mk_msg (m_kind m) (m_order m) (m_from m) v i (m_r0 m) (m_r1 m) (m_r2 m) (m_to m) (m_a0 m) (m_a1 m) (m_a2 m) (m_cache m) (m_name m) (m_code m) (m_payload m).
Definition set_r0 v m := mk_msg (m_kind m) (m_order m) (m_from m) (m_prio m) (m_imp m) v (m_r1 m) (m_r2 m) (m_to m) (m_a0 m) (m_a1 m) (m_a2 m) (m_cache m) (m_name m) (m_code m) (m_payload m).
Definition set_r1 v m := mk_msg (m_kind m) (m_order m) (m_from m) (m_prio m) (m_imp m) (m_r0 m) v (m_r2 m) (m_to m) (m_a0 m) (m_a1 m) (m_a2 m) (m_cache m) (m_name m) (m_code m) (m_payload m).
Definition set_r2 v m := mk_msg (m_kind m) (m_order m) (m_from m) (m_prio m) (m_imp m) (m_r0 m) (m_r1 m) v (m_to m) (m_a0 m) (m_a1 m) (m_a2 m) (m_cache m) (m_name m) (m_code m) (m_payload m).
Definition set_to v m := mk_msg (m_kind m) (m_order m) (m_from m) (m_prio m) (m_imp m) (m_r0 m) (m_r1 m) (m_r2 m) v (m_a0 m) (m_a1 m) (m_a2 m) (m_cache m) (m_name m) (m_code m) (m_payload m).
Definition set_a0 v m := mk_msg (m_kind m) (m_order m) (m_from m) (m_prio m) (m_imp m) (m_r0 m) (m_r1 m) (m_r2 m) (m_to m) v (m_a1 m) (m_a2 m) (m_cache m) (m_name m) (m_code m) (m_payload m).
Definition set_a1 v m := mk_msg (m_kind m) (m_order m) (m_from m) (m_prio m) (m_imp m) (m_r0 m) (m_r1 m) (m_r2 m) (m_to m) (m_a0 m) v (m_a2 m) (m_cache m) (m_name m) (m_code m) (m_payload m).
Definition set_a2 v m := mk_msg (m_kind m) (m_order m) (m_from m) (m_prio m) (m_imp m) (m_r0 m) (m_r1 m) (m_r2 m) (m_to m) (m_a0 m) (m_a1 m) v (m_cache m) (m_name m) (m_code m) (m_payload m).
Definition set_cache v m := mk_msg (m_kind m) (m_order m) (m_from m) (m_prio m) (m_imp m) (m_r0 m) (m_r1 m) (m_r2 m) (m_to m) (m_a0 m) (m_a1 m) (m_a2 m) v (m_name m) (m_code m) (m_payload m).
Definition set_name v m := mk_msg (m_kind m) (m_order m) (m_from m) (m_prio m) (m_imp m) (m_r0 m) (m_r1 m) (m_r2 m) (m_to m) (m_a0 m) (m_a1 m) (m_a2 m) (m_cache m) v (m_code m) (m_payload m).
Definition set_code v m := mk_msg (m_kind m) (m_order m) (m_from m) (m_prio m) (m_imp m) (m_r0 m) (m_r1 m) (m_r2 m) (m_to m) (m_a0 m) (m_a1 m) (m_a2 m) (m_cache m) (m_name m) v (m_payload m).
Definition set_payload v m := mk_msg (m_kind m) (m_order m) (m_from m) (m_prio m) (m_imp m) (m_r0 m) (m_r1 m) (m_r2 m) (m_to m) (m_a0 m) (m_a1 m) (m_a2 m) (m_cache m) (m_name m) (m_code m) v.

(* ------------------------------------------------------------------------------------------
   build: what Send* / Call* write into the buffer
   ------------------------------------------------------------------------------------------ *)
Definition encode_field (f : field) (m : msg) : bytes :=
  match f with
  | FFrom => be 8 (m_from m)
  (* buf.B[16] = byte(options.Priority); if ImportantDelivery { buf.B[16] |= 128 } *)
  | FPrioImp => [if m_imp m then Z.lor (m_prio m mod 256) 128 else m_prio m mod 256]
  | FPrioRaw => [m_prio m mod 256]
  | FPrioConst c => [c]
  | FR0 => be 8 (m_r0 m) | FR1 => be 8 (m_r1 m) | FR2 => be 8 (m_r2 m)
  | FTo => be 8 (m_to m)
  | FA0 => be 8 (m_a0 m) | FA1 => be 8 (m_a1 m) | FA2 => be 8 (m_a2 m)
  | FCache => be 2 (m_cache m)
  (* buf.B[25] = byte(len(bname)); copy(buf.B[26:], bname) *)
  | FName => (blen (m_name m) mod 256) :: m_name m
  | FCode => [m_code m]
  end.

Definition encode_fields (fs : list field) (m : msg) : bytes := concat (map (fun f => encode_field f m) fs).

Definition body (m : msg) : bytes := encode_fields (layout (m_kind m)) m ++ m_payload m.

(* B[0] magic, B[1] version, B[2:6] uint32(buf.Len()), B[6] order, B[7] type *)
Definition header (len order ty : Z) : bytes :=
  [proto_magic; proto_version] ++ be 4 (len mod 2 ^ 32) ++ [order; ty].

Definition build (m : msg) : bytes :=
  header (8 + blen (body m)) (m_order m) (type_byte (m_kind m)) ++ body m.

(* ------------------------------------------------------------------------------------------
   parse: the `switch buf.B[7]` of handleRecvQueue, up to the payload handed to edf.Decode
   ------------------------------------------------------------------------------------------ *)
Definition decode_field (f : field) (b : bytes) (m : msg) : option (msg * bytes) :=
  match f with
  | FFrom => match take 8 b with Some (x, r) => Some (set_from (de x 0) m, r) | None => None end
  | FPrioImp => match b with x :: r => Some (set_prio (Z.land x 3) (0 <? Z.land x 128) m, r) | [] => None end
  | FPrioRaw => match b with x :: r => Some (set_prio x (m_imp m) m, r) | [] => None end
  | FPrioConst _ => match b with _ :: r => Some (m, r) | [] => None end
  | FR0 => match take 8 b with Some (x, r) => Some (set_r0 (de x 0) m, r) | None => None end
  | FR1 => match take 8 b with Some (x, r) => Some (set_r1 (de x 0) m, r) | None => None end
  | FR2 => match take 8 b with Some (x, r) => Some (set_r2 (de x 0) m, r) | None => None end
  | FTo => match take 8 b with Some (x, r) => Some (set_to (de x 0) m, r) | None => None end
  | FA0 => match take 8 b with Some (x, r) => Some (set_a0 (de x 0) m, r) | None => None end
  | FA1 => match take 8 b with Some (x, r) => Some (set_a1 (de x 0) m, r) | None => None end
  | FA2 => match take 8 b with Some (x, r) => Some (set_a2 (de x 0) m, r) | None => None end
  | FCache => match take 2 b with Some (x, r) => Some (set_cache (de x 0) m, r) | None => None end
  | FName => match b with
             | l :: r => match take l r with Some (x, r') => Some (set_name x m, r') | None => None end
             | [] => None
             end
  | FCode => match b with x :: r => Some (set_code x m, r) | [] => None end
  end.

Fixpoint decode_fields (fs : list field) (b : bytes) (m : msg) : option (msg * bytes) :=
  match fs with
  | [] => Some (m, b)
  | f :: tl => match decode_field f b m with
               | Some (m', r) => decode_fields tl r m'
               | None => None
               end
  end.

(* a frame that reached handleRecvQueue (magic, version and length were looked at by serve/read).
   None = the frame is dropped with a log line (or, for lengths between the guard and the end of
   the fixed fields, the worker panics and the connection is terminated: hostile input, see C16). *)
Definition parse (b : bytes) : option msg :=
  match b with
  | _ :: _ :: _ :: _ :: _ :: _ :: order :: ty :: rest =>
      match kind_of_type ty with
      | None => None
      | Some k =>
          if blen b <? min_len k then None
          else match decode_fields (layout k) rest (blank k order) with
               | None => None
               | Some (m, payload) =>
                   match k with
                   | KResponseError =>
                       (* switch buf.B[49] { case 0,1,2,3: ...; case 255: edf.Decode(buf.B[50:]) ; default: drop } *)
                       if (m_code m =? 255) then Some (set_payload payload m)
                       else if (0 <=? m_code m) && (m_code m <=? 3) then Some m
                       else None
                   | _ => Some (set_payload payload m)
                   end
               end
      end
  | _ => None
  end.

(* well-formed message: what a sender can pass to Send*/Call* *)
Definition u64 (x : Z) : Prop := 0 <= x < 2 ^ 64.
Definition uses (k : kind) (f : field) : bool :=
  existsb (fun g => match f, g with
                    | FFrom, FFrom | FR0, FR0 | FR1, FR1 | FR2, FR2 | FTo, FTo | FA0, FA0 | FA1, FA1 | FA2, FA2
                    | FCache, FCache | FName, FName | FCode, FCode => true
                    | FPrioImp, FPrioImp | FPrioRaw, FPrioRaw => true
                    | _, _ => false
                    end) (layout k).

Definition wf (m : msg) : Prop :=
  let k := m_kind m in
  0 <= m_order m < 256 /\
  (if uses k FFrom then u64 (m_from m) else m_from m = 0) /\
  (if uses k FPrioImp then 0 <= m_prio m < 4
   else if uses k FPrioRaw then 0 <= m_prio m < 256 /\ m_imp m = false
   else m_prio m = 0 /\ m_imp m = false) /\
  (if uses k FR0 then u64 (m_r0 m) else m_r0 m = 0) /\
  (if uses k FR1 then u64 (m_r1 m) else m_r1 m = 0) /\
  (if uses k FR2 then u64 (m_r2 m) else m_r2 m = 0) /\
  (if uses k FTo then u64 (m_to m) else m_to m = 0) /\
  (if uses k FA0 then u64 (m_a0 m) else m_a0 m = 0) /\
  (if uses k FA1 then u64 (m_a1 m) else m_a1 m = 0) /\
  (if uses k FA2 then u64 (m_a2 m) else m_a2 m = 0) /\
  (if uses k FCache then 0 <= m_cache m < 2 ^ 16 else m_cache m = 0) /\
  (if uses k FName then blen (m_name m) <= 255 else m_name m = []) /\
  (* response error: code 0..3 carries nothing, 255 carries the encoded error; everything else
     carries a non-empty payload (an EDF value is at least one byte) *)
  (if uses k FCode then (m_code m = 255 /\ m_payload m <> []) \/ (0 <= m_code m <= 3 /\ m_payload m = [])
   else m_code m = 0 /\ m_payload m <> []) /\
  (* the guard of the event / terminate-by-name cases is one byte longer than an empty name with
     a one-byte payload; no EDF value is that short (the shortest, a bool, takes two bytes) *)
  (match k with KEvent | KTermName | KTermEvent => 2 <= blen (m_name m) + blen (m_payload m) | _ => True end) /\
  8 + blen (body m) < 2 ^ 32.

(* ------------------------------------------------------------------------------------------
   read(): stream reassembly.  buffer = bytes received and not yet cut into a frame
   ------------------------------------------------------------------------------------------ *)
Inductive lstate := Open (buf : bytes) | Closed.

Inductive rd := NeedMore | Frame (f tail : bytes) | TooLong | Bad.

(* l := int(binary.BigEndian.Uint32(buf.B[2:6])) *)
Definition frame_len (buf : bytes) : Z := de (firstn 4 (skipn 2 buf)) 0.

(* one pass of the loop of read() over the bytes held so far:
     if buf.Len() < expect(8) -> read more
     l < 8 -> error "declared length is shorter than the header" (since cda3993; before that serve()
              indexed out of range): Bad, the link is closed; hostile input, C16
     l > node_maxmessagesize (if set) -> error
     buf.Len() < l -> read more
     else  tail := buf.B[l:]; buf.B = buf.B[:l] *)
Definition read_step (maxsize : Z) (buf : bytes) : rd :=
  if blen buf <? 8 then NeedMore
  else let l := frame_len buf in
       if l <? 8 then Bad
       else if (0 <? maxsize) && (maxsize <? l) then TooLong
       else if blen buf <? l then NeedMore
       else Frame (firstn (Z.to_nat l) buf) (skipn (Z.to_nat l) buf).

(* serve(): buf.B[0] != protoMagic / buf.B[1] != protoVersion -> close the link *)
Definition header_ok (f : bytes) : bool :=
  match f with
  | mg :: ver :: _ => (mg =? proto_magic) && (ver =? proto_version)
  | _ => false
  end.

(* serve() loop: read() is called again with the tail as the new buffer, so every complete frame
   already received is cut before more bytes are awaited *)
Fixpoint drain (fuel : nat) (maxsize : Z) (buf : bytes) : list bytes * lstate :=
  match fuel with
  | O => ([], Open buf)
  | S n =>
      match read_step maxsize buf with
      | NeedMore => ([], Open buf)
      | TooLong | Bad => ([], Closed)
      | Frame f tail =>
          if header_ok f then let (fs, st) := drain n maxsize tail in (f :: fs, st)
          else ([], Closed)
      end
  end.

(* cut : buffer -> chunk -> (frames, buffer) *)
Definition cut (maxsize : Z) (st : lstate) (chunk : bytes) : list bytes * lstate :=
  match st with
  | Closed => ([], Closed)
  | Open buf => let b := buf ++ chunk in drain (S (length b)) maxsize b
  end.

Fixpoint cut_all (maxsize : Z) (st : lstate) (chunks : list bytes) : list bytes * lstate :=
  match chunks with
  | [] => ([], st)
  | c :: tl => let (fs, st') := cut maxsize st c in
               let (fs', st'') := cut_all maxsize st' tl in (fs ++ fs', st'')
  end.

(* a frame the receiver accepts as is *)
Definition good_frame (maxsize : Z) (f : bytes) : Prop :=
  header_ok f = true /\ 8 <= blen f /\ frame_len f = blen f /\ (maxsize <= 0 \/ blen f <= maxsize).

(* ------------------------------------------------------------------------------------------
   compression envelope (send(), case protoMessageZ) over an abstract codec
   ------------------------------------------------------------------------------------------ *)
Record comp := mk_comp { c_enable : bool; c_type : Z; c_threshold : Z }.

Definition ctype_lzw : Z := 100.
Definition ctype_zlib : Z := 101.
Definition ctype_gzip : Z := 102.
Definition valid_ctype (t : Z) : bool := (t =? ctype_lzw) || (t =? ctype_zlib) || (t =? ctype_gzip).
(* switch compression.Type { case ZLIB ..; case LZW ..; default: compression.Type = GZIP } *)
Definition norm_ctype (t : Z) : Z := if (t =? ctype_lzw) || (t =? ctype_zlib) then t else ctype_gzip.

(* kinds whose Send function checks peer_maxmessagesize before send() as well *)
Definition precheck (k : kind) : bool :=
  match k with
  | KName | KNameCache | KAlias | KEvent | KEventCache | KResponse => true
  | _ => false
  end.

Section Codec.
  Variable compress : Z -> bytes -> bytes.           (* type id, data *)
  Variable decompress : Z -> bytes -> option bytes.

  (* zbuf: 9 bytes preallocated (header + type id), 4 bytes original length, compressed stream;
     zbuf.B[6] = buf.B[6] keeps the order byte *)
  Definition wrap (t : Z) (f : bytes) : bytes :=
    let z := compress t f in
    header (13 + blen z) (nth 6 f 0) type_z ++ [t] ++ be 4 (blen f mod 2 ^ 32) ++ z.

  (* case protoMessageZ: Len < 10 -> drop; DecompressX(buf, 9): Len < 13 -> error;
     dst.Allocate(lenUnpacked); total != len(dst) -> error *)
  Definition unwrap (zf : bytes) : option bytes :=
    if blen zf <? 10 then None
    else let t := nth 8 zf 0 in
         if valid_ctype t then
           if blen zf <? 13 then None
           else match decompress t (skipn 13 zf) with
                | Some x => if blen x =? de (firstn 4 (skipn 9 zf)) 0 then Some x else None
                | None => None
                end
         else None.

  (* send(): if compression.Enable && buf.Len() > compression.Threshold { ... } *)
  Definition wire (c : comp) (f : bytes) : bytes :=
    if c_enable c && (c_threshold c <? blen f) then wrap (norm_ctype (c_type c)) f else f.

  (* None = gen.ErrTooLarge, nothing is written to any link *)
  Definition send_frame (peer_max : Z) (k : kind) (c : comp) (f : bytes) : option bytes :=
    if precheck k && (0 <? peer_max) && (peer_max <? blen f) then None
    else let w := wire c f in
         if (0 <? peer_max) && (peer_max <? blen w) then None else Some w.

  Definition emitted (o : option bytes) : bytes := match o with Some w => w | None => [] end.

  (* handleRecvQueue on one frame: `re:` switch, protoMessageZ -> decompress, goto re *)
  Fixpoint recv (fuel : nat) (f : bytes) : option msg :=
    match fuel with
    | O => None
    | S n => if nth 7 f 0 =? type_z
             then match unwrap f with Some inner => recv n inner | None => None end
             else parse f
    end.
End Codec.

(* ------------------------------------------------------------------------------------------
   what the receiving core sees (the Route* call) and the acknowledgement of important messages
   ------------------------------------------------------------------------------------------ *)
Inductive route :=
  | RSendPid | RSendName | RSendAlias | RSendEvent | RSendExit | RResponse | RResponseError
  | RCallPid | RCallName | RCallAlias | RTermPid | RTermName | RTermAlias | RTermEvent | RAny.

Record call := mk_call {
  c_route : route; c_from : Z; c_to : Z; c_name : bytes; c_alias : Z * Z * Z;
  c_prio : Z; c_ref : Z * Z * Z; c_code : Z; c_payload : bytes
}.

Section Deliver.
  Variable atom_of_cache : Z -> option bytes.   (* decodeOptions.AtomCache *)

  Definition cached_name (m : msg) (k : bytes -> call) : option call :=
    match atom_of_cache (m_cache m) with Some n => Some (k n) | None => None end.

  Definition z3 : Z * Z * Z := (0, 0, 0).

  Definition deliver (m : msg) : option call :=
    let ref := (m_r0 m, m_r1 m, m_r2 m) in
    let al := (m_a0 m, m_a1 m, m_a2 m) in
    match m_kind m with
    | KPid => Some (mk_call RSendPid (m_from m) (m_to m) [] z3 (m_prio m) z3 0 (m_payload m))
    | KName => Some (mk_call RSendName (m_from m) 0 (m_name m) z3 (m_prio m) z3 0 (m_payload m))
    | KNameCache => cached_name m (fun n => mk_call RSendName (m_from m) 0 n z3 (m_prio m) z3 0 (m_payload m))
    | KAlias => Some (mk_call RSendAlias (m_from m) 0 [] al (m_prio m) z3 0 (m_payload m))
    | KEvent => Some (mk_call RSendEvent (m_from m) 0 (m_name m) z3 (m_prio m) (m_r0 m, 0, 0) 0 (m_payload m))
    | KEventCache => cached_name m (fun n => mk_call RSendEvent (m_from m) 0 n z3 (m_prio m) (m_r0 m, 0, 0) 0 (m_payload m))
    | KExit => Some (mk_call RSendExit (m_from m) (m_to m) [] z3 0 z3 0 (m_payload m))
    | KReqPid => Some (mk_call RCallPid (m_from m) (m_to m) [] z3 (m_prio m) ref 0 (m_payload m))
    | KReqName => Some (mk_call RCallName (m_from m) 0 (m_name m) z3 (m_prio m) ref 0 (m_payload m))
    | KReqNameCache => cached_name m (fun n => mk_call RCallName (m_from m) 0 n z3 (m_prio m) ref 0 (m_payload m))
    | KReqAlias => Some (mk_call RCallAlias (m_from m) 0 [] al (m_prio m) ref 0 (m_payload m))
    | KResponse => Some (mk_call RResponse (m_from m) (m_to m) [] z3 (m_prio m) ref 0 (m_payload m))
    | KResponseError => Some (mk_call RResponseError (m_from m) (m_to m) [] z3 (m_prio m) ref (m_code m) (m_payload m))
    | KTermPid => Some (mk_call RTermPid 0 (m_to m) [] z3 0 z3 0 (m_payload m))
    | KTermName => Some (mk_call RTermName 0 0 (m_name m) z3 0 z3 0 (m_payload m))
    | KTermNameCache => cached_name m (fun n => mk_call RTermName 0 0 n z3 0 z3 0 (m_payload m))
    | KTermAlias => Some (mk_call RTermAlias 0 0 [] al 0 z3 0 (m_payload m))
    | KTermEvent => Some (mk_call RTermEvent 0 0 (m_name m) z3 0 z3 0 (m_payload m))
    | KTermEventCache => cached_name m (fun n => mk_call RTermEvent 0 0 n z3 0 z3 0 (m_payload m))
    | KAny => Some (mk_call RAny 0 0 [] z3 0 z3 0 (m_payload m))
    end.
End Deliver.

(* the response error the receiver sends back for an important message.
   result = code of what Route* returned (0 = nil), rpay = the encoded error when result = 255.
     Send*:  always, ref = (the 8-byte ref of the message, 0, 0)
     Call*:  only if Route* failed, ref = the request's ref
   c.SendResponseError(to | gen.PID{}, from, opts{Priority, Ref}, err): KeepNetworkOrder is false
   in these options, so both order bytes are 0. *)
Definition resp_err (from to prio : Z) (r : Z * Z * Z) (code : Z) (pay : bytes) : msg :=
  let '(r0, r1, r2) := r in
  mk_msg KResponseError 0 from prio false r0 r1 r2 to 0 0 0 0 [] code (if code =? 255 then pay else []).

Definition ack (node_important : bool) (m : msg) (result : Z) (rpay : bytes) : option msg :=
  if m_imp m && node_important then
    match m_kind m with
    | KPid => Some (resp_err (m_to m) (m_from m) (m_prio m) (m_r0 m, 0, 0) result rpay)
    | KName | KNameCache | KAlias => Some (resp_err 0 (m_from m) (m_prio m) (m_r0 m, 0, 0) result rpay)
    | KReqPid => if result =? 0 then None else Some (resp_err (m_to m) (m_from m) (m_prio m) (m_r0 m, m_r1 m, m_r2 m) result rpay)
    | KReqName | KReqNameCache | KReqAlias =>
        if result =? 0 then None else Some (resp_err 0 (m_from m) (m_prio m) (m_r0 m, m_r1 m, m_r2 m) result rpay)
    | _ => None
    end
  else None.

(* ------------------------------------------------------------------------------------------
   order bytes, link and receive-queue selection (C13)
   ------------------------------------------------------------------------------------------ *)
(* order := uint8(from.ID%255) + 1      (1..255; 0 is reserved for "no order") *)
Definition order_of_id (id : Z) : Z := id mod 255 + 1.

(* what a request asks for *)
Inductive addr := ToPid (id : Z) | ToName | ToAlias (a1 : Z) | ToNone.

(* the `order` argument of send(): from-based; 0 when KeepNetworkOrder is off.
   always_keep: SendExit does not look at the option *)
Definition link_order (keep : bool) (from : Z) : Z := if keep then order_of_id from else 0.

(* byte 6 (orderPeer): to-based for pids and aliases (second word), the sender's own order for
   names and events, 0 when KeepNetworkOrder is off *)
Definition peer_order (keep : bool) (from : Z) (a : addr) : Z :=
  if keep then
    match a with
    | ToPid id => order_of_id id
    | ToAlias a1 => order_of_id a1
    | ToName => order_of_id from
    | ToNone => 0
    end
  else 0.

(* send(): if order == 0 { neworder := atomic.AddUint32(&c.order, 1); n := int(neworder) % l }
           else { n := int(order) % l }       returns (pool index, new round-robin counter) *)
Definition link_sel (order l rr : Z) : Z * Z :=
  if order =? 0 then let rr' := (rr + 1) mod 2 ^ 32 in (rr' mod l, rr')
  else (order mod l, rr).
Definition link_of (order l : Z) : Z := order mod l.

(* serve(): recvN++; qN := recvN % recvNQ; if order := int(buf.B[6]); order > 0 { qN = order % recvNQ } *)
Definition queue_sel (order nq recvN : Z) : Z :=
  if 0 <? order then order mod nq else recvN mod nq.
Definition queue_of (order nq : Z) : Z := order mod nq.

(* the pool of links at the sender: Join appends; a lost link i is removed by
     c.pool[i] = c.pool[0]; c.pool = c.pool[1:] *)
Definition pool_join (pool : list Z) (id : Z) : list Z := pool ++ [id].
Fixpoint replace_nth {A} (n : nat) (x : A) (l : list A) : list A :=
  match l, n with
  | [], _ => []
  | _ :: tl, O => x :: tl
  | y :: tl, S k => y :: replace_nth k x tl
  end.
Fixpoint index_of (id : Z) (l : list Z) : option nat :=
  match l with
  | [] => None
  | x :: tl => if x =? id then Some O else match index_of id tl with Some k => Some (S k) | None => None end
  end.
Definition pool_drop (pool : list Z) (id : Z) : list Z :=
  match index_of id pool, pool with
  | Some i, p0 :: _ => tl (replace_nth i p0 pool)
  | _, _ => pool
  end.
