(* Proto engine - the DIALING side of a pool link: handshake tails and the re-dial loop of
   connection.Join (net/proto/connection.go).  Definitions only; proofs in RedialProofs.v. *)
From Ergo Require Import Common.Base Proto.Model.
Local Open Scope Z_scope.

(* One epoch of a link = one TCP socket.  What the receiving side sees of it:
     e_tail   : the bytes the handshake had read beyond its last message (Join's `tail`
                argument / second result of the dial function);
     e_chunks : what the Read calls on the socket returned, in order, until the link dropped. *)
Record epoch := mk_epoch { e_tail : bytes; e_chunks : list bytes }.

Definition e_stream (e : epoch) : bytes := e_tail e ++ concat (e_chunks e).

(* func (c *connection) serve(conn net.Conn, tail []byte) int {
     buf := lib.TakeBuffer(); buf.Append(tail)
     for { buftail, err := c.read(conn, buf); if err != nil || buftail == nil { ...; return recvN }
           ...; recvN++; queue.Push(buf); buf = buftail } }
   read() looks at the buffer before it reads from the socket, so the tail is simply the first
   chunk: complete frames in it are cut at once, a partial frame at its end is completed by the
   socket bytes.  When the socket fails (EOF, error) the rest of the buffer - a cut frame - is
   released: it is lost with the link. *)
Definition serve_state (maxsize : Z) (e : epoch) : list bytes * lstate :=
  cut_all maxsize (Open []) (e_tail e :: e_chunks e).
Definition serve (maxsize : Z) (e : epoch) : list bytes := fst (serve_state maxsize e).

Definition is_nil {A} (l : list A) : bool := match l with [] => true | _ => false end.

(* may the Join goroutine dial again after serve() returned `received` frames?
     if dial != nil && (redialed == false || received > 0) { ... } *)
Definition may_redial (redialed : bool) (fs : list bytes) : bool := negb redialed || negb (is_nil fs).

(* go func() {
     redialed := false
   re:
     if redialed { pi.fl = lib.NewFlusher(pi.connection) }       (since 677474c)
     received := c.serve(pi.connection, tail)
     if dial != nil && (redialed == false || received > 0) {
        for _, dsn := range pool_dsn { nc, t, err := dial(dsn, id); if err != nil { continue }
                                       pi.connection = nc; tail = t; redialed = true; goto re } }
     ... remove pi from the pool }
   `eps` = this link's epochs: the head is what Join was given, the others are what the dial
   function returns, one after the other; no more epochs = every dial fails.
   Result: the frames pushed to the receive queues, epoch by epoch. *)
Fixpoint join_loop (maxsize : Z) (redialed : bool) (eps : list epoch) : list (list bytes) :=
  match eps with
  | [] => []
  | e :: rest =>
      let fs := serve maxsize e in
      fs :: (if may_redial redialed fs then join_loop maxsize true rest else [])
  end.

Definition link_received (maxsize : Z) (eps : list epoch) : list bytes := concat (join_loop maxsize false eps).

(* the same loop over what the epochs ought to yield (used to state the theorem) *)
Fixpoint served (redialed : bool) (fss : list (list bytes)) : list (list bytes) :=
  match fss with
  | [] => []
  | fs :: rest => fs :: (if may_redial redialed fs then served true rest else [])
  end.

(* a buffer content in which read() finds no frame and no error: fewer than 8 bytes, or the
   beginning of a frame *)
Definition incomplete (maxsize : Z) (p : bytes) : Prop := drain (S (length p)) maxsize p = ([], Open p).

(* one epoch's stream = whole frames followed by the part of a frame the drop cut *)
Definition epoch_yields (maxsize : Z) (e : epoch) (fs : list bytes) : Prop :=
  exists p, e_stream e = concat fs ++ p /\ Forall (good_frame maxsize) fs /\ incomplete maxsize p.

(* ---- the variant that serves every re-dialed socket with the tail of the FIRST join (what
        `nc, tail, err := dial(dsn, id)` inside the loop body does: the new tail is a new variable) *)
Fixpoint join_loop_first_tail (maxsize : Z) (tail0 : bytes) (redialed : bool) (eps : list epoch) : list (list bytes) :=
  match eps with
  | [] => []
  | e :: rest =>
      let fs := serve maxsize (mk_epoch tail0 (e_chunks e)) in
      fs :: (if may_redial redialed fs then join_loop_first_tail maxsize tail0 true rest else [])
  end.
Definition link_received_first_tail (maxsize : Z) (eps : list epoch) : list bytes :=
  match eps with
  | [] => []
  | e :: _ => concat (join_loop_first_tail maxsize (e_tail e) false eps)
  end.

(* in-order sub-sequence *)
Inductive Subseq {A} : list A -> list A -> Prop :=
| subseq_nil l : Subseq [] l
| subseq_take x a l : Subseq a l -> Subseq (x :: a) (x :: l)
| subseq_skip x a l : Subseq a l -> Subseq a (x :: l).

(* the frames written to a link, and the runs of them that reached the receiver whole, epoch by
   epoch: sent = g0 ++ fs0 ++ g1 ++ fs1 ++ ... (the g's were cut by a drop or never left the sender) *)
Inductive Segments {A} : list A -> list (list A) -> Prop :=
| seg_done g : Segments g []
| seg_step g fs rest fss : Segments rest fss -> Segments (g ++ fs ++ rest) (fs :: fss).
