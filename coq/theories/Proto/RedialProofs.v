(* Proto engine - proofs about handshake tails and the re-dial loop (model in Redial.v). *)
From Ergo Require Import Common.Base Proto.Model Proto.Proofs Proto.Redial.
Local Open Scope Z_scope.

(* ==========================================================================================
   serve(conn, tail): only the concatenation tail ++ socket bytes matters
   ========================================================================================== *)
Lemma serve_state_stream maxsize e : serve_state maxsize e = drain_all maxsize (e_stream e).
Proof. unfold serve_state, e_stream. rewrite cut_all_stream. reflexivity. Qed.

Theorem serve_stream maxsize e : serve maxsize e = fst (drain_all maxsize (e_stream e)).
Proof. unfold serve. now rewrite serve_state_stream. Qed.

(* any split of a link's stream into (tail, reads): same frames, same final state *)
Theorem serve_split_irrelevant maxsize e1 e2 :
  e_stream e1 = e_stream e2 -> serve_state maxsize e1 = serve_state maxsize e2.
Proof. intros H. now rewrite !serve_state_stream, H. Qed.

(* in particular: moving any prefix of the socket bytes into the tail changes nothing *)
Corollary tail_position_irrelevant maxsize (s : bytes) n chunks chunks' :
  concat chunks = skipn n s -> concat chunks' = s ->
  serve maxsize (mk_epoch (firstn n s) chunks) = serve maxsize (mk_epoch [] chunks').
Proof.
  intros H1 H2. unfold serve. f_equal. apply serve_split_irrelevant. unfold e_stream. cbn [e_tail e_chunks].
  rewrite H1, H2, firstn_skipn. reflexivity.
Qed.

(* ==========================================================================================
   whole frames followed by a cut frame
   ========================================================================================== *)
Lemma incomplete_nil maxsize : incomplete maxsize [].
Proof. reflexivity. Qed.

(* a proper prefix of a frame the receiver accepts is incomplete: read() asks for more bytes *)
Lemma prefix_incomplete maxsize f p q : good_frame maxsize f -> f = p ++ q -> q <> [] -> incomplete maxsize p.
Proof.
  intros (Hh & H8 & Hl & Hmax) Hf Hq. unfold incomplete. cbn [drain].
  assert (Hlen : blen p < blen f).
  { rewrite Hf, blen_app. pose proof (blen_nonempty q Hq). lia. }
  assert (E : read_step maxsize p = NeedMore).
  { unfold read_step. destruct (blen p <? 8) eqn:E1; [reflexivity|].
    assert (Hfl : frame_len p = blen f).
    { rewrite <- Hl, Hf. symmetry. apply frame_len_app. lia. }
    rewrite Hfl.
    destruct (blen f <? 8) eqn:E2; [lia|].
    destruct ((0 <? maxsize) && (maxsize <? blen f)) eqn:E3; [lia|].
    destruct (blen p <? blen f) eqn:E4; [reflexivity | lia]. }
  now rewrite E.
Qed.

Lemma drain_all_good_app maxsize frames p :
  Forall (good_frame maxsize) frames ->
  drain_all maxsize (concat frames ++ p) = let (fs', st) := drain_all maxsize p in (frames ++ fs', st).
Proof.
  intros Hall.
  rewrite (drain_all_app maxsize (S (length (concat frames))) (concat frames) p) by lia.
  fold (drain_all maxsize (concat frames)). rewrite (drain_all_good maxsize frames Hall).
  reflexivity.
Qed.

(* the frames of an epoch: exactly the whole ones, in order; the cut one stays in the buffer and
   is released when the socket fails *)
Theorem serve_epoch maxsize e fs : epoch_yields maxsize e fs -> serve maxsize e = fs.
Proof.
  intros (p & Hs & Hall & Hp). rewrite serve_stream, Hs, (drain_all_good_app _ _ _ Hall).
  unfold incomplete in Hp. fold (drain_all maxsize p) in Hp. rewrite Hp. cbn [fst]. apply app_nil_r.
Qed.

(* ==========================================================================================
   the re-dial loop
   ========================================================================================== *)
Theorem join_loop_served maxsize : forall eps fss redialed,
  Forall2 (epoch_yields maxsize) eps fss -> join_loop maxsize redialed eps = served redialed fss.
Proof.
  induction eps as [|e eps IH]; intros fss r H; inversion H as [|? fs ? rest He Hrest]; subst; [reflexivity|].
  cbn [join_loop served]. rewrite (serve_epoch _ _ _ He).
  destruct (may_redial r fs); [|reflexivity]. f_equal. now apply IH.
Qed.

Lemma served_all : forall fss r, Forall (fun fs => fs <> []) (tl fss) -> (r = false \/ Forall (fun fs => fs <> []) fss) -> served r fss = fss.
Proof.
  induction fss as [|fs rest IH]; intros r Htl Hr; [reflexivity|]. cbn [served]. cbn [tl] in Htl.
  assert (E : may_redial r fs = true).
  { unfold may_redial. destruct Hr as [-> | Hall]; [reflexivity|].
    inversion Hall; subst. destruct fs; [congruence|]. cbn. apply orb_true_r. }
  rewrite E. f_equal. apply IH.
  - destruct rest; [constructor|]. cbn [tl]. now inversion Htl.
  - right. exact Htl.
Qed.

(* Exactly the frames of the epochs' streams up to the cut points, each once, in order - for every
   split of every epoch into (tail, reads), provided no re-dialed socket was closed again before a
   whole frame (that is a refused join: the loop stops, see served) *)
Theorem redial_exact maxsize eps fss :
  Forall2 (epoch_yields maxsize) eps fss ->
  Forall (fun fs => fs <> []) (tl fss) ->
  link_received maxsize eps = concat fss.
Proof.
  intros H Hne. unfold link_received. rewrite (join_loop_served _ _ _ _ H).
  rewrite served_all; auto.
Qed.

(* without the proviso: the frames of the epochs up to and including the first refused one *)
Theorem redial_exact_general maxsize eps fss :
  Forall2 (epoch_yields maxsize) eps fss -> link_received maxsize eps = concat (served false fss).
Proof. intros H. unfold link_received. now rewrite (join_loop_served _ _ _ _ H). Qed.

(* the number of sockets served = 1 + successful re-dials *)
Lemma served_length_le : forall fss r, (length (served r fss) <= length fss)%nat.
Proof. induction fss as [|fs rest IH]; intros r; cbn [served length]; [lia|]. destruct (may_redial r fs); [specialize (IH true)|cbn [length]]; lia. Qed.

(* ==========================================================================================
   in order, each once, with respect to what the peer wrote to the link
   ========================================================================================== *)
Section Order.
  Context {A : Type}.

  Lemma subseq_refl (l : list A) : Subseq l l.
  Proof. induction l; constructor; assumption. Qed.

  Lemma subseq_app_skip (g a l : list A) : Subseq a l -> Subseq a (g ++ l).
  Proof. induction g; cbn [app]; [auto|]. intros H. apply subseq_skip. auto. Qed.

  Lemma subseq_app_take (f a l : list A) : Subseq a l -> Subseq (f ++ a) (f ++ l).
  Proof. induction f; cbn [app]; [auto|]. intros H. apply subseq_take. auto. Qed.

  Lemma segments_subseq (sent : list A) fss : Segments sent fss -> Subseq (concat fss) sent.
  Proof.
    induction 1 as [g | g fs rest fss _ IH]; cbn [concat]; [constructor|].
    apply subseq_app_skip, subseq_app_take, IH.
  Qed.

  Lemma subseq_filter (P : A -> bool) (a l : list A) : Subseq a l -> Subseq (filter P a) (filter P l).
  Proof.
    induction 1 as [l | x a l _ IH | x a l _ IH]; cbn [filter].
    - constructor.
    - destruct (P x); [constructor|]; assumption.
    - destruct (P x); [apply subseq_skip|]; assumption.
  Qed.

  Lemma subseq_in (a l : list A) x : Subseq a l -> In x a -> In x l.
  Proof.
    induction 1 as [l | y a l _ IH | y a l _ IH]; intros Hin.
    - destruct Hin.
    - destruct Hin as [-> | Hin]; [left; reflexivity | right; auto].
    - right; auto.
  Qed.

  Lemma subseq_nodup (a l : list A) : Subseq a l -> NoDup l -> NoDup a.
  Proof.
    induction 1 as [l | y a l Hs IH | y a l _ IH]; intros Hnd.
    - constructor.
    - inversion Hnd; subst. constructor; [|auto]. intros Hin. eapply subseq_in in Hin; eauto.
    - inversion Hnd; subst. auto.
  Qed.
End Order.

(* ==========================================================================================
   FIFO per pair when links lose frames: C13 fifo restated over what each link received
   ========================================================================================== *)
Section FifoLossy.
  Context {A : Type}.
  Variable link queue : A -> nat.
  Variable nl nq : nat.
  Variable received_on : nat -> list A.
  Hypothesis received_link : forall i x, In x (received_on i) -> link x = i.

  Lemma filter_all (P : A -> bool) (l : list A) : (forall x, In x l -> P x = true) -> filter P l = l.
  Proof.
    induction l as [|x l IH]; intros H; [reflexivity|]. cbn [filter].
    rewrite (H x (or_introl eq_refl)). f_equal. apply IH. intros y Hy. apply H. now right.
  Qed.

  Lemma filter_link_concat : forall (l : list nat) i, NoDup l ->
    filter (fun x => Nat.eqb (link x) i) (concat (map received_on l)) = if in_dec Nat.eq_dec i l then received_on i else [].
  Proof.
    induction l as [|j l IH]; intros i Hnd; [reflexivity|].
    inversion Hnd as [|? ? Hnin Hnd']; subst. cbn [map concat]. rewrite filter_app, (IH i Hnd').
    destruct (Nat.eq_dec j i) as [-> | Hne].
    - assert (E : filter (fun x => Nat.eqb (link x) i) (received_on i) = received_on i).
      { apply filter_all. intros x Hx. apply Nat.eqb_eq. now apply received_link. }
      rewrite E. destruct (in_dec Nat.eq_dec i l) as [Hin|_]; [contradiction|].
      destruct (in_dec Nat.eq_dec i (i :: l)) as [_|Hn]; [apply app_nil_r | exfalso; apply Hn; now left].
    - assert (E : filter (fun x => Nat.eqb (link x) i) (received_on j) = []).
      { apply filter_none. intros x Hx. apply Nat.eqb_neq. rewrite (received_link _ _ Hx). exact Hne. }
      rewrite E. cbn [app].
      destruct (in_dec Nat.eq_dec i l) as [Hin|Hnin']; destruct (in_dec Nat.eq_dec i (j :: l)) as [Hin2|Hnin2]; try reflexivity.
      + exfalso. apply Hnin2. now right.
      + destruct Hin2 as [-> | Hin2]; [congruence | contradiction].
  Qed.

  Variable arrived : list (list A).
  Hypothesis arrived_len : length arrived = nq.
  Hypothesis pushed_in_order : forall q, (q < nq)%nat ->
    Merge (map (fun i => filter (fun x => Nat.eqb (queue x) q) (received_on i)) (seq 0 nl)) (nth q arrived []).
  Variable delivered : list A.
  Hypothesis one_worker_per_queue : Merge arrived delivered.

  Theorem fifo_lossy (P : A -> bool) (i0 q0 : nat) :
    (forall x, P x = true -> link x = i0 /\ queue x = q0) ->
    (i0 < nl)%nat -> (q0 < nq)%nat ->
    filter P delivered = filter P (received_on i0).
  Proof.
    intros Hsel Hi Hq.
    set (sent := concat (map received_on (seq 0 nl))).
    assert (Htcp : forall i, (i < nl)%nat -> received_on i = filter (fun x => Nat.eqb (link x) i) sent).
    { intros i Hlt. unfold sent. rewrite filter_link_concat by apply seq_NoDup.
      destruct (in_dec Nat.eq_dec i (seq 0 nl)) as [_|Hn]; [reflexivity|]. exfalso. apply Hn. apply in_seq. lia. }
    set (rcv := fun i => filter (fun x => Nat.eqb (link x) i) sent).
    assert (Hpush : forall q, (q < nq)%nat ->
      Merge (map (fun i => filter (fun x => Nat.eqb (queue x) q) (rcv i)) (seq 0 nl)) (nth q arrived [])).
    { intros q Hlt. pose proof (pushed_in_order q Hlt) as H.
      erewrite map_ext_in; [exact H|]. intros i Hin. apply in_seq in Hin. unfold rcv. rewrite <- Htcp by lia. reflexivity. }
    rewrite (fifo link queue nl nq sent rcv (fun i => eq_refl) arrived arrived_len Hpush delivered one_worker_per_queue P i0 q0 Hsel Hi Hq).
    rewrite (Htcp i0 Hi). fold sent. symmetry. apply filter_filter_imp.
    intros x Hx. destruct (Hsel x Hx) as [-> _]. apply Nat.eqb_refl.
  Qed.
End FifoLossy.

(* per pair, across drops and re-dials of its link: what is delivered is what the link's epochs
   received whole, in the order sent, nothing twice *)
Theorem fifo_redial {A} (link queue : A -> nat) (nl nq : nat) (received_on : nat -> list A)
    (arrived : list (list A)) (delivered : list A) (sent_on : nat -> list A) (epochs_of : nat -> list (list A))
    (P : A -> bool) (i0 q0 : nat) :
  (forall i x, In x (received_on i) -> link x = i) ->
  length arrived = nq ->
  (forall q, (q < nq)%nat ->
     Merge (map (fun i => filter (fun x => Nat.eqb (queue x) q) (received_on i)) (seq 0 nl)) (nth q arrived [])) ->
  Merge arrived delivered ->
  (forall x, P x = true -> link x = i0 /\ queue x = q0) -> (i0 < nl)%nat -> (q0 < nq)%nat ->
  (* the link's receiver went through the epochs (redial_exact), which are runs of what was written *)
  received_on i0 = concat (epochs_of i0) -> Segments (sent_on i0) (epochs_of i0) ->
  filter P delivered = filter P (concat (epochs_of i0)) /\
  Subseq (filter P delivered) (filter P (sent_on i0)) /\
  (NoDup (sent_on i0) -> NoDup (filter P delivered)).
Proof.
  intros Hl Hlen Hpush Hm Hsel Hi Hq Hrcv Hseg.
  assert (E : filter P delivered = filter P (concat (epochs_of i0))).
  { rewrite <- Hrcv. eapply fifo_lossy; eauto. }
  split; [exact E|]. rewrite E.
  assert (Hs : Subseq (filter P (concat (epochs_of i0))) (filter P (sent_on i0))).
  { apply subseq_filter, segments_subseq, Hseg. }
  split; [exact Hs|]. intros Hnd. eapply subseq_nodup; [exact Hs|]. now apply NoDup_filter.
Qed.

(* ==========================================================================================
   the variant that re-serves the first tail is refuted
   ========================================================================================== *)
Definition fr (k : Z) : bytes := header 9 1 10 ++ [k].

Lemma fr_good k : good_frame 0 (fr k).
Proof.
  unfold good_frame. split; [reflexivity|]. split; [vm_compute; discriminate|]. split; [vm_compute; reflexivity|]. left; lia.
Qed.

(* the stream 1..8 of the seeded scenario: join with tail = 1 2, 3 4 5 over the socket, drop, the
   re-dial returns tail = 6, then 7 8 *)
Definition ex_eps : list epoch :=
  [mk_epoch (fr 1 ++ fr 2) [fr 3; fr 4 ++ fr 5]; mk_epoch (fr 6) [fr 7 ++ fr 8]].
Definition ex_fss : list (list bytes) := [[fr 1; fr 2; fr 3; fr 4; fr 5]; [fr 6; fr 7; fr 8]].

Example ex_yields : Forall2 (epoch_yields 0) ex_eps ex_fss.
Proof.
  constructor; [|constructor; [|constructor]].
  - exists []. split; [vm_compute; reflexivity|]. split; [|apply incomplete_nil].
    repeat (constructor; [apply fr_good|]). constructor.
  - exists []. split; [vm_compute; reflexivity|]. split; [|apply incomplete_nil].
    repeat (constructor; [apply fr_good|]). constructor.
Qed.

Example ex_correct : link_received 0 ex_eps = map fr [1; 2; 3; 4; 5; 6; 7; 8].
Proof. rewrite (redial_exact 0 ex_eps ex_fss ex_yields); [reflexivity|]. repeat constructor; discriminate. Qed.

Theorem redial_first_tail_refuted :
  exists eps fss, Forall2 (epoch_yields 0) eps fss /\ Forall (fun fs => fs <> []) (tl fss) /\
    link_received_first_tail 0 eps = map fr [1; 2; 3; 4; 5; 1; 2; 7; 8] /\
    link_received_first_tail 0 eps <> concat fss /\ ~ NoDup (link_received_first_tail 0 eps).
Proof.
  exists ex_eps, ex_fss. split; [exact ex_yields|]. split; [repeat constructor; discriminate|].
  assert (E : link_received_first_tail 0 ex_eps = map fr [1; 2; 3; 4; 5; 1; 2; 7; 8]) by (vm_compute; reflexivity).
  split; [exact E|]. rewrite E. split.
  - vm_compute. discriminate.
  - intros Hnd. inversion Hnd as [|? ? Hnin _]; subst. apply Hnin. vm_compute. tauto.
Qed.

(* a tail that ends inside a frame, a drop that cuts a frame: the cut frame (4) is lost with the
   link, everything else arrives once, in order *)
Example ex_partial :
  let s1 := fr 1 ++ fr 2 ++ fr 3 ++ firstn 5 (fr 4) in
  let s2 := fr 5 ++ fr 6 in
  link_received 0 [mk_epoch (firstn 13 s1) [firstn 3 (skipn 13 s1); skipn 16 s1]; mk_epoch (firstn 11 s2) [skipn 11 s2]]
  = map fr [1; 2; 3; 5; 6].
Proof. vm_compute. reflexivity. Qed.
