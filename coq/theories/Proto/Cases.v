(* Proto engine — checkers evaluated on implementation observations written by
   go/harness/cmd/proto (sub-commands c12, c13).
     corr_*    : the model applied to the REAL bytes / inputs gives what the implementation did
     spec_*    : the property itself evaluated on what the implementation did (monitor)
     premise_* : hypotheses of the theorems hold on the case (non-vacuity counter) *)
From Coq Require Import Uint63.
From Ergo Require Import Common.Base Proto.Model.
Local Open Scope Z_scope.

(* ---------- helpers ---------- *)
(* byte strings are written by the harness as primitive 63-bit integers holding 7 bytes each
   (least significant byte first), in short lists, with the exact length: pk len [[..];[..]] *)
Definition unpack1 (x : int) : bytes :=
  [to_Z (x land 255); to_Z ((x >> 8) land 255); to_Z ((x >> 16) land 255); to_Z ((x >> 24) land 255);
   to_Z ((x >> 32) land 255); to_Z ((x >> 40) land 255); to_Z ((x >> 48) land 255)]%uint63.
Definition pk (n : Z) (l : list (list int)) : bytes := firstn (Z.to_nat n) (flat_map unpack1 (concat l)).

Definition bytes_eqb (a b : bytes) : bool := zlist_eqb a b.
Definition z3_eqb (a b : Z * Z * Z) : bool :=
  let '(a0, a1, a2) := a in let '(b0, b1, b2) := b in (a0 =? b0) && (a1 =? b1) && (a2 =? b2).

Definition route_code (r : route) : Z :=
  match r with
  | RSendPid => 1 | RSendName => 2 | RSendAlias => 3 | RSendEvent => 4 | RSendExit => 5 | RResponse => 6
  | RResponseError => 7 | RCallPid => 8 | RCallName => 9 | RCallAlias => 10 | RTermPid => 11 | RTermName => 12
  | RTermAlias => 13 | RTermEvent => 14 | RAny => 15
  end.

Definition call_eqb (a b : call) : bool :=
  (route_code (c_route a) =? route_code (c_route b)) && (c_from a =? c_from b) && (c_to a =? c_to b) &&
  bytes_eqb (c_name a) (c_name b) && z3_eqb (c_alias a) (c_alias b) && (c_prio a =? c_prio b) &&
  z3_eqb (c_ref a) (c_ref b) && (c_code a =? c_code b) && bytes_eqb (c_payload a) (c_payload b).

Section Perm.
  Context {A : Type} (eqb : A -> A -> bool).
  Definition count (x : A) (l : list A) : nat := length (filter (eqb x) l).
  (* same multiset *)
  Definition perm_eqb (l1 l2 : list A) : bool :=
    Nat.eqb (length l1) (length l2) && forallb (fun x => Nat.eqb (count x l1) (count x l2)) l1.
End Perm.

Fixpoint omap {A B} (f : A -> option B) (l : list A) : option (list B) :=
  match l with
  | [] => Some []
  | x :: tl => match f x, omap f tl with Some y, Some r => Some (y :: r) | _, _ => None end
  end.

(* cut a byte string into pieces of the given sizes (the writes the relay performed) *)
Fixpoint split_sizes (b : bytes) (sizes : list Z) : list bytes :=
  match sizes with
  | [] => match b with [] => [] | _ => [b] end
  | n :: tl => firstn (Z.to_nat n) b :: split_sizes (skipn (Z.to_nat n) b) tl
  end.

(* ==========================================================================================
   C12
   ========================================================================================== *)
Record sreq := mk_sreq {
  q_route : route; q_from : Z; q_to : Z; q_name : bytes; q_cache : Z; q_alias : Z * Z * Z;
  q_prio : Z; q_imp : bool; q_keep : bool; q_ref : Z * Z * Z; q_code : Z; q_comp : comp;
  q_pay : bytes;      (* EDF bytes of the value (harness' own encoding) *)
  q_raw0 : Z;          (* bytes 17..25 as found on the wire (stale buffer content when not important) *)
  q_result : Z;        (* what the receiving core answers: 0 nil, 1 unknown, 2 mailbox full, 3 terminated, 255 other *)
  q_rpay : bytes;     (* EDF bytes of that other error *)
  q_ret : Z            (* observed return of the send: 0 nil, 1 ErrTooLarge, 2 anything else *)
}.

Record ocall := mk_ocall {
  o_route : route; o_from : Z; o_to : Z; o_name : bytes; o_alias : Z * Z * Z; o_prio : Z;
  o_ref : Z * Z * Z; o_code : Z; o_val : Z   (* index of the request whose value was received, -1 none *)
}.

Record pcase := mk_pcase {
  p_pool : Z; p_max : Z; p_important : bool;
  p_reqs : list sreq;
  p_ztable : list (Z * bytes * bytes);   (* compression type, inner frame, compressed stream (Go std library) *)
  p_taps : list bytes;                    (* per link: every byte the sender wrote *)
  p_chunks : list (list Z);                (* per link: sizes of the relay's writes to the receiver *)
  p_taps_back : list bytes;               (* per link: bytes the receiver wrote back (acknowledgements) *)
  p_calls_b : list ocall;                  (* Route* calls at the receiving core *)
  p_calls_a : list ocall                   (* Route* calls at the sending core *)
}.

(* names in the atom cache the harness installs (sender: name -> id, receiver: id -> name) *)
Definition harness_cache (id : Z) : option bytes :=
  if id =? 300 then Some [99; 97; 99; 104; 101; 100; 95; 111; 110; 101]        (* "cached_one" *)
  else if id =? 2 then Some [99; 97; 99; 104; 101; 100; 95; 116; 119; 111]     (* "cached_two" *)
  else if id =? 65535 then Some [99; 97; 99; 104; 101; 100; 95; 101; 118]      (* "cached_ev" *)
  else None.

Definition fst3 (t : Z * Z * Z) : Z := let '(a, _, _) := t in a.
Definition snd3 (t : Z * Z * Z) : Z := let '(_, b, _) := t in b.
Definition thd3 (t : Z * Z * Z) : Z := let '(_, _, c) := t in c.

(* the frame-level message a request produces (one clause per Send* / Call* function) *)
Definition msg_of_req (q : sreq) : msg :=
  let from := q_from q in
  let keep := q_keep q in
  let pay := q_pay q in
  let name := q_name q in
  let cached := 0 <? q_cache q in
  let r0 := if q_imp q then fst3 (q_ref q) else q_raw0 q in
  let '(f0, f1, f2) := q_ref q in
  let '(a0, a1, a2) := q_alias q in
  let nm (k kc : kind) (m : msg) : msg :=
    if cached then set_cache (q_cache q) (mk_msg kc (m_order m) (m_from m) (m_prio m) (m_imp m) (m_r0 m) (m_r1 m) (m_r2 m) 0 0 0 0 0 [] 0 (m_payload m))
    else set_name name m in
  match q_route q with
  | RSendPid => mk_msg KPid (peer_order keep from (ToPid (q_to q))) from (q_prio q) (q_imp q) r0 0 0 (q_to q) 0 0 0 0 [] 0 pay
  | RSendName => nm KName KNameCache (mk_msg KName (peer_order keep from ToName) from (q_prio q) (q_imp q) r0 0 0 0 0 0 0 0 [] 0 pay)
  | RSendAlias => mk_msg KAlias (peer_order keep from (ToAlias a1)) from (q_prio q) (q_imp q) r0 0 0 0 a0 a1 a2 0 [] 0 pay
  | RSendEvent => nm KEvent KEventCache (mk_msg KEvent (peer_order keep from ToName) from (q_prio q) false f0 0 0 0 0 0 0 0 [] 0 pay)
  | RSendExit => mk_msg KExit (order_of_id (q_to q)) from 0 false 0 0 0 (q_to q) 0 0 0 0 [] 0 pay
  | RResponse => mk_msg KResponse (peer_order keep from (ToPid (q_to q))) from (q_prio q) false f0 f1 f2 (q_to q) 0 0 0 0 [] 0 pay
  | RResponseError => mk_msg KResponseError (peer_order keep from (ToPid (q_to q))) from (q_prio q) false f0 f1 f2 (q_to q) 0 0 0 0 [] (q_code q)
                        (if q_code q =? 255 then pay else [])
  | RCallPid => mk_msg KReqPid (peer_order keep from (ToPid (q_to q))) from (q_prio q) (q_imp q) f0 f1 f2 (q_to q) 0 0 0 0 [] 0 pay
  | RCallName => nm KReqName KReqNameCache (mk_msg KReqName (peer_order keep from ToName) from (q_prio q) (q_imp q) f0 f1 f2 0 0 0 0 0 [] 0 pay)
  | RCallAlias => mk_msg KReqAlias (peer_order keep from (ToAlias a1)) from (q_prio q) (q_imp q) f0 f1 f2 0 a0 a1 a2 0 [] 0 pay
  | RTermPid => mk_msg KTermPid 0 0 0 false 0 0 0 (q_to q) 0 0 0 0 [] 0 pay
  | RTermName => nm KTermName KTermNameCache (mk_msg KTermName 0 0 0 false 0 0 0 0 0 0 0 0 [] 0 pay)
  | RTermAlias => mk_msg KTermAlias 0 0 0 false 0 0 0 0 a0 a1 a2 0 [] 0 pay
  | RTermEvent => nm KTermEvent KTermEventCache (mk_msg KTermEvent 0 0 0 false 0 0 0 0 0 0 0 0 [] 0 pay)
  | RAny => mk_msg KAny 0 0 0 false 0 0 0 0 0 0 0 0 [] 0 pay
  end.

(* the `order` argument of send() *)
Definition req_link_order (q : sreq) : Z :=
  match q_route q with
  | RSendExit => order_of_id (q_from q)
  | RTermPid | RTermName | RTermAlias | RTermEvent | RAny => 0
  | _ => link_order (q_keep q) (q_from q)
  end.

(* codec = lookup in the table of (type, inner, stream) triples observed on the wire *)
Definition ztab (c : pcase) : list (Z * bytes * bytes) := p_ztable c.
Definition tab_compress (tab : list (Z * bytes * bytes)) (t : Z) (f : bytes) : bytes :=
  match find (fun e => let '(t', i, _) := e in (t =? t') && bytes_eqb f i) tab with
  | Some (_, _, s) => s
  | None => []
  end.
Definition tab_decompress (tab : list (Z * bytes * bytes)) (t : Z) (z : bytes) : option bytes :=
  match find (fun e => let '(t', _, s) := e in (t =? t') && bytes_eqb z s) tab with
  | Some (_, i, _) => Some i
  | None => None
  end.

Fixpoint app_nth (n : nat) (x : bytes) (l : list bytes) : list bytes :=
  match l, n with
  | [], _ => []
  | y :: tl, O => (y ++ x) :: tl
  | y :: tl, S k => y :: app_nth k x tl
  end.

(* the sending side: requests in program order -> bytes per link, return codes *)
Fixpoint model_send (tab : list (Z * bytes * bytes)) (pool maxsize rr : Z) (links : list bytes) (qs : list sreq)
  : list bytes * list Z :=
  match qs with
  | [] => (links, [])
  | q :: tl =>
      let m := msg_of_req q in
      match send_frame (tab_compress tab) maxsize (m_kind m) (q_comp q) (build m) with
      | None => let (ls, rets) := model_send tab pool maxsize rr links tl in (ls, 1 :: rets)
      | Some w =>
          let (n, rr') := link_sel (req_link_order q) pool rr in
          let (ls, rets) := model_send tab pool maxsize rr' (app_nth (Z.to_nat n) w links) tl in (ls, 0 :: rets)
      end
  end.

Definition corr_send (c : pcase) : bool :=
  let '(ls, rets) := model_send (ztab c) (p_pool c) (p_max c) 0 (map (fun _ => []) (p_taps c)) (p_reqs c) in
  forallb (fun p => bytes_eqb (fst p) (snd p)) (combine ls (p_taps c)) &&
  Nat.eqb (length ls) (length (p_taps c)) &&
  zlist_eqb rets (map q_ret (p_reqs c)).

(* the receiving side on the real bytes in the relay's chunking *)
Definition model_recv_link (tab : list (Z * bytes * bytes)) (maxsize : Z) (tap : bytes) (sizes : list Z) : option (list msg) :=
  match cut_all maxsize (Open []) (split_sizes tap sizes) with
  | (frames, Open []) => omap (recv (tab_decompress tab) 2) frames
  | _ => None
  end.

Definition nth_req (c : pcase) (i : Z) : option sreq :=
  if i <? 0 then None else nth_error (p_reqs c) (Z.to_nat i).

(* an observed call as a model call: the received value is named by the index of the request *)
Definition call_of_ocall (c : pcase) (from_b : bool) (o : ocall) : call :=
  let pay := match nth_req c (o_val o) with
             | Some q => if from_b then q_pay q else q_rpay q
             | None => []
             end in
  mk_call (o_route o) (o_from o) (o_to o) (o_name o) (o_alias o) (o_prio o) (o_ref o) (o_code o) pay.

Definition all_msgs_received (c : pcase) : option (list msg) :=
  match omap (fun p => model_recv_link (ztab c) (p_max c) (fst p) (snd p)) (combine (p_taps c) (p_chunks c)) with
  | Some l => Some (concat l)
  | None => None
  end.

Definition corr_recv (c : pcase) : bool :=
  match all_msgs_received c with
  | Some ms =>
      match omap (deliver harness_cache) ms with
      | Some calls => perm_eqb call_eqb calls (map (call_of_ocall c true) (p_calls_b c))
      | None => false
      end
  | None => false
  end.

(* the same frames in any other segmentation give the same result (1-byte pieces, one piece) *)
Definition corr_resegment (c : pcase) : bool :=
  forallb (fun t => let b := t in
                    let whole := cut_all (p_max c) (Open []) [b] in
                    let single := cut_all (p_max c) (Open []) (map (fun x => [x]) (firstn 1500 b)) in
                    match whole with
                    | (fs, Open []) =>
                        match single with
                        | (fs1, _) => forallb (fun p => bytes_eqb (fst p) (snd p)) (combine fs1 fs)
                        end
                    | _ => false
                    end) (p_taps c).

(* acknowledgement frames on the way back *)
Definition accepted (c : pcase) : list sreq := filter (fun q => q_ret q =? 0) (p_reqs c).
Definition expected_acks (c : pcase) : list msg :=
  concat (map (fun q => match ack (p_important c) (msg_of_req q) (q_result q) (q_rpay q) with
                        | Some a => [a] | None => [] end) (accepted c)).

Definition corr_ack_frames (c : pcase) : bool :=
  match omap (fun t => match cut_all 0 (Open []) [t] with (fs, Open []) => Some fs | _ => None end) (p_taps_back c) with
  | Some l => perm_eqb bytes_eqb (map build (expected_acks c)) (concat l)
  | None => false
  end.

(* ---------- the property on the observations ---------- *)
Definition expected_calls_b (c : pcase) : option (list call) :=
  omap (fun q => deliver harness_cache (msg_of_req q)) (accepted c).
Definition expected_calls_a (c : pcase) : option (list call) :=
  omap (deliver harness_cache) (expected_acks c).

(* exactly once, to the addressee, unchanged; important sends acknowledged with the sender's
   reference and the remote result *)
Definition spec_delivery (c : pcase) : bool :=
  match expected_calls_b c, expected_calls_a c with
  | Some eb, Some ea =>
      perm_eqb call_eqb eb (map (call_of_ocall c true) (p_calls_b c)) &&
      perm_eqb call_eqb ea (map (call_of_ocall c false) (p_calls_a c))
  | _, _ => false
  end.

(* C03 on the remote path: the priority (hence the mailbox queue RouteSend* selects at the receiver) of every
   delivered message / request is the one the sender used, per (route, sender, addressee); the frame carries it in
   the low bits of the byte that also holds the important-delivery flag *)
Definition prio_call (k : call) : call :=
  mk_call (c_route k) (c_from k) (c_to k) [] (0, 0, 0) (c_prio k) (0, 0, 0) 0 [].

Definition spec_priority (c : pcase) : bool :=
  match expected_calls_b c, expected_calls_a c with
  | Some eb, Some ea =>
      perm_eqb call_eqb (map prio_call eb) (map (fun o => prio_call (call_of_ocall c true o)) (p_calls_b c)) &&
      perm_eqb call_eqb (map prio_call ea) (map (fun o => prio_call (call_of_ocall c false o)) (p_calls_a c))
  | _, _ => false
  end.

(* refused only beyond the limit, accepted only within it; a refused message leaves no byte *)
Definition spec_limit (c : pcase) : bool :=
  let tab := ztab c in
  forallb (fun q =>
    let m := msg_of_req q in
    let f := build m in
    let w := wire (tab_compress tab) (q_comp q) f in
    if q_ret q =? 1 then (0 <? p_max c) && ((p_max c <? blen f) || (p_max c <? blen w))
    else if q_ret q =? 0 then (p_max c <=? 0) || (blen w <=? p_max c)
    else false) (p_reqs c) &&
  (Z.of_nat (length (concat (p_taps c))) =?
   fold_right Z.add 0 (map (fun q => blen (wire (tab_compress tab) (q_comp q) (build (msg_of_req q)))) (accepted c))).

Definition premise_c12 (c : pcase) : bool :=
  negb (Nat.eqb (length (accepted c)) 0) && forallb (fun q => q_ret q <? 2) (p_reqs c).

(* ==========================================================================================
   C13
   ========================================================================================== *)
Record opair := mk_opair { op_route : route; op_from : Z; op_to : Z; op_a1 : Z; op_keep : bool }.
Inductive oop := OSend (pair : Z) | OJoin | ODrop (link : Z) | ORelease (link : Z).

Record ocase := mk_ocase {
  oc_nq : Z;                (* number of receive queues = 4 * configured pool size *)
  oc_pool0 : Z;             (* links joined before the first message *)
  oc_pairs : list opair;
  oc_ops : list oop;
  oc_links : list Z;        (* per send: the link whose tap holds the frame *)
  oc_orders : list Z;       (* per send: byte 6 of the frame *)
  oc_delivered : list Z     (* send indices in the order of the Route* calls at the receiver *)
}.

Definition pair_link_order (p : opair) : Z :=
  match op_route p with
  | RSendExit => order_of_id (op_from p)
  | RTermPid | RTermName | RTermAlias | RTermEvent | RAny => 0
  | _ => link_order (op_keep p) (op_from p)
  end.
Definition pair_peer_order (p : opair) : Z :=
  match op_route p with
  | RSendPid | RResponse | RResponseError | RCallPid => peer_order (op_keep p) (op_from p) (ToPid (op_to p))
  | RSendAlias | RCallAlias => peer_order (op_keep p) (op_from p) (ToAlias (op_a1 p))
  | RSendName | RSendEvent | RCallName => peer_order (op_keep p) (op_from p) ToName
  | RSendExit => order_of_id (op_to p)
  | _ => 0
  end.

Definition zseq (n : Z) : list Z := map Z.of_nat (seq 0 (Z.to_nat n)).
Definition znth {A} (i : Z) (l : list A) (d : A) : A := if i <? 0 then d else nth (Z.to_nat i) l d.
Fixpoint bump (i : nat) (l : list Z) : list Z :=
  match l, i with
  | [], _ => []
  | x :: tl, O => (x + 1) :: tl
  | x :: tl, S k => x :: bump k tl
  end.

(* one predicted send: link id, byte 6, receive queue, time of the send (op index) *)
Record psend := mk_psend { ps_link : Z; ps_order : Z; ps_queue : Z; ps_time : Z; ps_pair : Z; ps_pool : Z }.

(* run the operations through the model of Join / link loss / send() / serve() *)
Fixpoint model_ops (nq : Z) (pairs : list opair) (ops : list oop) (t : Z)
         (pool : list Z) (next rr : Z) (counts : list Z) : list psend :=
  match ops with
  | [] => []
  | OSend k :: tl =>
      match nth_error pairs (Z.to_nat k) with
      | None => []
      | Some p =>
          let (n, rr') := link_sel (pair_link_order p) (Z.of_nat (length pool)) rr in
          let id := znth n pool (-1) in
          let counts' := bump (Z.to_nat id) counts in
          let recvN := znth id counts' 0 in
          mk_psend id (pair_peer_order p) (queue_sel (pair_peer_order p) nq recvN) t k (Z.of_nat (length pool))
            :: model_ops nq pairs tl (t + 1) pool next rr' counts'
      end
  | OJoin :: tl => model_ops nq pairs tl (t + 1) (pool_join pool next) (next + 1) rr (counts ++ [0])
  | ODrop id :: tl => model_ops nq pairs tl (t + 1) (pool_drop pool id) next rr counts
  | ORelease _ :: tl => model_ops nq pairs tl (t + 1) pool next rr counts
  end.

Definition predicted (c : ocase) : list psend :=
  model_ops (oc_nq c) (oc_pairs c) (oc_ops c) 0 (zseq (oc_pool0 c)) (oc_pool0 c) 0 (map (fun _ => 0) (zseq (oc_pool0 c))).

(* op index at which a link is released (first ORelease); never released inside the ops = after them *)
Fixpoint release_time (ops : list oop) (t : Z) (id : Z) : Z :=
  match ops with
  | [] => t + 1 + id
  | ORelease l :: tl => if l =? id then t else release_time tl (t + 1) id
  | _ :: tl => release_time tl (t + 1) id
  end.

(* a message reaches the receiver when it was sent and its link was released, whichever is later *)
Definition arrival (c : ocase) (p : psend) : Z := Z.max (ps_time p) (release_time (oc_ops c) 0 (ps_link p)).

Definition corr_links (c : ocase) : bool :=
  let ps := predicted c in
  zlist_eqb (map ps_link ps) (oc_links c) && zlist_eqb (map ps_order ps) (oc_orders c).

(* frames pushed to the same receive queue are delivered in the order of their arrival *)
Fixpoint ordered_pairs (f : Z -> Z -> bool) (l : list Z) : bool :=
  match l with
  | [] => true
  | x :: tl => forallb (f x) tl && ordered_pairs f tl
  end.

Definition corr_delivery (c : ocase) : bool :=
  let ps := predicted c in
  let d := mk_psend (-1) 0 (-1) 0 0 0 in
  perm_eqb Z.eqb (oc_delivered c) (zseq (Z.of_nat (length ps))) &&
  ordered_pairs (fun x y =>
    let px := znth x ps d in let py := znth y ps d in
    negb (ps_queue px =? ps_queue py) ||
    (arrival c px <? arrival c py) || ((arrival c px =? arrival c py) && (x <? y))) (oc_delivered c).

(* the property: per pair with order keeping on, delivered in the order sent, nothing lost or repeated *)
Definition spec_fifo (c : ocase) : bool :=
  let ps := predicted c in
  let d := mk_psend (-1) 0 (-1) 0 (-1) 0 in
  forallb (fun k =>
    match nth_error (oc_pairs c) (Z.to_nat k) with
    | Some p =>
        negb (op_keep p) ||
        zlist_eqb (filter (fun i => ps_pair (znth i ps d) =? k) (oc_delivered c))
                  (filter (fun i => ps_pair (znth i ps d) =? k) (zseq (Z.of_nat (length ps))))
    | None => true
    end) (zseq (Z.of_nat (length (oc_pairs c)))) &&
  perm_eqb Z.eqb (oc_delivered c) (zseq (Z.of_nat (length ps))).

(* guard of C13_fifo_partial: the pool does not change while messages are in flight *)
Definition constant_pool (c : ocase) : bool :=
  forallb (fun o => match o with OJoin | ODrop _ => false | _ => true end) (oc_ops c).

(* selection theorem on the observation: all frames of a pair share one link and one order byte *)
Definition spec_selection (c : ocase) : bool :=
  negb (constant_pool c) ||
  forallb (fun k =>
    match nth_error (oc_pairs c) (Z.to_nat k) with
    | Some p =>
        negb (op_keep p) ||
        let mine := filter (fun e => snd (fst e) =? k) (combine (combine (oc_links c) (map ps_pair (predicted c))) (oc_orders c)) in
        match mine with
        | [] => true
        | (l0, _, o0) :: _ => forallb (fun e => (fst (fst e) =? l0) && (snd e =? o0) && (0 <? o0)) mine
        end
    | None => true
    end) (zseq (Z.of_nat (length (oc_pairs c)))).

Definition premise_c13 (c : ocase) : bool :=
  constant_pool c && existsb op_keep (oc_pairs c).
