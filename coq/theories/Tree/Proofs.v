(* Tree engine (C10): LinkParent closure - proofs.  All forests (no bound on size or depth: the state is a
   list built by spawn steps), all schedules (any list of labels). *)
From Ergo Require Import Common.Base Tree.Model.

(* ---- lists ------------------------------------------------------------------------------------------ *)
Lemma nth_mapi_from {A B} (f : nat -> A -> B) l : forall n i,
  nth_error (mapi_from f n l) i = option_map (f (n + i)) (nth_error l i).
Proof.
  induction l as [|x tl IH]; intros n i; destruct i; cbn [mapi_from nth_error option_map]; try reflexivity.
  - rewrite Nat.add_0_r. reflexivity.
  - rewrite IH. replace (S n + i) with (n + S i) by lia. reflexivity.
Qed.

Lemma length_mapi_from {A B} (f : nat -> A -> B) l : forall n, length (mapi_from f n l) = length l.
Proof. induction l as [|x tl IH]; intros n; cbn [mapi_from length]; [reflexivity | rewrite IH; reflexivity]. Qed.

Lemma get_upd s i f c : get (upd s i f) c = if c =? i then option_map f (get s c) else get s c.
Proof.
  unfold get, upd, mapi. rewrite nth_mapi_from. cbn [plus].
  destruct (c =? i); destruct (nth_error s c); reflexivity.
Qed.

Lemma get_bcast s g x c :
  get (bcast s g x) c = match get s c with Some pc => Some (if g c pc then push x pc else pc) | None => None end.
Proof. unfold get, bcast, mapi. rewrite nth_mapi_from. cbn [plus]. destruct (nth_error s c); reflexivity. Qed.

Lemma length_upd s i f : length (upd s i f) = length s.
Proof. apply length_mapi_from. Qed.
Lemma length_bcast s g x : length (bcast s g x) = length s.
Proof. apply length_mapi_from. Qed.

Lemma get_lt s c pc : get s c = Some pc -> c < length s.
Proof. intros H. apply nth_error_Some. unfold get in H. congruence. Qed.

Lemma In_select_from g l : forall n c,
  In c (select_from g n l) <-> exists pc, n <= c /\ nth_error l (c - n) = Some pc /\ g c pc = true.
Proof.
  induction l as [|x tl IH]; intros n c; cbn [select_from].
  - split; [intros [] | intros (pc & _ & H & _); destruct (c - n); discriminate].
  - destruct (g n x) eqn:G; cbn [In]; rewrite ?IH; split.
    + intros [<- | (pc & Hle & Hn & Hg)].
      * exists x. rewrite Nat.sub_diag. repeat split; auto.
      * exists pc. repeat split; [lia | | exact Hg]. replace (c - n) with (S (c - S n)) by lia. exact Hn.
    + intros (pc & Hle & Hn & Hg). destruct (Nat.eq_dec n c) as [->|Hne]; [left; reflexivity | right].
      exists pc. repeat split; [lia | | exact Hg]. replace (c - n) with (S (c - S n)) in Hn by lia. exact Hn.
    + intros (pc & Hle & Hn & Hg). exists pc. repeat split; [lia | | exact Hg].
      replace (c - n) with (S (c - S n)) by lia. exact Hn.
    + intros (pc & Hle & Hn & Hg). destruct (Nat.eq_dec n c) as [->|Hne].
      * rewrite Nat.sub_diag in Hn. cbn in Hn. congruence.
      * exists pc. repeat split; [lia | | exact Hg]. replace (c - n) with (S (c - S n)) in Hn by lia. exact Hn.
Qed.

Lemma In_select g s c : In c (select g s) <-> exists pc, get s c = Some pc /\ g c pc = true.
Proof.
  unfold select, get. rewrite In_select_from. split.
  - intros (pc & _ & Hn & Hg). rewrite Nat.sub_0_r in Hn. eauto.
  - intros (pc & Hn & Hg). exists pc. rewrite Nat.sub_0_r. repeat split; [lia | auto | auto].
Qed.

Lemma get_upd_inv s i f c pc' : get (upd s i f) c = Some pc' ->
  exists pc, get s c = Some pc /\ pc' = (if c =? i then f pc else pc).
Proof.
  rewrite get_upd. destruct (c =? i); destruct (get s c) as [pc|]; cbn [option_map]; intros H; inversion H; eauto.
Qed.

Lemma get_bcast_inv s g x c pc' : get (bcast s g x) c = Some pc' ->
  exists pc, get s c = Some pc /\ pc' = (if g c pc then push x pc else pc).
Proof. rewrite get_bcast. destruct (get s c) as [pc|]; intros H; inversion H; eauto. Qed.

(* ---- push -------------------------------------------------------------------------------------------- *)
Lemma push_parent x p : parent (push x p) = parent p.
Proof. unfold push. destruct (registered (st p)); reflexivity. Qed.
Lemma push_knd x p : knd (push x p) = knd p.
Proof. unfold push. destruct (registered (st p)); reflexivity. Qed.
Lemma push_trap x p : trap (push x p) = trap p.
Proof. unfold push. destruct (registered (st p)); reflexivity. Qed.
Lemma push_lp x p : lp (push x p) = lp p.
Proof. unfold push. destruct (registered (st p)); reflexivity. Qed.
Lemma push_lc x p : lc (push x p) = lc p.
Proof. unfold push. destruct (registered (st p)); reflexivity. Qed.
Lemma push_st x p : st (push x p) = st p.
Proof. unfold push. destruct (registered (st p)); reflexivity. Qed.
Lemma push_incl x p y : In y (mbox p) -> In y (mbox (push x p)).
Proof. unfold push. destruct (registered (st p)); cbn [mbox set_mbox]; intros H; [apply in_or_app; left|]; exact H. Qed.
Lemma push_in x p : registered (st p) = true -> In x (mbox (push x p)).
Proof. unfold push. intros ->. cbn [mbox set_mbox]. apply in_or_app. right. left. reflexivity. Qed.

(* ---- invariants --------------------------------------------------------------------------------------- *)
Definition WF (s : state) : Prop := forall c pc, get s c = Some pc ->
  (forall q, parent pc = Some q -> q < c) /\ (is_shutting (st pc) = true -> knd pc = KSup).

(* c knows about the end of its parent i (or is already on its way out) *)
Definition told1 (pc : proc) (i : nat) : Prop :=
  match st pc with Alive => In i (mbox pc) | _ => True end.

(* (i) closure: a LinkParent child of a dead process is not registered any more, or holds a pending exit signal
   sent by its parent (which act.Actor cannot trap), or is a supervisor in its shutdown protocol *)
Definition Inv1 (s : state) : Prop := forall c pc i pi,
  get s c = Some pc -> parent pc = Some i -> lp pc = true -> get s i = Some pi -> st pi = Dead -> told1 pc i.

Definition told2 (pc : proc) (c i : nat) (pi : proc) : Prop :=
  match st pc with Alive => In i (mbox pc) | Dead => In c (mbox pi) | Dying b => b = false | Shutting _ => True end.

(* the shutdown protocol: every member of a wait set has been told by the supervisor, or is going down, or has
   gone and its exit signal is pending in the supervisor's mailbox *)
Definition Inv2 (s : state) : Prop := forall i pi w c,
  get s i = Some pi -> st pi = Shutting w -> In c w ->
  exists pc, get s c = Some pc /\ parent pc = Some i /\ lc pc = true /\ told2 pc c i pi.

Definition Inv (s : state) : Prop := WF s /\ Inv1 s /\ Inv2 s.

Lemma told1_push x pc i : told1 pc i -> told1 (push x pc) i.
Proof. unfold told1. rewrite push_st. destruct (st pc); auto. apply push_incl. Qed.

Lemma told1_push_self pc i : told1 (push i pc) i.
Proof. unfold told1. rewrite push_st. destruct (st pc) eqn:E; auto. apply push_in. rewrite E. reflexivity. Qed.

Lemma is_parent_true p i : is_parent p i = true <-> parent p = Some i.
Proof.
  unfold is_parent. destruct (parent p) as [q|]; split; intros H; try discriminate.
  - apply Nat.eqb_eq in H. congruence.
  - inversion H. apply Nat.eqb_refl.
Qed.

Definition mp (b : bool) (x : nat) (p : proc) : proc := if b then push x p else p.
Lemma mp_parent b x p : parent (mp b x p) = parent p.
Proof. destruct b; cbn [mp]; auto using push_parent. Qed.
Lemma mp_knd b x p : knd (mp b x p) = knd p.
Proof. destruct b; cbn [mp]; auto using push_knd. Qed.
Lemma mp_lp b x p : lp (mp b x p) = lp p.
Proof. destruct b; cbn [mp]; auto using push_lp. Qed.
Lemma mp_lc b x p : lc (mp b x p) = lc p.
Proof. destruct b; cbn [mp]; auto using push_lc. Qed.
Lemma mp_st b x p : st (mp b x p) = st p.
Proof. destruct b; cbn [mp]; auto using push_st. Qed.
Lemma mp_incl b x p y : In y (mbox p) -> In y (mbox (mp b x p)).
Proof. destruct b; cbn [mp]; auto using push_incl. Qed.
Lemma told1_mp b x pc i : told1 pc i -> told1 (mp b x pc) i.
Proof. destruct b; cbn [mp]; auto using told1_push. Qed.

Lemma get_bcast_mp s g x c pc' : get (bcast s g x) c = Some pc' ->
  exists pc, get s c = Some pc /\ pc' = mp (g c pc) x pc.
Proof. apply get_bcast_inv. Qed.

(* pushes preserve everything *)
Lemma bcast_Inv s g x : Inv s -> Inv (bcast s g x).
Proof.
  intros (Hwf & H1 & H2). split; [|split].
  - intros c pc' Hc. apply get_bcast_mp in Hc as (pc & Hc & ->). destruct (Hwf c pc Hc) as [Ha Hb].
    rewrite mp_parent, mp_st, mp_knd. auto.
  - intros c pc' i pi' Hc Hp Hl Hi Hd.
    apply get_bcast_mp in Hc as (pc & Hc & ->). apply get_bcast_mp in Hi as (pi & Hi & ->).
    rewrite mp_parent in Hp. rewrite mp_lp in Hl. rewrite mp_st in Hd.
    apply told1_mp. apply (H1 c pc i pi); auto.
  - intros i pi' w c Hi Hs Hin. apply get_bcast_mp in Hi as (pi & Hi & ->). rewrite mp_st in Hs.
    destruct (H2 i pi w c Hi Hs Hin) as (pc & Hc & Hp & Hl & T).
    exists (mp (g c pc) x pc). rewrite get_bcast, Hc. split; [reflexivity|].
    rewrite mp_parent, mp_lc. repeat split; auto.
    unfold told2 in *. rewrite mp_st. destruct (st pc); auto using mp_incl.
Qed.

Ltac upd_at H pc Hc := apply get_upd_inv in H as (pc & Hc & ->).

Lemma wf_parent_ne s c pc : WF s -> get s c = Some pc -> parent pc <> Some c.
Proof. intros Hwf Hc Hp. destruct (Hwf c pc Hc) as [Ha _]. specialize (Ha c Hp). lia. Qed.

(* a registered process leaves node.processes *)
Lemma dying_Inv s i pi b : Inv s -> get s i = Some pi -> registered (st pi) = true ->
  (b = true -> forall q pq w, parent pi = Some q -> get s q = Some pq -> st pq = Shutting w -> ~ In i w) ->
  Inv (upd s i (fun p => set_st p (Dying b))).
Proof.
  intros (Hwf & H1 & H2) Hi Hr Hnw. split; [|split].
  - intros c pc' Hc. upd_at Hc pc Hc. destruct (Hwf c pc Hc) as [Ha Hb].
    destruct (c =? i); cbn; auto. split; auto. discriminate.
  - intros c pc' i0 pi0' Hc Hp Hl Hi0 Hd. upd_at Hc pc Hc. upd_at Hi0 pi0 Hi0.
    destruct (Nat.eqb_spec i0 i) as [->|Hn0]; [cbn in Hd; discriminate|].
    destruct (Nat.eqb_spec c i) as [->|Hn]; [exact I|]. eapply H1; eauto.
  - intros i0 pi0' w c Hi0 Hs Hin. upd_at Hi0 pi0 Hi0.
    destruct (Nat.eqb_spec i0 i) as [->|Hn0]; [cbn in Hs; discriminate|].
    destruct (H2 i0 pi0 w c Hi0 Hs Hin) as (pc & Hc & Hp & Hl & T).
    rewrite get_upd, Hc. destruct (Nat.eqb_spec c i) as [->|Hn]; cbn [option_map].
    + eexists; split; [reflexivity|]. cbn. repeat split; auto.
      assert (pc = pi) by congruence. subst pc. unfold told2. cbn.
      destruct b; [exfalso | reflexivity]. eapply (Hnw eq_refl i0 pi0 w); eauto.
    + exists pc. repeat split; auto.
Qed.

(* unregisterProcess is through: everybody concerned has been told *)
Lemma dead_Inv s i pi b : Inv s -> get s i = Some pi -> st pi = Dying b ->
  (forall c pc, get s c = Some pc -> parent pc = Some i -> lp pc = true -> told1 pc i) ->
  (forall q pq w, b = false -> parent pi = Some q -> lc pi = true -> get s q = Some pq -> st pq = Shutting w -> In i (mbox pq)) ->
  Inv (upd s i (fun p => set_st p Dead)).
Proof.
  intros (Hwf & H1 & H2) Hi Hs F1 F2. split; [|split].
  - intros c pc' Hc. upd_at Hc pc Hc. destruct (Hwf c pc Hc) as [Ha Hb].
    destruct (c =? i); cbn; auto. split; auto. discriminate.
  - intros c pc' i0 pi0' Hc Hp Hl Hi0 Hd. upd_at Hc pc Hc. upd_at Hi0 pi0 Hi0.
    destruct (Nat.eqb_spec c i) as [->|Hn]; [exact I|].
    destruct (Nat.eqb_spec i0 i) as [->|Hn0]; [eapply F1; eauto | eapply H1; eauto].
  - intros i0 pi0' w c Hi0 Hs0 Hin. upd_at Hi0 pi0 Hi0.
    destruct (Nat.eqb_spec i0 i) as [->|Hn0]; [cbn in Hs0; discriminate|].
    destruct (H2 i0 pi0 w c Hi0 Hs0 Hin) as (pc & Hc & Hp & Hl & T).
    rewrite get_upd, Hc. destruct (Nat.eqb_spec c i) as [->|Hn]; cbn [option_map].
    + eexists; split; [reflexivity|]. cbn. repeat split; auto.
      assert (pc = pi) by congruence. subst pc. unfold told2 in *. cbn. rewrite Hs in T. eapply F2; eauto.
    + exists pc. repeat split; auto.
Qed.

(* an exit signal that is not from the parent is taken out of the mailbox of a process that stays *)
Lemma pop_Inv s i pi f rest : Inv s -> get s i = Some pi -> st pi = Alive -> mbox pi = f :: rest ->
  is_parent pi f = false -> Inv (upd s i (fun p => set_mbox p rest)).
Proof.
  intros (Hwf & H1 & H2) Hi Hs Hm Hf. split; [|split].
  - intros c pc' Hc. upd_at Hc pc Hc. destruct (Hwf c pc Hc) as [Ha Hb]. destruct (c =? i); cbn; auto.
  - intros c pc' i0 pi0' Hc Hp Hl Hi0 Hd. upd_at Hc pc Hc. upd_at Hi0 pi0 Hi0.
    assert (st pi0 = Dead) as Hd0 by (destruct (i0 =? i); auto).
    destruct (Nat.eqb_spec c i) as [->|Hn]; [|eapply H1; eauto].
    cbn in Hp, Hl. assert (pc = pi) by congruence. subst pc.
    pose proof (H1 i pi i0 pi0 Hc Hp Hl Hi0 Hd0) as T. unfold told1 in *. cbn. rewrite Hs, Hm in *.
    destruct T as [<-|T]; auto. apply is_parent_true in Hp. congruence.
  - intros i0 pi0' w c Hi0 Hs0 Hin. upd_at Hi0 pi0 Hi0.
    destruct (Nat.eqb_spec i0 i) as [->|Hn0]; [cbn in Hs0; congruence|].
    destruct (H2 i0 pi0 w c Hi0 Hs0 Hin) as (pc & Hc & Hp & Hl & T).
    rewrite get_upd, Hc. destruct (Nat.eqb_spec c i) as [->|Hn]; cbn [option_map].
    + eexists; split; [reflexivity|]. cbn. repeat split; auto.
      assert (pc = pi) by congruence. subst pc. unfold told2 in *. cbn. rewrite Hs, Hm in *.
      destruct T as [<-|T]; auto. apply is_parent_true in Hp. congruence.
    + exists pc. repeat split; auto.
Qed.

(* a shutting supervisor takes an exit out of its mailbox and its sender out of the wait set *)
Lemma drain_Inv s i pi w f rest : Inv s -> get s i = Some pi -> st pi = Shutting w -> mbox pi = f :: rest ->
  Inv (upd s i (fun p => set_mbox (set_st p (Shutting (remove Nat.eq_dec f w))) rest)).
Proof.
  intros (Hwf & H1 & H2) Hi Hs Hm. split; [|split].
  - intros c pc' Hc. upd_at Hc pc Hc. destruct (Hwf c pc Hc) as [Ha Hb].
    destruct (Nat.eqb_spec c i) as [->|Hn]; cbn; auto. split; auto. intros _. apply Hb.
    assert (pc = pi) by congruence. subst pc. rewrite Hs. reflexivity.
  - intros c pc' i0 pi0' Hc Hp Hl Hi0 Hd. upd_at Hc pc Hc. upd_at Hi0 pi0 Hi0.
    destruct (Nat.eqb_spec i0 i) as [->|Hn0]; [cbn in Hd; discriminate|].
    destruct (Nat.eqb_spec c i) as [->|Hn]; [exact I|]. eapply H1; eauto.
  - intros i0 pi0' w0 c Hi0 Hs0 Hin. upd_at Hi0 pi0 Hi0.
    destruct (Nat.eqb_spec i0 i) as [->|Hn0].
    + cbn in Hs0. inversion Hs0; subst w0. apply in_remove in Hin as [Hin Hne].
      assert (pi0 = pi) by congruence. subst pi0.
      destruct (H2 i pi w c Hi0 Hs Hin) as (pc & Hc & Hp & Hl & T).
      assert (c <> i) as Hci by (intros ->; eapply wf_parent_ne; eauto).
      exists pc. rewrite get_upd, Hc. apply Nat.eqb_neq in Hci. rewrite Hci. repeat split; auto.
      unfold told2 in *. cbn. destruct (st pc); auto. rewrite Hm in T. destruct T as [<-|T]; [congruence|auto].
    + destruct (H2 i0 pi0 w0 c Hi0 Hs0 Hin) as (pc & Hc & Hp & Hl & T).
      rewrite get_upd, Hc. destruct (Nat.eqb_spec c i) as [->|Hn]; cbn [option_map].
      * eexists; split; [reflexivity|]. cbn. repeat split; auto.
      * exists pc. repeat split; auto.
Qed.

(* a supervisor enters its shutdown protocol: every member of the wait set holds its exit signal *)
Lemma shut_Inv s i pi w rest : Inv s -> get s i = Some pi -> st pi = Alive -> knd pi = KSup ->
  (forall c, In c w -> exists pc, get s c = Some pc /\ parent pc = Some i /\ lc pc = true /\
                                  registered (st pc) = true /\ In i (mbox pc)) ->
  Inv (upd s i (fun p => set_mbox (set_st p (Shutting w)) rest)).
Proof.
  intros (Hwf & H1 & H2) Hi Hs Hk F. split; [|split].
  - intros c pc' Hc. upd_at Hc pc Hc. destruct (Hwf c pc Hc) as [Ha Hb].
    destruct (Nat.eqb_spec c i) as [->|Hn]; cbn; auto. split; auto. intros _. congruence.
  - intros c pc' i0 pi0' Hc Hp Hl Hi0 Hd. upd_at Hc pc Hc. upd_at Hi0 pi0 Hi0.
    destruct (Nat.eqb_spec i0 i) as [->|Hn0]; [cbn in Hd; discriminate|].
    destruct (Nat.eqb_spec c i) as [->|Hn]; [exact I|]. eapply H1; eauto.
  - intros i0 pi0' w0 c Hi0 Hs0 Hin. upd_at Hi0 pi0 Hi0.
    destruct (Nat.eqb_spec i0 i) as [->|Hn0].
    + cbn in Hs0. inversion Hs0; subst w0.
      destruct (F c Hin) as (pc & Hc & Hp & Hl & Hr & Hm).
      assert (c <> i) as Hci by (intros ->; eapply wf_parent_ne; eauto).
      exists pc. rewrite get_upd, Hc. apply Nat.eqb_neq in Hci. rewrite Hci. repeat split; auto.
      unfold told2. destruct (st pc); auto; discriminate.
    + destruct (H2 i0 pi0 w0 c Hi0 Hs0 Hin) as (pc & Hc & Hp & Hl & T).
      rewrite get_upd, Hc. destruct (Nat.eqb_spec c i) as [->|Hn]; cbn [option_map].
      * eexists; split; [reflexivity|]. cbn. repeat split; auto.
      * exists pc. repeat split; auto.
Qed.

Lemma get_app_new (s : state) x c pc : get (s ++ [x]) c = Some pc ->
  (get s c = Some pc /\ c < length s) \/ (c = length s /\ pc = x).
Proof.
  unfold get. destruct (Nat.lt_ge_cases c (length s)) as [Hlt|Hge].
  - rewrite nth_error_app1 by exact Hlt. auto.
  - rewrite nth_error_app2 by exact Hge. intros H. right.
    destruct (c - length s) as [|k] eqn:E; cbn in H; [inversion H; split; [lia|reflexivity]|].
    destruct k; discriminate.
Qed.

Lemma get_app_old (s : state) x c pc : get s c = Some pc -> get (s ++ [x]) c = Some pc.
Proof. intros H. unfold get in *. rewrite nth_error_app1; [exact H | apply nth_error_Some; congruence]. Qed.

Lemma spawn_Inv s par k tr l1 l2 s' : Inv s -> spawn s par k tr l1 l2 = Some s' -> Inv s'.
Proof.
  intros (Hwf & H1 & H2) Hsp.
  assert (exists x, s' = s ++ [x] /\ st x = Alive /\
            (forall q, parent x = Some q -> exists pq, get s q = Some pq /\ registered (st pq) = true) /\
            (lp x = true -> parent x <> None)) as (x & -> & Hx & Hpar & Hlp).
  { unfold spawn in Hsp. destruct par as [p|].
    - destruct (get s p) as [pp|] eqn:Hp; [|discriminate]. destruct (registered (st pp)) eqn:Hr; [|discriminate].
      inversion Hsp. eexists; split; [reflexivity|]. cbn. repeat split; auto; try discriminate.
      intros q Hq. inversion Hq; subst q. eauto.
    - inversion Hsp. eexists; split; [reflexivity|]. cbn. repeat split; auto; discriminate. }
  split; [|split].
  - intros c pc Hc. apply get_app_new in Hc as [[Hc _]|[-> ->]]; [apply Hwf; auto|].
    split; [|rewrite Hx; discriminate]. intros q Hq. destruct (Hpar q Hq) as (pq & Hq' & _). eapply get_lt; eauto.
  - intros c pc i pi Hc Hp Hl Hi Hd.
    apply get_app_new in Hi as [[Hi _]|[-> ->]]; [|congruence].
    apply get_app_new in Hc as [[Hc _]|[-> ->]]; [eapply H1; eauto|].
    destruct (Hpar i Hp) as (pq & Hq & Hr). assert (pq = pi) by congruence. subst pq. rewrite Hd in Hr. discriminate.
  - intros i pi w c Hi Hs Hin.
    apply get_app_new in Hi as [[Hi _]|[-> ->]]; [|congruence].
    destruct (H2 i pi w c Hi Hs Hin) as (pc & Hc & Hrest). exists pc. split; [apply get_app_old; auto | auto].
Qed.

Lemma sender_faithful (b : bool) i pi : sender_pid (if b then snd_init faithful else snd_unreg faithful) i pi = i.
Proof. destruct b; reflexivity. Qed.

Lemma unreg_Inv s i s' : Inv s -> unreg faithful s i = Some s' -> Inv s'.
Proof.
  intros HI Hu. unfold unreg in Hu. destruct (get s i) as [pi|] eqn:Hi; [|discriminate].
  destruct (st pi) as [| |b|] eqn:Hs; try discriminate. rewrite sender_faithful in Hu. inversion Hu; subst s'; clear Hu.
  pose proof (bcast_Inv s (consumer faithful b i pi) i HI) as HI1.
  eapply dead_Inv with (pi := mp (consumer faithful b i pi i pi) i pi) (b := b); auto.
  - rewrite get_bcast, Hi. reflexivity.
  - rewrite mp_st. exact Hs.
  - intros c pc1 Hc Hp Hl. apply get_bcast_mp in Hc as (pc & Hc & ->). rewrite mp_parent in Hp. rewrite mp_lp in Hl.
    assert (consumer faithful b i pi c pc = true) as ->.
    { unfold consumer. apply is_parent_true in Hp. rewrite Hp, Hl. cbn. rewrite orb_true_r. cbn. apply orb_true_r. }
    apply told1_push_self.
  - intros q pq1 w Hb Hp Hl Hq Hsq. rewrite mp_parent in Hp. rewrite mp_lc in Hl.
    apply get_bcast_mp in Hq as (pq & Hq & ->). rewrite mp_st in Hsq.
    assert (consumer faithful b i pi q pq = true) as ->.
    { unfold consumer. apply is_parent_true in Hp. rewrite Hb, Hp, Hl. reflexivity. }
    apply push_in. rewrite Hsq. reflexivity.
Qed.

Lemma registered_cases x : registered x = true -> x = Alive \/ exists w, x = Shutting w.
Proof. destruct x; intros H; try discriminate; eauto. Qed.

Lemma begin_shutdown_Inv s i pi rest : Inv s -> get s i = Some pi -> st pi = Alive -> knd pi = KSup ->
  Inv (begin_shutdown s i rest).
Proof.
  intros HI Hi Hs Hk. unfold begin_shutdown.
  pose proof (bcast_Inv s (told i) i HI) as HI1.
  eapply shut_Inv with (pi := mp (told i i pi) i pi); auto.
  - rewrite get_bcast, Hi. reflexivity.
  - rewrite mp_st. exact Hs.
  - rewrite mp_knd. exact Hk.
  - intros c Hin. apply In_select in Hin as (pc & Hc & Ht).
    exists (push i pc). rewrite get_bcast, Hc, Ht. split; [reflexivity|].
    unfold told in Ht. apply andb_true_iff in Ht as [Ht Hr]. apply andb_true_iff in Ht as [Hp Hl].
    rewrite push_parent, push_lc, push_st. apply is_parent_true in Hp. repeat split; auto. apply push_in. exact Hr.
Qed.

Lemma consume_Inv s i d s' : Inv s -> consume s i d = Some s' -> Inv s'.
Proof.
  intros HI Hc. pose proof HI as (Hwf & _ & _). unfold consume in Hc.
  destruct (get s i) as [pi|] eqn:Hi; [|discriminate].
  destruct (registered (st pi)) eqn:Hr; [|discriminate].
  destruct (mbox pi) as [|f rest] eqn:Hm; [discriminate|].
  destruct (Hwf i pi Hi) as [Hpar Hsh].
  destruct (knd pi) eqn:Hk.
  - assert (st pi = Alive) as Hs.
    { apply registered_cases in Hr as [Hr|(w & Hr)]; auto. rewrite Hr in Hsh. specialize (Hsh eq_refl). discriminate. }
    destruct (trap pi && negb (is_parent pi f)) eqn:Ht; inversion Hc; subst s'.
    + apply andb_true_iff in Ht as [_ Ht]. apply negb_true_iff in Ht. eapply pop_Inv; eauto.
    + eapply dying_Inv; eauto. discriminate.
  - destruct (st pi) as [|w| |] eqn:Hs; try discriminate.
    + destruct (is_child s i f && negb d) eqn:Hch; inversion Hc; subst s'.
      * apply andb_true_iff in Hch as [Hch _]. unfold is_child in Hch.
        destruct (get s f) as [pf|] eqn:Hf; [|discriminate]. apply is_parent_true in Hch.
        destruct (Hwf f pf Hf) as [Hpf _]. specialize (Hpf i Hch).
        eapply pop_Inv; eauto. destruct (is_parent pi f) eqn:Hpp; auto.
        apply is_parent_true in Hpp. specialize (Hpar f Hpp). lia.
      * eapply begin_shutdown_Inv; eauto.
    + inversion Hc; subst s'. eapply drain_Inv; eauto.
  - inversion Hc; subst s'. eapply dying_Inv; eauto. discriminate.
Qed.

Lemma finish_Inv s i s' : Inv s -> finish s i = Some s' -> Inv s'.
Proof.
  intros HI Hf. unfold finish in Hf. destruct (get s i) as [pi|] eqn:Hi; [|discriminate].
  destruct (st pi) as [|[|]| |] eqn:Hs; try discriminate. inversion Hf; subst s'.
  eapply dying_Inv; eauto; [rewrite Hs; reflexivity | discriminate].
Qed.

Lemma terminate_Inv s i b s' : Inv s -> terminate s i b = Some s' -> Inv s'.
Proof.
  intros HI Ht. unfold terminate in Ht. destruct (get s i) as [pi|] eqn:Hi; [|discriminate].
  destruct (registered (st pi) && negb (b && awaited s i pi)) eqn:Hr; [|discriminate].
  apply andb_true_iff in Hr as [Hr Ha]. inversion Ht; subst s'. eapply dying_Inv; eauto.
  intros -> q pq w Hp Hq Hsq Hin. cbn in Ha. apply negb_true_iff in Ha.
  unfold awaited in Ha. rewrite Hp, Hq, Hsq in Ha. unfold memb in Ha.
  assert (existsb (Nat.eqb i) w = true) as X by (apply existsb_exists; exists i; split; [exact Hin | apply Nat.eqb_refl]).
  congruence.
Qed.

Theorem step_Inv s l s' : Inv s -> step faithful s l = Some s' -> Inv s'.
Proof.
  intros HI Hs. destruct l; cbn [step] in Hs.
  - eapply spawn_Inv; eauto.
  - eapply terminate_Inv; eauto.
  - unfold send_exit in Hs. inversion Hs. apply bcast_Inv. exact HI.
  - eapply unreg_Inv; eauto.
  - eapply consume_Inv; eauto.
  - eapply finish_Inv; eauto.
Qed.

Lemma run_Inv ls : forall s s', Inv s -> run faithful s ls = Some s' -> Inv s'.
Proof.
  induction ls as [|l tl IH]; intros s s' HI Hr; cbn [run] in Hr.
  - inversion Hr; subst; exact HI.
  - destruct (step faithful s l) as [s1|] eqn:Hs; [|discriminate]. eapply IH; [eapply step_Inv; eauto | exact Hr].
Qed.

Lemma Inv_empty : Inv [].
Proof.
  split; [|split]; intros c; intros; destruct c; discriminate.
Qed.

Theorem reach_Inv s : reach faithful [] s -> Inv s.
Proof. intros (ls & Hr). eapply run_Inv; [apply Inv_empty | exact Hr]. Qed.

(* ---- (ii) no orphans at quiescence -------------------------------------------------------------------- *)
Lemma quiescent_get s c pc : quiescent s = true -> get s c = Some pc -> quiet_proc pc = true.
Proof.
  intros Hq Hc. unfold quiescent in Hq. rewrite forallb_forall in Hq. apply Hq. eapply nth_error_In. exact Hc.
Qed.

Lemma quiescent_no_shutting s : Inv s -> quiescent s = true ->
  forall n c pc, length s - c <= n -> get s c = Some pc -> is_shutting (st pc) = false.
Proof.
  intros (Hwf & _ & H2) Hq. induction n as [|n IH]; intros c pc Hn Hc.
  - apply get_lt in Hc. lia.
  - destruct (st pc) as [|w| |] eqn:Hs; try reflexivity. exfalso.
    pose proof (quiescent_get s c pc Hq Hc) as Q. unfold quiet_proc in Q. rewrite Hs in Q.
    destruct w as [|c' w]; [discriminate|]. destruct (mbox pc) eqn:Hm; [|discriminate].
    destruct (H2 c pc (c' :: w) c' Hc Hs (or_introl eq_refl)) as (pc' & Hc' & Hp & _ & T).
    destruct (Hwf c' pc' Hc') as [Hlt _]. specialize (Hlt c Hp).
    pose proof (get_lt _ _ _ Hc') as Hlen.
    pose proof (quiescent_get s c' pc' Hq Hc') as Q'. unfold quiet_proc in Q'. unfold told2 in T.
    destruct (st pc') as [|w'| |] eqn:Hs'.
    + destruct (mbox pc'); [destruct T | discriminate].
    + assert (is_shutting (st pc') = false) as X by (apply (IH c' pc'); [lia | exact Hc']). rewrite Hs' in X. discriminate.
    + discriminate.
    + rewrite Hm in T. destruct T.
Qed.

Lemma quiescent_child_dead s a c pa pc : Inv s -> quiescent s = true ->
  get s a = Some pa -> st pa = Dead -> get s c = Some pc -> parent pc = Some a -> lp pc = true -> st pc = Dead.
Proof.
  intros HI Hq Ha Hd Hc Hp Hl. pose proof HI as (_ & H1 & _).
  pose proof (H1 c pc a pa Hc Hp Hl Ha Hd) as T. unfold told1 in T.
  pose proof (quiescent_get s c pc Hq Hc) as Q. unfold quiet_proc in Q.
  pose proof (quiescent_no_shutting s HI Hq (length s) c pc ltac:(lia) Hc) as NS.
  destruct (st pc) eqn:Hs; try discriminate; auto.
  destruct (mbox pc); [destruct T | discriminate].
Qed.

Theorem no_orphans_at_quiescence s : Inv s -> quiescent s = true ->
  forall a d, dead s a -> lp_desc s a d -> dead s d.
Proof.
  intros HI Hq a d Hda Hdesc. induction Hdesc as [a c pc Hc Hp Hl | a m c pc Hdesc IH Hc Hp Hl].
  - destruct Hda as (pa & Ha & Hd). exists pc. split; auto. apply (quiescent_child_dead s a c pa pc); auto.
  - destruct (IH Hda) as (pm & Hm & Hd). exists pc. split; auto. apply (quiescent_child_dead s m c pm pc); auto.
Qed.

(* ---- (iii) progress: every internal step lowers mu ------------------------------------------------------ *)
Lemma mapi_from_id {A} (h : nat -> A -> A) l : forall m, (forall j p, m <= j -> h j p = p) -> mapi_from h m l = l.
Proof.
  induction l as [|x tl IH]; intros m H; cbn [mapi_from]; [reflexivity|].
  rewrite H by lia. rewrite IH; [reflexivity|]. intros j p Hj. apply H. lia.
Qed.

Lemma sum_upd_from f g l : forall n i pi, nth_error l i = Some pi ->
  sum_by f (mapi_from (fun j p => if j =? n + i then g p else p) n l) + f pi = sum_by f l + f (g pi).
Proof.
  induction l as [|x tl IH]; intros n i pi Hn; destruct i; cbn [nth_error] in Hn; try discriminate.
  - inversion Hn; subst x. cbn [mapi_from sum_by]. rewrite Nat.add_0_r, Nat.eqb_refl.
    rewrite mapi_from_id; [lia|]. intros j p Hj. destruct (Nat.eqb_spec j n); [lia | reflexivity].
  - cbn [mapi_from sum_by]. destruct (Nat.eqb_spec n (n + S i)); [lia|].
    replace (n + S i) with (S n + i) by lia. specialize (IH (S n) i pi Hn). lia.
Qed.

Lemma sum_upd f s i g pi : get s i = Some pi -> sum_by f (upd s i g) + f pi = sum_by f s + f (g pi).
Proof. intros H. unfold upd, mapi. apply (sum_upd_from f g s 0 i pi H). Qed.

Lemma sum_mapi_eq f (h : nat -> proc -> proc) l : (forall j p, f (h j p) = f p) ->
  forall n, sum_by f (mapi_from h n l) = sum_by f l.
Proof. intros H. induction l as [|x tl IH]; intros n; cbn [mapi_from sum_by]; [reflexivity | rewrite H, IH; reflexivity]. Qed.

Lemma sum_mapi_le f (h : nat -> proc -> proc) l : (forall j p, f (h j p) <= f p + 1) ->
  forall n, sum_by f (mapi_from h n l) <= sum_by f l + length l.
Proof.
  intros H. induction l as [|x tl IH]; intros n; cbn [mapi_from sum_by length]; [lia|].
  specialize (H n x). specialize (IH (S n)). lia.
Qed.

Definition Wt (s : state) := sum_by (fun p => weight (st p)) s.
Definition Mb (s : state) := sum_by (fun p => length (mbox p)) s.

Lemma Wt_bcast s g x : Wt (bcast s g x) = Wt s.
Proof. unfold Wt, bcast, mapi. apply sum_mapi_eq. intros j p. fold (mp (g j p) x p). rewrite mp_st. reflexivity. Qed.

Lemma push_len x p : length (mbox (push x p)) <= length (mbox p) + 1.
Proof. unfold push. destruct (registered (st p)); cbn [mbox set_mbox]; [rewrite app_length; cbn; lia | lia]. Qed.

Lemma Mb_bcast s g x : Mb (bcast s g x) <= Mb s + length s.
Proof.
  unfold Mb, bcast, mapi. apply sum_mapi_le. intros j p. destruct (g j p); [apply push_len | lia].
Qed.

Lemma mu_alt s : mu s = S (length s) * Wt s + Mb s.
Proof. reflexivity. Qed.

(* one process changes: weight goes down by at least one, its mailbox does not grow *)
Lemma mu_upd_status s i pi g : get s i = Some pi ->
  weight (st (g pi)) < weight (st pi) -> length (mbox (g pi)) <= length (mbox pi) ->
  S (length s) * Wt (upd s i g) + Mb (upd s i g) + S (length s) <= S (length s) * Wt s + Mb s.
Proof.
  intros Hi Hw Hm.
  pose proof (sum_upd (fun p => weight (st p)) s i g pi Hi) as E1.
  pose proof (sum_upd (fun p => length (mbox p)) s i g pi Hi) as E2.
  fold (Wt (upd s i g)) (Wt s) in E1. fold (Mb (upd s i g)) (Mb s) in E2.
  assert (Wt (upd s i g) + 1 <= Wt s) as E3 by lia.
  assert (Mb (upd s i g) <= Mb s) as E4 by lia.
  assert (S (length s) * (Wt (upd s i g) + 1) <= S (length s) * Wt s) as E5 by (apply Nat.mul_le_mono_l; exact E3).
  lia.
Qed.

Lemma mu_upd_pop s i pi g : get s i = Some pi ->
  weight (st (g pi)) = weight (st pi) -> length (mbox (g pi)) < length (mbox pi) ->
  mu (upd s i g) < mu s.
Proof.
  intros Hi Hw Hm. rewrite !mu_alt, length_upd.
  pose proof (sum_upd (fun p => weight (st p)) s i g pi Hi) as E1.
  pose proof (sum_upd (fun p => length (mbox p)) s i g pi Hi) as E2.
  fold (Wt (upd s i g)) (Wt s) in E1. fold (Mb (upd s i g)) (Mb s) in E2.
  assert (Wt (upd s i g) = Wt s) as -> by lia. lia.
Qed.

Lemma mu_status s i pi g : get s i = Some pi ->
  weight (st (g pi)) < weight (st pi) -> length (mbox (g pi)) <= length (mbox pi) -> mu (upd s i g) < mu s.
Proof. intros Hi Hw Hm. pose proof (mu_upd_status s i pi g Hi Hw Hm). rewrite !mu_alt, length_upd. lia. Qed.

(* pushes to the others first, then the status change *)
Lemma mu_bcast_status s h x i pi g : get s i = Some pi ->
  weight (st (g (mp (h i pi) x pi))) < weight (st pi) ->
  length (mbox (g (mp (h i pi) x pi))) <= length (mbox (mp (h i pi) x pi)) ->
  mu (upd (bcast s h x) i g) < mu s.
Proof.
  intros Hi Hw Hm.
  assert (get (bcast s h x) i = Some (mp (h i pi) x pi)) as Hi1 by (rewrite get_bcast, Hi; reflexivity).
  assert (weight (st (g (mp (h i pi) x pi))) < weight (st (mp (h i pi) x pi))) as Hw' by (rewrite (mp_st (h i pi) x pi); exact Hw).
  pose proof (mu_upd_status (bcast s h x) i _ g Hi1 Hw' Hm) as E.
  rewrite length_bcast, Wt_bcast in E. pose proof (Mb_bcast s h x). rewrite !mu_alt, length_upd, length_bcast. lia.
Qed.

Theorem internal_step_decreases cf s l s' : internal l = true -> step cf s l = Some s' -> mu s' < mu s.
Proof.
  intros Hint Hs. destruct l; try discriminate; cbn [step] in Hs.
  - unfold unreg in Hs. destruct (get s i) as [pi|] eqn:Hi; [|discriminate].
    destruct (st pi) as [| |b|] eqn:Hst; try discriminate. inversion Hs; subst s'.
    eapply (mu_bcast_status _ _ _ _ pi _ Hi); cbn; [rewrite Hst; cbn; lia | lia].
  - unfold consume in Hs. destruct (get s i) as [pi|] eqn:Hi; [|discriminate].
    destruct (registered (st pi)) eqn:Hr; [|discriminate].
    destruct (mbox pi) as [|f rest] eqn:Hm; [discriminate|].
    assert (1 < weight (st pi)) as Hw1 by (destruct (st pi); cbn in *; try discriminate; lia).
    destruct (knd pi).
    + destruct (trap pi && negb (is_parent pi f)); inversion Hs; subst s'.
      * eapply (mu_upd_pop _ _ pi _ Hi); cbn; [reflexivity | rewrite Hm; cbn; lia].
      * eapply (mu_status _ _ pi _ Hi); cbn; lia.
    + destruct (st pi) as [|w| |] eqn:Hst; try discriminate.
      * destruct (is_child s i f && negb d); inversion Hs; subst s'.
        -- eapply (mu_upd_pop _ _ pi _ Hi); cbn; [reflexivity | rewrite Hm; cbn; lia].
        -- unfold begin_shutdown. eapply (mu_bcast_status _ _ _ _ pi _ Hi); cbn; [rewrite Hst; cbn; lia|].
           pose proof (mp_incl (told i i pi) i pi) as _. unfold mp. destruct (told i i pi).
           ++ unfold push. rewrite Hst. cbn. rewrite Hm, app_length. cbn. lia.
           ++ rewrite Hm. cbn. lia.
      * inversion Hs; subst s'. eapply (mu_upd_pop _ _ pi _ Hi); cbn; [rewrite Hst; reflexivity | rewrite Hm; cbn; lia].
    + inversion Hs; subst s'. eapply (mu_status _ _ pi _ Hi); cbn; lia.
  - unfold finish in Hs. destruct (get s i) as [pi|] eqn:Hi; [|discriminate].
    destruct (st pi) as [|[|]| |] eqn:Hst; try discriminate. inversion Hs; subst s'.
    eapply (mu_status _ _ pi _ Hi); cbn; [rewrite Hst; cbn; lia | lia].
Qed.

Theorem internal_run_bound cf ls : forall s s', Forall (fun l => internal l = true) ls ->
  run cf s ls = Some s' -> length ls + mu s' <= mu s.
Proof.
  induction ls as [|l tl IH]; intros s s' Hall Hr; cbn [run length] in *.
  - inversion Hr; subst. lia.
  - destruct (step cf s l) as [s1|] eqn:Hs; [|discriminate].
    pose proof (internal_step_decreases cf s l s1 (Forall_inv Hall) Hs).
    pose proof (IH s1 s' (Forall_inv_tail Hall) Hr). lia.
Qed.

(* a state without an enabled internal step is quiescent, and conversely *)
Lemma consume_enabled s i p d : get s i = Some p -> registered (st p) = true -> mbox p <> [] -> consume s i d <> None.
Proof.
  intros Hi Hr Hm. unfold consume. rewrite Hi, Hr. destruct (mbox p) as [|f rest]; [congruence|].
  destruct (knd p); [destruct (trap p && negb (is_parent p f)) | destruct (st p); try destruct (is_child s i f && negb d) | ];
    discriminate.
Qed.

Lemma not_quiet_enabled cf s i p : get s i = Some p -> quiet_proc p = false ->
  exists l, internal l = true /\ step cf s l <> None.
Proof.
  intros Hi Hq. unfold quiet_proc in Hq. destruct (st p) as [|w|b|] eqn:Hs.
  - exists (LConsume i false). split; [reflexivity|]. cbn [step]. apply (consume_enabled s i p false Hi).
    + rewrite Hs; reflexivity.
    + destruct (mbox p); [discriminate | congruence].
  - destruct w as [|c w].
    + exists (LFinish i). split; [reflexivity|]. cbn [step]. unfold finish. rewrite Hi, Hs. discriminate.
    + exists (LConsume i false). split; [reflexivity|]. cbn [step]. apply (consume_enabled s i p false Hi).
      * rewrite Hs; reflexivity.
      * destruct (mbox p); [discriminate | congruence].
  - exists (LUnreg i). split; [reflexivity|]. cbn [step]. unfold unreg. rewrite Hi, Hs. discriminate.
  - discriminate.
Qed.

Theorem stuck_is_quiescent cf s :
  (forall l, internal l = true -> step cf s l = None) -> quiescent s = true.
Proof.
  intros H. unfold quiescent. apply forallb_forall. intros p Hin. apply In_nth_error in Hin as (i & Hi).
  destruct (quiet_proc p) eqn:Hq; [reflexivity|]. exfalso.
  destruct (not_quiet_enabled cf s i p Hi Hq) as (l & Hl & Hne). apply Hne. apply H. exact Hl.
Qed.

Theorem quiescent_is_stuck cf s l : quiescent s = true -> internal l = true -> step cf s l = None.
Proof.
  intros Hq Hl. destruct l; try discriminate; cbn [step].
  - unfold unreg. destruct (get s i) as [p|] eqn:Hi; [|reflexivity].
    pose proof (quiescent_get s i p Hq Hi) as Q. unfold quiet_proc in Q. destruct (st p); try reflexivity. discriminate.
  - unfold consume. destruct (get s i) as [p|] eqn:Hi; [|reflexivity].
    pose proof (quiescent_get s i p Hq Hi) as Q. unfold quiet_proc in Q.
    destruct (st p) as [|[|]| |]; cbn [registered]; try reflexivity; try discriminate;
      destruct (mbox p); try reflexivity; discriminate.
  - unfold finish. destruct (get s i) as [p|] eqn:Hi; [|reflexivity].
    pose proof (quiescent_get s i p Hq Hi) as Q. unfold quiet_proc in Q.
    destruct (st p) as [|[|]| |]; try reflexivity. discriminate.
Qed.

(* the deterministic scheduler reaches quiescence within mu steps *)
Lemma next_of_none i p : next_of i p = None -> quiet_proc p = true.
Proof.
  unfold next_of, quiet_proc. destruct (st p) as [|[|]| |]; try discriminate; try reflexivity;
    destruct (mbox p); try discriminate; reflexivity.
Qed.

Lemma next_from_none l : forall n, next_from n l = None -> forallb quiet_proc l = true.
Proof.
  induction l as [|p tl IH]; intros n H; cbn [next_from forallb] in *; [reflexivity|].
  destruct (next_of n p) eqn:E; [discriminate|]. rewrite (next_of_none n p E). cbn. eapply IH; eauto.
Qed.

Lemma next_from_some l : forall n lab, next_from n l = Some lab ->
  exists i p, nth_error l (i - n) = Some p /\ n <= i /\ next_of i p = Some lab.
Proof.
  induction l as [|p tl IH]; intros n lab H; cbn [next_from] in H; [discriminate|].
  destruct (next_of n p) eqn:E.
  - inversion H; subst. exists n, p. rewrite Nat.sub_diag. auto.
  - destruct (IH (S n) lab H) as (i & q & Hn & Hle & Hq). exists i, q.
    replace (i - n) with (S (i - S n)) by lia. repeat split; auto. lia.
Qed.

Lemma next_enabled cf s i p lab : get s i = Some p -> next_of i p = Some lab ->
  internal lab = true /\ step cf s lab <> None.
Proof.
  intros Hi Hn. unfold next_of in Hn. destruct (st p) as [|w|b|] eqn:Hs.
  - destruct (mbox p) eqn:Hm; [discriminate|]. inversion Hn; subst. split; [reflexivity|]. cbn [step].
    apply (consume_enabled s i p false Hi); [rewrite Hs; reflexivity | congruence].
  - destruct w as [|c w].
    + inversion Hn; subst. split; [reflexivity|]. cbn [step]. unfold finish. rewrite Hi, Hs. discriminate.
    + destruct (mbox p) eqn:Hm; [discriminate|]. inversion Hn; subst. split; [reflexivity|]. cbn [step].
      apply (consume_enabled s i p false Hi); [rewrite Hs; reflexivity | congruence].
  - inversion Hn; subst. split; [reflexivity|]. cbn [step]. unfold unreg. rewrite Hi, Hs. discriminate.
  - discriminate.
Qed.

Theorem drive_quiescent cf : forall fuel s, mu s <= fuel -> quiescent (drive cf fuel s) = true.
Proof.
  induction fuel as [|k IH]; intros s Hmu; cbn [drive].
  - destruct (next_from 0 s) as [lab|] eqn:E; [|eapply next_from_none; eauto].
    apply next_from_some in E as (i & p & Hi & _ & Hn). rewrite Nat.sub_0_r in Hi.
    destruct (next_enabled cf s i p lab Hi Hn) as [Hint Hne].
    destruct (step cf s lab) as [s'|] eqn:Hs; [|congruence].
    pose proof (internal_step_decreases cf s lab s' Hint Hs). lia.
  - destruct (next_from 0 s) as [lab|] eqn:E; [|eapply next_from_none; eauto].
    apply next_from_some in E as (i & p & Hi & _ & Hn). rewrite Nat.sub_0_r in Hi.
    destruct (next_enabled cf s i p lab Hi Hn) as [Hint Hne].
    destruct (step cf s lab) as [s'|] eqn:Hs; [|congruence].
    pose proof (internal_step_decreases cf s lab s' Hint Hs). apply IH. lia.
Qed.

Theorem drive_run cf : forall fuel s, exists ls,
  Forall (fun l => internal l = true) ls /\ run cf s ls = Some (drive cf fuel s).
Proof.
  induction fuel as [|k IH]; intros s; cbn [drive].
  - exists []. split; [constructor | reflexivity].
  - destruct (next_from 0 s) as [lab|] eqn:E; [|exists []; split; [constructor | reflexivity]].
    destruct (step cf s lab) as [s'|] eqn:Hs; [|exists []; split; [constructor | reflexivity]].
    apply next_from_some in E as (i & p & Hi & _ & Hn). rewrite Nat.sub_0_r in Hi.
    destruct (next_enabled cf s i p lab Hi Hn) as [Hint _].
    destruct (IH s') as (ls & Hall & Hr). exists (lab :: ls). split; [constructor; auto|]. cbn [run]. rewrite Hs. exact Hr.
Qed.

(* everything together for the real code: from any reachable forest, whatever was killed / failed, the
   system settles within mu steps and then nobody below a dead process is left *)
Theorem settle_no_orphans s : Inv s ->
  let s' := drive faithful (mu s) s in
  quiescent s' = true /\ Inv s' /\ (forall a d, dead s' a -> lp_desc s' a d -> dead s' d).
Proof.
  intros HI s'. assert (quiescent s' = true) as Hq by (apply drive_quiescent; lia).
  assert (Inv s') as HI'. { destruct (drive_run faithful (mu s) s) as (ls & _ & Hr). eapply run_Inv; eauto. }
  split; [exact Hq | split; [exact HI' |]]. apply no_orphans_at_quiescence; auto.
Qed.

(* ---- why the sender must be the parent ------------------------------------------------------------------ *)
Lemma parent_exit_is_fatal s i pi f rest d : get s i = Some pi -> st pi = Alive -> knd pi = KActor ->
  mbox pi = f :: rest -> parent pi = Some f ->
  consume s i d = Some (upd s i (fun p => set_st p (Dying false))).
Proof.
  intros Hi Hs Hk Hm Hp. unfold consume. rewrite Hi, Hs, Hm, Hk. cbn [registered].
  apply is_parent_true in Hp. rewrite Hp. rewrite andb_false_r. reflexivity.
Qed.

Lemma foreign_exit_is_trapped s i pi f rest d : get s i = Some pi -> st pi = Alive -> knd pi = KActor ->
  mbox pi = f :: rest -> parent pi <> Some f -> trap pi = true ->
  consume s i d = Some (upd s i (fun p => set_mbox p rest)).
Proof.
  intros Hi Hs Hk Hm Hp Ht. unfold consume. rewrite Hi, Hs, Hm, Hk, Ht. cbn [registered].
  destruct (is_parent pi f) eqn:E; [apply is_parent_true in E; congruence | reflexivity].
Qed.

(* the sender of the exit is the grandparent (RouteTerminatePID / the init-failure path using p.parent): a
   trapping child takes the signal for a foreign one, handles it as a message and survives its dead parent *)
Definition orphan_witness (cf : cfg) (ls : list label) (a d : nat) : bool :=
  match run cf [] ls with
  | Some s =>
      quiescent s &&
      match get s a, get s d with
      | Some pa, Some pd =>
          (match st pa with Dead => true | _ => false end) && registered (st pd) && lp pd &&
          (match parent pd with Some q => q =? a | None => false end)
      | _, _ => false
      end
  | None => false
  end.

Lemma orphan_witness_sound cf ls a d : orphan_witness cf ls a d = true ->
  exists s, reach cf [] s /\ quiescent s = true /\ dead s a /\ lp_desc s a d /\ live s d.
Proof.
  unfold orphan_witness. destruct (run cf [] ls) as [s|] eqn:Hr; [|discriminate]. intros H.
  apply andb_true_iff in H as [Hq H]. destruct (get s a) as [pa|] eqn:Ha; [|discriminate].
  destruct (get s d) as [pd|] eqn:Hd; [|discriminate].
  apply andb_true_iff in H as [H Hp]. apply andb_true_iff in H as [H Hl]. apply andb_true_iff in H as [Hda Hreg].
  exists s. split; [exists ls; exact Hr|]. split; [exact Hq|]. split; [|split].
  - exists pa. split; auto. destruct (st pa); try discriminate; reflexivity.
  - apply (lp_child s a d pd); auto. destruct (parent pd) as [q|]; [|discriminate]. apply Nat.eqb_eq in Hp. congruence.
  - exists pd. auto.
Qed.

Definition w_tree (init : bool) : list label :=
  [LSpawn None KSup false false false; LSpawn (Some 0) KSup false true false; LSpawn (Some 1) KActor true true true;
   LTerminate 1 init; LUnreg 1; LConsume 2 false].

Theorem sender_grandparent_refuted :
  exists s, reach (mkCfg FromParent FromSelf true) [] s /\ quiescent s = true /\ dead s 1 /\ lp_desc s 1 2 /\ live s 2.
Proof. apply (orphan_witness_sound _ (w_tree false)). vm_compute. reflexivity. Qed.

Theorem init_sender_grandparent_refuted :
  exists s, reach (mkCfg FromSelf FromParent true) [] s /\ quiescent s = true /\ dead s 1 /\ lp_desc s 1 2 /\ live s 2.
Proof. apply (orphan_witness_sound _ (w_tree true)). vm_compute. reflexivity. Qed.

(* the same schedules on the faithful model: the child dies *)
Example sender_parent_ok :
  orphan_witness faithful (w_tree false) 1 2 = false /\ orphan_witness faithful (w_tree true) 1 2 = false.
Proof. split; vm_compute; reflexivity. Qed.

(* the defect repaired in node.spawnMember: a failed ProcessInit told only the LinkChild children
   (CleanupConsumer); the workers of a pool (LinkParent only) stayed *)
Theorem init_failure_without_consumers_refuted :
  exists s, reach (mkCfg FromSelf FromSelf false) [] s /\ quiescent s = true /\ dead s 0 /\ lp_desc s 0 1 /\ live s 1.
Proof.
  apply (orphan_witness_sound _ [LSpawn None KPool false false false; LSpawn (Some 0) KActor false true false;
                                 LTerminate 0 true; LUnreg 0]).
  vm_compute. reflexivity.
Qed.

(* hypotheses are satisfiable by a non-trivial forest: a supervisor with a trapping child and a nested
   supervisor with its own trapping child, the root is killed; the faithful model settles with everybody dead *)
Example settle_example :
  match run faithful [] [LSpawn None KSup false false false; LSpawn (Some 0) KActor true true true;
                         LSpawn (Some 0) KSup false true true; LSpawn (Some 2) KActor true true true;
                         LSpawn (Some 0) KPool false true true; LSpawn (Some 4) KActor false true false;
                         LTerminate 0 false] with
  | Some s => survivors (drive faithful (mu s) s) = [] /\ mu s = 112
  | None => False
  end.
Proof. vm_compute. split; reflexivity. Qed.
