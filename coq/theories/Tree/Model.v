(* Tree engine (C10): LinkParent closure over arbitrary process forests.  Model, definitions only.

   A forest of processes of unbounded size and depth: the state is a list of process records, the pid of a
   process is its index, `parent` points to the spawner (None: spawned by the node itself).  The forest grows
   by spawn steps, so every finite forest is reachable from the empty one.

   What the rules transcribe (ergo as it is after the repair of node.spawnMember, see findings/C10.md):

   node/node.go spawnMember:        if options.LinkParent { n.targetManager.AddLink(p.pid, p.parent) }
   node/process.go Spawn:           if options.LinkChild  { p.node.targetManager.AddLink(p.pid, pid) }
   act/supervisor.go handleAction:  action.spec.Options.LinkChild = true; action.spec.Options.LinkParent = true
   act/pool.go (3 sites):           gen.ProcessOptions{ MailboxSize: ..., LinkParent: true }

   node/node.go unregisterProcess:  n.processes.Delete(p.pid) ... n.RouteTerminatePID(p.pid, reason)
                                    linkTargets, monitorTargets := n.targetManager.CleanupConsumer(p.pid)   (dropped)
   node/core.go RouteTerminatePID:  linkConsumers, _ := n.targetManager.CleanupTarget(target)
                                    for _, pid := range linkConsumers { n.sendExitMessage(target, pid, messageExit) }
   node/core.go sendExitMessage:    value, loaded := n.processes.Load(to); if loaded == false { return ErrProcessUnknown }
                                    qm.From = from; qm.Type = MailboxMessageTypeExit; p.mailbox.Urgent.Push(qm)
   node/node.go spawnMember, ProcessInit failed:
                                    linkTargets, _ := n.targetManager.CleanupConsumer(p.pid)
                                    for ... { n.sendExitMessage(p.pid, pid, messageExit); n.targetManager.RemoveLink(pid, p.pid) }
                                    n.RouteTerminatePID(p.pid, err)
   act/actor.go ProcessRun:         case gen.MessageExitPID:
                                       if a.trap && message.From != a.Parent() { message.Type = Regular; goto retry }
                                       return fmt.Errorf("%s: %w", exit.PID, exit.Reason)
   act/pool.go ProcessRun:          case gen.MessageExitPID: return fmt.Errorf(...)
   act/supervisor.go ProcessRun:    case gen.MessageExitPID: name, found := s.children[exit.PID] ...
                                       action := s.sup.childTerminated(name, exit.PID, exit.Reason); s.handleAction(action)
                                    (exit of a non-child, the parent included: shutdown = SendExit to every recorded
                                     running child, wait for their exits, terminate when the wait set is empty;
                                     Sup/MachineProofs.v shutdown_covers_all / shutdown_drains)

   Abstractions (listed as assumptions of C10): a mailbox accepts every exit signal (unbounded Urgent queue);
   unregisterProcess sends its exit messages in one step; a process whose ProcessInit is still running is
   treated like a registered one (it can be the target of more steps than in reality).  The spawner of a process
   whose ProcessInit failed is NOT sent anything (the LinkChild relation is added by process.Spawn only after a
   successful spawn): it gets the error of Spawn and does with it what it likes - a supervisor leaves
   handleAction with that error (bypass of its protocol: an environment terminate step), a plain actor may
   go on. *)
From Ergo Require Import Common.Base.

Inductive kind := KActor | KSup | KPool.

Inductive status :=
| Alive                      (* in node.processes (init / sleep / running / wait response) *)
| Shutting (w : list nat)    (* act.Supervisor in its shutdown protocol; w = wait set *)
| Dying (init : bool)        (* left node.processes (killed, callback returned an error, panic; init = true: its
                                ProcessInit failed), the exit messages have not been sent yet *)
| Dead.                      (* unregisterProcess / the init-failure path of spawnMember is through *)

Record proc := mkProc {
  parent : option nat;   (* process.parent: the spawner *)
  knd : kind;
  trap : bool;           (* act.Actor SetTrapExit(true) *)
  lp : bool;             (* spawned with ProcessOptions.LinkParent: relation (consumer = it, target = parent) *)
  lc : bool;             (* spawned with ProcessOptions.LinkChild:  relation (consumer = parent, target = it) *)
  st : status;
  mbox : list nat        (* pending exit signals in mailbox.Urgent: qm.From of each *)
}.

Definition state := list proc.

(* which pid the exit message carries as its sender *)
Inductive sender := FromSelf | FromParent.

Record cfg := mkCfg {
  snd_unreg : sender;       (* RouteTerminatePID: sendExitMessage(target, pid, ...)       -> FromSelf *)
  snd_init : sender;        (* spawnMember, failed init: sendExitMessage(p.pid, pid, ...) -> FromSelf *)
  init_consumers : bool     (* failed init also tells the LinkParent children (RouteTerminatePID(p.pid, err)) *)
}.

Definition faithful : cfg := mkCfg FromSelf FromSelf true.

Definition registered (x : status) : bool :=
  match x with Alive | Shutting _ => true | _ => false end.

Definition is_shutting (x : status) : bool :=
  match x with Shutting _ => true | _ => false end.

Definition get (s : state) (i : nat) : option proc := nth_error s i.

Definition set_st (p : proc) (x : status) : proc :=
  mkProc (parent p) (knd p) (trap p) (lp p) (lc p) x (mbox p).

Definition set_mbox (p : proc) (m : list nat) : proc :=
  mkProc (parent p) (knd p) (trap p) (lp p) (lc p) (st p) m.

(* sendExitMessage: only a registered process has a mailbox to push to *)
Definition push (f : nat) (p : proc) : proc :=
  if registered (st p) then set_mbox p (mbox p ++ [f]) else p.

Definition is_parent (p : proc) (i : nat) : bool :=
  match parent p with Some q => q =? i | None => false end.

Fixpoint mapi_from {A B} (f : nat -> A -> B) (n : nat) (l : list A) : list B :=
  match l with
  | [] => []
  | x :: tl => f n x :: mapi_from f (S n) tl
  end.
Definition mapi {A B} (f : nat -> A -> B) (l : list A) : list B := mapi_from f 0 l.

Definition upd (s : state) (i : nat) (f : proc -> proc) : state :=
  mapi (fun j p => if j =? i then f p else p) s.

Definition bcast (s : state) (g : nat -> proc -> bool) (x : nat) : state :=
  mapi (fun c pc => if g c pc then push x pc else pc) s.

(* indices selected by a test *)
Fixpoint select_from (g : nat -> proc -> bool) (n : nat) (l : state) : list nat :=
  match l with
  | [] => []
  | x :: tl => if g n x then n :: select_from g (S n) tl else select_from g (S n) tl
  end.
Definition select (g : nat -> proc -> bool) (s : state) : list nat := select_from g 0 s.

(* ---- (b) unregister ---------------------------------------------------------------------------- *)

(* is c a process that is told about the end of i?
   CleanupTarget(i) = relations (consumer, i): the LinkParent children of i and, when i was spawned with
   LinkChild, its parent.  After a failed init: CleanupConsumer(i) = the LinkChild children of i, then (repaired
   code) RouteTerminatePID(i) = its LinkParent children; the spawner only gets the error from Spawn (no signal). *)
Definition consumer (cf : cfg) (b : bool) (i : nat) (pi : proc) (c : nat) (pc : proc) : bool :=
  (negb b && is_parent pi c && lc pi) ||
  (is_parent pc i && ((lp pc && (negb b || init_consumers cf)) || (b && lc pc))).

Definition sender_pid (sd : sender) (i : nat) (pi : proc) : nat :=
  match sd with
  | FromSelf => i
  | FromParent => match parent pi with Some q => q | None => i end
  end.

Definition unreg (cf : cfg) (s : state) (i : nat) : option state :=
  match get s i with
  | Some pi =>
      match st pi with
      | Dying b =>
          let f := sender_pid (if b then snd_init cf else snd_unreg cf) i pi in
          Some (upd (bcast s (consumer cf b i pi) f) i (fun p => set_st p Dead))
      | _ => None
      end
  | None => None
  end.

(* ---- (c) a process takes the first exit signal out of its mailbox -------------------------------- *)

Definition is_child (s : state) (i f : nat) : bool :=
  match get s f with Some pf => is_parent pf i | None => false end.

(* supervisor shutdown: the children told = the wait set (recorded running children: spawned by it with
   LinkChild/LinkParent and still registered) *)
Definition told (i : nat) (c : nat) (pc : proc) : bool :=
  is_parent pc i && lc pc && registered (st pc).

Definition begin_shutdown (s : state) (i : nat) (rest : list nat) : state :=
  let w := select (told i) s in
  upd (bcast s (told i) i) i (fun p => set_mbox (set_st p (Shutting w)) rest).

Definition consume (s : state) (i : nat) (d : bool) : option state :=
  match get s i with
  | Some pi =>
      if registered (st pi) then
        match mbox pi with
        | [] => None
        | f :: rest =>
            match knd pi with
            | KActor =>
                (* if a.trap && message.From != a.Parent() -> handled as a regular message *)
                if trap pi && negb (is_parent pi f)
                then Some (upd s i (fun p => set_mbox p rest))
                else Some (upd s i (fun p => set_st p (Dying false)))
            | KPool => Some (upd s i (fun p => set_st p (Dying false)))
            | KSup =>
                match st pi with
                | Shutting w =>
                    (* shutdown_drains: delete(s.wait, pid) *)
                    Some (upd s i (fun p => set_mbox (set_st p (Shutting (remove Nat.eq_dec f w))) rest))
                | _ =>
                    (* exit of a child: the restart strategy decides (d = true: it gives up and shuts down;
                       restarts are spawn steps); exit of anybody else: shutdown *)
                    if is_child s i f && negb d
                    then Some (upd s i (fun p => set_mbox p rest))
                    else Some (begin_shutdown s i rest)
                end
            end
        end
      else None
  | None => None
  end.

(* a shutting supervisor terminates only with an empty wait set *)
Definition finish (s : state) (i : nat) : option state :=
  match get s i with
  | Some pi =>
      match st pi with
      | Shutting [] => Some (upd s i (fun p => set_st p (Dying false)))
      | _ => None
      end
  | None => None
  end.

(* ---- (a) the environment -------------------------------------------------------------------------- *)

(* any registered process may stop at any time for any reason: Node.Kill, an error or a panic of a callback,
   a failed restart inside handleAction (bypass of the shutdown protocol), init = true: a failing ProcessInit *)
Definition memb (x : nat) (l : list nat) : bool := existsb (Nat.eqb x) l.

(* a process still inside ProcessInit has never been recorded by its supervisor (s.children[pid] is set after
   Spawn returned): it is in no wait set *)
Definition awaited (s : state) (i : nat) (pi : proc) : bool :=
  match parent pi with
  | Some q => match get s q with
              | Some pq => match st pq with Shutting w => memb i w | _ => false end
              | None => false
              end
  | None => false
  end.

Definition terminate (s : state) (i : nat) (b : bool) : option state :=
  match get s i with
  | Some pi => if registered (st pi) && negb (b && awaited s i pi)
               then Some (upd s i (fun p => set_st p (Dying b))) else None
  | None => None
  end.

(* a registered process spawns a child (parent = the spawner), the node spawns a root *)
Definition spawn (s : state) (par : option nat) (k : kind) (tr l1 l2 : bool) : option state :=
  match par with
  | None => Some (s ++ [mkProc None k tr false false Alive []])
  | Some p =>
      match get s p with
      | Some pp => if registered (st pp) then Some (s ++ [mkProc (Some p) k tr l1 l2 Alive []]) else None
      | None => None
      end
  end.

(* anybody sends an exit signal to anybody (process.SendExit, node.SendExit, supervisor strategies) *)
Definition send_exit (s : state) (f t : nat) : option state :=
  Some (bcast s (fun c _ => c =? t) f).

Inductive label :=
| LSpawn (par : option nat) (k : kind) (tr l1 l2 : bool)
| LTerminate (i : nat) (init : bool)
| LSendExit (f t : nat)
| LUnreg (i : nat)
| LConsume (i : nat) (d : bool)
| LFinish (i : nat).

Definition internal (l : label) : bool :=
  match l with LUnreg _ | LConsume _ _ | LFinish _ => true | _ => false end.

Definition step (cf : cfg) (s : state) (l : label) : option state :=
  match l with
  | LSpawn par k tr l1 l2 => spawn s par k tr l1 l2
  | LTerminate i b => terminate s i b
  | LSendExit f t => send_exit s f t
  | LUnreg i => unreg cf s i
  | LConsume i d => consume s i d
  | LFinish i => finish s i
  end.

Fixpoint run (cf : cfg) (s : state) (ls : list label) : option state :=
  match ls with
  | [] => Some s
  | l :: tl => match step cf s l with Some s' => run cf s' tl | None => None end
  end.

Definition reach (cf : cfg) (s0 s : state) : Prop := exists ls, run cf s0 ls = Some s.

(* ---- quiescence, descendants, measure --------------------------------------------------------------- *)

Definition quiet_proc (p : proc) : bool :=
  match st p with
  | Alive => match mbox p with [] => true | _ => false end
  | Shutting [] => false
  | Shutting _ => match mbox p with [] => true | _ => false end
  | Dying _ => false
  | Dead => true
  end.

Definition quiescent (s : state) : bool := forallb quiet_proc s.

(* d is reached from a through LinkParent edges only *)
Inductive lp_desc (s : state) : nat -> nat -> Prop :=
| lp_child a c pc : get s c = Some pc -> parent pc = Some a -> lp pc = true -> lp_desc s a c
| lp_below a m c pc : lp_desc s a m -> get s c = Some pc -> parent pc = Some m -> lp pc = true -> lp_desc s a c.

Definition dead (s : state) (i : nat) : Prop := exists p, get s i = Some p /\ st p = Dead.
Definition live (s : state) (i : nat) : Prop := exists p, get s i = Some p /\ registered (st p) = true.

Definition weight (x : status) : nat :=
  match x with Alive => 3 | Shutting _ => 2 | Dying _ => 1 | Dead => 0 end.

Fixpoint sum_by (f : proc -> nat) (s : state) : nat :=
  match s with [] => 0 | p :: tl => f p + sum_by f tl end.

(* bound on the number of internal steps: (N+1) * (sum of the status weights) + pending signals *)
Definition mu (s : state) : nat :=
  S (length s) * sum_by (fun p => weight (st p)) s + sum_by (fun p => length (mbox p)) s.

(* a deterministic scheduler: the first process (lowest pid) that has something to do *)
Definition next_of (i : nat) (p : proc) : option label :=
  match st p with
  | Dying _ => Some (LUnreg i)
  | Shutting [] => Some (LFinish i)
  | Dead => None
  | _ => match mbox p with [] => None | _ => Some (LConsume i false) end
  end.

Fixpoint next_from (n : nat) (l : state) : option label :=
  match l with
  | [] => None
  | p :: tl => match next_of n p with Some x => Some x | None => next_from (S n) tl end
  end.

Fixpoint drive (cf : cfg) (fuel : nat) (s : state) : state :=
  match fuel with
  | O => s
  | S k => match next_from 0 s with
           | Some l => match step cf s l with Some s' => drive cf k s' | None => s end
           | None => s
           end
  end.

Definition survivors (s : state) : list nat := select (fun _ p => registered (st p)) s.
