(* Tree engine (C10): checkers evaluated on observations of the real node (harness `sup tree`).
   One case = one process tree started on a real node (owner actors spawning children with chosen link
   options, act.Supervisor, act.Pool and its workers, exit-trapping actors), one fault (Node.Kill, exit signal
   from outside, error returned by a callback, ProcessInit failing after the children were started) and what
   was observed until nothing moved any more: the order of unregistrations, every exit signal handed to
   sendExitMessage (from, to), the processes still alive.
   corr_*   : the model (Tree/Model.v, faithful configuration, deterministic scheduler `drive`) predicts the
              observed survivors; the real unregister told every LinkParent child, with the dead pid as sender;
   spec_*   : the property on the observation: nobody below a dead process (LinkParent edges) is alive;
   premise_*: the case is not trivial (a process with LinkParent children died). *)
From Ergo Require Import Common.Base Tree.Model.

Record tproc := mk_tproc { tp_parent : option nat; tp_kind : kind; tp_trap : bool; tp_lp : bool; tp_lc : bool }.

Inductive tev := EUnreg (i : nat) | EExit (f t : nat).

Record tcase := mk_tcase {
  tc_forest : list tproc;          (* every process of the scenario, index = order of creation *)
  tc_faults : list (nat * bool);   (* the environment's choices read back from the run: processes that ended without a
                                      fatal exit signal (killed, own error, supervisor's own decision; true: failed init) *)
  tc_ext : list (nat * nat);       (* exit signals sent by processes that were alive (strategies, shutdown, the harness) *)
  tc_events : list tev;            (* observation, in order *)
  tc_alive : list nat              (* survivors at quiescence, increasing *)
}.

Fixpoint nlist_eqb (a b : list nat) : bool :=
  match a, b with
  | [], [] => true
  | x :: a', y :: b' => (x =? y) && nlist_eqb a' b'
  | _, _ => false
  end.

Definition init_state (f : list tproc) : state :=
  map (fun t => mkProc (tp_parent t) (tp_kind t) (tp_trap t) (tp_lp t) (tp_lc t) Alive []) f.

Definition try_step (s : state) (l : label) : state :=
  match step faithful s l with Some s' => s' | None => s end.

Definition model_final (c : tcase) : state :=
  let s0 := init_state (tc_forest c) in
  let s1 := fold_left (fun s x => try_step s (LTerminate (fst x) (snd x))) (tc_faults c) s0 in
  let s2 := fold_left (fun s x => try_step s (LSendExit (fst x) (snd x))) (tc_ext c) s1 in
  drive faithful (mu s2) s2.

Definition corr_survivors (c : tcase) : bool := nlist_eqb (survivors (model_final c)) (tc_alive c).

(* rule (b) on the real node: when p was unregistered (or its init failed) every LinkParent child that was
   still there was handed an exit signal whose sender is p itself *)
Fixpoint pos_unreg (i : nat) (n : nat) (l : list tev) : option nat :=
  match l with
  | [] => None
  | EUnreg j :: tl => if j =? i then Some n else pos_unreg i (S n) tl
  | _ :: tl => pos_unreg i (S n) tl
  end.

Definition has_exit (f t : nat) (l : list tev) : bool :=
  existsb (fun e => match e with EExit f' t' => (f' =? f) && (t' =? t) | _ => false end) l.

Definition gone_before (c p : nat) (l : list tev) : bool :=
  match pos_unreg c 0 l, pos_unreg p 0 l with
  | Some a, Some b => a <? b
  | Some _, None => true
  | _, _ => false
  end.

Definition indexed {A} (l : list A) : list (nat * A) := combine (seq 0 (length l)) l.

Definition corr_signals (c : tcase) : bool :=
  forallb (fun ct =>
    let '(ci, t) := ct in
    match tp_parent t with
    | Some p =>
        if tp_lp t && negb (memb p (tc_alive c)) && (p <? length (tc_forest c))
        then has_exit p ci (tc_events c) || gone_before ci p (tc_events c) ||
             existsb (fun x => (fst x =? ci) && snd x) (tc_faults c)   (* never registered: its own init failed *)
        else true
    | None => true
    end) (indexed (tc_forest c)).

(* the observation as a state of the model: survivors are Alive, everybody else is Dead *)
Definition obs_state (c : tcase) : state :=
  map (fun ct => let '(i, t) := ct in
         mkProc (tp_parent t) (tp_kind t) (tp_trap t) (tp_lp t) (tp_lc t)
                (if memb i (tc_alive c) then Alive else Dead) [])
      (indexed (tc_forest c)).

Definition is_dead (s : state) (i : nat) : bool :=
  match get s i with Some p => match st p with Dead => true | _ => false end | None => false end.

(* does i have a dead ancestor along LinkParent edges? *)
Fixpoint dead_above (s : state) (fuel : nat) (i : nat) : bool :=
  match fuel with
  | O => false
  | S k => match get s i with
           | Some p => if lp p then match parent p with
                                    | Some q => is_dead s q || dead_above s k q
                                    | None => false
                                    end
                       else false
           | None => false
           end
  end.

Definition orphan_free (s : state) : bool :=
  forallb (fun ip => let '(i, p) := ip in negb (registered (st p) && dead_above s (length s) i)) (indexed s).

Definition spec_no_orphans (c : tcase) : bool := orphan_free (obs_state c).

(* the model's own final state has the property too (theorem settle_no_orphans; evaluated as a cross-check) *)
Definition spec_model_no_orphans (c : tcase) : bool :=
  quiescent (model_final c) && orphan_free (model_final c).

Definition premise_owner_died (c : tcase) : bool :=
  existsb (fun t => match tp_parent t with
                    | Some p => tp_lp t && negb (memb p (tc_alive c)) && (p <? length (tc_forest c))
                    | None => false end) (tc_forest c).
