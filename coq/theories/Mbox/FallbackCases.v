(* Mbox engine: checkers for the fbring family (harness mbox fbring): one send through real processes with
   fallback names forming chains / rings, compared with the model Fallback.v. *)
From Ergo Require Import Common.Base Mbox.Fallback.
Local Open Scope Z_scope.

Record frcase := mk_frcase {
  fr_procs : list (bool * bool * Z);   (* exists, mailbox full, fallback name index (-1 none) *)
  fr_to : nat;
  fr_res : Z;                          (* 0 delivered 1 mailbox full 2 unknown 3 the node died 4 other *)
  fr_dst : Z;                          (* index of the process that has the message; -1 nobody; -2 several *)
  fr_wr : list Z                       (* wrapper pids, outermost first *)
}.

Definition procs_of (l : list (bool * bool * Z)) (i : nat) : proc :=
  match nth_error l i with
  | Some (e, f, fb) => mk_proc e f (if fb <? 0 then None else Some (Z.to_nat fb))
  | None => mk_proc false false None
  end.

Definition corr_fb (c : frcase) : bool :=
  match send (length (fr_procs c)) (procs_of (fr_procs c)) (fr_to c) with
  | Some (Delivered d ws) => (fr_res c =? 0) && (fr_dst c =? Z.of_nat d) && zlist_eqb (fr_wr c) (map Z.of_nat ws)
  | Some ErrFull => (fr_res c =? 1) && (fr_dst c =? -1)
  | Some ErrUnknown => (fr_res c =? 2) && (fr_dst c =? -1)
  | None => false
  end.

(* the property on the observation alone: the send returned; either exactly one process has the message and
   the send reported success, or nobody has it and the send reported an error; the holder's mailbox was not
   full, the wrappers are distinct processes whose mailboxes were full *)
Fixpoint zdistinct (l : list Z) : bool :=
  match l with [] => true | x :: tl => negb (existsb (Z.eqb x) tl) && zdistinct tl end.
Definition spec_fb (c : frcase) : bool :=
  let ps := procs_of (fr_procs c) in
  if fr_res c =? 0 then
    (0 <=? fr_dst c) && negb (p_full (ps (Z.to_nat (fr_dst c)))) && p_exists (ps (Z.to_nat (fr_dst c))) &&
    forallb (fun w => (0 <=? w) && p_full (ps (Z.to_nat w))) (fr_wr c) && zdistinct (fr_wr c)
  else ((fr_res c =? 1) || (fr_res c =? 2)) && (fr_dst c =? -1).

(* non-trivial: the addressee exists and its mailbox is full (the fallback machinery is exercised) *)
Definition premise_fb (c : frcase) : bool :=
  let p := procs_of (fr_procs c) (fr_to c) in p_exists p && p_full p.

