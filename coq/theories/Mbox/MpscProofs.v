(* The pointer-level MPSC queue (Mbox/Mpsc.v) refines the list-with-linked-flags abstraction used
   by the process model, for any number of producers and any interleaving. *)
From Coq Require Import Permutation.
From Ergo Require Import Common.Base Sched.Model Mbox.Mpsc.

(* ---- store ---------------------------------------------------------------------------------- *)
Lemma lookup_set_next_same i x st :
  lookup i (set_next i x st) =
  match lookup i st with Some n => Some (mk_node (n_val n) (Some x)) | None => None end.
Proof.
  induction st as [|[j n] tl IH]; cbn [set_next lookup]; [reflexivity|].
  destruct (Nat.eqb i j) eqn:E; cbn [lookup]; rewrite E; [reflexivity|exact IH].
Qed.
Lemma lookup_set_next_other i j x st : j <> i -> lookup j (set_next i x st) = lookup j st.
Proof.
  intros Hne. induction st as [|[k n] tl IH]; cbn [set_next lookup]; [reflexivity|].
  destruct (Nat.eqb i k) eqn:E; cbn [lookup].
  - apply Nat.eqb_eq in E. subst k. destruct (Nat.eqb j i) eqn:E2; [apply Nat.eqb_eq in E2; lia|reflexivity].
  - destruct (Nat.eqb j k); [reflexivity|exact IH].
Qed.
Lemma lookup_clear_val_same i st :
  lookup i (clear_val i st) =
  match lookup i st with Some n => Some (mk_node 0 (n_next n)) | None => None end.
Proof.
  induction st as [|[j n] tl IH]; cbn [clear_val lookup]; [reflexivity|].
  destruct (Nat.eqb i j) eqn:E; cbn [lookup]; rewrite E; [reflexivity|exact IH].
Qed.
Lemma lookup_clear_val_other i j st : j <> i -> lookup j (clear_val i st) = lookup j st.
Proof.
  intros Hne. induction st as [|[k n] tl IH]; cbn [clear_val lookup]; [reflexivity|].
  destruct (Nat.eqb i k) eqn:E; cbn [lookup].
  - apply Nat.eqb_eq in E. subst k. destruct (Nat.eqb j i) eqn:E2; [apply Nat.eqb_eq in E2; lia|reflexivity].
  - destruct (Nat.eqb j k); [reflexivity|exact IH].
Qed.

(* ---- lists: last, after, consecutive -------------------------------------------------------- *)
Lemma last_default {A} (l : list A) d d' : l <> [] -> last l d = last l d'.
Proof.
  induction l as [|x tl IH]; intros Hne; [congruence|].
  destruct tl as [|y tl']; [reflexivity|]. cbn [last] in *. apply IH. discriminate.
Qed.
Lemma last_cons {A} (x : A) l d : l <> [] -> last (x :: l) d = last l d.
Proof. destruct l; [congruence|reflexivity]. Qed.
Lemma last_In {A} (l : list A) d : l <> [] -> In (last l d) l.
Proof.
  induction l as [|x tl IH]; intros Hne; [congruence|].
  destruct tl as [|y tl']; [left; reflexivity|]. right. apply IH. discriminate.
Qed.

Lemma after_In t l x : In x (after t l) -> In x l.
Proof.
  induction l as [|y tl IH]; cbn [after]; [tauto|].
  destruct (Nat.eqb y t); intros H; [right; exact H|right; apply IH; exact H].
Qed.
Lemma after_app t l r : In t l -> after t (l ++ r) = after t l ++ r.
Proof.
  induction l as [|y tl IH]; intros Hin; [destruct Hin|]. cbn [after app].
  destruct (Nat.eqb y t) eqn:E; [reflexivity|]. apply IH. destruct Hin as [->|H]; [|exact H].
  rewrite Nat.eqb_refl in E. discriminate.
Qed.
Lemma after_not_In t l : NoDup l -> ~ In t (after t l).
Proof.
  induction l as [|y tl IH]; intros Hnd; cbn [after]; [tauto|].
  inversion Hnd as [|? ? Hy Htl]; subst.
  destruct (Nat.eqb y t) eqn:E; [apply Nat.eqb_eq in E; subst; exact Hy|apply IH; exact Htl].
Qed.
Lemma after_NoDup t l : NoDup l -> NoDup (after t l).
Proof.
  induction l as [|y tl IH]; intros Hnd; cbn [after]; [constructor|].
  inversion Hnd; subst. destruct (Nat.eqb y t); auto.
Qed.
Lemma last_after t l d : In t l -> last (after t l) t = last l d.
Proof.
  induction l as [|y tl IH]; intros Hin; [destruct Hin|]. cbn [after].
  destruct (Nat.eqb y t) eqn:E.
  - apply Nat.eqb_eq in E. subst y. destruct tl as [|z tl']; [reflexivity|].
    rewrite (last_cons t (z :: tl') d) by discriminate. apply last_default. discriminate.
  - destruct Hin as [->|Hin]; [rewrite Nat.eqb_refl in E; discriminate|].
    rewrite IH by exact Hin. symmetry. apply last_cons. intros ->. destruct Hin.
Qed.

Lemma consecutive_cons a b tl : consecutive (a :: b :: tl) = (a, b) :: consecutive (b :: tl).
Proof. reflexivity. Qed.
Lemma consecutive_In a b l : In (a, b) (consecutive l) -> In a l /\ In b l.
Proof.
  induction l as [|x tl IH]; [intros []|]. destruct tl as [|y tl']; [intros []|].
  rewrite consecutive_cons. intros [H|H].
  - inversion H; subst. split; [left; reflexivity|right; left; reflexivity].
  - apply IH in H. destruct H as [H1 H2]. split; right; assumption.
Qed.
Lemma consecutive_tl x l p : In p (consecutive l) -> In p (consecutive (x :: l)).
Proof. destruct l as [|y tl]; [intros []|]. rewrite consecutive_cons. intros H. right. exact H. Qed.
Lemma consecutive_app_last l x : l <> [] -> consecutive (l ++ [x]) = consecutive l ++ [(last l 0, x)].
Proof.
  induction l as [|y tl IH]; intros Hne; [congruence|].
  destruct tl as [|z tl']; [reflexivity|].
  change ((y :: z :: tl') ++ [x]) with (y :: z :: (tl' ++ [x])).
  rewrite !consecutive_cons. change (z :: tl' ++ [x]) with ((z :: tl') ++ [x]).
  rewrite IH by discriminate. rewrite (last_cons y (z :: tl') 0) by discriminate. reflexivity.
Qed.
Lemma consecutive_fun l a b b' : NoDup l -> In (a, b) (consecutive l) -> In (a, b') (consecutive l) -> b = b'.
Proof.
  induction l as [|x tl IH]; [intros _ []|]. destruct tl as [|y tl']; [intros _ []|].
  intros Hnd. inversion Hnd as [|? ? Hx Htl]; subst. rewrite consecutive_cons. intros [H1|H1] [H2|H2].
  - congruence.
  - inversion H1; subst. apply consecutive_In in H2. tauto.
  - inversion H2; subst. apply consecutive_In in H1. tauto.
  - apply IH; assumption.
Qed.
Lemma consecutive_inj l a a' b : NoDup l -> In (a, b) (consecutive l) -> In (a', b) (consecutive l) -> a = a'.
Proof.
  induction l as [|x tl IH]; [intros _ []|]. destruct tl as [|y tl']; [intros _ []|].
  intros Hnd. inversion Hnd as [|? ? Hx Htl]; subst. inversion Htl as [|? ? Hy Htl']; subst.
  rewrite consecutive_cons. intros [H1|H1] [H2|H2].
  - congruence.
  - inversion H1; subst. exfalso. clear - H2 Hy. destruct tl' as [|z tl'']; [destruct H2|].
    rewrite consecutive_cons in H2. destruct H2 as [H2|H2].
    + inversion H2; subst. apply Hy. left. reflexivity.
    + apply consecutive_In in H2. apply Hy. tauto.
  - inversion H2; subst. exfalso. clear - H1 Hy. destruct tl' as [|z tl'']; [destruct H1|].
    rewrite consecutive_cons in H1. destruct H1 as [H1|H1].
    + inversion H1; subst. apply Hy. left. reflexivity.
    + apply consecutive_In in H1. apply Hy. tauto.
  - apply IH; assumption.
Qed.
Lemma consecutive_not_last l a b d : NoDup l -> In (a, b) (consecutive l) -> a <> last l d.
Proof.
  induction l as [|x tl IH]; [intros _ []|]. destruct tl as [|y tl']; [intros _ []|].
  intros Hnd. inversion Hnd as [|? ? Hx Htl]; subst. rewrite consecutive_cons.
  rewrite last_cons by discriminate. intros [H|H].
  - inversion H; subst. intros Heq. apply Hx. rewrite Heq. apply last_In. discriminate.
  - apply IH; assumption.
Qed.
Lemma consecutive_suffix t l p : In p (consecutive (t :: after t l)) -> In p (consecutive l).
Proof.
  induction l as [|y tl IH]; cbn [after]; [intros []|].
  destruct (Nat.eqb y t) eqn:E.
  - apply Nat.eqb_eq in E. subst y. tauto.
  - intros H. apply consecutive_tl. apply IH. exact H.
Qed.
(* the successor of t *)
Lemma after_cons t b r l : NoDup l -> after t l = b :: r -> In (t, b) (consecutive l) /\ after b l = r.
Proof.
  induction l as [|y tl IH]; intros Hnd; cbn [after]; [discriminate|].
  inversion Hnd as [|? ? Hy Htl]; subst.
  destruct (Nat.eqb y t) eqn:E.
  - apply Nat.eqb_eq in E. subst y. intros ->. split; [left; reflexivity|].
    destruct (Nat.eqb t b) eqn:E2; [apply Nat.eqb_eq in E2; subst; exfalso; apply Hy; left; reflexivity|].
    cbn [after]. rewrite Nat.eqb_refl. reflexivity.
  - intros Ha. destruct (IH Htl Ha) as [H1 H2]. split; [apply consecutive_tl; exact H1|].
    destruct (Nat.eqb y b) eqn:E2; [|exact H2].
    apply Nat.eqb_eq in E2. subst y. exfalso. apply Hy. apply after_In with (t := t). rewrite Ha. left. reflexivity.
Qed.
Lemma after_nil t l d : In t l -> after t l = [] -> last l d = t.
Proof. intros Hin Ha. rewrite <- last_after with (t := t) by exact Hin. rewrite Ha. reflexivity. Qed.
Lemma NoDup_snoc {A} (l : list A) x : NoDup l -> ~ In x l -> NoDup (l ++ [x]).
Proof.
  induction l as [|y tl IH]; intros Hnd Hx; cbn [app]; [constructor; [tauto|constructor]|].
  inversion Hnd as [|? ? Hy Htl]; subst. constructor.
  - intros H. apply in_app_or in H. destruct H as [H|[H|[]]]; [tauto|]. subst. apply Hx. left. reflexivity.
  - apply IH; [exact Htl|]. intros H. apply Hx. right. exact H.
Qed.

Lemma pair_eqb_eq x y : pair_eqb x y = true <-> x = y.
Proof.
  destruct x as [x1 x2], y as [y1 y2]. unfold pair_eqb. cbn [fst snd]. rewrite andb_true_iff, !Nat.eqb_eq.
  split; [intros [-> ->]; reflexivity|intros H; inversion H; auto].
Qed.
Lemma rm_pair_spec x l : NoDup l -> NoDup (rm_pair x l) /\ forall y, In y (rm_pair x l) <-> In y l /\ y <> x.
Proof.
  induction l as [|z tl IH]; intros Hnd; cbn [rm_pair]; [split; [constructor|intros y; cbn [In]; tauto]|].
  inversion Hnd as [|? ? Hz Htl]; subst. destruct (IH Htl) as [IH1 IH2].
  destruct (pair_eqb x z) eqn:E.
  - apply pair_eqb_eq in E. subst z. split; [exact Htl|]. intros y. cbn [In]. split.
    + intros H. split; [right; exact H|]. intros ->. tauto.
    + intros [[H|H] Hne]; [congruence|exact H].
  - assert (Hne : x <> z) by (intros ->; assert (pair_eqb z z = true) by (apply pair_eqb_eq; reflexivity); congruence).
    split.
    + constructor; [|exact IH1]. intros H. apply IH2 in H. tauto.
    + intros y. cbn [In]. rewrite IH2. split.
      * intros [H|[H1 H2]]; [subst; split; [left; reflexivity|congruence]|tauto].
      * intros [[H|H] H2]; [left; exact H|right; tauto].
Qed.

(* ---- entries -------------------------------------------------------------------------------- *)
Lemma entries_ext s s' p l :
  (forall x, In x (p :: l) -> next_of s' x = next_of s x) ->
  (forall x, In x l -> val_of s' x = val_of s x) ->
  entries s' p l = entries s p l.
Proof.
  revert p. induction l as [|i tl IH]; intros p Hn Hv; [reflexivity|].
  cbn [entries]. unfold linked_from. rewrite Hn by (left; reflexivity). rewrite Hv by (left; reflexivity).
  f_equal. apply IH.
  - intros x Hx. apply Hn. right. exact Hx.
  - intros x Hx. apply Hv. right. exact Hx.
Qed.
Lemma entries_app s p l i :
  entries s p (l ++ [i]) = entries s p l ++ [(i, val_of s i, linked_from s (last l p) i)].
Proof.
  revert p. induction l as [|j tl IH]; intros p; [reflexivity|].
  assert (Hl : last tl j = last (j :: tl) p).
  { destruct tl as [|k tl']; [reflexivity|]. rewrite (last_cons j (k :: tl') p) by discriminate.
    apply last_default. discriminate. }
  cbn [app entries]. rewrite IH. rewrite Hl. reflexivity.
Qed.
Lemma entries_ids s p l : map (fun e => fst (fst e)) (entries s p l) = l.
Proof. revert p. induction l as [|i tl IH]; intros p; [reflexivity|]. cbn [entries map fst]. f_equal. apply IH. Qed.

(* ---- step 1: the head swap appends an unlinked entry ----------------------------------------- *)
Lemma next_of_swap s v x : x <> m_fresh s -> next_of (fst (p_swap s v)) x = next_of s x.
Proof.
  intros H. unfold next_of, p_swap. cbn [fst m_store lookup].
  destruct (Nat.eqb x (m_fresh s)) eqn:E; [apply Nat.eqb_eq in E; lia|reflexivity].
Qed.
Lemma val_of_swap s v x : x <> m_fresh s -> val_of (fst (p_swap s v)) x = val_of s x.
Proof.
  intros H. unfold val_of, p_swap. cbn [fst m_store lookup].
  destruct (Nat.eqb x (m_fresh s)) eqn:E; [apply Nat.eqb_eq in E; lia|reflexivity].
Qed.
Lemma lookup_swap s v x : lookup x (m_store s) <> None -> lookup x (m_store (fst (p_swap s v))) <> None.
Proof. intros H. unfold p_swap. cbn [fst m_store lookup]. destruct (Nat.eqb x (m_fresh s)); [discriminate|exact H]. Qed.

Lemma swap_refines_aux s pending v :
  MpInv s pending ->
  abs (fst (p_swap s v)) = abs s ++ [(m_fresh s, v, false)] /\
  MpInv (fst (p_swap s v)) ((m_head s, m_fresh s) :: pending).
Proof.
  intros (Hnd & Hdom & Htail & Hlast & Hne & Hcons & Hpend & Hndp & Hhead).
  set (s' := fst (p_swap s v)). set (i := m_fresh s).
  assert (Hfresh : forall x, In x (m_order s) -> x <> i) by (intros x Hx; apply Hdom in Hx; unfold i; lia).
  assert (Hhin : In (m_head s) (m_order s)) by (rewrite <- Hlast; apply last_In; exact Hne).
  assert (Hnh : next_of s' (m_head s) = None).
  { unfold s'. rewrite next_of_swap; [exact Hhead|apply Hfresh; exact Hhin]. }
  assert (Hcs : consecutive (m_order s ++ [i]) = consecutive (m_order s) ++ [(m_head s, i)]).
  { rewrite consecutive_app_last by exact Hne. rewrite Hlast. reflexivity. }
  split.
  - unfold abs. change (m_tail s') with (m_tail s). change (m_order s') with (m_order s ++ [i]).
    rewrite after_app by exact Htail. rewrite entries_app.
    rewrite last_after with (d := 0) by exact Htail. rewrite Hlast.
    f_equal.
    + apply entries_ext.
      * intros x Hx. apply next_of_swap. apply Hfresh. destruct Hx as [<-|Hx]; [exact Htail|].
        apply after_In in Hx. exact Hx.
      * intros x Hx. apply val_of_swap. apply Hfresh. apply after_In in Hx. exact Hx.
    + f_equal. f_equal.
      * f_equal. unfold val_of, s', p_swap. cbn [fst m_store lookup]. fold i. rewrite Nat.eqb_refl. reflexivity.
      * unfold linked_from. rewrite Hnh. reflexivity.
  - change (m_fresh s) with i. unfold MpInv.
    change (m_order s') with (m_order s ++ [i]). change (m_tail s') with (m_tail s).
    change (m_head s') with i. change (m_fresh s') with (S i).
    split; [|split; [|split; [|split; [|split; [|split; [|split; [|split]]]]]]].
    + apply NoDup_snoc; [exact Hnd|]. intros H. apply Hfresh in H. congruence.
    + intros x Hx. apply in_app_or in Hx. destruct Hx as [Hx|[<-|[]]].
      * split; [apply Hdom in Hx; unfold i; lia|]. apply lookup_swap. apply Hdom. exact Hx.
      * split; [lia|]. unfold s', p_swap. cbn [fst m_store lookup]. fold i. rewrite Nat.eqb_refl. discriminate.
    + apply in_or_app. left. exact Htail.
    + apply last_last.
    + destruct (m_order s); discriminate.
    + intros a b Hab. rewrite Hcs in Hab. apply in_app_or in Hab. destruct Hab as [Hab|[Hab|[]]].
      * pose proof (consecutive_In _ _ _ Hab) as [Ha Hb].
        unfold s'. rewrite next_of_swap by (apply Hfresh; exact Ha).
        destruct (Hcons a b Hab) as [[H1 H2]|[H1 H2]].
        -- left. split; [exact H1|]. intros [H|H]; [|tauto]. inversion H; subst. apply (Hfresh _ Hb). reflexivity.
        -- right. split; [exact H1|right; exact H2].
      * inversion Hab; subst. right. split; [exact Hnh|left; reflexivity].
    + intros a b Hab. rewrite Hcs. apply in_or_app. destruct Hab as [Hab|Hab].
      * right. left. exact Hab.
      * left. apply Hpend. exact Hab.
    + constructor; [|exact Hndp]. intros H. apply Hpend in H. apply consecutive_In in H.
      apply (Hfresh i); tauto.
    + unfold next_of, s', p_swap. cbn [fst m_store lookup]. fold i. rewrite Nat.eqb_refl. reflexivity.
Qed.

Theorem swap_refines s pending v :
  MpInv s pending ->
  let '(s', (old, i)) := p_swap s v in
  abs s' = abs s ++ [(i, v, false)] /\ MpInv s' ((old, i) :: pending).
Proof. intros H. exact (swap_refines_aux s pending v H). Qed.

(* ---- step 2: the link store marks exactly the entry of the linked node ------------------------ *)
Lemma next_of_link_same s a b : lookup a (m_store s) <> None -> next_of (p_link s a b) a = Some b.
Proof.
  intros H. unfold next_of, p_link. cbn [m_store]. rewrite lookup_set_next_same.
  destruct (lookup a (m_store s)); [reflexivity|congruence].
Qed.
Lemma next_of_link_other s a b x : x <> a -> next_of (p_link s a b) x = next_of s x.
Proof. intros H. unfold next_of, p_link. cbn [m_store]. rewrite lookup_set_next_other by exact H. reflexivity. Qed.
Lemma val_of_link s a b x : val_of (p_link s a b) x = val_of s x.
Proof.
  unfold val_of, p_link. cbn [m_store]. destruct (Nat.eq_dec x a) as [->|Hne].
  - rewrite lookup_set_next_same. destruct (lookup a (m_store s)); reflexivity.
  - rewrite lookup_set_next_other by exact Hne. reflexivity.
Qed.
Lemma lookup_link s a b x : lookup x (m_store s) <> None -> lookup x (m_store (p_link s a b)) <> None.
Proof.
  intros H. unfold p_link. cbn [m_store]. destruct (Nat.eq_dec x a) as [->|Hne].
  - rewrite lookup_set_next_same. destruct (lookup a (m_store s)); [discriminate|congruence].
  - rewrite lookup_set_next_other by exact Hne. exact H.
Qed.

Lemma entries_link s a b p l :
  lookup a (m_store s) <> None ->
  NoDup (p :: l) ->
  (forall x y, In (x, y) (consecutive (p :: l)) -> (x = a <-> y = b)) ->
  entries (p_link s a b) p l = a_mark b (entries s p l).
Proof.
  intros Hla. revert p. induction l as [|i tl IH]; intros p Hnd Hc; [reflexivity|].
  cbn [entries a_mark]. rewrite val_of_link.
  assert (Hpi : p = a <-> i = b) by (apply Hc; left; reflexivity).
  inversion Hnd as [|? ? Hp Hnd']; subst.
  destruct (Nat.eqb i b) eqn:E.
  - apply Nat.eqb_eq in E. subst i. assert (p = a) by tauto. subst p.
    unfold linked_from at 1. rewrite next_of_link_same by exact Hla. rewrite Nat.eqb_refl.
    f_equal. apply entries_ext.
    + intros x Hx. apply next_of_link_other. intros ->. tauto.
    + intros x _. apply val_of_link.
  - assert (Hib : i <> b) by (intros ->; rewrite Nat.eqb_refl in E; discriminate).
    assert (Hpa : p <> a) by tauto.
    unfold linked_from at 1. rewrite next_of_link_other by exact Hpa. fold (linked_from s p i).
    f_equal. apply IH; [exact Hnd'|]. intros x y Hxy. apply Hc. apply consecutive_tl. exact Hxy.
Qed.

Theorem link_refines_gen s pending pending' a b :
  MpInv s pending -> In (a, b) pending -> NoDup pending' ->
  (forall x, In x pending' <-> In x pending /\ x <> (a, b)) ->
  abs (p_link s a b) = a_mark b (abs s) /\ MpInv (p_link s a b) pending'.
Proof.
  intros (Hnd & Hdom & Htail & Hlast & Hne & Hcons & Hpend & Hndp & Hhead) Hin Hndp' Hp'.
  pose proof (Hpend a b Hin) as Hab.
  pose proof (consecutive_In _ _ _ Hab) as [Ha Hb].
  assert (Hla : lookup a (m_store s) <> None) by (apply Hdom; exact Ha).
  split.
  - unfold abs. change (m_tail (p_link s a b)) with (m_tail s). change (m_order (p_link s a b)) with (m_order s).
    apply entries_link; [exact Hla| |].
    + constructor; [apply after_not_In; exact Hnd|apply after_NoDup; exact Hnd].
    + intros x y Hxy. apply consecutive_suffix in Hxy. split; intros ->.
      * apply (consecutive_fun _ _ _ _ Hnd Hxy Hab).
      * apply (consecutive_inj _ _ _ _ Hnd Hxy Hab).
  - unfold MpInv. change (m_order (p_link s a b)) with (m_order s). change (m_tail (p_link s a b)) with (m_tail s).
    change (m_head (p_link s a b)) with (m_head s). change (m_fresh (p_link s a b)) with (m_fresh s).
    split; [exact Hnd|]. split.
    { intros i Hi. split; [apply Hdom; exact Hi|apply lookup_link; apply Hdom; exact Hi]. }
    split; [exact Htail|]. split; [exact Hlast|]. split; [exact Hne|]. split.
    { intros x y Hxy. destruct (Nat.eq_dec x a) as [->|Hxa].
      - assert (y = b) by apply (consecutive_fun _ _ _ _ Hnd Hxy Hab). subst y.
        left. split; [apply next_of_link_same; exact Hla|]. intros H. apply Hp' in H. tauto.
      - rewrite next_of_link_other by exact Hxa.
        assert (Hneq : (x, y) <> (a, b)) by congruence.
        destruct (Hcons x y Hxy) as [[H1 H2]|[H1 H2]].
        + left. split; [exact H1|]. intros H. apply Hp' in H. tauto.
        + right. split; [exact H1|]. apply Hp'. tauto. }
    split.
    { intros x y Hxy. apply Hp' in Hxy. apply Hpend. tauto. }
    split; [exact Hndp'|].
    rewrite next_of_link_other; [exact Hhead|]. rewrite <- Hlast. intros Heq.
    apply (consecutive_not_last _ _ _ 0 Hnd Hab). symmetry. exact Heq.
Qed.

Theorem link_refines s pending a b :
  MpInv s pending -> In (a, b) pending ->
  abs (p_link s a b) = a_mark b (abs s) /\ MpInv (p_link s a b) (rm_pair (a, b) pending).
Proof.
  intros Hinv Hin. assert (Hndp : NoDup pending) by apply Hinv.
  destruct (rm_pair_spec (a, b) pending Hndp) as [H1 H2].
  apply link_refines_gen with (pending := pending); assumption.
Qed.

(* ---- the consumer ---------------------------------------------------------------------------- *)
Theorem pop_refines s pending :
  MpInv s pending ->
  match c_pop s with
  | (s', Some v) => a_pop (abs s) = Some (v, abs s') /\ MpInv s' pending
  | (s', None) => a_pop (abs s) = None /\ s' = s
  end.
Proof.
  intros (Hnd & Hdom & Htail & Hlast & Hne & Hcons & Hpend & Hndp & Hhead).
  unfold c_pop.
  destruct (lookup (m_tail s) (m_store s)) as [tn|] eqn:Et; [|exfalso; apply (Hdom _ Htail); exact Et].
  assert (Hnt : next_of s (m_tail s) = n_next tn) by (unfold next_of; rewrite Et; reflexivity).
  destruct (n_next tn) as [nx|] eqn:En.
  - (* tail.next = nx: nx is the successor of the tail in swap order *)
    destruct (after (m_tail s) (m_order s)) as [|b r] eqn:Ea.
    { exfalso. apply after_nil with (d := 0) in Ea; [|exact Htail]. rewrite Hlast in Ea. rewrite <- Ea in Hnt. congruence. }
    destruct (after_cons _ _ _ _ Hnd Ea) as [Htb Hab].
    assert (nx = b).
    { destruct (Hcons _ _ Htb) as [[H1 _]|[H1 _]]; congruence. }
    subst nx. pose proof (consecutive_In _ _ _ Htb) as [_ Hb].
    destruct (lookup b (m_store s)) as [n|] eqn:Eb; [|exfalso; apply (Hdom _ Hb); exact Eb].
    set (s' := mk_mpsc _ _ _ _ _).
    assert (Hnx : forall x, next_of s' x = next_of s x).
    { intros x. unfold next_of, s'. cbn [m_store]. destruct (Nat.eq_dec x b) as [->|Hxb].
      - rewrite lookup_clear_val_same. destruct (lookup b (m_store s)); reflexivity.
      - rewrite lookup_clear_val_other by exact Hxb. reflexivity. }
    assert (Hr : ~ In b r) by (rewrite <- Hab; apply after_not_In; exact Hnd).
    split.
    + unfold abs. rewrite Ea. cbn [entries a_pop]. unfold linked_from at 1. rewrite Hnt, Nat.eqb_refl.
      change (m_tail s') with b. change (m_order s') with (m_order s). rewrite Hab.
      unfold val_of at 1. rewrite Eb. do 2 f_equal. symmetry. apply entries_ext.
      * intros x _. apply Hnx.
      * intros x Hx. unfold val_of, s'. cbn [m_store]. rewrite lookup_clear_val_other; [reflexivity|].
        intros ->. tauto.
    + unfold MpInv. change (m_order s') with (m_order s). change (m_tail s') with b.
      change (m_head s') with (m_head s). change (m_fresh s') with (m_fresh s).
      split; [exact Hnd|]. split.
      { intros i Hi. split; [apply Hdom; exact Hi|]. unfold s'. cbn [m_store].
        destruct (Nat.eq_dec i b) as [->|Hib].
        - rewrite lookup_clear_val_same, Eb. discriminate.
        - rewrite lookup_clear_val_other by exact Hib. apply Hdom. exact Hi. }
      split; [exact Hb|]. split; [exact Hlast|]. split; [exact Hne|]. split.
      { intros x y Hxy. rewrite Hnx. apply Hcons. exact Hxy. }
      split; [exact Hpend|]. split; [exact Hndp|]. rewrite Hnx. exact Hhead.
  - split; [|reflexivity]. unfold abs. destruct (after (m_tail s) (m_order s)) as [|b r]; [reflexivity|].
    cbn [entries a_pop]. unfold linked_from. rewrite Hnt. reflexivity.
Qed.

(* ---- which entries are linked ---------------------------------------------------------------- *)
Lemma entries_flag s p l i v f :
  In (i, v, f) (entries s p l) -> exists a, In (a, i) (consecutive (p :: l)) /\ f = linked_from s a i.
Proof.
  revert p. induction l as [|j tl IH]; intros p; [intros []|]. cbn [entries]. intros [H|H].
  - inversion H; subst. exists p. split; [left; reflexivity|reflexivity].
  - destruct (IH _ H) as (a & Ha & Hf). exists a. split; [apply consecutive_tl; exact Ha|exact Hf].
Qed.
(* an entry of the abstraction is unlinked exactly while the producer of its node is between its
   two steps *)
Theorem abs_flag s pending i v f :
  MpInv s pending -> In (i, v, f) (abs s) -> (f = true <-> forall a, ~ In (a, i) pending).
Proof.
  intros (Hnd & Hdom & Htail & Hlast & Hne & Hcons & Hpend & Hndp & Hhead) Hin.
  apply entries_flag in Hin. destruct Hin as (a & Ha & ->). apply consecutive_suffix in Ha.
  unfold linked_from. destruct (Hcons _ _ Ha) as [[H1 H2]|[H1 H2]]; rewrite H1.
  - rewrite Nat.eqb_refl. split; [|reflexivity]. intros _ a' Ha'.
    assert (a' = a) by apply (consecutive_inj _ _ _ _ Hnd (Hpend _ _ Ha') Ha). subst a'. tauto.
  - split; [discriminate|]. intros H. exfalso. apply (H a). exact H2.
Qed.

(* a prefix of the queue all of whose link stores have completed is what the next pops return *)
Theorem linked_prefix_pops pending pre : forall s rest,
  MpInv s pending -> abs s = pre ++ rest ->
  (forall i v f a, In (i, v, f) pre -> ~ In (a, i) pending) ->
  let '(s', vs) := pop_n (length pre) s in
  vs = a_vals pre /\ abs s' = rest /\ MpInv s' pending.
Proof.
  induction pre as [|[[i v] f] pre' IH]; intros s rest Hinv Habs Hlinked; cbn [length pop_n].
  - split; [reflexivity|]. split; [exact Habs|exact Hinv].
  - assert (Hf : f = true).
    { apply (abs_flag s pending i v f Hinv); [rewrite Habs; left; reflexivity|].
      intros a. apply (Hlinked i v f a). left. reflexivity. }
    subst f. pose proof (pop_refines s pending Hinv) as Hpop.
    rewrite Habs in Hpop. cbn [app a_pop] in Hpop.
    destruct (c_pop s) as [s1 [v1|]]; [|destruct Hpop; discriminate].
    destruct Hpop as [He Hinv1]. inversion He as [[Hv Hq]]. subst v1.
    specialize (IH s1 rest Hinv1 (eq_sym Hq)).
    destruct (pop_n (length pre') s1) as [s2 vs].
    destruct IH as (I1 & I2 & I3); [intros i' v' f' a' H'; apply (Hlinked i' v' f' a'); right; exact H'|].
    split; [cbn [a_vals map fst snd]; f_equal; exact I1|]. split; assumption.
Qed.

(* ---- the LTS --------------------------------------------------------------------------------- *)
Definition CInv (c : mpcfg) : Prop := MpInv (mp_st c) (pendings (mp_prods c)).

Lemma MpInv_perm s p p' : Permutation p p' -> MpInv s p -> MpInv s p'.
Proof.
  intros Hp (Hnd & Hdom & Htail & Hlast & Hne & Hcons & Hpend & Hndp & Hhead).
  assert (Hiff : forall x, In x p' <-> In x p).
  { intros x. split; [apply Permutation_in; apply Permutation_sym; exact Hp|apply Permutation_in; exact Hp]. }
  unfold MpInv. repeat (split; [assumption|]). split.
  { intros a b Hab. rewrite Hiff. apply Hcons. exact Hab. }
  split; [intros a b Hab; apply Hpend; apply Hiff; exact Hab|].
  split; [apply (Permutation_NoDup Hp); exact Hndp|exact Hhead].
Qed.

Lemma upd_nth_split {A} (l1 l2 : list A) x y : upd_nth (l1 ++ x :: l2) (length l1) y = l1 ++ y :: l2.
Proof. induction l1 as [|z tl IH]; cbn [app length upd_nth]; [reflexivity|]. rewrite IH. reflexivity. Qed.
Lemma nth_error_upd_nth {A} (l : list A) k x j :
  nth_error (upd_nth l k x) j =
  if Nat.eqb j k then match nth_error l k with Some _ => Some x | None => None end else nth_error l j.
Proof.
  revert k j. induction l as [|y tl IH]; intros k j.
  - cbn [upd_nth]. destruct (Nat.eqb j k); destruct k, j; reflexivity.
  - destruct k as [|k'], j as [|j']; cbn [upd_nth nth_error Nat.eqb]; try reflexivity. apply IH.
Qed.
Lemma pendings_app l1 l2 : pendings (l1 ++ l2) = pendings l1 ++ pendings l2.
Proof. apply flat_map_app. Qed.

Lemma a_vals_mark i q : a_vals (a_mark i q) = a_vals q.
Proof.
  induction q as [|[[j v] l] tl IH]; [reflexivity|]. cbn [a_mark].
  destruct (Nat.eqb j i); unfold a_vals in *; cbn [map fst snd]; [reflexivity|]. rewrite IH. reflexivity.
Qed.
Lemma a_vals_app q1 q2 : a_vals (q1 ++ q2) = a_vals q1 ++ a_vals q2.
Proof. apply map_app. Qed.
Lemma a_pop_some q v q' : a_pop q = Some (v, q') -> a_vals q = v :: a_vals q'.
Proof.
  destruct q as [|[[j w] [|]] tl]; cbn [a_pop]; try discriminate. intros H. inversion H; subst. reflexivity.
Qed.

Lemma by_producer_app k l1 l2 : by_producer k (l1 ++ l2) = by_producer k l1 ++ by_producer k l2.
Proof. unfold by_producer. rewrite filter_app, map_app. reflexivity. Qed.
Lemma ev_swaps_app e1 e2 : ev_swaps (e1 ++ e2) = ev_swaps e1 ++ ev_swaps e2.
Proof. apply flat_map_app. Qed.
Lemma ev_pops_app e1 e2 : ev_pops (e1 ++ e2) = ev_pops e1 ++ ev_pops e2.
Proof. apply flat_map_app. Qed.

(* one step of anybody: the invariant is kept, the step is one abstract operation, and the
   producers' programs are consumed in order *)
Definition step_ok (c c' : mpcfg) (e : list mp_event) : Prop :=
  CInv c' /\
  a_vals (abs (mp_st c)) ++ map snd (ev_swaps e) = ev_pops e ++ a_vals (abs (mp_st c')) /\
  forall k, todo_of c k = by_producer k (ev_swaps e) ++ todo_of c' k.

Lemma step_ok_refl c : CInv c -> step_ok c c [].
Proof. intros H. split; [exact H|]. split; [cbn; apply app_nil_r|]. intros k. reflexivity. Qed.

Lemma mp_step_ok c a : CInv c -> let '(c', e) := mp_step c a in step_ok c c' e.
Proof.
  intros Hinv. destruct a as [k|]; cbn [mp_step].
  - destruct (nth_error (mp_prods c) k) as [[t [[old i]|]]|] eqn:En; cbn [p_pend p_todo];
      [| |apply step_ok_refl; exact Hinv].
    + (* link *)
      destruct (nth_error_split _ _ En) as (l1 & l2 & Hl & Hk).
      unfold CInv in Hinv. rewrite Hl, pendings_app in Hinv. cbn [pendings flat_map p_pend app] in Hinv.
      fold (pendings l2) in Hinv.
      apply MpInv_perm with (p' := (old, i) :: pendings l1 ++ pendings l2) in Hinv;
        [|apply Permutation_sym; apply Permutation_middle].
      destruct (link_refines _ _ old i Hinv (or_introl eq_refl)) as [Habs Hinv'].
      cbn [rm_pair] in Hinv'.
      replace (pair_eqb (old, i) (old, i)) with true in Hinv' by (symmetry; apply pair_eqb_eq; reflexivity).
      cbv beta iota. split; [|split].
      * unfold CInv. cbn [mp_st mp_prods]. rewrite Hl, <- Hk, upd_nth_split, pendings_app.
        cbn [pendings flat_map p_pend app]. exact Hinv'.
      * cbn [mp_st ev_swaps ev_pops flat_map map app]. rewrite Habs, a_vals_mark. apply app_nil_r.
      * intros k'. cbn [ev_swaps flat_map by_producer filter map app]. unfold todo_of. cbn [mp_prods].
        rewrite nth_error_upd_nth. destruct (Nat.eqb k' k) eqn:E; [|reflexivity].
        apply Nat.eqb_eq in E. subst k'. rewrite En. reflexivity.
    + destruct t as [|v t]; [apply step_ok_refl; exact Hinv|].
      (* swap *)
      destruct (nth_error_split _ _ En) as (l1 & l2 & Hl & Hk).
      pose proof (swap_refines_aux _ _ v Hinv) as [Habs Hinv'].
      unfold p_swap at 1. cbv beta iota zeta.
      split; [|split].
      * unfold CInv. cbn [mp_st mp_prods]. rewrite Hl, <- Hk, upd_nth_split, pendings_app.
        cbn [pendings flat_map p_pend app]. fold (pendings l2).
        eapply MpInv_perm; [|exact Hinv'].
        rewrite Hl, pendings_app. cbn [pendings flat_map p_pend app]. fold (pendings l2).
        apply Permutation_middle.
      * cbn [mp_st ev_swaps ev_pops flat_map map app snd].
        change (mk_mpsc _ _ _ _ _) with (fst (p_swap (mp_st c) v)).
        rewrite Habs, a_vals_app. reflexivity.
      * intros k'. cbn [ev_swaps flat_map app]. unfold by_producer. cbn [filter fst]. unfold todo_of. cbn [mp_prods].
        rewrite nth_error_upd_nth. rewrite (Nat.eqb_sym k k'). destruct (Nat.eqb k' k) eqn:E; [|reflexivity].
        apply Nat.eqb_eq in E. subst k'. rewrite En. reflexivity.
  - pose proof (pop_refines _ _ Hinv) as Hpop. destruct (c_pop (mp_st c)) as [s' [v|]].
    + destruct Hpop as [Hp Hinv']. split; [exact Hinv'|]. split.
      * cbn [mp_st ev_swaps ev_pops flat_map map app]. rewrite app_nil_r. apply a_pop_some. exact Hp.
      * intros k. reflexivity.
    + destruct Hpop as [_ ->]. destruct c as [s ps]. apply step_ok_refl. exact Hinv.
Qed.

Lemma step_ok_trans c c1 c2 e es : step_ok c c1 e -> step_ok c1 c2 es -> step_ok c c2 (e ++ es).
Proof.
  intros (_ & H1 & H2) (Hinv & H3 & H4). split; [exact Hinv|]. split.
  - rewrite ev_swaps_app, ev_pops_app, map_app, app_assoc, H1, <- app_assoc, H3, app_assoc. reflexivity.
  - intros k. rewrite ev_swaps_app, by_producer_app, <- app_assoc, <- H4. apply H2.
Qed.

Lemma mp_exec_ok sched : forall c, CInv c -> let '(c', es) := mp_exec sched c in step_ok c c' es.
Proof.
  induction sched as [|a tl IH]; intros c Hinv; cbn [mp_exec]; [apply step_ok_refl; exact Hinv|].
  pose proof (mp_step_ok c a Hinv) as H1. destruct (mp_step c a) as [c1 e].
  pose proof (IH c1 (proj1 H1)) as H2. destruct (mp_exec tl c1) as [c2 es].
  apply step_ok_trans with (c1 := c1); assumption.
Qed.

Lemma pendings_init progs : pendings (map (fun p => mk_producer p None) progs) = [].
Proof. induction progs as [|p tl IH]; [reflexivity|exact IH]. Qed.
Lemma CInv_init progs : CInv (mp_init progs).
Proof.
  unfold CInv, mp_init. cbn [mp_st mp_prods]. rewrite pendings_init.
  unfold MpInv, mpsc_init. cbn [m_order m_store m_tail m_head m_fresh consecutive last].
  split; [constructor; [intros []|constructor]|].
  split; [intros i [<-|[]]; split; [lia|cbn; discriminate]|].
  split; [left; reflexivity|]. split; [reflexivity|]. split; [discriminate|].
  split; [intros a b []|]. split; [intros a b []|]. split; [constructor|reflexivity].
Qed.
Lemma todo_of_init progs k : todo_of (mp_init progs) k = nth k progs [].
Proof.
  unfold todo_of, mp_init. cbn [mp_prods]. revert k.
  induction progs as [|p tl IH]; intros [|k]; cbn [map nth_error nth]; try reflexivity. apply IH.
Qed.

(* The pointer structure under any number of producers and any interleaving is a FIFO in head-swap
   order: what was popped, followed by what is still queued, is exactly the sequence of swapped
   values; every producer's values were swapped in its program order; the invariant holds. *)
Theorem mpsc_refines_fifo progs sched :
  let '(c', popped) := mp_run sched (mp_init progs) in
  let sw := mp_swapped sched (mp_init progs) in
  popped ++ a_vals (abs (mp_st c')) = map snd sw /\
  (forall k, nth k progs [] = by_producer k sw ++ todo_of c' k) /\
  MpInv (mp_st c') (pendings (mp_prods c')).
Proof.
  unfold mp_run, mp_swapped. pose proof (mp_exec_ok sched _ (CInv_init progs)) as H.
  destruct (mp_exec sched (mp_init progs)) as [c' es]. cbn [snd].
  destruct H as (Hinv & H1 & H2). split; [|split; [|exact Hinv]].
  - rewrite <- H1. reflexivity.
  - intros k. rewrite <- todo_of_init. apply H2.
Qed.

(* ... and in every reachable configuration, a prefix of the queue whose link stores have all
   completed (no producer still holds a pair for one of its nodes) is returned by the next pops. *)
Theorem mpsc_linked_prefix_visible progs sched pre rest :
  let c' := fst (mp_exec sched (mp_init progs)) in
  abs (mp_st c') = pre ++ rest ->
  (forall i v f a, In (i, v, f) pre -> ~ In (a, i) (pendings (mp_prods c'))) ->
  let '(s', vs) := pop_n (length pre) (mp_st c') in vs = a_vals pre /\ abs s' = rest.
Proof.
  cbv zeta. pose proof (mp_exec_ok sched _ (CInv_init progs)) as H.
  destruct (mp_exec sched (mp_init progs)) as [c' es]. cbn [fst]. destruct H as (Hinv & _).
  intros Habs Hl. pose proof (linked_prefix_pops _ pre _ rest Hinv Habs Hl) as H.
  destruct (pop_n (length pre) (mp_st c')) as [s' vs]. tauto.
Qed.

(* ---- Pop split into its Load and the rest ----------------------------------------------------- *)
Definition CInv2 (c : mpcfg) (loc : option nat) : Prop :=
  CInv c /\ match loc with Some nx => c_load (mp_st c) = Some nx | None => True end.

Lemma pendings_In ps k p x : nth_error ps k = Some p -> p_pend p = Some x -> In x (pendings ps).
Proof.
  intros Hn Hp. apply nth_error_In in Hn. unfold pendings. apply in_flat_map. exists p.
  split; [exact Hn|]. rewrite Hp. left. reflexivity.
Qed.

(* what the consumer loaded stays tail.next whatever the producers do *)
Lemma load_stable c k nx :
  CInv c -> c_load (mp_st c) = Some nx -> c_load (mp_st (fst (mp_step c (AProd k)))) = Some nx.
Proof.
  intros Hinv Hld. pose proof Hinv as (Hnd & Hdom & Htail & Hlast & Hne & Hcons & Hpend & Hndp & Hhead).
  cbn [mp_step]. destruct (nth_error (mp_prods c) k) as [[t [[old i]|]]|] eqn:En; cbn [p_pend p_todo fst]; [| |exact Hld].
  - unfold c_load in *. cbn [mp_st]. change (m_tail (p_link (mp_st c) old i)) with (m_tail (mp_st c)).
    rewrite next_of_link_other; [exact Hld|]. intros Heq.
    assert (Hin : In (old, i) (pendings (mp_prods c))) by (apply (pendings_In _ _ _ _ En); reflexivity).
    destruct (Hcons _ _ (Hpend _ _ Hin)) as [[_ H]|[H _]]; [tauto|]. rewrite Heq in Hld. congruence.
  - destruct t as [|v t]; [exact Hld|]. unfold p_swap at 1. cbv beta iota zeta. cbn [fst mp_st].
    change (mk_mpsc _ _ _ _ _) with (fst (p_swap (mp_st c) v)).
    unfold c_load in *. change (m_tail (fst (p_swap (mp_st c) v))) with (m_tail (mp_st c)).
    rewrite next_of_swap; [exact Hld|]. apply Hdom in Htail. lia.
Qed.

(* the rest of Pop, done later with the loaded pointer, is the atomic pop done at that moment *)
Lemma commit_is_pop s pending nx :
  MpInv s pending -> c_load s = Some nx ->
  c_pop s = (fst (c_commit s nx), Some (snd (c_commit s nx))).
Proof.
  intros (Hnd & Hdom & Htail & Hlast & Hne & Hcons & Hpend & Hndp & Hhead) Hld.
  assert (Hin : In nx (m_order s)).
  { destruct (after (m_tail s) (m_order s)) as [|b r] eqn:Ea.
    - exfalso. apply after_nil with (d := 0) in Ea; [|exact Htail]. rewrite Hlast in Ea.
      unfold c_load in Hld. rewrite <- Ea in Hld. congruence.
    - destruct (after_cons _ _ _ _ Hnd Ea) as [Htb _]. pose proof (consecutive_In _ _ _ Htb) as [_ Hb].
      unfold c_load in Hld. destruct (Hcons _ _ Htb) as [[H1 _]|[H1 _]]; congruence. }
  unfold c_load, next_of in Hld. unfold c_pop, c_commit, val_of. cbn [fst snd].
  destruct (lookup (m_tail s) (m_store s)) as [tn|]; [|discriminate]. rewrite Hld.
  destruct (lookup nx (m_store s)) as [n|] eqn:En; [reflexivity|]. exfalso. apply (Hdom _ Hin). exact En.
Qed.

Lemma mp_exec_app s1 s2 c :
  mp_exec (s1 ++ s2) c =
  let '(c1, e1) := mp_exec s1 c in let '(c2, e2) := mp_exec s2 c1 in (c2, e1 ++ e2).
Proof.
  revert c. induction s1 as [|a tl IH]; intros c; cbn [app mp_exec].
  - destruct (mp_exec s2 c) as [c2 e2]. reflexivity.
  - destruct (mp_step c a) as [c1 e]. rewrite IH. destruct (mp_exec tl c1) as [c1' e1].
    destruct (mp_exec s2 c1') as [c2 e2]. rewrite app_assoc. reflexivity.
Qed.

Lemma mp2_step_sim c loc a :
  CInv2 c loc ->
  let '(c', loc', e) := mp2_step c loc a in
  CInv2 c' loc' /\ exists s1, mp_exec s1 c = (c', e).
Proof.
  intros [Hinv Hloc]. destruct a as [k|]; cbn [mp2_step].
  - pose proof (mp_step_ok c (AProd k) Hinv) as Hok.
    pose proof (load_stable c k) as Hst.
    destruct (mp_step c (AProd k)) as [c' e] eqn:Es. cbn [fst] in Hst. split.
    + split; [apply Hok|]. destruct loc as [nx|]; [apply Hst; assumption|exact I].
    + exists [AProd k]. cbn [mp_exec]. rewrite Es. rewrite app_nil_r. reflexivity.
  - destruct loc as [nx|].
    + pose proof (commit_is_pop _ _ nx Hinv Hloc) as Hc. pose proof (mp_step_ok c APop Hinv) as Hok.
      cbn [mp_step] in Hok. rewrite Hc in Hok.
      destruct (c_commit (mp_st c) nx) as [s' v]. cbn [fst snd] in *. split.
      * split; [apply Hok|exact I].
      * exists [APop]. cbn [mp_exec mp_step]. rewrite Hc. rewrite app_nil_r. reflexivity.
    + split.
      * split; [exact Hinv|]. destruct (c_load (mp_st c)); [reflexivity|exact I].
      * exists []. reflexivity.
Qed.

Theorem mp2_simulated sched2 : forall c loc,
  CInv2 c loc ->
  let '(c', loc', es) := mp2_exec sched2 c loc in
  CInv2 c' loc' /\ exists sched1, mp_exec sched1 c = (c', es).
Proof.
  induction sched2 as [|a tl IH]; intros c loc Hinv; cbn [mp2_exec].
  - split; [exact Hinv|]. exists []. reflexivity.
  - pose proof (mp2_step_sim c loc a Hinv) as H1. destruct (mp2_step c loc a) as [[c1 loc1] e].
    destruct H1 as [Hinv1 [s1 Hs1]]. specialize (IH c1 loc1 Hinv1).
    destruct (mp2_exec tl c1 loc1) as [[c2 loc2] es]. destruct IH as [Hinv2 [s2 Hs2]].
    split; [exact Hinv2|]. exists (s1 ++ s2). rewrite mp_exec_app, Hs1, Hs2. reflexivity.
Qed.

(* hence the FIFO theorem also for the LTS in which producers run between Pop's Load and the rest *)
Theorem mpsc_refines_fifo_split_pop progs sched2 :
  let '(c', _, es) := mp2_exec sched2 (mp_init progs) None in
  ev_pops es ++ a_vals (abs (mp_st c')) = map snd (ev_swaps es) /\
  (forall k, nth k progs [] = by_producer k (ev_swaps es) ++ todo_of c' k) /\
  MpInv (mp_st c') (pendings (mp_prods c')).
Proof.
  pose proof (mp2_simulated sched2 (mp_init progs) None (conj (CInv_init progs) I)) as H.
  destruct (mp2_exec sched2 (mp_init progs) None) as [[c' loc'] es]. destruct H as [_ [sched1 Hs]].
  pose proof (mpsc_refines_fifo progs sched1) as H. unfold mp_run, mp_swapped in H. rewrite Hs in H.
  cbn [snd] in H. exact H.
Qed.

(* ---- the abstraction is the queue of the process model --------------------------------------- *)
(* Sched/Model.v: a send appends (m, false) to the queue, its link step is mark_linked (mid m),
   the receiver pops with q_pop / tests with q_visible.  With any tagging of the nodes by messages
   whose id is the node number, these are the three abstract operations above. *)
Section ProcessModelQueue.
  Variable mk : nat -> Z -> msg.
  Hypothesis mk_id : forall i v, mid (mk i v) = i.
  Definition to_queue (q : aq) : queue := map (fun e => (mk (fst (fst e)) (snd (fst e)), snd e)) q.

  Lemma to_queue_push q i v : to_queue (q ++ [(i, v, false)]) = to_queue q ++ [(mk i v, false)].
  Proof. unfold to_queue. rewrite map_app. reflexivity. Qed.
  Lemma to_queue_mark q i : to_queue (a_mark i q) = mark_linked i (to_queue q).
  Proof.
    induction q as [|[[j v] l] tl IH]; [reflexivity|]. cbn [a_mark to_queue map mark_linked fst snd].
    rewrite mk_id. destruct (Nat.eqb j i); [reflexivity|]. cbn [map fst snd]. f_equal. exact IH.
  Qed.
  Lemma to_queue_pop q :
    q_pop (to_queue q) =
    match q with (i, v, true) :: tl => Some (mk i v, to_queue tl) | _ => None end /\
    a_pop q = match q with (i, v, true) :: tl => Some (v, tl) | _ => None end /\
    q_visible (to_queue q) = match a_pop q with Some _ => true | None => false end.
  Proof. destruct q as [|[[j v] [|]] tl]; cbn; repeat split; reflexivity. Qed.
End ProcessModelQueue.

Lemma to_queue_ops (mk : nat -> Z -> msg) :
  (forall i v, mid (mk i v) = i) ->
  forall q i v,
  to_queue mk (q ++ [(i, v, false)]) = to_queue mk q ++ [(mk i v, false)] /\
  to_queue mk (a_mark i q) = mark_linked i (to_queue mk q) /\
  q_pop (to_queue mk q) = match q with (j, w, true) :: tl => Some (mk j w, to_queue mk tl) | _ => None end /\
  a_pop q = match q with (j, w, true) :: tl => Some (w, tl) | _ => None end /\
  q_visible (to_queue mk q) = match a_pop q with Some _ => true | None => false end.
Proof.
  intros Hmk q i v. split; [apply to_queue_push|]. split; [apply to_queue_mark; exact Hmk|].
  exact (to_queue_pop mk q).
Qed.

(* ---- the hypotheses are met by non-trivial runs ----------------------------------------------- *)
(* two producers: 0 pushes 10, 11; 1 pushes 20.  Producer 1 swaps first, then producer 0 swaps and
   links, but producer 1 has not linked yet: nothing is visible (pop returns nothing).  After
   producer 1 links, pops return 20, 10 (swap order); 11 follows. *)
Example mpsc_example :
  let c0 := mp_init [[10; 11]; [20]]%Z in
  snd (mp_run [AProd 1; AProd 0; AProd 0; APop] c0) = [] /\
  a_vals (abs (mp_st (fst (mp_run [AProd 1; AProd 0; AProd 0; APop] c0)))) = [20; 10]%Z /\
  snd (mp_run [AProd 1; AProd 0; AProd 0; APop; AProd 1; APop; AProd 0; APop; AProd 0; APop; APop] c0)
    = [20; 10; 11]%Z /\
  mp_swapped [AProd 1; AProd 0; AProd 0; APop; AProd 1; APop; AProd 0; APop; AProd 0; APop; APop] c0
    = [(1, 20%Z); (0, 10%Z); (0, 11%Z)].
Proof. vm_compute. repeat split; reflexivity. Qed.
