(* Sequential model of lib/mpsc.go (queueMPSC / queueLimitMPSC with flush = false):
   Push appends unless the limit would be exceeded, Pop removes the oldest, Item peeks, Len.
   (The two-step concurrent push - head swap, then link - is modelled in Sched/Model.v.) *)
From Ergo Require Import Common.Base.

Inductive qop := QPush (v : Z) | QPop | QLen | QItem.
(* observable result of one operation *)
Inductive qres := RBool (b : bool) | RVal (v : option Z) | RLen (n : Z).

Record qstate := mk_q { q_items : list Z; q_limit : Z }.   (* limit <= 0: unlimited *)

Definition q_step (s : qstate) (o : qop) : qstate * qres :=
  match o with
  | QPush v =>
      if (0 <? q_limit s)%Z && (q_limit s <? Z.of_nat (length (q_items s)) + 1)%Z
      then (s, RBool false)
      else (mk_q (q_items s ++ [v]) (q_limit s), RBool true)
  | QPop =>
      match q_items s with
      | [] => (s, RVal None)
      | x :: tl => (mk_q tl (q_limit s), RVal (Some x))
      end
  | QLen => (s, RLen (Z.of_nat (length (q_items s))))
  | QItem => (s, RVal (hd_error (q_items s)))
  end.

Fixpoint q_run (s : qstate) (ops : list qop) : qstate * list qres :=
  match ops with
  | [] => (s, [])
  | o :: tl => let '(s1, r) := q_step s o in let '(s2, rs) := q_run s1 tl in (s2, r :: rs)
  end.

(* what was accepted / what came out, read off the results *)
Fixpoint accepted (ops : list qop) (rs : list qres) : list Z :=
  match ops, rs with
  | QPush v :: ops', RBool true :: rs' => v :: accepted ops' rs'
  | _ :: ops', _ :: rs' => accepted ops' rs'
  | _, _ => []
  end.
Fixpoint popped (ops : list qop) (rs : list qres) : list Z :=
  match ops, rs with
  | QPop :: ops', RVal (Some v) :: rs' => v :: popped ops' rs'
  | _ :: ops', _ :: rs' => popped ops' rs'
  | _, _ => []
  end.

Definition qres_eqb (a b : qres) : bool :=
  match a, b with
  | RBool x, RBool y => Bool.eqb x y
  | RVal None, RVal None => true
  | RVal (Some x), RVal (Some y) => Z.eqb x y
  | RLen x, RLen y => Z.eqb x y
  | _, _ => false
  end.
Fixpoint qres_list_eqb (a b : list qres) : bool :=
  match a, b with
  | [], [] => true
  | x :: a', y :: b' => qres_eqb x y && qres_list_eqb a' b'
  | _, _ => false
  end.

(* FIFO: at any time, accepted = popped ++ still queued; hence the values come out in the
   order they were accepted and none is lost or duplicated *)
Lemma q_run_fifo ops : forall s,
  let '(s', rs) := q_run s ops in
  q_items s ++ accepted ops rs = popped ops rs ++ q_items s'.
Proof.
  induction ops as [|o ops IH]; intros s; cbn [q_run].
  - cbn [accepted popped]. rewrite app_nil_r. reflexivity.
  - destruct (q_step s o) as [s1 r] eqn:E1. specialize (IH s1).
    destruct (q_run s1 ops) as [s2 rs] eqn:E2.
    destruct o; cbn [q_step] in E1.
    + destruct ((0 <? q_limit s)%Z && (q_limit s <? Z.of_nat (length (q_items s)) + 1)%Z);
        inversion E1; subst; cbn [accepted popped q_items] in *; [exact IH|].
      rewrite <- app_assoc in IH. exact IH.
    + destruct (q_items s) as [|x tl] eqn:Eq; inversion E1; subst; cbn [accepted popped q_items] in *.
      * rewrite Eq in IH. exact IH.
      * cbn [app]. f_equal. exact IH.
    + inversion E1; subst. cbn [accepted popped]. exact IH.
    + inversion E1; subst. cbn [accepted popped]. exact IH.
Qed.

Theorem mpsc_sequential_fifo limit ops :
  let '(s', rs) := q_run (mk_q [] limit) ops in
  accepted ops rs = popped ops rs ++ q_items s'.
Proof. pose proof (q_run_fifo ops (mk_q [] limit)) as H. destruct (q_run (mk_q [] limit) ops). exact H. Qed.

(* the limit is respected: a bounded queue never holds more than [limit] items *)
Lemma q_run_limit ops : forall s,
  (0 < q_limit s)%Z -> (Z.of_nat (length (q_items s)) <= q_limit s)%Z ->
  let '(s', _) := q_run s ops in (Z.of_nat (length (q_items s')) <= q_limit s')%Z /\ q_limit s' = q_limit s.
Proof.
  induction ops as [|o ops IH]; intros s Hl Hlen; cbn [q_run]; [split; [exact Hlen|reflexivity]|].
  destruct (q_step s o) as [s1 r] eqn:E1.
  assert (H1 : (0 < q_limit s1)%Z /\ (Z.of_nat (length (q_items s1)) <= q_limit s1)%Z /\ q_limit s1 = q_limit s).
  { destruct o; cbn [q_step] in E1.
    - destruct ((0 <? q_limit s)%Z && (q_limit s <? Z.of_nat (length (q_items s)) + 1)%Z) eqn:Eb;
        inversion E1; subst; cbn [q_items q_limit]; [auto|].
      rewrite app_length. cbn [length]. apply andb_false_iff in Eb. destruct Eb; lia.
    - destruct (q_items s) as [|x tl] eqn:Eq; inversion E1; subst; cbn [q_items q_limit]; [rewrite Eq in *; auto|].
      cbn [length] in Hlen. split; [exact Hl|split; [lia|reflexivity]].
    - inversion E1; subst; auto.
    - inversion E1; subst; auto. }
  destruct H1 as (Ha & Hb & Hc). specialize (IH s1 Ha Hb).
  destruct (q_run s1 ops) as [s2 rs]. destruct IH as [I1 I2]. split; [exact I1|congruence].
Qed.

(* ---- cases ---------------------------------------------------------------------------- *)
Record qcase := mk_qcase { qc_limit : Z; qc_ops : list qop; qc_res : list qres }.
Definition corr_queue (c : qcase) : bool :=
  qres_list_eqb (snd (q_run (mk_q [] (qc_limit c)) (qc_ops c))) (qc_res c).
(* the FIFO property evaluated on what the implementation answered: everything popped is a
   prefix of everything accepted, in order *)
Fixpoint prefix_b (a b : list Z) : bool :=
  match a, b with
  | [], _ => true
  | x :: a', y :: b' => Z.eqb x y && prefix_b a' b'
  | _, _ => false
  end.
Definition spec_queue (c : qcase) : bool := prefix_b (popped (qc_ops c) (qc_res c)) (accepted (qc_ops c) (qc_res c)).
Definition premise_queue (c : qcase) : bool := negb (Nat.eqb (length (popped (qc_ops c) (qc_res c))) 0).
