(* Mbox engine: fallback routing of a message refused by a full mailbox (node/core.go RouteSendPID /
   RouteSendProcessID / RouteSendAlias, after the fix "fallback loop").  Definitions only.

       if ok := queue.Push(qm); ok == false {
           if p.fallback.Enable == false { return gen.ErrProcessMailboxFull }
           if p.fallback.Name == p.name  { return gen.ErrProcessMailboxFull }
           if fallbackLoop(p.pid, message) { return gen.ErrProcessMailboxFull }      // the fix
           fbm := gen.MessageFallback{PID: p.pid, Tag: p.fallback.Tag, Message: message}
           return n.RouteSendProcessID(from, gen.ProcessID{Name: p.fallback.Name, ...}, options, fbm)
       }

   Processes are numbered; a name that is not registered is a number without a process.  The state of
   the mailboxes is frozen during one send (the receivers are blocked): [full] says whether the queue
   selected by the priority refuses the message.  The recursion of the Go code is structural recursion
   on explicit fuel; running out of fuel is the unbounded recursion (fatal "stack overflow" of the whole
   node) the code had before the fix for fallback rings. *)
From Ergo Require Import Common.Base.

Record proc := mk_proc {
  p_exists : bool;          (* a process is registered under this name *)
  p_full : bool;            (* its mailbox refuses the message *)
  p_fb : option nat         (* ProcessOptions.Fallback: the name of the fallback process *)
}.

Inductive outcome :=
| Delivered (to : nat) (refusers : list nat)   (* queued at [to], wrapped in one MessageFallback per refuser (innermost first = last of the list) *)
| ErrFull                                        (* gen.ErrProcessMailboxFull *)
| ErrUnknown.                                    (* gen.ErrProcessUnknown: no such process / name *)

(* chain: the processes that have refused the message so far, most recent first *)
Fixpoint route (fixed : bool) (fuel : nat) (procs : nat -> proc) (to : nat) (chain : list nat) : option outcome :=
  match fuel with
  | O => None
  | S k =>
      let p := procs to in
      if negb (p_exists p) then Some ErrUnknown
      else if negb (p_full p) then Some (Delivered to chain)
      else match p_fb p with
           | None => Some ErrFull
           | Some f =>
               if Nat.eqb f to then Some ErrFull
               else if fixed && existsb (Nat.eqb to) chain then Some ErrFull
               else route fixed k procs f (to :: chain)
           end
  end.

(* the path the specification talks about: follow the fallback names from [to] while the mailboxes are full *)
Definition send (n : nat) (procs : nat -> proc) (to : nat) : option outcome := route true (S (S n)) procs to [].
