(* Order in which a receiver that was parked inside a callback handles what was enqueued
   meanwhile: strict priority classes, per-sender FIFO inside a class. *)
From Ergo Require Import Common.Base.

(* how an item was sent: 0 Normal priority, 1 High, 2 Max, 3 exit signal, 4 down notification,
   5 log message (the receiver is registered as a logger: Log queue) *)
Record item := mk_item { it_sender : nat; it_kind : nat; it_seq : nat }.

(* node/core.go priority switch: Max -> Urgent, High -> System, else Main; sendExitMessage ->
   Urgent; down messages are sent with MessagePriorityHigh -> System *)
Definition class_of (kind : nat) : nat :=
  match kind with 2 | 3 => 0 | 1 | 4 => 1 | 5 => 3 | _ => 2 end.
Definition cls (x : item) : nat := class_of (it_kind x).

Definition item_eqb (a b : item) : bool :=
  Nat.eqb (it_sender a) (it_sender b) && Nat.eqb (it_kind a) (it_kind b) && Nat.eqb (it_seq a) (it_seq b).
Fixpoint items_eqb (a b : list item) : bool :=
  match a, b with
  | [], [] => true
  | x :: a', y :: b' => item_eqb x y && items_eqb a' b'
  | _, _ => false
  end.

Definition of_class (c : nat) (l : list item) : list item := filter (fun x => Nat.eqb (cls x) c) l.
(* what the dequeue scan (Sched.ScanProofs.next_message, repeated) produces from what one
   sender enqueued in order [sent]: class 0 first, then 1, then 2, each in sending order *)
Definition expected (sent : list item) : list item :=
  of_class 0 sent ++ of_class 1 sent ++ of_class 2 sent ++ of_class 3 sent.

Fixpoint classes_sorted (l : list item) : bool :=
  match l with
  | [] => true
  | x :: tl => match tl with [] => true | y :: _ => Nat.leb (cls x) (cls y) && classes_sorted tl end
  end.

Lemma cls_le3 x : cls x <= 3.
Proof. unfold cls, class_of. destruct (it_kind x) as [|[|[|[|[|[|?]]]]]]; lia. Qed.

Lemma classes_sorted_app a b :
  classes_sorted a = true -> classes_sorted b = true ->
  (forall x y, In x a -> In y b -> cls x <= cls y) -> classes_sorted (a ++ b) = true.
Proof.
  induction a as [|x a IH]; intros Ha Hb H; [exact Hb|].
  cbn [app classes_sorted]. destruct a as [|x' a'].
  - cbn [app]. destruct b as [|y b']; [reflexivity|].
    apply andb_true_iff; split; [apply Nat.leb_le; apply H; left; reflexivity|exact Hb].
  - cbn [app]. cbn [classes_sorted] in Ha. apply andb_true_iff in Ha as [H1 H2].
    apply andb_true_iff; split; [exact H1|]. apply IH; [exact H2|exact Hb|].
    intros u v Hu Hv. apply H; [right; exact Hu|exact Hv].
Qed.

Lemma of_class_sorted c l : classes_sorted (of_class c l) = true.
Proof.
  unfold of_class. induction l as [|x l IH]; [reflexivity|]. cbn [filter].
  destruct (Nat.eqb (cls x) c) eqn:E; [|exact IH].
  cbn [classes_sorted]. destruct (filter _ l) as [|y t] eqn:Ef; [reflexivity|].
  apply andb_true_iff; split; [|exact IH].
  assert (Hy : In y (filter (fun x0 => Nat.eqb (cls x0) c) l)) by (rewrite Ef; left; reflexivity).
  apply filter_In in Hy. destruct Hy as [_ Hy]. apply Nat.eqb_eq in E, Hy. apply Nat.leb_le. lia.
Qed.

Lemma In_of_class c l x : In x (of_class c l) -> cls x = c.
Proof. unfold of_class. intros H. apply filter_In in H. destruct H as [_ H]. apply Nat.eqb_eq. exact H. Qed.

(* the expected order is sorted by class and keeps the sending order inside every class *)
Theorem expected_sorted sent : classes_sorted (expected sent) = true.
Proof.
  unfold expected. apply classes_sorted_app; [apply of_class_sorted| |].
  - apply classes_sorted_app; [apply of_class_sorted| |].
    + apply classes_sorted_app; [apply of_class_sorted|apply of_class_sorted|].
      intros x y Hx Hy. apply In_of_class in Hx, Hy. lia.
    + intros x y Hx Hy. apply In_of_class in Hx. apply in_app_or in Hy. destruct Hy as [Hy|Hy]; apply In_of_class in Hy; lia.
  - intros x y Hx Hy. apply In_of_class in Hx. apply in_app_or in Hy. destruct Hy as [Hy|Hy]; [apply In_of_class in Hy; lia|].
    apply in_app_or in Hy. destruct Hy as [Hy|Hy]; apply In_of_class in Hy; lia.
Qed.

Lemma filter_filter_class c c' l :
  of_class c (of_class c' l) = if Nat.eqb c c' then of_class c l else [].
Proof.
  unfold of_class. induction l as [|x l IH]; [destruct (Nat.eqb c c'); reflexivity|]. cbn [filter].
  destruct (Nat.eqb (cls x) c') eqn:E1; cbn [filter]; rewrite ?IH.
  - destruct (Nat.eqb (cls x) c) eqn:E2; destruct (Nat.eqb c c') eqn:E3; try reflexivity;
      apply Nat.eqb_eq in E1; try apply Nat.eqb_eq in E2; try apply Nat.eqb_eq in E3;
      try apply Nat.eqb_neq in E2; try apply Nat.eqb_neq in E3; lia.
  - destruct (Nat.eqb c c') eqn:E3; [|reflexivity]. apply Nat.eqb_eq in E3. subst.
    rewrite E1. reflexivity.
Qed.

Theorem expected_stable c sent : c <= 3 -> of_class c (expected sent) = of_class c sent.
Proof.
  intros Hc. unfold expected. unfold of_class at 1. rewrite !filter_app. fold (of_class c (of_class 0 sent)).
  fold (of_class c (of_class 1 sent)). fold (of_class c (of_class 2 sent)). fold (of_class c (of_class 3 sent)).
  rewrite !filter_filter_class.
  destruct c as [|[|[|[|c]]]]; cbn [Nat.eqb]; rewrite ?app_nil_r; try reflexivity; lia.
Qed.

(* ---- cases ---------------------------------------------------------------------------- *)
(* pc_sent: enqueued (per sender, in order) while the receiver was parked in a message callback;
   pc_sent2: enqueued while it was parked a second time, inside the callback of the FIRST log
   message of phase 1 (empty if phase 1 had no log message) *)
Record pcase := mk_pcase { pc_sent : list (list item); pc_sent2 : list (list item); pc_handled : list item }.

Definition is_log (x : item) : bool := Nat.eqb (cls x) 3.
(* what repeated scans produce for one sender per phase: everything of phase 1 above the Log class,
   the first log message, then - the scan restarts at the Urgent queue after EVERY message, log
   messages included - phase 2 merged with the remaining log messages, by class *)
Definition expected2 (s1 s2 : list item) : list item :=
  let hi := filter (fun x => negb (is_log x)) s1 in
  match filter is_log s1 with
  | [] => expected s1
  | l1 :: lrest => expected hi ++ [l1] ++ expected (s2 ++ lrest)
  end.

Definition from_sender (s : nat) (l : list item) : list item := filter (fun x => Nat.eqb (it_sender x) s) l.

(* single sender: the implementation's order must be exactly the expected one *)
Definition corr_parked (c : pcase) : bool :=
  match pc_sent c, pc_sent2 c with
  | [one], [] => items_eqb (pc_handled c) (expected2 one [])
  | [one], [two] => items_eqb (pc_handled c) (expected2 one two)
  | _, _ => true
  end.

(* any number of senders: classes in strict order, and for every sender and class the handled
   subsequence is exactly what that sender sent in that class, in order (nothing lost, nothing
   duplicated, nothing reordered) *)
(* position of the first log message in the handled list (phase boundary) *)
Fixpoint split_at_first_log (l : list item) : list item * list item :=
  match l with
  | [] => ([], [])
  | x :: tl => if is_log x then ([x], tl) else let '(a, b) := split_at_first_log tl in (x :: a, b)
  end.

Definition spec_parked (c : pcase) : bool :=
  (* up to and including the first log message, and after it, classes are in strict order *)
  (let '(a, b) := split_at_first_log (pc_handled c) in classes_sorted a && classes_sorted b)
  && Nat.eqb (length (pc_handled c)) (length (concat (pc_sent c)) + length (concat (pc_sent2 c)))
  (* (so a message enqueued while the first log message was being handled is taken before the next log message) *)
  && forallb (fun sent =>
        match sent with
        | [] => true
        | x :: _ =>
            forallb (fun k => items_eqb (of_class k (from_sender (it_sender x) (pc_handled c))) (of_class k sent)) [0; 1; 2; 3]
        end) (pc_sent c ++ pc_sent2 c).
Definition premise_parked (c : pcase) : bool :=
  Nat.ltb 1 (length (nodup Nat.eq_dec (map cls (pc_handled c)))).
