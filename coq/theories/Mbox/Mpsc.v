(* Pointer-level model of lib/mpsc.go (queueMPSC) with any number of concurrent producers and one
   consumer, and its refinement to the "list of entries with a linked flag" used by the process
   model (Sched/Model.v: queue, mark_linked, q_pop).  Definitions only - proofs in MpscProofs.v.

     func (q *queueMPSC) Push(value any) bool {
         i := &itemMPSC{value: value}
         atomic.AddInt64(&q.length, 1)
         old_head := Swap(&q.head, i)                        -- step 1 (p_swap)
         Store(&old_head.next, i)                            -- step 2 (p_link)
         return true }
     func (q *queueMPSC) Pop() (any, bool) {
         tail_next := Load(&q.tail.next)                     -- the consumer's only read of shared
         if tail_next == nil { return nil, false }              memory that a producer writes
         value := tail_next.value
         tail_next.value = nil
         Store(&q.tail, tail_next)
         atomic.AddInt64(&q.length, -1)
         return value, true }
     NewQueueMPSC: emptyItem := &itemMPSC{}; head = tail = emptyItem

   Every producer step is ONE atomic access.  The allocation of the new item is merged into the
   swap step (the item is private to its producer until the swap publishes it).  Pop is one step
   taken at its Load: the locations it touches afterwards (tail_next.value, q.tail) are written by
   no producer step (a producer writes q.head, its own unpublished item, and old_head.next only),
   and there is a single consumer, so these accesses commute with every producer step.
   The length counter (not read by Push/Pop of queueMPSC) is left out.

   Nodes are numbered; the store maps a node to (value, next).  The swap order of the nodes is
   kept as ghost state [m_order]; no step reads it. *)
From Ergo Require Import Common.Base.

Record node := mk_node { n_val : Z; n_next : option nat }.

Record mpsc := mk_mpsc {
  m_store : list (nat * node);   (* association list, newest first *)
  m_head : nat;
  m_tail : nat;
  m_fresh : nat;                 (* next unused node number (the allocator) *)
  m_order : list nat             (* ghost: nodes in the order of their head swaps, oldest first;
                                    starts with the dummy node 0 *)
}.

Fixpoint lookup (i : nat) (s : list (nat * node)) : option node :=
  match s with
  | [] => None
  | (j, n) :: tl => if Nat.eqb i j then Some n else lookup i tl
  end.
(* i.next = x *)
Fixpoint set_next (i : nat) (x : nat) (s : list (nat * node)) : list (nat * node) :=
  match s with
  | [] => []
  | (j, n) :: tl => if Nat.eqb i j then (j, mk_node (n_val n) (Some x)) :: tl else (j, n) :: set_next i x tl
  end.
(* i.value = nil (nil is written 0) *)
Fixpoint clear_val (i : nat) (s : list (nat * node)) : list (nat * node) :=
  match s with
  | [] => []
  | (j, n) :: tl => if Nat.eqb i j then (j, mk_node 0 (n_next n)) :: tl else (j, n) :: clear_val i tl
  end.

Definition mpsc_init : mpsc := mk_mpsc [(0, mk_node 0 None)] 0 0 1 [0].

(* producer step 1: allocate, swap the head; returns the pair (old head, new node) the producer
   still has to link *)
Definition p_swap (s : mpsc) (v : Z) : mpsc * (nat * nat) :=
  let i := m_fresh s in
  (mk_mpsc ((i, mk_node v None) :: m_store s) i (m_tail s) (S i) (m_order s ++ [i]), (m_head s, i)).
(* producer step 2 *)
Definition p_link (s : mpsc) (old i : nat) : mpsc :=
  mk_mpsc (set_next old i (m_store s)) (m_head s) (m_tail s) (m_fresh s) (m_order s).
(* consumer *)
Definition c_pop (s : mpsc) : mpsc * option Z :=
  match lookup (m_tail s) (m_store s) with
  | Some t =>
      match n_next t with
      | Some nx =>
          match lookup nx (m_store s) with
          | Some n => (mk_mpsc (clear_val nx (m_store s)) (m_head s) nx (m_fresh s) (m_order s), Some (n_val n))
          | None => (s, None)
          end
      | None => (s, None)
      end
  | None => (s, None)
  end.

(* ---- the abstraction ---------------------------------------------------------------------- *)
(* entries after the tail in swap order; an entry is linked iff its predecessor's next points to it *)
Definition aq := list (nat * Z * bool).

Fixpoint after (t : nat) (l : list nat) : list nat :=
  match l with
  | [] => []
  | x :: tl => if Nat.eqb x t then tl else after t tl
  end.

Definition next_of (s : mpsc) (a : nat) : option nat :=
  match lookup a (m_store s) with Some n => n_next n | None => None end.
Definition val_of (s : mpsc) (i : nat) : Z :=
  match lookup i (m_store s) with Some n => n_val n | None => 0%Z end.
Definition linked_from (s : mpsc) (p i : nat) : bool :=
  match next_of s p with Some x => Nat.eqb x i | None => false end.

Fixpoint entries (s : mpsc) (pred : nat) (l : list nat) : aq :=
  match l with
  | [] => []
  | i :: tl => (i, val_of s i, linked_from s pred i) :: entries s i tl
  end.
Definition abs (s : mpsc) : aq := entries s (m_tail s) (after (m_tail s) (m_order s)).

(* abstract operations = those of Sched/Model.v's queue (push appends (m, false), mark_linked, q_pop) *)
Fixpoint a_mark (i : nat) (q : aq) : aq :=
  match q with
  | [] => []
  | (j, v, l) :: tl => if Nat.eqb j i then (j, v, true) :: tl else (j, v, l) :: a_mark i tl
  end.
Definition a_pop (q : aq) : option (Z * aq) :=
  match q with (_, v, true) :: tl => Some (v, tl) | _ => None end.
Definition a_vals (q : aq) : list Z := map (fun e => snd (fst e)) q.

(* ---- invariant ---------------------------------------------------------------------------- *)
(* pending = the (old, new) pairs of producers between their two steps *)
Fixpoint consecutive (l : list nat) : list (nat * nat) :=
  match l with
  | a :: ((b :: _) as tl) => (a, b) :: consecutive tl
  | _ => []
  end.

Definition MpInv (s : mpsc) (pending : list (nat * nat)) : Prop :=
  NoDup (m_order s) /\
  (forall i, In i (m_order s) -> i < m_fresh s /\ lookup i (m_store s) <> None) /\
  In (m_tail s) (m_order s) /\
  last (m_order s) 0 = m_head s /\ m_order s <> [] /\
  (* every consecutive pair is either linked or has its producer pending; nothing else is set *)
  (forall a b, In (a, b) (consecutive (m_order s)) ->
     (next_of s a = Some b /\ ~ In (a, b) pending) \/ (next_of s a = None /\ In (a, b) pending)) /\
  (forall a b, In (a, b) pending -> In (a, b) (consecutive (m_order s))) /\
  NoDup pending /\
  next_of s (m_head s) = None.

Definition pair_eqb (x y : nat * nat) : bool := Nat.eqb (fst x) (fst y) && Nat.eqb (snd x) (snd y).
Fixpoint rm_pair (x : nat * nat) (l : list (nat * nat)) : list (nat * nat) :=
  match l with
  | [] => []
  | y :: tl => if pair_eqb x y then tl else y :: rm_pair x tl
  end.

(* ---- the LTS: any number of producers, one consumer, any interleaving ---------------------- *)
(* a producer runs Push for each value of its program in turn; between the two steps of a Push
   it holds the pair (old_head, i) in its locals *)
Record producer := mk_producer { p_todo : list Z; p_pend : option (nat * nat) }.
Record mpcfg := mk_mpcfg { mp_st : mpsc; mp_prods : list producer }.

Inductive mp_act := AProd (k : nat) | APop.            (* who takes the next step *)
Inductive mp_event := ESwap (k : nat) (v : Z) | EPop (v : Z).

Fixpoint upd_nth {A} (l : list A) (k : nat) (x : A) : list A :=
  match l, k with
  | [], _ => []
  | _ :: tl, O => x :: tl
  | y :: tl, S j => y :: upd_nth tl j x
  end.

Definition mp_step (c : mpcfg) (a : mp_act) : mpcfg * list mp_event :=
  match a with
  | AProd k =>
      match nth_error (mp_prods c) k with
      | Some p =>
          match p_pend p with
          | Some (old, i) =>
              (mk_mpcfg (p_link (mp_st c) old i) (upd_nth (mp_prods c) k (mk_producer (p_todo p) None)), [])
          | None =>
              match p_todo p with
              | v :: t =>
                  let '(s', pr) := p_swap (mp_st c) v in
                  (mk_mpcfg s' (upd_nth (mp_prods c) k (mk_producer t (Some pr))), [ESwap k v])
              | [] => (c, [])
              end
          end
      | None => (c, [])
      end
  | APop =>
      let '(s', r) := c_pop (mp_st c) in
      (mk_mpcfg s' (mp_prods c), match r with Some v => [EPop v] | None => [] end)
  end.

Fixpoint mp_exec (sched : list mp_act) (c : mpcfg) : mpcfg * list mp_event :=
  match sched with
  | [] => (c, [])
  | a :: tl => let '(c1, e) := mp_step c a in let '(c2, es) := mp_exec tl c1 in (c2, e ++ es)
  end.

Definition ev_pops (es : list mp_event) : list Z :=
  flat_map (fun e => match e with EPop v => [v] | _ => [] end) es.
(* (producer, value) in head-swap order *)
Definition ev_swaps (es : list mp_event) : list (nat * Z) :=
  flat_map (fun e => match e with ESwap k v => [(k, v)] | _ => [] end) es.

(* the run: final configuration and the values the consumer popped, in pop order *)
Definition mp_run (sched : list mp_act) (c : mpcfg) : mpcfg * list Z :=
  let '(c', es) := mp_exec sched c in (c', ev_pops es).
Definition mp_swapped (sched : list mp_act) (c : mpcfg) : list (nat * Z) :=
  ev_swaps (snd (mp_exec sched c)).

Definition mp_init (progs : list (list Z)) : mpcfg :=
  mk_mpcfg mpsc_init (map (fun p => mk_producer p None) progs).

Definition pendings (ps : list producer) : list (nat * nat) :=
  flat_map (fun p => match p_pend p with Some x => [x] | None => [] end) ps.
Definition todo_of (c : mpcfg) (k : nat) : list Z :=
  match nth_error (mp_prods c) k with Some p => p_todo p | None => [] end.
Definition by_producer (k : nat) (l : list (nat * Z)) : list Z :=
  map snd (filter (fun e => Nat.eqb (fst e) k) l).

(* n consecutive pops *)
Fixpoint pop_n (n : nat) (s : mpsc) : mpsc * list Z :=
  match n with
  | O => (s, [])
  | S n' =>
      match c_pop s with
      | (s1, Some v) => let '(s2, vs) := pop_n n' s1 in (s2, v :: vs)
      | (s1, None) => (s1, [])
      end
  end.

(* ---- Pop as the two accesses it is made of ---------------------------------------------------- *)
(* The consumer first loads tail.next into a local (A2Pop with no local: the Load; nil -> Pop
   returns (nil,false)); a later A2Pop step does the rest of Pop with that local (value read,
   value clear, tail store).  Producers may run in between.  MpscProofs.v shows that every run of
   this LTS is a run of the one above with the atomic pop placed at the second step. *)
Inductive mp2_act := A2Prod (k : nat) | A2Pop.
Definition c_load (s : mpsc) : option nat := next_of s (m_tail s).
Definition c_commit (s : mpsc) (nx : nat) : mpsc * Z :=
  (mk_mpsc (clear_val nx (m_store s)) (m_head s) nx (m_fresh s) (m_order s), val_of s nx).
Definition mp2_step (c : mpcfg) (loc : option nat) (a : mp2_act) : mpcfg * option nat * list mp_event :=
  match a with
  | A2Prod k => let '(c', e) := mp_step c (AProd k) in (c', loc, e)
  | A2Pop =>
      match loc with
      | None => (c, c_load (mp_st c), [])
      | Some nx => let '(s', v) := c_commit (mp_st c) nx in (mk_mpcfg s' (mp_prods c), None, [EPop v])
      end
  end.
Fixpoint mp2_exec (sched : list mp2_act) (c : mpcfg) (loc : option nat) : mpcfg * option nat * list mp_event :=
  match sched with
  | [] => (c, loc, [])
  | a :: tl =>
      let '(c1, loc1, e) := mp2_step c loc a in
      let '(c2, loc2, es) := mp2_exec tl c1 loc1 in (c2, loc2, e ++ es)
  end.
