(* Mbox engine: proofs about fallback routing (model: Fallback.v).

   For EVERY configuration of processes, mailbox states and fallback names (chains, rings, self
   references, names nobody holds):
     * the routing of one send terminates (fuel n+2 is enough for n processes);
     * the message ends in exactly one mailbox - that of the first process on the fallback path
       from the addressee whose mailbox takes it - wrapped once per process that refused it, each
       process at most once, in path order; or the sender gets an error and nothing is queued;
   and for the code BEFORE the fix: a ring of two full mailboxes recurses for ever (no fuel suffices). *)
From Ergo Require Import Common.Base Mbox.Fallback.

Definition bounded (n : nat) (procs : nat -> proc) : Prop := forall i, p_exists (procs i) = true -> (i < n)%nat.

Lemma nodup_bounded_length (n : nat) (l : list nat) : NoDup l -> (forall x, In x l -> (x < n)%nat) -> (length l <= n)%nat.
Proof.
  intros ND B. rewrite <- (seq_length n 0). apply NoDup_incl_length; [exact ND|].
  intros x Hx. apply in_seq. specialize (B x Hx). lia.
Qed.

Lemma existsb_eqb_in x l : existsb (Nat.eqb x) l = true <-> In x l.
Proof.
  rewrite existsb_exists. split.
  - intros (y & Hy & E). apply Nat.eqb_eq in E. now subst.
  - intros H. exists x. split; [exact H | apply Nat.eqb_refl].
Qed.

(* ---- termination -------------------------------------------------------------------------------- *)
Theorem route_terminates n procs : bounded n procs ->
  forall fuel to chain,
    NoDup chain -> (forall x, In x chain -> (x < n)%nat) -> (n < length chain + fuel)%nat ->
    route true fuel procs to chain <> None.
Proof.
  intros B. induction fuel as [|fuel IH]; intros to chain ND Hc Hf.
  - exfalso. pose proof (nodup_bounded_length n chain ND Hc). lia.
  - cbn [route]. destruct (p_exists (procs to)) eqn:Ex; cbn [negb]; [|discriminate].
    destruct (p_full (procs to)); cbn [negb]; [|discriminate].
    destruct (p_fb (procs to)) as [f|]; [|discriminate].
    destruct (Nat.eqb f to); [discriminate|]. cbn [andb].
    destruct (existsb (Nat.eqb to) chain) eqn:E; [discriminate|].
    apply IH.
    + constructor; [|exact ND]. intros Hin. apply existsb_eqb_in in Hin. congruence.
    + intros x [<-|Hx]; [now apply B | now apply Hc].
    + cbn [length]. lia.
Qed.

Corollary send_terminates n procs to : bounded n procs -> send n procs to <> None.
Proof.
  intros B. unfold send. apply (route_terminates n procs B); [constructor | intros x [] | cbn [length]; lia].
Qed.

(* ---- what a delivery looks like ------------------------------------------------------------------- *)
(* [chain] (most recent first) is a fallback path that starts at [start] and whose last hop points to [next] *)
Fixpoint is_path (procs : nat -> proc) (start : nat) (chain : list nat) (next : nat) : Prop :=
  match chain with
  | [] => next = start
  | c :: tl => p_exists (procs c) = true /\ p_full (procs c) = true /\ p_fb (procs c) = Some next /\ next <> c /\
               is_path procs start tl c
  end.

Lemma path_all_full procs start : forall chain next c, is_path procs start chain next -> In c chain -> p_full (procs c) = true.
Proof.
  induction chain as [|x tl IH]; intros next c HP Hin; [destruct Hin|].
  cbn [is_path] in HP. destruct HP as (_ & Fx & _ & _ & Htl). destruct Hin as [<-|Hin]; [exact Fx|]. exact (IH x c Htl Hin).
Qed.

Theorem route_delivers procs start : forall fuel to chain d ws,
  is_path procs start chain to -> NoDup chain ->
  route true fuel procs to chain = Some (Delivered d ws) ->
  p_exists (procs d) = true /\ p_full (procs d) = false /\ is_path procs start ws d /\ NoDup ws /\ ~ In d ws.
Proof.
  induction fuel as [|fuel IH]; intros to chain d ws HP ND H; [discriminate|].
  cbn [route] in H. destruct (p_exists (procs to)) eqn:Ex; cbn [negb] in H; [|discriminate].
  destruct (p_full (procs to)) eqn:Fu; cbn [negb] in H.
  - destruct (p_fb (procs to)) as [f|] eqn:Fb; [|discriminate].
    destruct (Nat.eqb f to) eqn:Ef; [discriminate|]. cbn [andb] in H.
    destruct (existsb (Nat.eqb to) chain) eqn:E; [discriminate|].
    apply (IH f (to :: chain) d ws); [|constructor; [|exact ND]|exact H].
    + cbn [is_path]. repeat split; auto. apply Nat.eqb_neq in Ef. exact Ef.
    + intros Hin. apply existsb_eqb_in in Hin. congruence.
  - injection H as Hd Hw. subst d ws. repeat split; auto.
    (* the receiver is not one of the refusers: they are full, it is not *)
    intros Hin. pose proof (path_all_full procs start chain to to HP Hin). congruence.
Qed.

Corollary send_delivers n procs to d ws :
  send n procs to = Some (Delivered d ws) ->
  p_exists (procs d) = true /\ p_full (procs d) = false /\ is_path procs to ws d /\ NoDup ws /\ ~ In d ws.
Proof. intros H. apply (route_delivers procs to (S (S n)) to [] d ws); [reflexivity | constructor | exact H]. Qed.

(* an error means nothing was queued anywhere: the outcome of one send is ONE of delivered-to-one-mailbox,
   mailbox-full, unknown (the result type), and an error is reported only when the path ends at a process
   that does not exist, or at a full mailbox with no fallback, itself as fallback, or a fallback path that
   comes back to a process that already refused *)
Theorem route_error procs start : forall fuel to chain,
  is_path procs start chain to ->
  route true fuel procs to chain = Some ErrFull ->
  exists last refusers, is_path procs start refusers last /\ p_exists (procs last) = true /\ p_full (procs last) = true /\
    (p_fb (procs last) = None \/ p_fb (procs last) = Some last \/ In last refusers).
Proof.
  induction fuel as [|fuel IH]; intros to chain HP H; [discriminate|].
  cbn [route] in H. destruct (p_exists (procs to)) eqn:Ex; cbn [negb] in H; [|discriminate].
  destruct (p_full (procs to)) eqn:Fu; cbn [negb] in H; [|discriminate].
  destruct (p_fb (procs to)) as [f|] eqn:Fb.
  - destruct (Nat.eqb f to) eqn:Ef.
    + apply Nat.eqb_eq in Ef. subst f. exists to, chain. repeat split; auto.
    + cbn [andb] in H. destruct (existsb (Nat.eqb to) chain) eqn:E.
      * apply existsb_eqb_in in E. exists to, chain. repeat split; auto.
      * apply (IH f (to :: chain)); [|exact H]. cbn [is_path]. repeat split; auto. apply Nat.eqb_neq in Ef. exact Ef.
  - exists to, chain. repeat split; auto.
Qed.

(* ---- before the fix: a ring of two full mailboxes ------------------------------------------------- *)
Definition ring2 (i : nat) : proc :=
  match i with
  | 0 => mk_proc true true (Some 1)
  | 1 => mk_proc true true (Some 0)
  | _ => mk_proc false false None
  end%nat.

Theorem ring_diverges_before_fix : forall fuel to chain, (to < 2)%nat -> route false fuel ring2 to chain = None.
Proof.
  induction fuel as [|fuel IH]; intros to chain Hto; [reflexivity|].
  destruct to as [|[|?]]; [| |lia]; cbn [route ring2 p_exists p_full p_fb negb Nat.eqb andb]; apply IH; lia.
Qed.

(* the same ring after the fix: the sender is told that the mailbox is full *)
Example ring_after_fix : send 2 ring2 0 = Some ErrFull /\ send 2 ring2 1 = Some ErrFull.
Proof. split; reflexivity. Qed.

(* non-vacuity: a chain 0 -> 1 -> 2 with 0 and 1 full: delivered to 2, wrapped by 0 (inner) and 1 (outer) *)
Definition chain3 (i : nat) : proc :=
  match i with
  | 0 => mk_proc true true (Some 1)
  | 1 => mk_proc true true (Some 2)
  | 2 => mk_proc true false (Some 0)
  | _ => mk_proc false false None
  end%nat.
Example chain_example : send 3 chain3 0 = Some (Delivered 2 [1; 0]) /\ bounded 3 chain3.
Proof.
  split; [reflexivity|]. intros i H. destruct i as [|[|[|?]]]; try lia. discriminate.
Qed.
