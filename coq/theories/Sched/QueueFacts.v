(* Facts about the mailbox queue model: identities of entries, linked / unlinked parts. *)
From Ergo Require Import Common.Base Sched.Model.

Definition occ (x : nat) (l : list nat) : nat := count_occ Nat.eq_dec l x.

Lemma occ_app x l1 l2 : occ x (l1 ++ l2) = occ x l1 + occ x l2.
Proof. unfold occ. apply count_occ_app. Qed.
Lemma occ_nil x : occ x [] = 0.
Proof. reflexivity. Qed.
Lemma occ_cons x y l : occ x (y :: l) = (if Nat.eqb y x then 1 else 0) + occ x l.
Proof.
  unfold occ. cbn [count_occ]. destruct (Nat.eq_dec y x) as [E|E].
  - subst. rewrite Nat.eqb_refl. lia.
  - apply Nat.eqb_neq in E. rewrite E. lia.
Qed.
Lemma occ_single x y : occ x [y] = if Nat.eqb y x then 1 else 0.
Proof. rewrite occ_cons, occ_nil. lia. Qed.

(* ids of all / linked / unlinked entries of one queue *)
Definition qa (x : nat) (q : queue) : nat := occ x (map (fun e => mid (fst e)) q).
Definition ql (x : nat) (q : queue) : nat := occ x (map (fun e => mid (fst e)) (filter (fun e => snd e) q)).
Definition qu (x : nat) (q : queue) : nat := occ x (map (fun e => mid (fst e)) (filter (fun e => negb (snd e)) q)).

Lemma qa_nil x : qa x [] = 0. Proof. reflexivity. Qed.
Lemma ql_nil x : ql x [] = 0. Proof. reflexivity. Qed.
Lemma qu_nil x : qu x [] = 0. Proof. reflexivity. Qed.

Lemma qa_cons x m b q : qa x ((m, b) :: q) = (if Nat.eqb (mid m) x then 1 else 0) + qa x q.
Proof. unfold qa. cbn [map fst]. apply occ_cons. Qed.
Lemma ql_cons x m b q : ql x ((m, b) :: q) = (if b then (if Nat.eqb (mid m) x then 1 else 0) else 0) + ql x q.
Proof. unfold ql. cbn [filter snd]. destruct b; cbn [map fst]; [apply occ_cons|reflexivity]. Qed.
Lemma qu_cons x m b q : qu x ((m, b) :: q) = (if b then 0 else (if Nat.eqb (mid m) x then 1 else 0)) + qu x q.
Proof. unfold qu. cbn [filter snd negb]. destruct b; cbn [negb map fst]; [reflexivity|apply occ_cons]. Qed.

Lemma qa_split x q : qa x q = ql x q + qu x q.
Proof.
  induction q as [|[m b] q IH]; [reflexivity|].
  rewrite qa_cons, ql_cons, qu_cons, IH. destruct b; lia.
Qed.

Lemma qa_snoc x q m b : qa x (q ++ [(m, b)]) = qa x q + (if Nat.eqb (mid m) x then 1 else 0).
Proof. induction q as [|[m' b'] q IH]; cbn [app]; rewrite ?qa_cons, ?qa_nil; [lia|rewrite IH; lia]. Qed.
Lemma ql_snoc x q m b : ql x (q ++ [(m, b)]) = ql x q + (if b then (if Nat.eqb (mid m) x then 1 else 0) else 0).
Proof. induction q as [|[m' b'] q IH]; cbn [app]; rewrite ?ql_cons, ?ql_nil; [lia|rewrite IH; lia]. Qed.
Lemma qu_snoc x q m b : qu x (q ++ [(m, b)]) = qu x q + (if b then 0 else (if Nat.eqb (mid m) x then 1 else 0)).
Proof. induction q as [|[m' b'] q IH]; cbn [app]; rewrite ?qu_cons, ?qu_nil; [lia|rewrite IH; lia]. Qed.

Lemma q_pop_some q m tl : q_pop q = Some (m, tl) -> q = (m, true) :: tl.
Proof. destruct q as [|[m' [|]] q']; cbn [q_pop]; intros H; inversion H; reflexivity. Qed.

Lemma q_visible_false q : q_visible q = false -> q = [] \/ exists m tl, q = (m, false) :: tl.
Proof. destruct q as [|[m [|]] tl]; cbn [q_visible]; intros H; try discriminate; [left; reflexivity|right; eauto]. Qed.

(* marking an entry linked: with a unique, unlinked entry of that id, exactly that entry moves
   from the unlinked to the linked part *)
Lemma mark_linked_other x i q : x <> i ->
  qa x (mark_linked i q) = qa x q /\ ql x (mark_linked i q) = ql x q /\ qu x (mark_linked i q) = qu x q.
Proof.
  intros Hne. induction q as [|[m b] q IH]; [auto|].
  cbn [mark_linked]. destruct (Nat.eqb (mid m) i) eqn:E.
  - apply Nat.eqb_eq in E. rewrite !qa_cons, !ql_cons, !qu_cons.
    assert (Nat.eqb (mid m) x = false) as -> by (apply Nat.eqb_neq; lia). destruct b; auto.
  - rewrite !qa_cons, !ql_cons, !qu_cons. destruct IH as (-> & -> & ->). auto.
Qed.

Lemma mark_linked_same i q : qa i q <= 1 -> 1 <= qu i q ->
  qa i (mark_linked i q) = qa i q /\ ql i (mark_linked i q) = ql i q + 1 /\ qu i (mark_linked i q) + 1 = qu i q.
Proof.
  induction q as [|[m b] q IH]; intros Ha Hu; [rewrite qu_nil in Hu; lia|].
  cbn [mark_linked]. rewrite qa_cons in Ha. rewrite qu_cons in Hu.
  destruct (Nat.eqb (mid m) i) eqn:E.
  - rewrite !qa_cons, !ql_cons, !qu_cons, E.
    pose proof (qa_split i q). destruct b; lia.
  - rewrite !qa_cons, !ql_cons, !qu_cons, E.
    assert (Hb : (if b then 0 else 0) = 0) by (destruct b; reflexivity).
    destruct IH as (I1 & I2 & I3); [lia | destruct b; lia |]. destruct b; lia.
Qed.

Lemma mark_linked_nil i q : mark_linked i q = [] <-> q = [].
Proof.
  destruct q as [|[m b] q]; cbn [mark_linked]; [tauto|].
  destruct (Nat.eqb (mid m) i); split; intros H; discriminate.
Qed.

(* queue index collapse: every index >= 3 denotes the Log queue *)
Definition qidx (k : nat) : nat := match k with 0 => 0 | 1 => 1 | 2 => 2 | _ => 3 end.

Lemma qget_qidx qs k : qget qs (qidx k) = qget qs k.
Proof. destruct k as [|[|[|k]]]; reflexivity. Qed.

Lemma qget_qset qs k q k' :
  qget (qset qs k q) k' = if Nat.eqb (qidx k) (qidx k') then q else qget qs k'.
Proof. destruct k as [|[|[|k]]]; destruct k' as [|[|[|k']]]; reflexivity. Qed.

(* totals over the four queues *)
Definition Qa (x : nat) (s : queues) : nat := qa x (q0 s) + qa x (q1 s) + qa x (q2 s) + qa x (q3 s).
Definition Ql (x : nat) (s : queues) : nat := ql x (q0 s) + ql x (q1 s) + ql x (q2 s) + ql x (q3 s).

Lemma Qa_qset x s k q : Qa x (qset s k q) + qa x (qget s k) = Qa x s + qa x q.
Proof. unfold Qa. destruct k as [|[|[|k]]]; cbn [qset qget q0 q1 q2 q3]; lia. Qed.
Lemma Ql_qset x s k q : Ql x (qset s k q) + ql x (qget s k) = Ql x s + ql x q.
Proof. unfold Ql. destruct k as [|[|[|k]]]; cbn [qset qget q0 q1 q2 q3]; lia. Qed.
Lemma qa_le_Qa x s k : qa x (qget s k) <= Qa x s.
Proof. unfold Qa. destruct k as [|[|[|k]]]; cbn [qget]; lia. Qed.
