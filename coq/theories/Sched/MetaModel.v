(* Small-step model of one meta-process (node/meta.go): the state word gate of the mailbox
   handler (handle()), the goroutine running Start() (start()), senders to the alias and the exit
   pushed by the parent's termination.  One step = one atomic access; the lib.VerifPoint label
   that precedes it is quoted.  Start() runs by design concurrently with the mailbox handler; the
   callbacks of the mailbox handler and Terminate must be serial (C01) and Terminate must run once,
   after the last handler callback (C05).

   This is the code AFTER the fix "meta-process: Terminate deferred to the running handler":
     start():  reason := Start(); m.exitReason = reason; old := Swap(Terminated)
               old = Terminated -> nothing; old = Running -> the handler goroutine finalises;
               otherwise teardown here
     handle(): every exit of the goroutine that finds the word Terminated without having done
               the teardown itself (own Swap returned Terminated, or CAS Running->Sleep failed)
               performs the teardown with m.exitReason.
   The pre-fix behaviour (start() tears down whatever the old value) is kept as [step_old] for
   the refutation theorem. *)
From Ergo Require Import Common.Base.

Inductive mstate := MZero | MSleep | MRunning | MTerm.
Definition mstate_eqb (a b : mstate) : bool :=
  match a, b with MZero, MZero | MSleep, MSleep | MRunning, MRunning | MTerm, MTerm => true | _, _ => false end.

(* behaviour of the handler callback for a message: returns nil after n steps / returns an error *)
Inductive metabeh := MOk (n : nat) | MErr (r : Z) | MExit (r : Z).   (* MExit: exit message pushed by the parent's termination *)
Record mmsg := mk_mmsg { mm_id : nat; mm_sys : bool; mm_beh : metabeh }.

Inductive mpc :=
(* goroutine A: start() *)
| A_start (n : nat) (r : Z)   (* "meta.s.start"; Start() will take n steps and return reason r *)
| A_store (n : nat) (r : Z)   (* "meta.s.store": Store(Sleep) *)
| A_spawnh (n : nat) (r : Z)  (* "meta.s.spawnh": go m.handle() *)
| A_run0 (n : nat) (r : Z)    (* "meta.s.run": calls Start() *)
| A_run (n : nat) (r : Z)     (* inside Start(): n steps left, then returns reason r *)
| A_swapT (r : Z)             (* "meta.s.swapT" *)
| A_del (r : Z)               (* "meta.s.del": aliases.Delete, RouteTerminateAlias *)
| A_term (r : Z)              (* inside Terminate *)
| A_exit                      (* "meta.s.exit" *)
(* a call of handle(): by `go m.handle()`, by a sender after its push, by unregisterProcess *)
| C_push (m : mmsg)           (* "meta.push" / "meta.xpush": push into main / system *)
| C_cas                       (* "meta.cas": CAS Sleep->Running *)
| C_spawn                     (* "meta.spawn": go func *)
| C_exit                      (* "meta.hc.exit": handle() returns *)
(* the handler goroutine *)
| G_start                     (* "meta.h.start" *)
| G_state                     (* "meta.h.state": state load *)
| G_pop (k : nat)             (* "meta.h.pop": 0 system, 1 main *)
| G_cb (m : mmsg) (n : nat)   (* inside HandleMessage/HandleCall/exit handling *)
| G_swapT (r : Z)             (* "meta.h.swapT" *)
| G_del (r : Z)               (* "meta.h.del" *)
| G_term (r : Z)              (* inside Terminate *)
| G_sleep                     (* "meta.h.cas.sleep": CAS Running->Sleep *)
| G_item (k : nat)            (* "meta.h.item" *)
| G_wake                      (* "meta.h.cas.wake": CAS Sleep->Running *)
| G_exit                      (* "meta.h.exit" *)
| MDone.

Record mshared := mk_msh {
  mst : mstate;
  msys : list mmsg; mmain : list mmsg;
  exit_reason : option Z;         (* m.exitReason, written by start() before its swap *)
  (* ghost *)
  mfin : bool;                    (* some Swap(Terminated) returned a value <> Terminated *)
  mterms : nat;                   (* terminate callbacks begun *)
  mtreason : option Z;            (* reason given to Terminate *)
  mhandled : list nat
}.
Record mcfg := mk_mcfg { msh : mshared; mthr : list mpc }.

Definition set_mst (s : mshared) (x : mstate) : mshared :=
  mk_msh x (msys s) (mmain s) (exit_reason s) (mfin s) (mterms s) (mtreason s) (mhandled s).
Definition set_queues (s : mshared) (a b : list mmsg) : mshared :=
  mk_msh (mst s) a b (exit_reason s) (mfin s) (mterms s) (mtreason s) (mhandled s).
Definition set_exit_reason (s : mshared) (r : Z) : mshared :=
  mk_msh (mst s) (msys s) (mmain s) (Some r) (mfin s) (mterms s) (mtreason s) (mhandled s).
Definition m_add_handled (s : mshared) (i : nat) : mshared :=
  mk_msh (mst s) (msys s) (mmain s) (exit_reason s) (mfin s) (mterms s) (mtreason s) (mhandled s ++ [i]).
Definition m_finalise (s : mshared) : mshared :=
  mk_msh MTerm (msys s) (mmain s) (exit_reason s) true (mterms s) (mtreason s) (mhandled s).
Definition m_enter_term (s : mshared) (r : Z) : mshared :=
  mk_msh (mst s) (msys s) (mmain s) (exit_reason s) (mfin s) (S (mterms s)) (Some r) (mhandled s).

(* a popped exit message is consumed without a behaviour callback *)
Definition m_note_handled (s : mshared) (m : mmsg) : mshared :=
  match mm_beh m with MExit _ => s | _ => m_add_handled s (mm_id m) end.

Definition deferred_reason (s : mshared) : Z := match exit_reason s with Some r => r | None => 0%Z end.

Definition m_cb_pc (m : mmsg) : mpc :=
  match mm_beh m with MOk n => G_cb m n | MErr _ => G_cb m 0 | MExit r => G_swapT r end.

(* [fixed] selects the repaired start()/handle() or the code as it was *)
Definition mstep_pc (fixed : bool) (s : mshared) (p : mpc) : option (mshared * mpc * option mpc) :=
  match p with
  | A_start n r => Some (s, A_store n r, None)
  | A_store n r => Some (set_mst s MSleep, A_spawnh n r, None)
  | A_spawnh n r => Some (s, A_run0 n r, Some C_cas)
  | A_run0 n r => Some (s, A_run n r, None)
  | A_run (S n) r => Some (s, A_run n r, None)
  | A_run O r => Some (if fixed then set_exit_reason s r else s, A_swapT r, None)
  | A_swapT r =>
      match mst s with
      | MTerm => Some (s, A_exit, None)
      | MRunning => if fixed then Some (set_mst s MTerm, A_exit, None)      (* the handler finalises *)
                    else Some (m_finalise s, A_del r, None)
      | _ => Some (m_finalise s, A_del r, None)
      end
  | A_del r => Some (m_enter_term s r, A_term r, None)
  | A_term r => Some (s, A_exit, None)
  | A_exit => Some (s, MDone, None)

  | C_push m =>
      Some (if mm_sys m then set_queues s (msys s ++ [m]) (mmain s) else set_queues s (msys s) (mmain s ++ [m]), C_cas, None)
  | C_cas => if mstate_eqb (mst s) MSleep then Some (set_mst s MRunning, C_spawn, None) else Some (s, C_exit, None)
  | C_spawn => Some (s, C_exit, Some G_start)
  | C_exit => Some (s, MDone, None)

  | G_start => Some (s, G_state, None)
  | G_state => if mstate_eqb (mst s) MRunning then Some (s, G_pop 0, None) else Some (s, G_sleep, None)
  | G_pop O =>
      match msys s with
      | m :: tl => Some (m_note_handled (set_queues s tl (mmain s)) m, m_cb_pc m, None)
      | [] => Some (s, G_pop 1, None)
      end
  | G_pop (S _) =>
      match mmain s with
      | m :: tl => Some (m_note_handled (set_queues s (msys s) tl) m, m_cb_pc m, None)
      | [] => Some (s, G_sleep, None)
      end
  | G_cb m (S n) => Some (s, G_cb m n, None)
  | G_cb m O => match mm_beh m with MOk _ => Some (s, G_state, None) | MErr r | MExit r => Some (s, G_swapT r, None) end
  | G_swapT r =>
      match mst s with
      | MTerm => if fixed then Some (m_finalise s, G_del (deferred_reason s), None)   (* deferred to us *)
                 else Some (s, G_exit, None)
      | _ => Some (m_finalise s, G_del r, None)
      end
  | G_del r => Some (m_enter_term s r, G_term r, None)
  | G_term r => Some (s, G_exit, None)
  | G_sleep =>
      if mstate_eqb (mst s) MRunning then Some (set_mst s MSleep, G_item 0, None)
      else if fixed then Some (m_finalise s, G_del (deferred_reason s), None)          (* deferred to us *)
      else Some (s, G_exit, None)
  | G_item O => match msys s with [] => Some (s, G_item 1, None) | _ => Some (s, G_wake, None) end
  | G_item (S _) => match mmain s with [] => Some (s, G_exit, None) | _ => Some (s, G_wake, None) end
  | G_wake => if mstate_eqb (mst s) MSleep then Some (set_mst s MRunning, G_state, None) else Some (s, G_exit, None)
  | G_exit => Some (s, MDone, None)
  | MDone => None
  end.

Fixpoint mset_nth (l : list mpc) (i : nat) (p : mpc) : list mpc :=
  match l, i with
  | [], _ => []
  | _ :: tl, O => p :: tl
  | x :: tl, S j => x :: mset_nth tl j p
  end.

Definition mstep (fixed : bool) (c : mcfg) (i : nat) : option mcfg :=
  match nth_error (mthr c) i with
  | None => None
  | Some p =>
      match mstep_pc fixed (msh c) p with
      | None => None
      | Some (s', p', sp) =>
          let t' := mset_nth (mthr c) i p' in
          Some (mk_mcfg s' (match sp with Some np => t' ++ [np] | None => t' end))
      end
  end.

Fixpoint mrun (fixed : bool) (sched : list nat) (c : mcfg) : mcfg :=
  match sched with
  | [] => c
  | i :: tl => match mstep fixed c i with Some c' => mrun fixed tl c' | None => mrun fixed tl c end
  end.

(* a handler / terminate callback is executing (Start() is not counted: it is concurrent by design) *)
Definition m_open (p : mpc) : bool :=
  match p with G_cb _ _ | G_term _ | A_term _ => true | _ => false end.

Definition mcount (f : mpc -> bool) (l : list mpc) : nat := length (filter f l).

Definition m_init_pc (p : mpc) : bool := match p with C_push _ => true | _ => false end.

(* initial configuration: the start() goroutine (Start() takes n steps and returns r) and any
   number of goroutines pushing a message and calling handle() *)
Definition m_init_shared : mshared := mk_msh MZero [] [] None false 0 None [].
Definition m_init_cfg (n : nat) (r : Z) (others : list mpc) : mcfg := mk_mcfg m_init_shared (A_start n r :: others).
