(* Token invariant of the meta-process gate (node/meta.go after the fix): the handler callbacks
   and Terminate are serial (C01), Terminate runs exactly once, last (C05) - for every schedule,
   any number of senders, parent termination, any moment at which Start() returns. *)
From Ergo Require Import Common.Base Sched.MetaModel.

Definition mb2n (b : bool) : nat := if b then 1 else 0.

Lemma mcount_cons f p l : mcount f (p :: l) = mb2n (f p) + mcount f l.
Proof. unfold mcount. cbn [filter]. destruct (f p); reflexivity. Qed.
Lemma mcount_app f l1 l2 : mcount f (l1 ++ l2) = mcount f l1 + mcount f l2.
Proof. unfold mcount. rewrite filter_app, app_length. reflexivity. Qed.
Lemma mcount_set_nth f l i p p' :
  nth_error l i = Some p -> mcount f (mset_nth l i p') + mb2n (f p) = mcount f l + mb2n (f p').
Proof.
  revert i; induction l as [|x l IH]; intros [|i] H; cbn [nth_error mset_nth] in *; try discriminate.
  - inversion H; subst. rewrite !mcount_cons. lia.
  - rewrite !mcount_cons. specialize (IH i H). lia.
Qed.
Lemma mcount_ge f l i p : nth_error l i = Some p -> mb2n (f p) <= mcount f l.
Proof.
  revert i; induction l as [|x l IH]; intros [|i] H; cbn [nth_error] in *; try discriminate.
  - inversion H; subst. rewrite mcount_cons. lia.
  - rewrite mcount_cons. specialize (IH i H). lia.
Qed.
Definition mspawn_w (f : mpc -> bool) (sp : option mpc) : nat := match sp with Some np => mb2n (f np) | None => 0 end.

Lemma mstep_shape fx c i c' :
  mstep fx c i = Some c' ->
  exists p s' p' sp,
    nth_error (mthr c) i = Some p /\ mstep_pc fx (msh c) p = Some (s', p', sp) /\ msh c' = s' /\
    (forall f, mcount f (mthr c') + mb2n (f p) = mcount f (mthr c) + mb2n (f p') + mspawn_w f sp) /\
    (forall f, mb2n (f p) <= mcount f (mthr c)).
Proof.
  unfold mstep. destruct (nth_error (mthr c) i) as [p|] eqn:Hn; [|discriminate].
  destruct (mstep_pc fx (msh c) p) as [[[s' p'] sp]|] eqn:Hs; [|discriminate].
  intros H; inversion H; subst; clear H. exists p, s', p', sp. cbn [msh mthr].
  repeat split; auto.
  - intros f. destruct sp as [np|]; cbn [mspawn_w].
    + rewrite mcount_app. replace (mcount f [np]) with (mb2n (f np)) by (unfold mcount; cbn [filter]; destruct (f np); reflexivity).
      pose proof (mcount_set_nth f _ _ _ p' Hn). lia.
    + pose proof (mcount_set_nth f _ _ _ p' Hn). lia.
  - intros f. eapply mcount_ge; eauto.
Qed.

Lemma mrun_invariant fx (P : mcfg -> Prop) :
  (forall c i c', P c -> mstep fx c i = Some c' -> P c') -> forall sched c, P c -> P (mrun fx sched c).
Proof.
  intros Hstep sched; induction sched as [|i tl IH]; intros c Hc; cbn [mrun]; [exact Hc|].
  destruct (mstep fx c i) as [c'|] eqn:Hs; [apply IH; eapply Hstep; eauto | apply IH; exact Hc].
Qed.

(* pc classes *)
Definition m_own (p : mpc) : bool :=
  match p with C_spawn | G_start | G_state | G_pop _ | G_cb _ _ | G_swapT _ | G_sleep => true | _ => false end.
Definition m_early (p : mpc) : bool := match p with G_del _ | A_del _ => true | _ => false end.
Definition m_late (p : mpc) : bool := match p with G_term _ | A_term _ => true | _ => false end.
(* the start() goroutine before it has stored Sleep / before it is past its swap *)
Definition a_zero (p : mpc) : bool := match p with A_start _ _ | A_store _ _ => true | _ => false end.
Definition a_pre (p : mpc) : bool :=
  match p with A_spawnh _ _ | A_run0 _ _ | A_run _ _ | A_swapT _ => true | _ => false end.

Definition MInvN (s : mshared) (h g l z a : nat) : Prop :=
  z + a <= 1 /\ True /\
  (mst s = MZero -> z = 1) /\ (mst s <> MZero -> z = 0) /\
  (z + a = 0 -> mst s = MTerm) /\
  (mfin s = false ->
     g + l = 0 /\ mterms s = 0 /\
     match mst s with MZero | MSleep => h = 0 | MRunning | MTerm => h = 1 end) /\
  (mfin s = true -> h = 0 /\ g + l <= 1 /\ g + mterms s = 1 /\ mst s = MTerm).

Definition MInv (c : mcfg) : Prop :=
  MInvN (msh c) (mcount m_own (mthr c)) (mcount m_early (mthr c)) (mcount m_late (mthr c))
        (mcount a_zero (mthr c)) (mcount a_pre (mthr c)).

Lemma mstep_pc_inv s p s' p' sp h g l z a :
  mstep_pc true s p = Some (s', p', sp) ->
  mb2n (m_own p) <= h -> mb2n (m_early p) <= g -> mb2n (m_late p) <= l -> mb2n (a_zero p) <= z -> mb2n (a_pre p) <= a ->
  MInvN s h g l z a ->
  forall h' g' l' z' a',
  h' + mb2n (m_own p) = h + mb2n (m_own p') + mspawn_w m_own sp ->
  g' + mb2n (m_early p) = g + mb2n (m_early p') + mspawn_w m_early sp ->
  l' + mb2n (m_late p) = l + mb2n (m_late p') + mspawn_w m_late sp ->
  z' + mb2n (a_zero p) = z + mb2n (a_zero p') + mspawn_w a_zero sp ->
  a' + mb2n (a_pre p) = a + mb2n (a_pre p') + mspawn_w a_pre sp ->
  MInvN s' h' g' l' z' a'.
Proof.
  intros Hstep Hh Hg Hl Hz Ha HI h' g' l' z' a' Eh Eg El Ez Ea.
  unfold MInvN in *. destruct HI as (I1 & I2 & I3 & I4 & I5 & Hnf & Hf).
  destruct p; cbn [mstep_pc] in Hstep;
    (destruct (mfin s) eqn:Efin;
      [ specialize (Hf eq_refl); clear Hnf; destruct Hf as (Hf1 & Hf2 & Hf3 & Hf4)
      | specialize (Hnf eq_refl); clear Hf; destruct Hnf as (Hn1 & Hn2 & Hn3) ]);
    (destruct (mst s) eqn:Est; cbn [mstate_eqb] in Hstep);
    try discriminate;
    repeat match type of Hstep with
    | context [match ?q with [] => _ | _ :: _ => _ end] => destruct q
    | context [if ?b then _ else _] => destruct b
    | context [match mm_beh ?m with _ => _ end] => destruct (mm_beh m)
    | context [match ?n with O => _ | S _ => _ end] => destruct n
    end;
    inversion Hstep; subst; clear Hstep;
    unfold m_cb_pc, m_note_handled in *;
    repeat match goal with
    | H : context [match mm_beh ?m with _ => _ end] |- _ => destruct (mm_beh m)
    | |- context [match mm_beh ?m with _ => _ end] => destruct (mm_beh m)
    end;
    cbn [m_own m_early m_late a_zero a_pre mb2n mspawn_w] in *;
    cbn [mst mfin mterms set_mst set_queues set_exit_reason m_add_handled m_finalise m_enter_term] in *;
    rewrite ?Efin, ?Est in *;
    repeat split; intros; try discriminate; try congruence; try lia;
    try (apply I5; lia);
    try (exfalso; assert (Hx : z + a = 0) by lia; specialize (I5 Hx); discriminate);
    try (intuition (try discriminate; try congruence; try lia)).
Qed.

Lemma mstep_inv c i c' : MInv c -> mstep true c i = Some c' -> MInv c'.
Proof.
  intros HI Hs. destruct (mstep_shape _ _ _ _ Hs) as (p & s' & p' & sp & Hn & Hp & Hsh & Hcnt & Hge).
  unfold MInv in *. rewrite Hsh.
  eapply mstep_pc_inv; [exact Hp | apply Hge | apply Hge | apply Hge | apply Hge | apply Hge | exact HI
                        | apply Hcnt | apply Hcnt | apply Hcnt | apply Hcnt | apply Hcnt].
Qed.

Lemma mcount_zero_init f others :
  (forall p, m_init_pc p = true -> f p = false) -> Forall (fun p => m_init_pc p = true) others -> mcount f others = 0.
Proof.
  intros Hf Hall. induction Hall as [|p l Hp _ IH]; [reflexivity|]. rewrite mcount_cons, IH, (Hf p Hp). reflexivity.
Qed.

Lemma MInv_init n r others : Forall (fun p => m_init_pc p = true) others -> MInv (m_init_cfg n r others).
Proof.
  intros Hall. unfold MInv, m_init_cfg. cbn [msh mthr]. rewrite !mcount_cons.
  rewrite !(mcount_zero_init _ others) by (try exact Hall; intros p Hp; destruct p; try discriminate; reflexivity).
  unfold MInvN. cbn. repeat split; intros; try discriminate; try congruence; try lia.
Qed.

Theorem MInv_reachable sched n r others :
  Forall (fun p => m_init_pc p = true) others -> MInv (mrun true sched (m_init_cfg n r others)).
Proof.
  intros Hall. apply mrun_invariant; [intros c i c' HI Hs; eapply mstep_inv; eauto|]. apply MInv_init; exact Hall.
Qed.

Lemma mcount_le2 f g1 g2 l :
  (forall p, mb2n (f p) <= mb2n (g1 p) + mb2n (g2 p)) -> mcount f l <= mcount g1 l + mcount g2 l.
Proof. intros H. induction l as [|p l IH]; [reflexivity|]. rewrite !mcount_cons. specialize (H p). lia. Qed.

(* C01 (meta): at most one of HandleMessage / HandleCall / HandleInspect / exit handling /
   Terminate is executing in any reachable configuration *)
Theorem meta_no_overlap sched n r others :
  Forall (fun p => m_init_pc p = true) others ->
  mcount m_open (mthr (mrun true sched (m_init_cfg n r others))) <= 1.
Proof.
  intros Hall. pose proof (MInv_reachable sched n r others Hall) as HI.
  set (c := mrun true sched (m_init_cfg n r others)) in *.
  pose proof (mcount_le2 m_open m_own m_late (mthr c)) as Hle.
  assert (Hp : forall p, mb2n (m_open p) <= mb2n (m_own p) + mb2n (m_late p)) by (intros p; destruct p; cbn; lia).
  specialize (Hle Hp). unfold MInv, MInvN in HI. destruct HI as (_ & _ & _ & _ & _ & Hnf & Hf).
  destruct (mfin (msh c)) eqn:E.
  - destruct (Hf eq_refl) as (H1 & H2 & _). lia.
  - destruct (Hnf eq_refl) as (H1 & _ & H3). destruct (mst (msh c)); lia.
Qed.

(* C05 (meta): Terminate begins at most once ... *)
Theorem meta_terms_le1 sched n r others :
  Forall (fun p => m_init_pc p = true) others ->
  mterms (msh (mrun true sched (m_init_cfg n r others))) <= 1.
Proof.
  intros Hall. pose proof (MInv_reachable sched n r others Hall) as HI.
  unfold MInv, MInvN in HI. destruct HI as (_ & _ & _ & _ & _ & Hnf & Hf).
  destruct (mfin (msh (mrun true sched (m_init_cfg n r others)))) eqn:E;
    [destruct (Hf eq_refl) as (_ & _ & H & _); lia | destruct (Hnf eq_refl) as (_ & H & _); lia].
Qed.

Definition m_quiescent (c : mcfg) : bool := forallb (fun p => match p with MDone => true | _ => false end) (mthr c).
Lemma mcount_quiescent f c : m_quiescent c = true -> f MDone = false -> mcount f (mthr c) = 0.
Proof.
  unfold m_quiescent. intros Hq Hf. induction (mthr c) as [|p l IH]; [reflexivity|].
  cbn [forallb] in Hq. apply andb_true_iff in Hq as [Hp Hl]. destruct p; try discriminate.
  rewrite mcount_cons, Hf, (IH Hl). reflexivity.
Qed.

(* ... and exactly once when every goroutine has finished: a meta-process always ends terminated,
   whoever ended it (Start() returning, a handler error, the parent's exit) *)
Theorem meta_terminates_exactly_once sched n r others :
  Forall (fun p => m_init_pc p = true) others ->
  let c := mrun true sched (m_init_cfg n r others) in
  m_quiescent c = true -> mterms (msh c) = 1 /\ mst (msh c) = MTerm.
Proof.
  intros Hall c Hq. pose proof (MInv_reachable sched n r others Hall) as HI. fold c in HI.
  unfold MInv, MInvN in HI. destruct HI as (_ & _ & _ & _ & I5 & Hnf & Hf).
  rewrite (mcount_quiescent a_pre c Hq eq_refl), (mcount_quiescent a_zero c Hq eq_refl) in I5. specialize (I5 eq_refl).
  rewrite (mcount_quiescent m_own c Hq eq_refl), (mcount_quiescent m_early c Hq eq_refl) in *.
  destruct (mfin (msh c)) eqn:E.
  - destruct (Hf eq_refl) as (_ & _ & H & _). split; [lia|exact I5].
  - destruct (Hnf eq_refl) as (_ & _ & H). rewrite I5 in H. lia.
Qed.

(* the code as it was before the fix violates the statement: Start() returns while the handler
   is inside a callback *)
Definition refut_cfg := m_init_cfg 0 3 [C_push (mk_mmsg 1 false (MOk 2))].
Definition refut_sched := [0; 0; 0; 1; 1; 1; 3; 3; 3; 3; 0; 0; 0; 0].
Theorem meta_no_overlap_refuted_before_fix :
  mcount m_open (mthr (mrun false refut_sched refut_cfg)) = 2.
Proof. vm_compute. reflexivity. Qed.
Theorem meta_same_schedule_after_fix :
  mcount m_open (mthr (mrun true refut_sched refut_cfg)) <= 1.
Proof. vm_compute. lia. Qed.
