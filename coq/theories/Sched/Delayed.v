(* Delayed sends (process.SendAfter = time.AfterFunc(d, send).Stop).  The timer is the Go
   runtime's; its contract is the hypothesis of this model: Stop() returns true iff the call
   prevented the function from running.  Model: the timer fires (runs the send once) unless a
   Stop linearises first; any number of Stop calls, any schedule. *)
From Ergo Require Import Common.Base.

Inductive tstate := TPending | TFired | TStopped.
Inductive dpc := D_expire | D_stop | D_done.   (* the runtime's timer goroutine / a caller of cancel() *)

Record dcfg := mk_dcfg { d_timer : tstate; d_sends : nat; d_results : list bool; d_thr : list dpc }.

Fixpoint d_set (l : list dpc) (i : nat) (p : dpc) : list dpc :=
  match l, i with [], _ => [] | _ :: tl, O => p :: tl | x :: tl, S j => x :: d_set tl j p end.

Definition d_step (c : dcfg) (i : nat) : option dcfg :=
  match nth_error (d_thr c) i with
  | Some D_expire =>
      Some (match d_timer c with
            | TPending => mk_dcfg TFired (S (d_sends c)) (d_results c) (d_set (d_thr c) i D_done)
            | t => mk_dcfg t (d_sends c) (d_results c) (d_set (d_thr c) i D_done)
            end)
  | Some D_stop =>
      Some (match d_timer c with
            | TPending => mk_dcfg TStopped (d_sends c) (d_results c ++ [true]) (d_set (d_thr c) i D_done)
            | t => mk_dcfg t (d_sends c) (d_results c ++ [false]) (d_set (d_thr c) i D_done)
            end)
  | _ => None
  end.

Fixpoint d_run (sched : list nat) (c : dcfg) : dcfg :=
  match sched with
  | [] => c
  | i :: tl => match d_step c i with Some c' => d_run tl c' | None => d_run tl c end
  end.

Definition d_count (f : dpc -> bool) (l : list dpc) : nat := length (filter f l).
Definition is_expire (p : dpc) := match p with D_expire => true | _ => false end.
Definition n_true (l : list bool) : nat := length (filter (fun b => b) l).

(* invariant: the message is sent at most once; a successful cancel excludes the send; while
   the timer is pending its goroutine is still there *)
Definition DInv (c : dcfg) : Prop :=
  d_count is_expire (d_thr c) <= 1 /\
  match d_timer c with
  | TPending => d_sends c = 0 /\ n_true (d_results c) = 0 /\ d_count is_expire (d_thr c) = 1
  | TFired => d_sends c = 1 /\ n_true (d_results c) = 0
  | TStopped => d_sends c = 0 /\ n_true (d_results c) = 1
  end.

Lemma d_count_set f l i p p' : nth_error l i = Some p ->
  d_count f (d_set l i p') + (if f p then 1 else 0) = d_count f l + (if f p' then 1 else 0).
Proof.
  revert i; induction l as [|x l IH]; intros [|i] H; cbn [nth_error d_set] in *; try discriminate.
  - inversion H; subst. unfold d_count. cbn [filter]. destruct (f p), (f p'); cbn [length]; lia.
  - specialize (IH i H). unfold d_count in *. cbn [filter]. destruct (f x); cbn [length]; lia.
Qed.

Lemma n_true_snoc l b : n_true (l ++ [b]) = n_true l + (if b then 1 else 0).
Proof. unfold n_true. rewrite filter_app, app_length. destruct b; cbn; lia. Qed.

Lemma d_step_inv c i c' : DInv c -> d_step c i = Some c' -> DInv c'.
Proof.
  unfold DInv, d_step. intros (H1 & H2) Hs.
  destruct (nth_error (d_thr c) i) as [p|] eqn:Hn; [|discriminate].
  pose proof (d_count_set is_expire _ _ _ D_done Hn) as Hc.
  destruct p; try discriminate; destruct (d_timer c) eqn:Et; inversion Hs; subst; clear Hs;
    cbn [d_timer d_sends d_results d_thr is_expire] in *; rewrite ?n_true_snoc; intuition lia.
Qed.

Definition d_init (stops : nat) : dcfg := mk_dcfg TPending 0 [] (D_expire :: repeat D_stop stops).

Lemma DInv_init stops : DInv (d_init stops).
Proof.
  unfold DInv, d_init. cbn [d_timer d_sends d_results d_thr].
  assert (d_count is_expire (repeat D_stop stops) = 0) by (induction stops; cbn; auto).
  unfold d_count in *. cbn [filter is_expire length]. unfold n_true. cbn. lia.
Qed.

Lemma DInv_run sched c : DInv c -> DInv (d_run sched c).
Proof.
  revert c; induction sched as [|i tl IH]; intros c H; cbn [d_run]; [exact H|].
  destruct (d_step c i) eqn:E; [apply IH; eapply d_step_inv; eauto|apply IH; exact H].
Qed.

(* C02, delayed sends: for any number of cancel() calls and any interleaving with the timer:
   if some cancellation reported success the message is never sent; otherwise, once the timer
   goroutine has run, it was sent exactly once; never twice. *)
Theorem delayed_send_exact sched stops :
  let c := d_run sched (d_init stops) in
  d_sends c <= 1 /\
  (n_true (d_results c) >= 1 -> d_sends c = 0) /\
  (d_count is_expire (d_thr c) = 0 -> n_true (d_results c) = 0 -> d_sends c = 1).
Proof.
  intros c. pose proof (DInv_run sched (d_init stops) (DInv_init stops)) as (H1 & H2). fold c in H1, H2.
  destruct (d_timer c); intuition lia.
Qed.

(* ---- cases: observations of real SendAfter / cancel on a node ------------------------------ *)
Record dcase := mk_dcase { dc_cancelled : bool; dc_result : bool; dc_received : nat }.
(* cancel() = true -> never received; otherwise (not cancelled, or cancel() = false) exactly once *)
Definition spec_delayed (c : dcase) : bool :=
  if dc_cancelled c && dc_result c then Nat.eqb (dc_received c) 0 else Nat.eqb (dc_received c) 1.
Definition premise_delayed (c : dcase) : bool := dc_cancelled c.
