(* Checkers for controlled-schedule runs of a real meta-process (go/harness/cmd/sched meta). *)
From Ergo Require Import Common.Base Sched.MetaModel.

Record mobs := mk_mobs { mo_tid : nat; mo_en : bool; mo_label : nat; mo_st : Z; mo_nthr : nat }.
Record mcase := mk_mcase {
  mc_startn : nat; mc_startr : Z; mc_threads : list mpc; mc_sched : list nat; mc_obs : list mobs;
  mc_events : list (nat * nat); mc_handled : list nat; mc_terms : nat; mc_reason : Z }.

Definition mpc_label (p : mpc) : nat :=
  match p with
  | A_start _ _ => 1 | A_store _ _ => 2 | A_spawnh _ _ => 3 | A_run0 _ _ => 4 | A_run _ _ => 5 | A_swapT _ => 6
  | A_del _ => 7 | A_term _ => 8 | A_exit => 9
  | C_push _ => 10 | C_cas => 11 | C_spawn => 12 | C_exit => 23
  | G_start => 13 | G_state => 14 | G_pop _ => 15 | G_cb _ _ => 16 | G_swapT _ => 17 | G_del _ => 18 | G_term _ => 8
  | G_sleep => 19 | G_item _ => 20 | G_wake => 21 | G_exit => 22
  | MDone => 0
  end.
Definition mst_code (s : mstate) : Z := match s with MZero => 0 | MSleep => 1 | MRunning => 2 | MTerm => 4 end%Z.

Fixpoint mreplay (c : mcfg) (sched : list nat) (os : list mobs) : option mcfg :=
  match sched, os with
  | [], [] => Some c
  | i :: s', o :: o' =>
      if negb (Nat.eqb i (mo_tid o)) then None else
      match mstep true c i with
      | Some c' =>
          if mo_en o && Nat.eqb (mpc_label (nth i (mthr c') MDone)) (mo_label o)
             && (Z.ltb (mo_st o) 0 || Z.eqb (mst_code (mst (msh c'))) (mo_st o))
             && Nat.eqb (length (mthr c')) (mo_nthr o)
          then mreplay c' s' o' else None
      | None =>
          if negb (mo_en o) && Nat.eqb (mo_label o) 0 && Nat.eqb (length (mthr c)) (mo_nthr o)
          then mreplay c s' o' else None
      end
  | _, _ => None
  end.

Fixpoint nl_eqb (a b : list nat) : bool :=
  match a, b with
  | [], [] => true
  | x :: a', y :: b' => Nat.eqb x y && nl_eqb a' b'
  | _, _ => false
  end.

Definition mcase_cfg (c : mcase) : mcfg := m_init_cfg (mc_startn c) (mc_startr c) (mc_threads c).

Definition corr_meta (c : mcase) : bool :=
  match mreplay (mcase_cfg c) (mc_sched c) (mc_obs c) with
  | None => false
  | Some f =>
      forallb (fun p => match p with MDone => true | _ => false end) (mthr f)
      && nl_eqb (mhandled (msh f)) (mc_handled c)
      && Nat.eqb (mterms (msh f)) (mc_terms c)
      && Z.eqb (match mtreason (msh f) with Some r => r | None => 0%Z end) (mc_reason c)
  end.

(* C01 for the mailbox-handler callbacks and Terminate: never two at once *)
Fixpoint m_no_overlap (open : bool) (ev : list (nat * nat)) : bool :=
  match ev with
  | [] => true
  | (k, _) :: tl =>
      match k with
      | 1 | 3 => negb open && m_no_overlap true tl
      | _ => open && m_no_overlap false tl
      end
  end.
Definition spec_meta_c01 (c : mcase) : bool := m_no_overlap false (mc_events c).

(* C05: Terminate exactly once (every run ends with the meta-process terminated), after the
   last handler callback, nothing afterwards *)
Fixpoint m_nothing_after_term (seen : bool) (ev : list (nat * nat)) : bool :=
  match ev with
  | [] => true
  | (k, _) :: tl =>
      match k with
      | 3 => negb seen && m_nothing_after_term true tl
      | 4 => m_nothing_after_term seen tl
      | _ => negb seen && m_nothing_after_term seen tl
      end
  end.
Definition spec_meta_c05 (c : mcase) : bool :=
  Nat.eqb (mc_terms c) 1 && m_nothing_after_term false (mc_events c).

(* C02 for a meta-process: what the behaviour handled are distinct messages, each one pushed by a sender
   of the scenario (nothing handled twice, nothing handled that was never sent) *)
Fixpoint nl_nodup (l : list nat) : bool :=
  match l with [] => true | x :: t => negb (existsb (Nat.eqb x) t) && nl_nodup t end.
Definition pushed_ids (c : mcase) : list nat :=
  flat_map (fun p => match p with C_push m => [mm_id m] | _ => [] end) (mc_threads c).
Definition spec_meta_c02 (c : mcase) : bool :=
  nl_nodup (mc_handled c) && forallb (fun i => existsb (Nat.eqb i) (pushed_ids c)) (mc_handled c).

Definition premise_meta (c : mcase) : bool := negb (Nat.eqb (length (mc_handled c)) 0).
