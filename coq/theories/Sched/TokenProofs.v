(* Consequences of the token invariant (Sched/TokenInv.v) for every reachable configuration. *)
From Ergo Require Import Common.Base Sched.Model Sched.CountFacts Sched.TokenInv.

Lemma step_inv c i c' : Inv c -> step c i = Some c' -> Inv c'.
Proof.
  intros HI Hs. destruct (step_inv_shape _ _ _ Hs) as (p & s' & p' & sp & Hn & Hp & Hsh & Hcnt & Hge).
  unfold Inv in *. rewrite Hsh.
  eapply step_pc_inv; [exact Hp | apply Hge | apply Hge | apply Hge | apply Hge | apply Hge | apply Hge | apply Hge
                       | exact HI | apply Hcnt | apply Hcnt | apply Hcnt | apply Hcnt | apply Hcnt | apply Hcnt | apply Hcnt].
Qed.

Lemma count_zero_init f others :
  (forall p, init_pc p = true -> f p = false) -> Forall (fun p => init_pc p = true) others -> count f others = 0.
Proof.
  intros Hf Hall. induction Hall as [|p l Hp _ IH]; [reflexivity|].
  rewrite count_cons, IH, (Hf p Hp). reflexivity.
Qed.

Lemma Inv_init named lim fb selfs initok others :
  Forall (fun p => init_pc p = true) others -> Inv (init_cfg named lim fb selfs initok others).
Proof.
  intros Hall. unfold Inv, init_cfg. cbn [sh thr].
  rewrite !count_cons.
  rewrite !(count_zero_init _ others) by (try exact Hall; intros p Hp; destruct p; try discriminate; reflexivity).
  unfold InvN. cbn. repeat split; intros; try discriminate; try lia. all: try (left; split; reflexivity).
Qed.

Theorem Inv_reachable sched named lim fb selfs initok others :
  Forall (fun p => init_pc p = true) others ->
  Inv (run sched (init_cfg named lim fb selfs initok others)).
Proof.
  intros Hall. apply run_invariant; [intros c i c' HI Hs; eapply step_inv; eauto|].
  apply Inv_init; exact Hall.
Qed.

(* ---- consequences ------------------------------------------------------------------ *)

Lemma count_le3 f g1 g2 g3 l :
  (forall p, b2n (f p) <= b2n (g1 p) + b2n (g2 p) + b2n (g3 p)) ->
  count f l <= count g1 l + count g2 l + count g3 l.
Proof.
  intros H. induction l as [|p l IH]; [reflexivity|]. rewrite !count_cons. specialize (H p). lia.
Qed.

Lemma open_is_owner p : b2n (open_cb p) <= b2n (spawn_pre p) + b2n (run_pre p) + b2n (post_late p).
Proof. destruct p; cbn; lia. Qed.

(* the owner count is at most one *)
Lemma Inv_owner_le1 c : Inv c ->
  count spawn_pre (thr c) + count run_pre (thr c) + count post_early (thr c) + count post_late (thr c) <= 1.
Proof.
  unfold Inv, InvN. intros (Hz & Hnf & Hf & Hk).
  destruct (fin (sh c)) eqn:Efin.
  - destruct (Hf eq_refl) as (H1 & H2 & _). lia.
  - destruct (Hnf eq_refl) as (H1 & _ & H3). destruct (st (sh c)); intuition lia.
Qed.

(* C01: in every reachable configuration at most one callback of the process is executing *)
Lemma Inv_no_overlap c : Inv c -> count open_cb (thr c) <= 1.
Proof.
  intros HI. pose proof (Inv_owner_le1 c HI).
  pose proof (count_le3 open_cb spawn_pre run_pre post_late (thr c) open_is_owner). lia.
Qed.

(* C05: the terminate callback begins at most once; once every goroutine has finished and the
   process was finalised it began exactly once *)
Lemma Inv_terms_le1 c : Inv c -> terms (sh c) <= 1.
Proof.
  unfold Inv, InvN. intros (Hz & Hnf & Hf & Hk).
  destruct (fin (sh c)) eqn:Efin; [destruct (Hf eq_refl) as (_ & _ & H & _); lia | destruct (Hnf eq_refl) as (_ & H & _); lia].
Qed.

Lemma count_quiescent f c : quiescent c = true -> f Done = false -> count f (thr c) = 0.
Proof.
  unfold quiescent. intros Hq Hf. induction (thr c) as [|p l IH]; [reflexivity|].
  cbn [forallb] in Hq. apply andb_true_iff in Hq as [Hp Hl]. destruct p; try discriminate.
  rewrite count_cons, Hf, (IH Hl). reflexivity.
Qed.

Lemma Inv_terms_exact c : Inv c -> quiescent c = true ->
  terms (sh c) = if fin (sh c) then 1 else 0.
Proof.
  unfold Inv, InvN. intros (Hz & Hnf & Hf & Hk) Hq.
  rewrite (count_quiescent post_early c Hq eq_refl) in *.
  destruct (fin (sh c)); [destruct (Hf eq_refl) as (_ & _ & H & _); lia | destruct (Hnf eq_refl) as (_ & H & _); lia].
Qed.

(* C05: once finalised, nobody owns the process for ordinary callbacks any more
   (only the finaliser remains, at most one) *)
Lemma count_holder_pre_split l : count holder_pre l = count spawn_pre l + count run_pre l.
Proof.
  induction l as [|p l IH]; [reflexivity|]. rewrite !count_cons, IH. pose proof (holder_pre_split p). lia.
Qed.

Lemma Inv_final_no_runner c : Inv c -> fin (sh c) = true ->
  count holder_pre (thr c) = 0 /\ (st (sh c) = Terminated \/ st (sh c) = Zombee).
Proof.
  unfold Inv, InvN. intros (Hz & Hnf & Hf & Hk) Hfin. destruct (Hf Hfin) as (H1 & _ & _ & H4).
  split; [|exact H4].
  rewrite count_holder_pre_split. lia.
Qed.

(* fin is never reset, and after it no message callback begins (handled stays as it is) *)
Lemma step_pc_fin_mono s p s' p' sp : step_pc s p = Some (s', p', sp) -> fin s = true -> fin s' = true.
Proof.
  intros Hs Hf. destruct p; cbn [step_pc] in Hs;
    repeat match type of Hs with
    | context [match ?l with [] => _ | _ :: _ => _ end] => destruct l
    | context [if ?b then _ else _] => destruct b
    | context [match q_pop ?q with _ => _ end] => destruct (q_pop q) as [[? ?]|]
    | context [match mbeh ?m with _ => _ end] => destruct (mbeh m)
    | context [match st ?x with _ => _ end] => destruct (st x)
    | context [match ?n with O => _ | S _ => _ end] => destruct n
    end; inversion Hs; subst; cbn; try exact Hf; reflexivity.
Qed.

Lemma step_fin_mono c i c' : step c i = Some c' -> fin (sh c) = true -> fin (sh c') = true.
Proof.
  intros Hs. destruct (step_inv_shape _ _ _ Hs) as (p & s' & p' & sp & _ & Hp & Hsh & _). rewrite Hsh.
  eapply step_pc_fin_mono; eauto.
Qed.

Lemma step_pc_handled_after_fin s p s' p' sp :
  step_pc s p = Some (s', p', sp) -> run_pre p = false -> handled s' = handled s.
Proof.
  intros Hs Hr. destruct p; cbn in Hr; try discriminate; cbn [step_pc] in Hs;
    repeat match type of Hs with
    | context [match ?l with [] => _ | _ :: _ => _ end] => destruct l
    | context [if ?b then _ else _] => destruct b
    | context [match mbeh ?m with _ => _ end] => destruct (mbeh m)
    | context [match st ?x with _ => _ end] => destruct (st x)
    | context [match ?n with O => _ | S _ => _ end] => destruct n
    end; inversion Hs; subst; reflexivity.
Qed.

Lemma step_handled_after_fin c i c' :
  Inv c -> fin (sh c) = true -> step c i = Some c' -> handled (sh c') = handled (sh c).
Proof.
  intros HI Hfin Hs. destruct (step_inv_shape _ _ _ Hs) as (p & s' & p' & sp & Hn & Hp & Hsh & _ & Hge).
  rewrite Hsh. eapply step_pc_handled_after_fin; [exact Hp|].
  unfold Inv, InvN in HI. destruct HI as (_ & _ & Hf & _). destruct (Hf Hfin) as (H1 & _).
  specialize (Hge run_pre). destruct (run_pre p); [cbn in Hge; lia | reflexivity].
Qed.
