(* C05 (reason part): the reason handed to unregisterProcess / ProcessTerminate reflects a cause
   that really occurred: 'kill' only if some Node.Kill executed, 'panic' only if a handled message
   panicked, any other reason only if a handled message returned exactly that error. *)
From Ergo Require Import Common.Base Sched.Model Sched.CountFacts Sched.TokenInv Sched.TokenProofs.

(* a goroutine inside waitResponse between the two CAS *)
Definition at_wait (p : pc) : bool := match p with R_w2 _ _ | R_w3 _ _ => true | _ => false end.
Definition run_nowait (p : pc) : bool := run_pre p && negb (at_wait p).

Lemma run_pre_split p : b2n (run_pre p) = b2n (at_wait p) + b2n (run_nowait p).
Proof. destruct p; reflexivity. Qed.
Lemma count_run_pre_split l : count run_pre l = count at_wait l + count run_nowait l.
Proof. induction l as [|p l IH]; [reflexivity|]. rewrite !count_cons, IH. pose proof (run_pre_split p). lia. Qed.

(* the state word is WaitResponse only while the owner sits inside waitResponse *)
Definition WaitInvN (s : shared) (w : nat) : Prop :=
  (st s = Wait -> w = 1) /\ (st s = Running -> w = 0) /\ (st s = Sleep -> w = 0) /\ (st s = Init -> w = 0).

Lemma step_pc_wait s p s' p' sp c r d e g l z w :
  step_pc s p = Some (s', p', sp) ->
  InvN s c r d e g l z -> b2n (run_pre p) <= r -> b2n (spawn_pre p) <= c -> b2n (at_wait p) <= w -> w <= r ->
  WaitInvN s w ->
  forall w', w' + b2n (at_wait p) = w + b2n (at_wait p') + spawn_w at_wait sp -> WaitInvN s' w'.
Proof.
  intros Hstep HI Hr Hc Hw Hwr (W1 & W2 & W3 & W4) w' Ew.
  unfold InvN in HI. destruct HI as (_ & Hnf & Hf & _).
  unfold WaitInvN.
  destruct p; cbn [step_pc] in Hstep;
    (destruct (fin s) eqn:Efin;
      [ specialize (Hf eq_refl); clear Hnf; destruct Hf as (Hf1 & Hf2 & Hf3 & Hf4)
      | specialize (Hnf eq_refl); clear Hf; destruct Hnf as (Hn1 & Hn2 & Hn3) ]);
    (destruct (st s) eqn:Est; cbn [pstate_eqb alive] in Hstep);
    try (exfalso; intuition (discriminate || congruence));
    repeat match type of Hstep with
    | context [match ?l with [] => _ | _ :: _ => _ end] => destruct l
    | context [if ?b then _ else _] => destruct b
    | context [match q_pop ?q with _ => _ end] => destruct (q_pop q) as [[? ?]|]
    | context [match mbeh ?m with _ => _ end] => destruct (mbeh m)
    | context [match ?n with O => _ | S _ => _ end] => destruct n
    end;
    inversion Hstep; subst; clear Hstep;
    unfold enter_cb, next_send in *;
    repeat match goal with
    | H : context [match ?l with [] => _ | _ :: _ => _ end] |- _ => destruct l
    | H : context [match mbeh ?m with _ => _ end] |- _ => destruct (mbeh m)
    end;
    cbn [at_wait run_pre holder_pre spawn_pre b2n spawn_w andb negb] in *;
    cbn [st upd_st upd_qs upd_intable upd_innames add_handled add_ok add_err add_fb add_term set_killed set_initfail finalise] in *;
    rewrite ?Est in *;
    repeat split; intros; try discriminate; try congruence;
    try (specialize (W1 eq_refl)); try (specialize (W2 eq_refl)); try (specialize (W3 eq_refl)); try (specialize (W4 eq_refl));
    try lia; try (intuition lia).
Qed.

Definition WaitInv (c : cfg) : Prop := WaitInvN (sh c) (count at_wait (thr c)).

Lemma at_wait_le_run l : count at_wait l <= count run_pre l.
Proof. rewrite count_run_pre_split. lia. Qed.

Lemma step_wait c i c' : Inv c -> WaitInv c -> step c i = Some c' -> WaitInv c'.
Proof.
  intros HI HW Hs. destruct (step_inv_shape _ _ _ Hs) as (p & s' & p' & sp & Hn & Hp & Hsh & Hcnt & Hge).
  unfold WaitInv, Inv in *. rewrite Hsh.
  eapply step_pc_wait; [exact Hp | exact HI | apply Hge | apply Hge | apply Hge | apply at_wait_le_run | exact HW | apply Hcnt].
Qed.

(* ---- causes ---------------------------------------------------------------------------- *)
Definition cause (s : shared) (r : Z) : Prop :=
  (r = rkill /\ killed s = true) \/
  (exists m, In (mid m) (handled s) /\ ((mbeh m = BErr r) \/ (mbeh m = BExit r) \/ (mbeh m = BPanic /\ r = rpanic))).

Definition pc_ok (s : shared) (p : pc) : Prop :=
  match p with
  | R_swapT r | R_unreg r | R_unreg2 r | R_term0 r | R_term r => cause s r
  | R_cb m _ | R_call m _ | R_w1 m _ | R_w2 m _ | R_w3 m _ => In (mid m) (handled s)
  | K_swapT => killed s = true
  | _ => True
  end.

Definition ReasonInv (c : cfg) : Prop :=
  Forall (pc_ok (sh c)) (thr c) /\
  (st (sh c) = Zombee -> killed (sh c) = true) /\
  (forall r, treason (sh c) = Some r -> cause (sh c) r).

(* shared-state changes only ever add handled ids and set the killed flag *)
Definition ext (s s' : shared) : Prop :=
  (killed s = true -> killed s' = true) /\ (forall x, In x (handled s) -> In x (handled s')).

Lemma cause_ext s s' r : ext s s' -> cause s r -> cause s' r.
Proof.
  intros (Hk & Hh) [[-> K]|(m & Hin & Hb)]; [left; split; [reflexivity|apply Hk; exact K]|].
  right. exists m. split; [apply Hh; exact Hin|exact Hb].
Qed.
Lemma pc_ok_ext s s' p : ext s s' -> pc_ok s p -> pc_ok s' p.
Proof.
  intros He H. destruct p; cbn [pc_ok] in *; auto; try (eapply cause_ext; eauto); try (apply He; exact H).
Qed.

Lemma step_pc_ext s p s' p' sp : step_pc s p = Some (s', p', sp) -> ext s s'.
Proof.
  intros Hs. destruct p; cbn [step_pc] in Hs;
    repeat match type of Hs with
    | context [match ?l with [] => _ | _ :: _ => _ end] => destruct l
    | context [if ?b then _ else _] => destruct b
    | context [match q_pop ?q with _ => _ end] => destruct (q_pop q) as [[? ?]|]
    | context [match mbeh ?m with _ => _ end] => destruct (mbeh m)
    | context [match st ?x with _ => _ end] => destruct (st x)
    | context [match ?n with O => _ | S _ => _ end] => destruct n
    end; inversion Hs; subst; unfold ext; cbn; split; auto; intros; apply in_or_app; auto.
Qed.

Lemma Forall_set_nth (P : pc -> Prop) l i p' : Forall P l -> P p' -> Forall P (set_nth l i p').
Proof.
  intros H Hp. revert i. induction H as [|x l Hx Hl IH]; intros [|i]; cbn [set_nth]; constructor; auto.
Qed.

Lemma step_reason c i c' : Inv c -> WaitInv c -> ReasonInv c -> step c i = Some c' -> ReasonInv c'.
Proof.
  intros HI HW (HF & HZ & HT) Hs.
  destruct (step_inv_shape _ _ _ Hs) as (p & s' & p' & sp & Hn & Hp & Hsh & Hcnt & Hge).
  pose proof (step_pc_ext _ _ _ _ _ Hp) as Hext.
  assert (Hpok : pc_ok (sh c) p) by (rewrite Forall_forall in HF; apply HF; eapply nth_error_In; eauto).
  (* facts about the stepping goroutine from the token / wait invariants *)
  assert (Hown : run_nowait p = true -> st (sh c) = Running \/ st (sh c) = Zombee).
  { intros Hrn. unfold Inv, InvN in HI. destruct HI as (_ & Hnf & Hf & _).
    pose proof (Hge run_nowait) as G1. rewrite Hrn in G1. cbn [b2n] in G1.
    pose proof (count_run_pre_split (thr c)) as Hsplit.
    destruct (fin (sh c)) eqn:Efin.
    - destruct (Hf eq_refl) as (H0 & _). lia.
    - destruct (Hnf eq_refl) as (_ & _ & H3). unfold WaitInv, WaitInvN in HW. destruct HW as (W1 & _).
      destruct (st (sh c)) eqn:Est.
      + destruct H3 as (_ & _ & H3 & _). lia.
      + lia.
      + left; reflexivity.
      + destruct H3 as [H3 _]. specialize (W1 eq_refl). lia.
      + contradiction.
      + right; reflexivity. }
  unfold step in Hs. rewrite Hn, Hp in Hs. inversion Hs; subst c'; clear Hs. cbn [sh thr] in *.
  assert (HF' : Forall (pc_ok s') (thr c)) by (eapply Forall_impl; [|exact HF]; intros q; apply pc_ok_ext; exact Hext).
  (* it suffices to establish pc_ok for the new pc and the spawned goroutine, and the two global facts *)
  assert (Goal3 : pc_ok s' p' /\ (forall np, sp = Some np -> pc_ok s' np) /\
                  (st s' = Zombee -> killed s' = true) /\ (forall r, treason s' = Some r -> cause s' r)).
  { clear HF' Hcnt Hge Hn.
    destruct p; cbn [step_pc] in Hp; cbn [pc_ok] in Hpok;
      repeat match type of Hp with
      | context [match ?l with [] => _ | _ :: _ => _ end] => destruct l
      | context [if ?b then _ else _] => let E := fresh "Eb" in destruct b eqn:E
      | context [match q_pop ?q with _ => _ end] => destruct (q_pop q) as [[? ?]|]
      | context [match mbeh ?m with _ => _ end] => let E := fresh "Em" in destruct (mbeh m) eqn:E
      | context [match st ?x with _ => _ end] => let E := fresh "Est" in destruct (st x) eqn:E
      | context [match ?n with O => _ | S _ => _ end] => destruct n
      end;
      inversion Hp; subst; clear Hp;
      unfold next_send, enter_cb in *;
      repeat match goal with
      | |- context [match ?l with [] => _ | _ :: _ => _ end] => destruct l
      | |- context [match mbeh ?m with _ => _ end] => let E := fresh "Em" in destruct (mbeh m) eqn:E
      end;
      cbn [pc_ok st killed treason handled upd_st upd_qs upd_intable upd_innames add_handled add_ok add_err add_fb add_term
           set_killed set_initfail finalise] in *;
      (split; [|split; [|split]]);
      try (intros np E; inversion E; subst; cbn [pc_ok]; exact I);
      try exact I; try assumption; try (intros; discriminate); try reflexivity;
      try (apply in_or_app; right; left; reflexivity);
      try (intros r0 E0; inversion E0; subst; assumption);
      try (intros; congruence).
    all: try (right; eexists; split; [first [eassumption | apply in_or_app; right; left; reflexivity]|]; first [left; eassumption | right; left; eassumption | right; right; split; [eassumption|reflexivity]]).
    all: try (left; split; [reflexivity|]; destruct (Hown eq_refl) as [H|H]; [rewrite H in *; discriminate|apply HZ; exact H]).
    all: try (intros r0 E0; inversion E0; subst; left; split; [reflexivity|assumption]).
    all: try (intros r0 Hr0; eapply cause_ext; [exact Hext|apply HT; exact Hr0]).
    all: try (intros _; apply HZ; reflexivity). }
  destruct Goal3 as (G1 & G2 & G3 & G4).
  split; [|split; assumption].
  destruct sp as [np|].
  - apply Forall_app. split; [apply Forall_set_nth; assumption|]. constructor; [apply G2; reflexivity|constructor].
  - apply Forall_set_nth; assumption.
Qed.

Definition FullInv (c : cfg) : Prop := Inv c /\ WaitInv c /\ ReasonInv c.

Theorem FullInv_reachable sched named lim fb selfs initok others :
  Forall (fun p => init_pc p = true) others ->
  FullInv (run sched (init_cfg named lim fb selfs initok others)).
Proof.
  intros Hall. apply (run_invariant FullInv).
  - intros c i c' (H1 & H2 & H3) Hs. split; [eapply step_inv; eauto|split; [eapply step_wait; eauto|eapply step_reason; eauto]].
  - split; [apply Inv_init; exact Hall|]. split.
    + unfold WaitInv, WaitInvN, init_cfg. cbn [sh thr init_shared st]. rewrite count_cons.
      rewrite (count_zero_init at_wait others) by (try exact Hall; intros p Hp; destruct p; try discriminate; reflexivity).
      cbn. repeat split; intros; try discriminate; reflexivity.
    + split; [|split; [cbn; discriminate|cbn; intros; discriminate]].
      unfold init_cfg. cbn [sh thr]. constructor; [exact I|].
      eapply Forall_impl; [|exact Hall]. intros p Hp. destruct p; try discriminate; exact I.
Qed.

(* C05: the reason given to the terminate callback and to links/monitors reflects a cause *)
Theorem reason_reflects_cause sched named lim fb selfs initok others r :
  Forall (fun p => init_pc p = true) others ->
  let c := run sched (init_cfg named lim fb selfs initok others) in
  treason (sh c) = Some r -> cause (sh c) r.
Proof. intros Hall c Hr. destruct (FullInv_reachable sched named lim fb selfs initok others Hall) as (_ & _ & (_ & _ & H)). apply H. exact Hr. Qed.
