(* Counting threads by pc class, and how one step changes the counts. *)
From Ergo Require Import Common.Base Sched.Model.

Definition b2n (b : bool) : nat := if b then 1 else 0.

Lemma count_nil f : count f [] = 0.
Proof. reflexivity. Qed.

Lemma count_cons f p l : count f (p :: l) = b2n (f p) + count f l.
Proof. unfold count. cbn [filter]. destruct (f p); reflexivity. Qed.

Lemma count_app f l1 l2 : count f (l1 ++ l2) = count f l1 + count f l2.
Proof. unfold count. rewrite filter_app, app_length. reflexivity. Qed.

Lemma count_set_nth f l i p p' :
  nth_error l i = Some p ->
  count f (set_nth l i p') + b2n (f p) = count f l + b2n (f p').
Proof.
  revert i; induction l as [|x l IH]; intros [|i] H; cbn [nth_error set_nth] in *; try discriminate.
  - inversion H; subst. rewrite !count_cons. lia.
  - rewrite !count_cons. specialize (IH i H). lia.
Qed.

Lemma count_ge f l i p : nth_error l i = Some p -> b2n (f p) <= count f l.
Proof.
  revert i; induction l as [|x l IH]; intros [|i] H; cbn [nth_error] in *; try discriminate.
  - inversion H; subst. rewrite count_cons. lia.
  - rewrite count_cons. specialize (IH i H). lia.
Qed.

Lemma length_set_nth l i p : length (set_nth l i p) = length l.
Proof. revert i; induction l as [|x l IH]; intros [|i]; cbn [set_nth length]; auto. Qed.

Definition spawn_w (f : pc -> bool) (sp : option pc) : nat :=
  match sp with Some np => b2n (f np) | None => 0 end.

(* the shape of every step, with the bookkeeping of all pc-class counters at once *)
Lemma step_inv_shape c i c' :
  step c i = Some c' ->
  exists p s' p' sp,
    nth_error (thr c) i = Some p /\ step_pc (sh c) p = Some (s', p', sp) /\ sh c' = s' /\
    (forall f, count f (thr c') + b2n (f p) = count f (thr c) + b2n (f p') + spawn_w f sp) /\
    (forall f, b2n (f p) <= count f (thr c)).
Proof.
  unfold step. destruct (nth_error (thr c) i) as [p|] eqn:Hn; [|discriminate].
  destruct (step_pc (sh c) p) as [[[s' p'] sp]|] eqn:Hs; [|discriminate].
  intros H; inversion H; subst; clear H. exists p, s', p', sp. cbn [sh thr].
  repeat split; auto.
  - intros f. destruct sp as [np|]; cbn [spawn_w].
    + rewrite count_app, count_cons, count_nil. pose proof (count_set_nth f _ _ _ p' Hn). lia.
    + pose proof (count_set_nth f _ _ _ p' Hn). lia.
  - intros f. eapply count_ge; eauto.
Qed.

(* run is a fold of steps: an invariant of step is an invariant of run *)
Lemma run_invariant (P : cfg -> Prop) :
  (forall c i c', P c -> step c i = Some c' -> P c') ->
  forall sched c, P c -> P (run sched c).
Proof.
  intros Hstep sched; induction sched as [|i tl IH]; intros c Hc; cbn [run]; [exact Hc|].
  destruct (step c i) as [c'|] eqn:Hs; [apply IH; eapply Hstep; eauto | apply IH; exact Hc].
Qed.

(* ---- weighted sums over the thread list (generalises count) ---------------------------- *)
Fixpoint wsum (w : pc -> nat) (l : list pc) : nat :=
  match l with [] => 0 | p :: tl => w p + wsum w tl end.

Lemma wsum_app w l1 l2 : wsum w (l1 ++ l2) = wsum w l1 + wsum w l2.
Proof. induction l1 as [|p l IH]; cbn [wsum app]; lia. Qed.

Lemma wsum_set_nth w l i p p' :
  nth_error l i = Some p -> wsum w (set_nth l i p') + w p = wsum w l + w p'.
Proof.
  revert i; induction l as [|x l IH]; intros [|i] H; cbn [nth_error set_nth wsum] in *; try discriminate.
  - inversion H; subst. lia.
  - specialize (IH i H). lia.
Qed.

Lemma wsum_ge w l i p : nth_error l i = Some p -> w p <= wsum w l.
Proof.
  revert i; induction l as [|x l IH]; intros [|i] H; cbn [nth_error wsum] in *; try discriminate.
  - inversion H; subst. lia.
  - specialize (IH i H). lia.
Qed.

Lemma count_wsum f l : count f l = wsum (fun p => b2n (f p)) l.
Proof. induction l as [|p l IH]; [reflexivity|]. rewrite count_cons. cbn [wsum]. lia. Qed.

Lemma wsum_le w1 w2 l : (forall p, w1 p <= w2 p) -> wsum w1 l <= wsum w2 l.
Proof. intros H. induction l as [|p l IH]; cbn [wsum]; [lia|]. specialize (H p). lia. Qed.

Definition spawn_ww (w : pc -> nat) (sp : option pc) : nat :=
  match sp with Some np => w np | None => 0 end.

Lemma step_shape_w c i c' :
  step c i = Some c' ->
  exists p s' p' sp,
    nth_error (thr c) i = Some p /\ step_pc (sh c) p = Some (s', p', sp) /\ sh c' = s' /\
    (forall w, wsum w (thr c') + w p = wsum w (thr c) + w p' + spawn_ww w sp) /\
    (forall w, w p <= wsum w (thr c)).
Proof.
  unfold step. destruct (nth_error (thr c) i) as [p|] eqn:Hn; [|discriminate].
  destruct (step_pc (sh c) p) as [[[s' p'] sp]|] eqn:Hs; [|discriminate].
  intros H; inversion H; subst; clear H. exists p, s', p', sp. cbn [sh thr].
  repeat split; auto.
  - intros w. destruct sp as [np|]; cbn [spawn_ww].
    + rewrite wsum_app. cbn [wsum]. pose proof (wsum_set_nth w _ _ _ p' Hn). lia.
    + pose proof (wsum_set_nth w _ _ _ p' Hn). lia.
  - intros w. eapply wsum_ge; eauto.
Qed.
