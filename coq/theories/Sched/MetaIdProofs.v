(* Message accounting for a meta-process (node/meta.go): every message pushed to the alias is, at any
   moment and under any schedule, in exactly one place - still with its sender (before the push), in
   the system or main queue, or handled. Hence nothing is handled twice and nothing is handled that
   was not sent (C02 for meta-processes; the monitor spec_meta_c02 of MetaCases.v is this statement
   evaluated on the implementation's observations). Exit messages pushed by the parent's termination
   are consumed without a behaviour callback and are left out on both sides. *)
From Ergo Require Import Common.Base Sched.MetaModel Sched.MetaProofs.

Definition m_real (m : mmsg) : bool := match mm_beh m with MExit _ => false | _ => true end.
Definition is_x (x : nat) (m : mmsg) : bool := Nat.eqb (mm_id m) x && m_real m.
Definition pushing (x : nat) (p : mpc) : bool := match p with C_push m => is_x x m | _ => false end.
Definition qocc (x : nat) (q : list mmsg) : nat := length (filter (is_x x) q).
Fixpoint hocc (x : nat) (l : list nat) : nat :=
  match l with [] => 0 | y :: t => mb2n (Nat.eqb y x) + hocc x t end.

Lemma qocc_cons x m q : qocc x (m :: q) = mb2n (is_x x m) + qocc x q.
Proof. unfold qocc. cbn [filter]. destruct (is_x x m); reflexivity. Qed.
Lemma qocc_app x a b : qocc x (a ++ b) = qocc x a + qocc x b.
Proof. unfold qocc. rewrite filter_app, app_length. reflexivity. Qed.
Lemma qocc_one x m : qocc x [m] = mb2n (is_x x m).
Proof. rewrite qocc_cons. unfold qocc. cbn. lia. Qed.
Lemma hocc_app x a b : hocc x (a ++ b) = hocc x a + hocc x b.
Proof. induction a as [|y a IH]; cbn [app hocc]; [reflexivity|]. rewrite IH. lia. Qed.

Definition acct (x : nat) (c : mcfg) : nat :=
  mcount (pushing x) (mthr c) + qocc x (msys (msh c)) + qocc x (mmain (msh c)) + hocc x (mhandled (msh c)).

(* the part of the shared state the accounting looks at *)
Definition sacct (x : nat) (s : mshared) : nat := qocc x (msys s) + qocc x (mmain s) + hocc x (mhandled s).

Lemma note_handled_acct x s m :
  hocc x (mhandled (m_note_handled s m)) = hocc x (mhandled s) + mb2n (is_x x m)
  /\ msys (m_note_handled s m) = msys s /\ mmain (m_note_handled s m) = mmain s.
Proof.
  unfold m_note_handled, is_x, m_real. destruct (mm_beh m); cbn [mhandled msys mmain m_add_handled];
    rewrite ?hocc_app; cbn [hocc]; repeat split; try reflexivity;
    destruct (Nat.eqb (mm_id m) x); cbn; lia.
Qed.

(* one step of one goroutine: what leaves the goroutine's "still to push" arrives in the shared state *)
Lemma mstep_pc_acct fx x s p s' p' sp :
  mstep_pc fx s p = Some (s', p', sp) ->
  sacct x s' + mb2n (pushing x p') + mspawn_w (pushing x) sp = sacct x s + mb2n (pushing x p).
Proof.
  unfold sacct. intros H.
  destruct p; cbn [mstep_pc] in H;
    repeat match type of H with
           | context [match ?e with _ => _ end] => destruct e eqn:?
           | context [if ?b then _ else _] => destruct b eqn:?
           end;
    inversion H; subst; clear H;
    cbn [pushing mspawn_w mb2n msys mmain mhandled set_mst set_queues set_exit_reason m_finalise m_enter_term m_add_handled];
    try lia;
    (* pushes *)
    try (rewrite qocc_app, qocc_one; lia);
    (* pops *)
    try (match goal with
         | |- context [m_note_handled ?s0 ?m0] =>
             destruct (note_handled_acct x s0 m0) as (Hh & Hs & Hm); rewrite Hh, Hs, Hm;
             cbn [msys mmain mhandled set_queues];
             repeat match goal with Hq : _ = ?m1 :: ?tl |- _ => rewrite Hq; clear Hq end;
             rewrite ?qocc_cons;
             unfold m_cb_pc; destruct (mm_beh m0); cbn [pushing mb2n]; lia
         end).
  all: repeat match goal with Hq : msys _ = _ |- _ => rewrite Hq; clear Hq | Hq : mmain _ = _ |- _ => rewrite Hq; clear Hq end; lia.
Qed.

Lemma mstep_acct fx x c i c' : mstep fx c i = Some c' -> acct x c' = acct x c.
Proof.
  intros Hs. destruct (mstep_shape _ _ _ _ Hs) as (p & s' & p' & sp & Hn & Hp & Hsh & Hcnt & Hge).
  specialize (Hcnt (pushing x)). pose proof (mstep_pc_acct _ x _ _ _ _ _ Hp) as Ha.
  unfold acct, sacct in *. rewrite Hsh. lia.
Qed.

Theorem meta_accounting fx sched n r others x :
  acct x (mrun fx sched (m_init_cfg n r others)) = mcount (pushing x) others.
Proof.
  assert (H : forall sched c k, acct x c = k -> acct x (mrun fx sched c) = k).
  { intros s0; induction s0 as [|i tl IH]; intros c k Hk; cbn [mrun]; [exact Hk|].
    destruct (mstep fx c i) as [c'|] eqn:Hs; [apply IH; rewrite (mstep_acct _ _ _ _ _ Hs); exact Hk | apply IH; exact Hk]. }
  apply H. unfold acct, m_init_cfg, m_init_shared. cbn [msh mthr msys mmain mhandled qocc filter length hocc].
  rewrite mcount_cons. cbn [pushing mb2n]. lia.
Qed.

(* nothing is handled twice: an id pushed by at most one sender is handled at most once *)
Theorem meta_handled_at_most_once fx sched n r others x :
  mcount (pushing x) others <= 1 ->
  hocc x (mhandled (msh (mrun fx sched (m_init_cfg n r others)))) <= 1.
Proof. intros H. pose proof (meta_accounting fx sched n r others x) as A. unfold acct in A. lia. Qed.

(* nothing is handled that was not sent *)
Theorem meta_handled_was_pushed fx sched n r others x :
  1 <= hocc x (mhandled (msh (mrun fx sched (m_init_cfg n r others)))) ->
  1 <= mcount (pushing x) others.
Proof. intros H. pose proof (meta_accounting fx sched n r others x) as A. unfold acct in A. lia. Qed.

(* a message that is neither with its sender nor in a queue any more has been handled (at quiescence of
   a live meta-process: exactly once) *)
Theorem meta_handled_when_gone fx sched n r others x :
  let c := mrun fx sched (m_init_cfg n r others) in
  mcount (pushing x) (mthr c) = 0 -> qocc x (msys (msh c)) = 0 -> qocc x (mmain (msh c)) = 0 ->
  hocc x (mhandled (msh c)) = mcount (pushing x) others.
Proof. intros c H1 H2 H3. pose proof (meta_accounting fx sched n r others x) as A. unfold acct in A. fold c in A. lia. Qed.

Example meta_accounting_example :
  let others := [C_push (mk_mmsg 1 false (MOk 0)); C_push (mk_mmsg 2 false (MOk 1))] in
  let c := mrun true [1;1;1;0;0;0;3;3;4;4;4;4;4;4;2;2;2;4;4;4;4;4;4;4;4;4] (m_init_cfg 9 3 others) in
  (hocc 1 (mhandled (msh c)), hocc 2 (mhandled (msh c)), mcount (pushing 1) others) = (1, 1, 1).
Proof. vm_compute. reflexivity. Qed.
