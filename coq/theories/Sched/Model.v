(* Small-step model of one ergo process: state word, mailbox, process table entry, and the
   goroutines that act on them.  Every model step is ONE shared-memory access of the Go code
   (sync/atomic operations are sequentially consistent); the lib.VerifPoint label that precedes
   the access in /repo is quoted at each pc.  Definitions only - proofs are in Sched/*Proofs.v.

   Transcribed from:
     node/process.go  run() 1643-1731, waitResponse 1765-1807
     node/node.go     Kill 952-1000 (with the fix "case Zombee: return nil"), spawn, unregisterProcess
     node/core.go     RouteSendPID / RouteSendProcessID (load, alive, push, run)
     lib/mpsc.go      Push = head swap, then link store; Pop/Item see a node only once linked
     act/actor.go     ProcessRun: state load, pops in order Urgent, System, Main, Log *)
From Ergo Require Import Common.Base.

Inductive pstate := Init | Sleep | Running | Wait | Terminated | Zombee.

Definition pstate_eqb (a b : pstate) : bool :=
  match a, b with
  | Init, Init | Sleep, Sleep | Running, Running | Wait, Wait
  | Terminated, Terminated | Zombee, Zombee => true
  | _, _ => false
  end.

(* gen.ProcessState* bit values; isAlive = Init|Sleep|Running|WaitResponse *)
Definition alive (s : pstate) : bool :=
  match s with Init | Sleep | Running | Wait => true | _ => false end.

(* what the callback handling a message does (chosen by the environment) *)
Inductive beh :=
| BOk (yields : nat)            (* returns nil after some internal steps *)
| BErr (reason : Z)             (* returns an error: the process terminates with it *)
| BPanic                        (* panics: recovered, reason = panic *)
| BCall (yields : nat)          (* makes a synchronous Call (waitResponse), then returns nil *)
| BExit (reason : Z).           (* an exit signal from the parent (sendExitMessage: no alive check; the actor loop
                                   returns the reason without calling a behaviour callback) *)
Definition is_exit_beh (b : beh) : bool := match b with BExit _ => true | _ => false end.

Definition rkill : Z := 1.
Definition rpanic : Z := 2.
(* other reasons: any Z >= 3 (3 = normal, 4 = shutdown, 5.. = custom) *)

Record msg := mk_msg { mid : nat; mq : nat; mbeh : beh }.
(* mq: 0 Urgent, 1 System, 2 Main, 3 Log (= the order ProcessRun pops them) *)

(* one MPSC queue: entries in head-swap order; the flag says whether the link store
   (old_head.next = item) has happened.  The consumer sees the maximal linked prefix. *)
Definition queue := list (msg * bool).
Record queues := mk_qs { q0 : queue; q1 : queue; q2 : queue; q3 : queue }.
Definition qget (qs : queues) (k : nat) : queue :=
  match k with 0 => q0 qs | 1 => q1 qs | 2 => q2 qs | _ => q3 qs end.
Definition qset (qs : queues) (k : nat) (q : queue) : queues :=
  match k with
  | 0 => mk_qs q (q1 qs) (q2 qs) (q3 qs)
  | 1 => mk_qs (q0 qs) q (q2 qs) (q3 qs)
  | 2 => mk_qs (q0 qs) (q1 qs) q (q3 qs)
  | _ => mk_qs (q0 qs) (q1 qs) (q2 qs) q
  end.
Definition qs_empty := mk_qs [] [] [] [].

Fixpoint mark_linked (i : nat) (q : queue) : queue :=
  match q with
  | [] => []
  | (m, l) :: tl => if Nat.eqb (mid m) i then (m, true) :: tl else (m, l) :: mark_linked i tl
  end.
Definition q_pop (q : queue) : option (msg * queue) :=
  match q with (m, true) :: tl => Some (m, tl) | _ => None end.
Definition q_visible (q : queue) : bool :=
  match q with (_, true) :: _ => true | _ => false end.

(* order of the four Item() re-checks after the CAS Running->Sleep: Main, System, Urgent, Log *)
Definition item_order (k : nat) : nat :=
  match k with 0 => 2 | 1 => 1 | 2 => 0 | _ => 3 end.

Inductive pc :=
(* a sender goroutine: RouteSendPID (byname=false) / RouteSendProcessID (byname=true) per message *)
| S_load (byname : bool) (todo : list msg)          (* "send.load": table load *)
| S_alive (byname : bool) (m : msg) (todo : list msg) (* "send.alive": state load *)
| S_push (byname : bool) (m : msg) (todo : list msg)  (* "send.push": head swap *)
| S_lim (byname : bool) (m : msg) (todo : list msg)   (* "mpsc.limit": bounded queue: length check, then head swap *)
| S_link (byname : bool) (m : msg) (todo : list msg)  (* "mpsc.link": link store *)
| S_cas (byname : bool) (todo : list msg)           (* "run.cas": CAS Sleep->Running *)
| S_spawn (byname : bool) (todo : list msg)         (* "run.spawn": go func *)
(* the runner goroutine started by run() *)
| R_start                                           (* "run.start": first statement of the goroutine *)
| R_next                                            (* "run.next": label next, calls ProcessRun *)
| R_state                                           (* "actor.state": state load *)
| R_pop (k : nat)                                   (* "actor.pop": Pop of queue k *)
| R_cb (m : msg) (n : nat)                          (* inside the callback for m, n steps left *)
| R_call (m : msg) (n : nat)                        (* "call.state": CallPID's isStateRW check *)
| R_w1 (m : msg) (n : nat)                          (* "wait.cas1": CAS Running->WaitResponse *)
| R_w2 (m : msg) (n : nat)                          (* "wait.select" *)
| R_w3 (m : msg) (n : nat)                          (* "wait.cas2": CAS WaitResponse->Running *)
| R_sleep                                           (* "run.cas.sleep": CAS Running->Sleep *)
| R_item (k : nat)                                  (* "run.item": k-th Item() re-check *)
| R_wake                                            (* "run.cas.wake": CAS Sleep->Running *)
| R_swapT (reason : Z)                              (* "run.swapT.*": Swap(Terminated) *)
| R_unreg (reason : Z)                              (* "run.unreg": about to call unregisterProcess *)
| R_unreg2 (reason : Z)                             (* "unreg.delete": processes.Delete ... names.Delete *)
| R_term0 (reason : Z)                              (* "run.term": calls ProcessTerminate *)
| R_term (reason : Z)                               (* inside ProcessTerminate *)
| R_exit                                            (* "run.exit": deferred, goroutine ends *)
(* node.Kill *)
| K_load                                            (* "kill.load" *)
| K_swapZ                                           (* "kill.swapZ": Swap(Zombee) *)
| K_storeT                                          (* "kill.storeT": Store(Terminated) *)
| K_swapT                                           (* "kill.swapT": Swap(Terminated) *)
| K_unreg                                           (* "kill.unreg" *)
| K_unreg2                                          (* "unreg.delete" *)
| K_spawn                                           (* "kill.spawn": go ProcessTerminate *)
| T_start                                           (* "kill.term.start": calls ProcessTerminate *)
| T_term                                            (* inside ProcessTerminate(kill) *)
| T_exit                                            (* "kill.term.exit" *)
(* node.spawn: the process is created in state Init, its name (if any) already registered *)
| P_init (sends : list msg) (ok : bool)             (* "spawn.init": calls ProcessInit *)
| P_cb (sends : list msg) (ok : bool)               (* inside ProcessInit; next self-send or return *)
| P_lim (m : msg) (sends : list msg) (ok : bool)    (* "mpsc.limit" of a self-send *)
| P_link (m : msg) (sends : list msg) (ok : bool)   (* "mpsc.link" of a self-send *)
| P_selfcas (sends : list msg) (ok : bool)          (* "run.cas" of a self-send (fails: state Init) *)
| P_selfspawn (sends : list msg) (ok : bool)        (* "run.spawn" (unreachable, see proofs) *)
| P_sleep                                           (* "spawn.sleep": state = Sleep *)
| P_store                                           (* "spawn.store": processes.Store *)
| P_cas                                             (* "run.cas" *)
| P_spawn                                           (* "run.spawn" *)
| Done.

Record shared := mk_sh {
  st : pstate;
  intable : bool;          (* n.processes has the pid *)
  innames : bool;          (* n.names has the registered name *)
  qs : queues;
  limit : nat;             (* ProcessOptions.MailboxSize; 0 = unbounded queues *)
  fbon : bool;             (* a fallback process (other than itself) is configured *)
  fbs : list nat;          (* ghost: ids re-routed to the fallback process, wrapped in MessageFallback *)
  (* ghost / observation state *)
  fin : bool;              (* some Swap(Terminated) has returned a value <> Terminated *)
  initfail : bool;         (* ProcessInit returned an error: the process never existed *)
  killed : bool;           (* some Kill executed its Swap(Zombee) *)
  handled : list nat;      (* message ids in the order their callback began *)
  oks : list nat;          (* ids whose push completed (send returns nil) *)
  errs : list nat;         (* ids whose send returned an error *)
  terms : nat;             (* number of times a terminate callback began *)
  treason : option Z       (* reason given to unregisterProcess / ProcessTerminate *)
}.

Record cfg := mk_cfg { sh : shared; thr : list pc }.

Definition upd_st (s : shared) (x : pstate) : shared :=
  mk_sh x (intable s) (innames s) (qs s) (limit s) (fbon s) (fbs s) (fin s) (initfail s) (killed s) (handled s) (oks s) (errs s) (terms s) (treason s).
Definition upd_qs (s : shared) (x : queues) : shared :=
  mk_sh (st s) (intable s) (innames s) x (limit s) (fbon s) (fbs s) (fin s) (initfail s) (killed s) (handled s) (oks s) (errs s) (terms s) (treason s).
Definition upd_intable (s : shared) (x : bool) : shared :=
  mk_sh (st s) x (innames s) (qs s) (limit s) (fbon s) (fbs s) (fin s) (initfail s) (killed s) (handled s) (oks s) (errs s) (terms s) (treason s).
Definition upd_innames (s : shared) (x : bool) : shared :=
  mk_sh (st s) (intable s) x (qs s) (limit s) (fbon s) (fbs s) (fin s) (initfail s) (killed s) (handled s) (oks s) (errs s) (terms s) (treason s).
Definition add_handled (s : shared) (i : nat) : shared :=
  mk_sh (st s) (intable s) (innames s) (qs s) (limit s) (fbon s) (fbs s) (fin s) (initfail s) (killed s) (handled s ++ [i]) (oks s) (errs s) (terms s) (treason s).
Definition add_ok (s : shared) (i : nat) : shared :=
  mk_sh (st s) (intable s) (innames s) (qs s) (limit s) (fbon s) (fbs s) (fin s) (initfail s) (killed s) (handled s) (oks s ++ [i]) (errs s) (terms s) (treason s).
Definition add_err (s : shared) (i : nat) : shared :=
  mk_sh (st s) (intable s) (innames s) (qs s) (limit s) (fbon s) (fbs s) (fin s) (initfail s) (killed s) (handled s) (oks s) (errs s ++ [i]) (terms s) (treason s).
Definition add_fb (s : shared) (i : nat) : shared :=
  mk_sh (st s) (intable s) (innames s) (qs s) (limit s) (fbon s) (fbs s ++ [i]) (fin s) (initfail s) (killed s) (handled s) (oks s) (errs s) (terms s) (treason s).
Definition add_term (s : shared) : shared :=
  mk_sh (st s) (intable s) (innames s) (qs s) (limit s) (fbon s) (fbs s) (fin s) (initfail s) (killed s) (handled s) (oks s) (errs s) (S (terms s)) (treason s).
Definition set_killed (s : shared) : shared :=
  mk_sh (st s) (intable s) (innames s) (qs s) (limit s) (fbon s) (fbs s) (fin s) (initfail s) true (handled s) (oks s) (errs s) (terms s) (treason s).
Definition set_initfail (s : shared) : shared :=
  mk_sh (st s) (intable s) false (qs s) (limit s) (fbon s) (fbs s) (fin s) true (killed s) (handled s) (oks s) (errs s) (terms s) (treason s).
(* Swap(Terminated) that found a value <> Terminated: this goroutine is the finaliser *)
Definition finalise (s : shared) (r : Z) : shared :=
  mk_sh Terminated (intable s) (innames s) (qs s) (limit s) (fbon s) (fbs s) true (initfail s) (killed s) (handled s) (oks s) (errs s) (terms s) (Some r).

Definition next_send (byname : bool) (todo : list msg) : pc :=
  match todo with [] => Done | _ => S_load byname todo end.

Definition enter_cb (m : msg) : pc :=
  match mbeh m with
  | BOk n => R_cb m n
  | BErr _ => R_cb m 0
  | BPanic => R_cb m 0
  | BCall n => R_call m n
  | BExit r => R_swapT r
  end.

(* one step of one thread: new shared state, new pc, goroutine spawned by the step *)
Definition step_pc (s : shared) (p : pc) : option (shared * pc * option pc) :=
  match p with
  | S_load b [] => Some (s, Done, None)
  | S_load b (m :: todo) =>
      if (if b then innames s else intable s) then Some (s, S_alive b m todo, None)
      else Some (add_err s (mid m), next_send b todo, None)
  | S_alive b m todo =>
      (* RouteSend*: isAlive; sendExitMessage ("exit.alive") does not look at the state *)
      if alive (st s) || (match mbeh m with BExit _ => true | _ => false end) then Some (s, S_push b m todo, None)
      else Some (add_err s (mid m), next_send b todo, None)
  | S_push b m todo =>
      match limit s with
      | O => Some (upd_qs s (qset (qs s) (mq m) (qget (qs s) (mq m) ++ [(m, false)])), S_link b m todo, None)
      | S _ => Some (s, S_lim b m todo, None)
      end
  | S_lim b m todo =>
      (* queueLimitMPSC.Push: if q.Len()+1 > q.limit -> false; RouteSend*: fallback re-route or error.
         An exit signal (sendExitMessage) refused by the full Urgent queue is an error: it has no fallback path *)
      if Nat.leb (limit s) (length (qget (qs s) (mq m)))
      then Some ((if fbon s && negb (is_exit_beh (mbeh m)) then add_fb s (mid m) else add_err s (mid m)), next_send b todo, None)
      else Some (upd_qs s (qset (qs s) (mq m) (qget (qs s) (mq m) ++ [(m, false)])), S_link b m todo, None)
  | S_link b m todo =>
      Some (add_ok (upd_qs s (qset (qs s) (mq m) (mark_linked (mid m) (qget (qs s) (mq m))))) (mid m),
            S_cas b todo, None)
  | S_cas b todo =>
      if pstate_eqb (st s) Sleep then Some (upd_st s Running, S_spawn b todo, None)
      else Some (s, next_send b todo, None)
  | S_spawn b todo => Some (s, next_send b todo, Some R_start)

  | R_start => Some (s, R_next, None)
  | R_next => Some (s, R_state, None)
  | R_state => if pstate_eqb (st s) Running then Some (s, R_pop 0, None) else Some (s, R_swapT rkill, None)
  | R_pop k =>
      match q_pop (qget (qs s) k) with
      | Some (m, tl) => Some (add_handled (upd_qs s (qset (qs s) k tl)) (mid m), enter_cb m, None)
      | None => if Nat.ltb k 3 then Some (s, R_pop (S k), None) else Some (s, R_sleep, None)
      end
  | R_cb m (S n) => Some (s, R_cb m n, None)
  | R_cb m O =>
      match mbeh m with
      | BOk _ | BCall _ => Some (s, R_state, None)
      | BErr e | BExit e => Some (s, R_swapT e, None)
      | BPanic => Some (s, R_swapT rpanic, None)
      end
  | R_call m n =>
      (* isStateRW: Running or WaitResponse, else ErrNotAllowed and the callback goes on *)
      match st s with Running | Wait => Some (s, R_w1 m n, None) | _ => Some (s, R_cb m n, None) end
  | R_w1 m n => if pstate_eqb (st s) Running then Some (upd_st s Wait, R_w2 m n, None) else Some (s, R_cb m n, None)
  | R_w2 m n => Some (s, R_w3 m n, None)
  | R_w3 m n => if pstate_eqb (st s) Wait then Some (upd_st s Running, R_cb m n, None) else Some (s, R_cb m n, None)
  | R_sleep => if pstate_eqb (st s) Running then Some (upd_st s Sleep, R_item 0, None) else Some (s, R_swapT rkill, None)
  | R_item k =>
      if q_visible (qget (qs s) (item_order k)) then Some (s, R_wake, None)
      else if Nat.ltb k 3 then Some (s, R_item (S k), None) else Some (s, R_exit, None)
  | R_wake => if pstate_eqb (st s) Sleep then Some (upd_st s Running, R_next, None) else Some (s, R_exit, None)
  | R_swapT r =>
      if pstate_eqb (st s) Terminated then Some (s, R_exit, None) else Some (finalise s r, R_unreg r, None)
  | R_unreg r => Some (s, R_unreg2 r, None)
  | R_unreg2 r => Some (upd_innames (upd_intable s false) false, R_term0 r, None)
  | R_term0 r => Some (add_term s, R_term r, None)
  | R_term r => Some (s, R_exit, None)
  | R_exit => Some (s, Done, None)

  | K_load => if intable s then Some (s, K_swapZ, None) else Some (s, Done, None)
  | K_swapZ =>
      let s' := set_killed (upd_st s Zombee) in
      match st s with
      | Running | Wait => Some (s', Done, None)
      | Zombee => Some (s', Done, None)
      | Terminated => Some (s', K_storeT, None)
      | Init | Sleep => Some (s', K_swapT, None)
      end
  | K_storeT => Some (upd_st s Terminated, Done, None)
  | K_swapT =>
      if pstate_eqb (st s) Terminated then Some (s, Done, None) else Some (finalise s rkill, K_unreg, None)
  | K_unreg => Some (s, K_unreg2, None)
  | K_unreg2 => Some (upd_innames (upd_intable s false) false, K_spawn, None)
  | K_spawn => Some (s, Done, Some T_start)
  | T_start => Some (add_term s, T_term, None)
  | T_term => Some (s, T_exit, None)
  | T_exit => Some (s, Done, None)

  | P_init sends ok => Some (s, P_cb sends ok, None)
  | P_cb (m :: sends) ok =>
      (* self-send during init (process.SendPID to == p.pid): push on its own mailbox, then run() *)
      match limit s with
      | O => Some (upd_qs s (qset (qs s) (mq m) (qget (qs s) (mq m) ++ [(m, false)])), P_link m sends ok, None)
      | S _ => Some (s, P_lim m sends ok, None)
      end
  | P_lim m sends ok =>
      (* a full mailbox refuses the self-send (ErrProcessMailboxFull, no fallback on this path) *)
      if Nat.leb (limit s) (length (qget (qs s) (mq m)))
      then Some (add_err s (mid m), P_cb sends ok, None)
      else Some (upd_qs s (qset (qs s) (mq m) (qget (qs s) (mq m) ++ [(m, false)])), P_link m sends ok, None)
  | P_cb [] true => Some (s, P_sleep, None)
  | P_cb [] false => Some (set_initfail s, Done, None)
  | P_link m sends ok =>
      Some (add_ok (upd_qs s (qset (qs s) (mq m) (mark_linked (mid m) (qget (qs s) (mq m))))) (mid m),
            P_selfcas sends ok, None)
  | P_selfcas sends ok =>
      if pstate_eqb (st s) Sleep then Some (upd_st s Running, P_selfspawn sends ok, None)
      else Some (s, P_cb sends ok, None)
  | P_selfspawn sends ok => Some (s, P_cb sends ok, Some R_start)
  | P_sleep => Some (upd_st s Sleep, P_store, None)
  | P_store => Some (upd_intable s true, P_cas, None)
  | P_cas => if pstate_eqb (st s) Sleep then Some (upd_st s Running, P_spawn, None) else Some (s, Done, None)
  | P_spawn => Some (s, Done, Some R_start)
  | Done => None
  end.

Fixpoint set_nth (l : list pc) (i : nat) (p : pc) : list pc :=
  match l, i with
  | [], _ => []
  | _ :: tl, O => p :: tl
  | x :: tl, S j => x :: set_nth tl j p
  end.

Definition step (c : cfg) (i : nat) : option cfg :=
  match nth_error (thr c) i with
  | None => None
  | Some p =>
      match step_pc (sh c) p with
      | None => None
      | Some (s', p', sp) =>
          let t' := set_nth (thr c) i p' in
          Some (mk_cfg s' (match sp with Some np => t' ++ [np] | None => t' end))
      end
  end.

(* a schedule is any list of thread indices; choices that are not enabled are skipped *)
Fixpoint run (sched : list nat) (c : cfg) : cfg :=
  match sched with
  | [] => c
  | i :: tl => match step c i with Some c' => run tl c' | None => run tl c end
  end.

(* ---- classification of pcs --------------------------------------------------------- *)

(* a callback of the process is executing *)
Definition open_cb (p : pc) : bool :=
  match p with
  | R_cb _ _ | R_call _ _ | R_w1 _ _ | R_w2 _ _ | R_w3 _ _ | R_term _ | T_term
  | P_cb _ _ | P_lim _ _ _ | P_link _ _ _ | P_selfcas _ _ | P_selfspawn _ _ => true
  | _ => false
  end.

(* owns the process before its own finalising swap *)
Definition holder_pre (p : pc) : bool :=
  match p with
  | S_spawn _ _ | P_spawn | R_start | R_next | R_state | R_pop _ | R_cb _ _ | R_call _ _ | R_w1 _ _ | R_w2 _ _ | R_w3 _ _
  | R_sleep | R_swapT _ | K_swapT
  | P_init _ _ | P_cb _ _ | P_lim _ _ _ | P_link _ _ _ | P_selfcas _ _ | P_selfspawn _ _ | P_sleep => true
  | _ => false
  end.
(* owns the process after the finalising swap *)
Definition holder_post (p : pc) : bool :=
  match p with
  | R_unreg _ | R_unreg2 _ | R_term0 _ | R_term _ | K_unreg | K_unreg2 | K_spawn | T_start | T_term => true
  | _ => false
  end.

Definition count (f : pc -> bool) (l : list pc) : nat := length (filter f l).

Definition is_done (p : pc) : bool := match p with Done => true | _ => false end.
Definition quiescent (c : cfg) : bool := forallb is_done (thr c).

(* initial configuration: a process being spawned (possibly registered under a name, possibly
   sending to itself during init), any number of sender and killer goroutines *)
Definition init_shared (named : bool) (lim : nat) (fb : bool) : shared :=
  mk_sh Init false named qs_empty lim fb [] false false false [] [] [] 0 None.

Definition init_pc (p : pc) : bool :=
  match p with S_load _ _ | K_load => true | _ => false end.

Definition init_cfg (named : bool) (lim : nat) (fb : bool) (selfsends : list msg) (initok : bool) (others : list pc) : cfg :=
  mk_cfg (init_shared named lim fb) (P_init selfsends initok :: others).

(* ---- observation used by the correspondence check ---------------------------------- *)
Definition st_code (s : pstate) : Z :=
  match s with Init => 1 | Sleep => 2 | Running => 4 | Wait => 8 | Terminated => 16 | Zombee => 32 end%Z.
