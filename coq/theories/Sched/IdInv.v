(* Accounting of message identities: every message is, at any time, in exactly one place
   (still carried by its sender, in a mailbox queue, handled, or refused); what was accepted is
   exactly what was handled plus what is linked in a queue; every unlinked queue entry has its
   producer parked between head swap and link store.  Serves C02. *)
From Ergo Require Import Common.Base Sched.Model Sched.CountFacts Sched.QueueFacts.

Definition carried (p : pc) : list msg :=
  match p with
  | S_load _ todo => todo
  | S_alive _ m todo => m :: todo
  | S_push _ m todo => m :: todo
  | S_lim _ m todo => m :: todo
  | S_link _ _ todo => todo
  | S_cas _ todo => todo
  | S_spawn _ todo => todo
  | P_init sends _ => sends
  | P_cb sends _ => sends
  | P_lim m sends _ => m :: sends
  | P_link _ sends _ => sends
  | P_selfcas sends _ => sends
  | P_selfspawn sends _ => sends
  | _ => []
  end.
Definition carry (x : nat) (p : pc) : nat := occ x (map mid (carried p)).

Definition linking (k x : nat) (p : pc) : nat :=
  match p with
  | S_link _ m _ | P_link m _ _ => if Nat.eqb (qidx (mq m)) k && Nat.eqb (mid m) x then 1 else 0
  | _ => 0
  end.

Definition IdI (N : nat -> nat) (s : shared) (C : nat -> nat) (L : nat -> nat -> nat) : Prop :=
  forall x,
    C x + Qa x (qs s) + occ x (handled s) + occ x (errs s) + occ x (fbs s) = N x /\
    occ x (oks s) = occ x (handled s) + Ql x (qs s) /\
    (forall k, k <= 3 -> qu x (qget (qs s) k) = L k x).

Lemma carry_next_send x b todo : carry x (next_send b todo) = occ x (map mid todo).
Proof. destruct todo; reflexivity. Qed.
Lemma linking_next_send k x b todo : linking k x (next_send b todo) = 0.
Proof. destruct todo; reflexivity. Qed.
Lemma carry_enter_cb x m : carry x (enter_cb m) = 0.
Proof. unfold enter_cb. destruct (mbeh m); reflexivity. Qed.
Lemma linking_enter_cb k x m : linking k x (enter_cb m) = 0.
Proof. unfold enter_cb. destruct (mbeh m); reflexivity. Qed.

Lemma qidx_le3 k : k <= 3 -> qidx k = k.
Proof. destruct k as [|[|[|[|k]]]]; cbn; intros; lia. Qed.
Lemma qidx_idem k : qidx (qidx k) = qidx k.
Proof. destruct k as [|[|[|k]]]; reflexivity. Qed.

Ltac simp_ids :=
  cbn [carried carry linking spawn_ww map mid qs handled errs oks fbs upd_st upd_qs upd_intable upd_innames
       add_handled add_ok add_err add_fb add_term set_killed set_initfail finalise] in *;
  rewrite ?carry_next_send, ?linking_next_send, ?carry_enter_cb, ?linking_enter_cb in *;
  unfold carry in *; cbn [carried map] in *;
  rewrite ?occ_cons, ?occ_app, ?occ_single, ?occ_nil in *.

Lemma step_pc_ids N s p s' p' sp C L :
  step_pc s p = Some (s', p', sp) ->
  (forall x, N x <= 1) ->
  IdI N s C L ->
  (forall x, carry x p <= C x) -> (forall k x, linking k x p <= L k x) ->
  forall C' L',
  (forall x, C' x + carry x p = C x + carry x p' + spawn_ww (carry x) sp) ->
  (forall k x, L' k x + linking k x p = L k x + linking k x p' + spawn_ww (linking k x) sp) ->
  IdI N s' C' L'.
Proof.
  intros Hstep HN HI HC HL C' L' EC EL x.
  destruct (HI x) as (I1 & I2 & I3).
  specialize (HC x). specialize (EC x). pose proof (HN x) as HNx.
  destruct p; cbn [step_pc] in Hstep;
    repeat match type of Hstep with
    | context [match ?l with [] => _ | _ :: _ => _ end] => destruct l
    | context [match q_pop ?q with _ => _ end] => let E := fresh "Ep" in destruct (q_pop q) as [[? ?]|] eqn:E
    | context [if ?b then _ else _] => let E := fresh "Eb" in destruct b eqn:E
    | context [match mbeh ?m with _ => _ end] => destruct (mbeh m)
    | context [match st ?x with _ => _ end] => destruct (st x)
    | context [match ?n with O => _ | S _ => _ end] => destruct n
    end;
    try (inversion Hstep; subst; clear Hstep; simp_ids;
         (split; [lia | split; [lia | intros kk Hkk; specialize (I3 kk Hkk); specialize (EL kk x); specialize (HL kk x);
                                       simp_ids; lia]])).
  - (* S_push *)
    inversion Hstep; subst; clear Hstep. simp_ids.
    pose proof (Qa_qset x (qs s) (mq m) (qget (qs s) (mq m) ++ [(m, false)])) as HQ.
    pose proof (Ql_qset x (qs s) (mq m) (qget (qs s) (mq m) ++ [(m, false)])) as HQl.
    rewrite qa_snoc in HQ. rewrite ql_snoc in HQl.
    split; [lia | split; [lia|]].
    intros k Hk. specialize (I3 k Hk). specialize (EL k x). specialize (HL k x). simp_ids.
    rewrite qget_qset. rewrite (qidx_le3 k Hk) in *.
    destruct (Nat.eqb (qidx (mq m)) k) eqn:Ek; cbn [andb] in *.
    + apply Nat.eqb_eq in Ek. subst k. rewrite qu_snoc. rewrite qget_qidx in I3. lia.
    + lia.
  - (* S_lim *)
    inversion Hstep; subst; clear Hstep. simp_ids.
    pose proof (Qa_qset x (qs s) (mq m) (qget (qs s) (mq m) ++ [(m, false)])) as HQ.
    pose proof (Ql_qset x (qs s) (mq m) (qget (qs s) (mq m) ++ [(m, false)])) as HQl.
    rewrite qa_snoc in HQ. rewrite ql_snoc in HQl.
    split; [lia | split; [lia|]].
    intros k Hk. specialize (I3 k Hk). specialize (EL k x). specialize (HL k x). simp_ids.
    rewrite qget_qset. rewrite (qidx_le3 k Hk) in *.
    destruct (Nat.eqb (qidx (mq m)) k) eqn:Ek; cbn [andb] in *.
    + apply Nat.eqb_eq in Ek. subst k. rewrite qu_snoc. rewrite qget_qidx in I3. lia.
    + lia.
  - (* S_link *)
    inversion Hstep; subst; clear Hstep. simp_ids.
    set (q := qget (qs s) (mq m)) in *.
    assert (Hk3 : qidx (mq m) <= 3) by (destruct (mq m) as [|[|[|?]]]; cbn; lia).
    pose proof (I3 (qidx (mq m)) Hk3) as I3m. rewrite qget_qidx in I3m. fold q in I3m.
    pose proof (Qa_qset x (qs s) (mq m) (mark_linked (mid m) q)) as HQ.
    pose proof (Ql_qset x (qs s) (mq m) (mark_linked (mid m) q)) as HQl.
    fold q in HQ, HQl.
    pose proof (qa_le_Qa x (qs s) (mq m)) as Hle. fold q in Hle.
    destruct (Nat.eqb (mid m) x) eqn:Ex.
    + apply Nat.eqb_eq in Ex. subst x.
      pose proof (HL (qidx (mq m)) (mid m)) as HLm. cbn [linking] in HLm. rewrite !Nat.eqb_refl in HLm. cbn [andb] in HLm.
      destruct (mark_linked_same (mid m) q) as (M1 & M2 & M3); [lia | lia |].
      split; [lia | split; [lia|]].
      intros k Hk. specialize (I3 k Hk). specialize (EL k (mid m)). specialize (HL k (mid m)). simp_ids.
      rewrite qget_qset. rewrite (qidx_le3 k Hk) in *. rewrite Nat.eqb_refl in *.
      destruct (Nat.eqb (qidx (mq m)) k) eqn:Ek; cbn [andb] in *.
      * apply Nat.eqb_eq in Ek. subst k. rewrite qget_qidx in I3. fold q in I3. lia.
      * lia.
    + apply Nat.eqb_neq in Ex.
      destruct (mark_linked_other x (mid m) q) as (M1 & M2 & M3); [congruence|].
      split; [lia | split; [lia|]].
      intros k Hk. specialize (I3 k Hk). specialize (EL k x). specialize (HL k x). simp_ids.
      rewrite qget_qset. rewrite (qidx_le3 k Hk) in *.
      assert (Nat.eqb (mid m) x = false) as Ex' by (apply Nat.eqb_neq; exact Ex). rewrite Ex' in *.
      rewrite andb_false_r in *.
      destruct (Nat.eqb (qidx (mq m)) k) eqn:Ek.
      * apply Nat.eqb_eq in Ek. subst k. rewrite qget_qidx in I3. fold q in I3. lia.
      * lia.
  - (* R_pop *)
    inversion Hstep; subst; clear Hstep. simp_ids.
    apply q_pop_some in Ep.
    pose proof (Qa_qset x (qs s) k q) as HQ. pose proof (Ql_qset x (qs s) k q) as HQl.
    rewrite Ep in HQ, HQl. rewrite qa_cons in HQ. rewrite ql_cons in HQl.
    split; [lia | split; [lia|]].
    intros k' Hk'. specialize (I3 k' Hk'). specialize (EL k' x). specialize (HL k' x). simp_ids.
    rewrite qget_qset. rewrite (qidx_le3 k' Hk') in *.
    destruct (Nat.eqb (qidx k) k') eqn:Ek.
    + apply Nat.eqb_eq in Ek. subst k'. rewrite qget_qidx, Ep, qu_cons in I3. lia.
    + lia.
  - (* P_cb *)
    inversion Hstep; subst; clear Hstep. simp_ids.
    pose proof (Qa_qset x (qs s) (mq m) (qget (qs s) (mq m) ++ [(m, false)])) as HQ.
    pose proof (Ql_qset x (qs s) (mq m) (qget (qs s) (mq m) ++ [(m, false)])) as HQl.
    rewrite qa_snoc in HQ. rewrite ql_snoc in HQl.
    split; [lia | split; [lia|]].
    intros k Hk. specialize (I3 k Hk). specialize (EL k x). specialize (HL k x). simp_ids.
    rewrite qget_qset. rewrite (qidx_le3 k Hk) in *.
    destruct (Nat.eqb (qidx (mq m)) k) eqn:Ek; cbn [andb] in *.
    + apply Nat.eqb_eq in Ek. subst k. rewrite qu_snoc. rewrite qget_qidx in I3. lia.
    + lia.
  - (* P_lim *)
    inversion Hstep; subst; clear Hstep. simp_ids.
    pose proof (Qa_qset x (qs s) (mq m) (qget (qs s) (mq m) ++ [(m, false)])) as HQ.
    pose proof (Ql_qset x (qs s) (mq m) (qget (qs s) (mq m) ++ [(m, false)])) as HQl.
    rewrite qa_snoc in HQ. rewrite ql_snoc in HQl.
    split; [lia | split; [lia|]].
    intros k Hk. specialize (I3 k Hk). specialize (EL k x). specialize (HL k x). simp_ids.
    rewrite qget_qset. rewrite (qidx_le3 k Hk) in *.
    destruct (Nat.eqb (qidx (mq m)) k) eqn:Ek; cbn [andb] in *.
    + apply Nat.eqb_eq in Ek. subst k. rewrite qu_snoc. rewrite qget_qidx in I3. lia.
    + lia.
  - (* P_link *)
    inversion Hstep; subst; clear Hstep. simp_ids.
    set (q := qget (qs s) (mq m)) in *.
    assert (Hk3 : qidx (mq m) <= 3) by (destruct (mq m) as [|[|[|?]]]; cbn; lia).
    pose proof (I3 (qidx (mq m)) Hk3) as I3m. rewrite qget_qidx in I3m. fold q in I3m.
    pose proof (Qa_qset x (qs s) (mq m) (mark_linked (mid m) q)) as HQ.
    pose proof (Ql_qset x (qs s) (mq m) (mark_linked (mid m) q)) as HQl.
    fold q in HQ, HQl.
    pose proof (qa_le_Qa x (qs s) (mq m)) as Hle. fold q in Hle.
    destruct (Nat.eqb (mid m) x) eqn:Ex.
    + apply Nat.eqb_eq in Ex. subst x.
      pose proof (HL (qidx (mq m)) (mid m)) as HLm. cbn [linking] in HLm. rewrite !Nat.eqb_refl in HLm. cbn [andb] in HLm.
      destruct (mark_linked_same (mid m) q) as (M1 & M2 & M3); [lia | lia |].
      split; [lia | split; [lia|]].
      intros k Hk. specialize (I3 k Hk). specialize (EL k (mid m)). specialize (HL k (mid m)). simp_ids.
      rewrite qget_qset. rewrite (qidx_le3 k Hk) in *. rewrite Nat.eqb_refl in *.
      destruct (Nat.eqb (qidx (mq m)) k) eqn:Ek; cbn [andb] in *.
      * apply Nat.eqb_eq in Ek. subst k. rewrite qget_qidx in I3. fold q in I3. lia.
      * lia.
    + apply Nat.eqb_neq in Ex.
      destruct (mark_linked_other x (mid m) q) as (M1 & M2 & M3); [congruence|].
      split; [lia | split; [lia|]].
      intros k Hk. specialize (I3 k Hk). specialize (EL k x). specialize (HL k x). simp_ids.
      rewrite qget_qset. rewrite (qidx_le3 k Hk) in *.
      assert (Nat.eqb (mid m) x = false) as Ex' by (apply Nat.eqb_neq; exact Ex). rewrite Ex' in *.
      rewrite andb_false_r in *.
      destruct (Nat.eqb (qidx (mq m)) k) eqn:Ek.
      * apply Nat.eqb_eq in Ek. subst k. rewrite qget_qidx in I3. fold q in I3. lia.
      * lia.
Qed.
