(* C03 (priority part): the dequeue scan of ProcessRun picks the oldest message of the highest
   non-empty class.  Stated against [next_message], which is the property text as a function. *)
From Ergo Require Import Common.Base Sched.Model Sched.CountFacts.

(* the oldest visible message of the first non-empty queue in the order Urgent, System, Main, Log *)
Definition next_message (s : queues) : option (nat * msg * queue) :=
  match q_pop (q0 s) with
  | Some (m, tl) => Some (0, m, tl)
  | None =>
    match q_pop (q1 s) with
    | Some (m, tl) => Some (1, m, tl)
    | None =>
      match q_pop (q2 s) with
      | Some (m, tl) => Some (2, m, tl)
      | None =>
        match q_pop (q3 s) with
        | Some (m, tl) => Some (3, m, tl)
        | None => None
        end
      end
    end
  end.

Lemma nth_error_set_nth_same l i (p p' : pc) :
  nth_error l i = Some p -> nth_error (set_nth l i p') i = Some p'.
Proof.
  revert i; induction l as [|x l IH]; intros [|i] H; cbn [nth_error set_nth] in *; try discriminate; auto.
Qed.

Lemma set_nth_set_nth l i (p p' : pc) : set_nth (set_nth l i p) i p' = set_nth l i p'.
Proof. revert i; induction l as [|x l IH]; intros [|i]; cbn [set_nth]; auto. f_equal. apply IH. Qed.

Lemma step_at c i p s' p' :
  nth_error (thr c) i = Some p -> step_pc (sh c) p = Some (s', p', None) ->
  step c i = Some (mk_cfg s' (set_nth (thr c) i p')).
Proof. intros Hn Hp. unfold step. rewrite Hn, Hp. reflexivity. Qed.

(* one scan step at queue k *)
Lemma scan_step_empty c i k :
  nth_error (thr c) i = Some (R_pop k) -> q_pop (qget (qs (sh c)) k) = None ->
  step c i = Some (mk_cfg (sh c) (set_nth (thr c) i (if Nat.ltb k 3 then R_pop (S k) else R_sleep))).
Proof.
  intros Hn Hq. apply (step_at c i (R_pop k)); [exact Hn|]. cbn [step_pc]. rewrite Hq.
  destruct (Nat.ltb k 3); reflexivity.
Qed.

Lemma scan_step_hit c i k m tl :
  nth_error (thr c) i = Some (R_pop k) -> q_pop (qget (qs (sh c)) k) = Some (m, tl) ->
  step c i = Some (mk_cfg (add_handled (upd_qs (sh c) (qset (qs (sh c)) k tl)) (mid m))
                          (set_nth (thr c) i (enter_cb m))).
Proof. intros Hn Hq. apply (step_at c i (R_pop k)); [exact Hn|]. cbn [step_pc]. rewrite Hq. reflexivity. Qed.

Lemma run_cons_some c i c' tl : step c i = Some c' -> run (i :: tl) c = run tl c'.
Proof. intros H. cbn [run]. rewrite H. reflexivity. Qed.

(* The scan, uninterrupted: starting at the Urgent queue, the runner ends up inside the callback
   of exactly [next_message], having removed it from its queue and nothing else; if no message is
   visible it goes on to the sleep transition with the mailbox untouched. *)
Theorem scan_picks_next_message c i :
  nth_error (thr c) i = Some (R_pop 0) ->
  match next_message (qs (sh c)) with
  | Some (k, m, tl) =>
      run (repeat i (S k)) c =
        mk_cfg (add_handled (upd_qs (sh c) (qset (qs (sh c)) k tl)) (mid m)) (set_nth (thr c) i (enter_cb m))
  | None => run (repeat i 4) c = mk_cfg (sh c) (set_nth (thr c) i R_sleep)
  end.
Proof.
  intros Hn. unfold next_message.
  destruct (q_pop (q0 (qs (sh c)))) as [[m tl]|] eqn:E0.
  { cbn [repeat]. rewrite (run_cons_some _ _ _ _ (scan_step_hit c i 0 m tl Hn E0)). reflexivity. }
  pose proof (scan_step_empty c i 0 Hn E0) as S0. cbn [Nat.ltb Nat.leb] in S0.
  set (c1 := mk_cfg (sh c) (set_nth (thr c) i (R_pop 1))) in *.
  assert (Hn1 : nth_error (thr c1) i = Some (R_pop 1)) by (eapply nth_error_set_nth_same; eauto).
  destruct (q_pop (q1 (qs (sh c)))) as [[m tl]|] eqn:E1.
  { cbn [repeat]. rewrite (run_cons_some _ _ _ _ S0), (run_cons_some _ _ _ _ (scan_step_hit c1 i 1 m tl Hn1 E1)).
    unfold c1; cbn [sh thr run]. rewrite set_nth_set_nth. reflexivity. }
  pose proof (scan_step_empty c1 i 1 Hn1 E1) as S1. cbn [Nat.ltb Nat.leb] in S1.
  set (c2 := mk_cfg (sh c) (set_nth (thr c1) i (R_pop 2))) in *.
  assert (Hn2 : nth_error (thr c2) i = Some (R_pop 2)) by (eapply nth_error_set_nth_same; eauto).
  destruct (q_pop (q2 (qs (sh c)))) as [[m tl]|] eqn:E2.
  { cbn [repeat]. rewrite (run_cons_some _ _ _ _ S0), (run_cons_some _ _ _ _ S1),
      (run_cons_some _ _ _ _ (scan_step_hit c2 i 2 m tl Hn2 E2)).
    unfold c2, c1; cbn [sh thr run]. rewrite !set_nth_set_nth. reflexivity. }
  pose proof (scan_step_empty c2 i 2 Hn2 E2) as S2. cbn [Nat.ltb Nat.leb] in S2.
  set (c3 := mk_cfg (sh c) (set_nth (thr c2) i (R_pop 3))) in *.
  assert (Hn3 : nth_error (thr c3) i = Some (R_pop 3)) by (eapply nth_error_set_nth_same; eauto).
  destruct (q_pop (q3 (qs (sh c)))) as [[m tl]|] eqn:E3.
  { cbn [repeat]. rewrite (run_cons_some _ _ _ _ S0), (run_cons_some _ _ _ _ S1), (run_cons_some _ _ _ _ S2),
      (run_cons_some _ _ _ _ (scan_step_hit c3 i 3 m tl Hn3 E3)).
    unfold c3, c2, c1; cbn [sh thr run]. rewrite !set_nth_set_nth. reflexivity. }
  pose proof (scan_step_empty c3 i 3 Hn3 E3) as S3. cbn [Nat.ltb Nat.leb] in S3.
  cbn [repeat]. rewrite (run_cons_some _ _ _ _ S0), (run_cons_some _ _ _ _ S1), (run_cons_some _ _ _ _ S2),
    (run_cons_some _ _ _ _ S3).
  unfold c3, c2, c1; cbn [sh thr run]. rewrite !set_nth_set_nth. reflexivity.
Qed.

(* what next_message means: the head (oldest) of queue k, all higher classes without a visible
   message *)
Lemma next_message_spec s k m tl :
  next_message s = Some (k, m, tl) ->
  qget s k = (m, true) :: tl /\ k <= 3 /\ forall j, j < k -> q_visible (qget s j) = false.
Proof.
  unfold next_message.
  assert (Hv : forall q, q_pop q = None -> q_visible q = false).
  { intros q. destruct q as [|[m' [|]] q']; cbn; intros H; try discriminate; reflexivity. }
  assert (Hp : forall q m' tl', q_pop q = Some (m', tl') -> q = (m', true) :: tl').
  { intros q m' tl'. destruct q as [|[m'' [|]] q']; cbn; intros H; inversion H; reflexivity. }
  destruct (q_pop (q0 s)) as [[m0 t0]|] eqn:E0.
  { intros H; inversion H; subst. split; [apply Hp; exact E0|]. split; [lia|]. intros j Hj; lia. }
  destruct (q_pop (q1 s)) as [[m1 t1]|] eqn:E1.
  { intros H; inversion H; subst. split; [apply Hp; exact E1|]. split; [lia|].
    intros j Hj. assert (j = 0) by lia. subst. apply Hv; exact E0. }
  destruct (q_pop (q2 s)) as [[m2 t2]|] eqn:E2.
  { intros H; inversion H; subst. split; [apply Hp; exact E2|]. split; [lia|].
    intros j Hj. destruct j as [|[|j]]; [apply Hv; exact E0 | apply Hv; exact E1 | lia]. }
  destruct (q_pop (q3 s)) as [[m3 t3]|] eqn:E3; [|discriminate].
  intros H; inversion H; subst. split; [apply Hp; exact E3|]. split; [lia|].
  intros j Hj. destruct j as [|[|[|j]]]; [apply Hv; exact E0 | apply Hv; exact E1 | apply Hv; exact E2 | lia].
Qed.
