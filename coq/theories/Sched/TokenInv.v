(* The token invariant of the process state word: at most one goroutine owns the process
   (may run its callbacks / tear it down) in every reachable configuration, whatever the
   number of senders, killers and the schedule.  Serves C01 (serial execution) and C05
   (termination once, last, final). *)
From Ergo Require Import Common.Base Sched.Model Sched.CountFacts.

(* pc classes counted by the invariant *)
(* the spawner while the process is still in state Init *)
Definition spawn_pre (p : pc) : bool :=
  match p with
  | P_init _ _ | P_cb _ _ | P_lim _ _ _ | P_link _ _ _ | P_selfcas _ _ | P_sleep => true
  | _ => false
  end.
(* every other owner before its finalising swap *)
Definition run_pre (p : pc) : bool := holder_pre p && negb (spawn_pre p).
(* pcs that cannot be occupied while the state word is Init *)
Definition no_init (p : pc) : bool := match p with K_swapZ | P_store => true | _ => false end.
Definition at_kst (p : pc) : bool := match p with K_storeT => true | _ => false end.
(* finaliser that has not yet entered the terminate callback / is inside it *)
Definition post_early (p : pc) : bool :=
  match p with
  | R_unreg _ | R_unreg2 _ | R_term0 _ | K_unreg | K_unreg2 | K_spawn | T_start => true
  | _ => false
  end.
Definition post_late (p : pc) : bool := match p with R_term _ | T_term => true | _ => false end.
(* a self-send during init can never win the wake-up CAS: this pc is unreachable *)
Definition impossible (p : pc) : bool := match p with P_selfspawn _ _ => true | _ => false end.

Lemma holder_pre_split p : b2n (holder_pre p) = b2n (spawn_pre p) + b2n (run_pre p).
Proof. destruct p; reflexivity. Qed.
Lemma holder_post_split p : b2n (holder_post p) = b2n (post_early p) + b2n (post_late p).
Proof. destruct p; reflexivity. Qed.

(* the invariant as a predicate on the shared state and the counters
   c = spawner in Init, r = other owners before the finalising swap, d = pcs impossible in
   Init, e = Kill about to store Terminated, g / l = finaliser before / inside terminate *)
Definition InvN (s : shared) (c r d e g l z : nat) : Prop :=
  z = 0 /\
  (fin s = false ->
     g + l = 0 /\ terms s = 0 /\
     match st s with
     | Init => intable s = false /\ d = 0 /\ r = 0 /\
               ((initfail s = false /\ c = 1) \/ (initfail s = true /\ c = 0))
     | Sleep => c + r = 0
     | Running | Wait | Zombee => r = 1 /\ c = 0
     | Terminated => False
     end) /\
  (fin s = true ->
     c + r = 0 /\ g + l <= 1 /\ g + terms s = 1 /\ (st s = Terminated \/ st s = Zombee)) /\
  (e > 0 -> fin s = true).

Definition Inv (c : cfg) : Prop :=
  InvN (sh c) (count spawn_pre (thr c)) (count run_pre (thr c)) (count no_init (thr c))
       (count at_kst (thr c)) (count post_early (thr c)) (count post_late (thr c))
       (count impossible (thr c)).

(* One step of any thread preserves the invariant (the counters change by the class
   weights of the old pc, the new pc and the spawned goroutine). *)
Lemma step_pc_inv s p s' p' sp c r d e g l z :
  step_pc s p = Some (s', p', sp) ->
  b2n (spawn_pre p) <= c -> b2n (run_pre p) <= r -> b2n (no_init p) <= d ->
  b2n (at_kst p) <= e -> b2n (post_early p) <= g -> b2n (post_late p) <= l -> b2n (impossible p) <= z ->
  InvN s c r d e g l z ->
  forall c' r' d' e' g' l' z',
  c' + b2n (spawn_pre p) = c + b2n (spawn_pre p') + spawn_w spawn_pre sp ->
  r' + b2n (run_pre p) = r + b2n (run_pre p') + spawn_w run_pre sp ->
  d' + b2n (no_init p) = d + b2n (no_init p') + spawn_w no_init sp ->
  e' + b2n (at_kst p) = e + b2n (at_kst p') + spawn_w at_kst sp ->
  g' + b2n (post_early p) = g + b2n (post_early p') + spawn_w post_early sp ->
  l' + b2n (post_late p) = l + b2n (post_late p') + spawn_w post_late sp ->
  z' + b2n (impossible p) = z + b2n (impossible p') + spawn_w impossible sp ->
  InvN s' c' r' d' e' g' l' z'.
Proof.
  intros Hstep Hc Hr Hd He Hg Hl Hz HI c' r' d' e' g' l' z' Ec Er Ed Ee Eg El Ez.
  unfold InvN in *.
  destruct HI as (Hz0 & Hnf & Hf & Hk).
  destruct p; cbn [step_pc] in Hstep;
    (destruct (fin s) eqn:Efin;
      [ specialize (Hf eq_refl); clear Hnf; destruct Hf as (Hf1 & Hf2 & Hf3 & Hf4)
      | specialize (Hnf eq_refl); clear Hf; destruct Hnf as (Hn1 & Hn2 & Hn3) ]);
    (destruct (st s) eqn:Est; cbn [pstate_eqb alive] in Hstep);
    try (exfalso; intuition (discriminate || congruence));
    repeat match type of Hstep with
    | context [match ?l with [] => _ | _ :: _ => _ end] => destruct l
    | context [if ?b then _ else _] => let E := fresh "Eb" in destruct b eqn:E
    | context [match q_pop ?q with _ => _ end] => let E := fresh "Eq" in destruct (q_pop q) as [[? ?]|] eqn:E
    | context [match mbeh ?m with _ => _ end] => destruct (mbeh m)
    | context [match ?n with O => _ | S _ => _ end] => destruct n
    end;
    inversion Hstep; subst; clear Hstep;
    unfold enter_cb, next_send in *;
    repeat match goal with
    | H : context [match ?l with [] => _ | _ :: _ => _ end] |- _ => destruct l
    | H : context [match mbeh ?m with _ => _ end] |- _ => destruct (mbeh m)
    end;
    cbn [run_pre holder_pre spawn_pre no_init at_kst post_early post_late impossible b2n spawn_w andb negb] in *;
    cbn [st fin terms intable initfail upd_st upd_qs upd_intable upd_innames add_handled add_ok add_err add_fb add_term
         set_killed set_initfail finalise] in *;
    rewrite ?Efin, ?Est in *;
    repeat split; intros; try discriminate; try congruence; try lia;
    try (intuition (try discriminate; try congruence; try lia)).
Qed.

