(* Checkers evaluated (vm_compute) on observations of the real runtime under the controlled
   scheduler (go/harness/cmd/sched). *)
From Ergo Require Import Common.Base Sched.Model.

Record obs := mk_obs { o_tid : nat; o_en : bool; o_label : nat; o_st : nat; o_nthr : nat }.

Record scase := mk_scase {
  c_named : bool; c_lim : nat; c_fb : bool; c_self : list msg; c_initok : bool; c_threads : list pc;
  c_sched : list nat;                 (* complete executed schedule *)
  c_obs : list obs;                   (* one observation per granted step *)
  c_events : list (nat * nat);        (* 1 begin id, 2 end id, 3 termbegin, 4 termend, 5 initbegin, 6 initend *)
  c_handled : list nat; c_oks : list nat; c_errs : list nat;
  c_fbs : list nat;                   (* ids the fallback process received, wrapped in MessageFallback with the right pid and tag *)
  c_terms : nat; c_reason : Z; c_final : nat; c_qempty : bool }.

(* hook label (as numbered by the harness) at which a thread in this pc is parked *)
Definition pc_label (p : pc) : nat :=
  match p with
  | S_load _ _ => 1 | S_alive _ _ _ => 2 | S_push _ _ _ => 3 | S_lim _ _ _ => 37 | S_link _ _ _ => 4 | S_cas _ _ => 5 | S_spawn _ _ => 6
  | R_start => 7 | R_next => 8 | R_state => 9 | R_pop _ => 10 | R_cb _ _ => 11 | R_call _ _ => 36 | R_w1 _ _ => 12 | R_w2 _ _ => 13
  | R_w3 _ _ => 14 | R_sleep => 15 | R_item _ => 16 | R_wake => 17 | R_swapT _ => 18 | R_unreg _ => 19
  | R_unreg2 _ => 20 | R_term0 _ => 21 | R_term _ => 22 | R_exit => 23
  | K_load => 24 | K_swapZ => 25 | K_storeT => 26 | K_swapT => 27 | K_unreg => 28 | K_unreg2 => 20 | K_spawn => 29
  | T_start => 30 | T_term => 22 | T_exit => 31
  | P_init _ _ => 32 | P_cb _ _ => 33 | P_lim _ _ _ => 37 | P_link _ _ _ => 4 | P_selfcas _ _ => 5 | P_selfspawn _ _ => 6
  | P_sleep => 34 | P_store => 35 | P_cas => 5 | P_spawn => 6
  | Done => 0
  end.

Definition st_nat (s : pstate) : nat :=
  match s with Init => 1 | Sleep => 2 | Running => 4 | Wait => 8 | Terminated => 16 | Zombee => 32 end.

Fixpoint replay (c : cfg) (sched : list nat) (os : list obs) : option cfg :=
  match sched, os with
  | [], [] => Some c
  | i :: s', o :: o' =>
      if negb (Nat.eqb i (o_tid o)) then None else
      match step c i with
      | Some c' =>
          if o_en o && Nat.eqb (pc_label (nth i (thr c') Done)) (o_label o)
             && Nat.eqb (st_nat (st (sh c'))) (o_st o) && Nat.eqb (length (thr c')) (o_nthr o)
          then replay c' s' o' else None
      | None =>
          if negb (o_en o) && Nat.eqb (o_label o) 0 && Nat.eqb (st_nat (st (sh c))) (o_st o)
             && Nat.eqb (length (thr c)) (o_nthr o)
          then replay c s' o' else None
      end
  | _, _ => None
  end.

Fixpoint nlist_eqb (a b : list nat) : bool :=
  match a, b with
  | [], [] => true
  | x :: a', y :: b' => Nat.eqb x y && nlist_eqb a' b'
  | _, _ => false
  end.
Definition nmem (x : nat) (l : list nat) : bool := existsb (Nat.eqb x) l.
Definition subset (a b : list nat) : bool := forallb (fun x => nmem x b) a.
Definition same_set (a b : list nat) : bool := subset a b && subset b a && Nat.eqb (length a) (length b).
Fixpoint nodup_b (l : list nat) : bool :=
  match l with [] => true | x :: tl => negb (nmem x tl) && nodup_b tl end.

Definition all_msgs (c : scase) : list msg :=
  c_self c ++ flat_map (fun p => match p with S_load _ l => l | _ => [] end) (c_threads c).
(* exit signals are consumed by the actor loop without a behaviour callback: the harness cannot see
   their consumption, so they are left out when the handled lists are compared *)
Definition is_exit_id (c : scase) (i : nat) : bool :=
  existsb (fun m => Nat.eqb (mid m) i && match mbeh m with BExit _ => true | _ => false end) (all_msgs c).

Definition case_cfg (c : scase) : cfg := init_cfg (c_named c) (c_lim c) (c_fb c) (c_self c) (c_initok c) (c_threads c).

(* model = implementation: every step's next hook, state word and thread count, and the final
   handled order, accepted / refused sets, terminate count and reason *)
Definition corr_ok (c : scase) : bool :=
  match replay (case_cfg c) (c_sched c) (c_obs c) with
  | None => false
  | Some f =>
      quiescent f
      && nlist_eqb (filter (fun i => negb (is_exit_id c i)) (handled (sh f))) (c_handled c)
      && same_set (oks (sh f)) (c_oks c) && same_set (errs (sh f)) (c_errs c) && same_set (fbs (sh f)) (c_fbs c)
      && Nat.eqb (terms (sh f)) (c_terms c)
      && Z.eqb (match treason (sh f) with Some r => r | None => 0%Z end) (c_reason c)
      && Nat.eqb (st_nat (st (sh f))) (c_final c)
      && Bool.eqb (forallb (fun k => match qget (qs (sh f)) k with [] => true | _ => false end) [0; 1; 2; 3]) (c_qempty c)
  end.

(* ---- the properties, evaluated on what the implementation did ------------------------ *)

(* C01: at most one callback open at any instant *)
Fixpoint no_overlap (open : bool) (ev : list (nat * nat)) : bool :=
  match ev with
  | [] => true
  | (k, _) :: tl =>
      match k with
      | 1 | 3 | 5 => negb open && no_overlap true tl
      | _ => open && no_overlap false tl
      end
  end.
Definition spec_c01 (c : scase) : bool := no_overlap false (c_events c).

(* C05: terminate callback at most once, after every other callback, nothing afterwards,
   reason reflects a cause that occurred *)
Fixpoint nothing_after_term (seen : bool) (ev : list (nat * nat)) : bool :=
  match ev with
  | [] => true
  | (k, _) :: tl =>
      match k with
      | 3 => negb seen && nothing_after_term true tl
      | 4 => nothing_after_term seen tl
      | _ => negb seen && nothing_after_term seen tl
      end
  end.
Definition has_killer (c : scase) : bool := existsb (fun p => match p with K_load => true | _ => false end) (c_threads c).
Definition handled_beh (c : scase) (f : beh -> bool) : bool :=
  existsb (fun m => nmem (mid m) (c_handled c) && f (mbeh m)) (all_msgs c).
Definition reason_ok (c : scase) : bool :=
  let r := c_reason c in
  if Nat.eqb (c_terms c) 0 then Z.eqb r 0
  else if Z.eqb r rkill then has_killer c
  else if Z.eqb r rpanic then handled_beh c (fun b => match b with BPanic => true | _ => false end)
  else handled_beh c (fun b => match b with BErr e => Z.eqb e r | _ => false end)
       || existsb (fun m => nmem (mid m) (c_oks c) && match mbeh m with BExit e => Z.eqb e r | _ => false end) (all_msgs c).
Definition spec_c05 (c : scase) : bool :=
  Nat.leb (c_terms c) 1
  && Nat.eqb (length (filter (fun e => Nat.eqb (fst e) 3) (c_events c))) (c_terms c)
  && nothing_after_term false (c_events c)
  && reason_ok c
  && (negb (Nat.eqb (c_final c) 16) || Nat.eqb (c_terms c) 1)
  && (Nat.eqb (c_final c) 2 || Nat.eqb (c_final c) 16 || (Nat.eqb (c_final c) 1 && negb (c_initok c))).

(* C02: at the end (all goroutines finished): nothing handled twice, nothing refused was
   handled, everything handled had been accepted, and if the process is asleep its mailbox is
   empty and everything accepted was handled *)
Definition spec_c02 (c : scase) : bool :=
  nodup_b (c_handled c)
  && forallb (fun x => negb (nmem x (c_handled c))) (c_errs c)
  (* fallback: delivered to the fallback exactly once, never handled here, never also an error *)
  && nodup_b (c_fbs c)
  && forallb (fun x => negb (nmem x (c_handled c)) && negb (nmem x (c_errs c))) (c_fbs c)
  && (c_fb c || Nat.eqb (length (c_fbs c)) 0)
  && subset (c_handled c) (c_oks c)
  && (negb (Nat.eqb (c_final c) 2) || (c_qempty c && same_set (c_handled c) (c_oks c))).

(* non-vacuity: the run actually started the process and handled something *)
Definition premise_ok (c : scase) : bool := negb (Nat.eqb (length (c_handled c)) 0).
