(* C02 over the Sched model: truthful send results, exactly-once handling, no lost wake-up. *)
From Ergo Require Import Common.Base Sched.Model Sched.CountFacts Sched.QueueFacts Sched.TokenInv
  Sched.TokenProofs Sched.IdInv.
From Coq Require Import Sorting.Permutation.

(* ---- identity accounting lifted to configurations ------------------------------------ *)
Definition IdInv (N : nat -> nat) (c : cfg) : Prop :=
  IdI N (sh c) (fun x => wsum (carry x) (thr c)) (fun k x => wsum (linking k x) (thr c)).

Lemma step_ids N c i c' : (forall x, N x <= 1) -> IdInv N c -> step c i = Some c' -> IdInv N c'.
Proof.
  intros HN HI Hs. destruct (step_shape_w _ _ _ Hs) as (p & s' & p' & sp & Hn & Hp & Hsh & Hw & Hge).
  unfold IdInv in *. rewrite Hsh.
  eapply step_pc_ids; [exact Hp | exact HN | exact HI | | | | ].
  - intros x. apply Hge.
  - intros k x. apply Hge.
  - intros x. apply Hw.
  - intros k x. apply Hw.
Qed.

Definition init_N (c : cfg) (x : nat) : nat := wsum (carry x) (thr c).

Lemma wsum_zero_init w others :
  (forall p, init_pc p = true -> w p = 0) -> Forall (fun p => init_pc p = true) others -> wsum w others = 0.
Proof.
  intros Hw Hall. induction Hall as [|p l Hp _ IH]; [reflexivity|]. cbn [wsum]. rewrite IH, (Hw p Hp). reflexivity.
Qed.

Lemma IdInv_init named lim fb selfs initok others :
  Forall (fun p => init_pc p = true) others ->
  IdInv (init_N (init_cfg named lim fb selfs initok others)) (init_cfg named lim fb selfs initok others).
Proof.
  intros Hall x. unfold init_N, init_cfg. cbn [sh thr init_shared qs handled errs oks].
  split; [|split].
  - unfold Qa, qs_empty. cbn [q0 q1 q2 q3]. rewrite !qa_nil, !occ_nil. lia.
  - unfold Ql, qs_empty. cbn [q0 q1 q2 q3]. rewrite !ql_nil, !occ_nil. lia.
  - intros k Hk. cbn [wsum linking].
    rewrite (wsum_zero_init (linking k x) others) by (try exact Hall; intros p Hp; destruct p; try discriminate; reflexivity).
    destruct k as [|[|[|k]]]; reflexivity.
Qed.

(* ---- wake-up obligation -------------------------------------------------------------- *)
(* position of queue k in the Item() re-check order Main, System, Urgent, Log *)
Definition pos (k : nat) : nat := match k with 0 => 2 | 1 => 1 | 2 => 0 | _ => 3 end.

(* goroutines that are certain to perform a wake-up CAS, or (the sleeping runner) still have
   the re-check of queue k ahead of them *)
Definition waker (k : nat) (p : pc) : bool :=
  match p with
  | S_link _ _ _ | S_cas _ _ | P_link _ _ _ | P_selfcas _ _ | P_store | P_cas | R_wake => true
  | R_item j => Nat.leb j (pos k)
  | _ => false
  end.

Definition is_linker (p : pc) : bool := match p with S_link _ _ _ | P_link _ _ _ => true | _ => false end.

Definition WakeInv (c : cfg) : Prop :=
  st (sh c) = Sleep -> forall k, k <= 3 -> qget (qs (sh c)) k <> [] -> 1 <= count (waker k) (thr c).

Lemma linker_is_waker k p : b2n (is_linker p) <= b2n (waker k p).
Proof. destruct p; cbn; lia. Qed.
Lemma linking_le_linker k x p : linking k x p <= b2n (is_linker p).
Proof. destruct p; cbn; try lia; destruct (_ && _); lia. Qed.

Lemma count_le1 f g l : (forall p, b2n (f p) <= b2n (g p)) -> count f l <= count g l.
Proof. intros H. induction l as [|p l IH]; [reflexivity|]. rewrite !count_cons. specialize (H p). lia. Qed.

(* a queue whose head is not yet linked has its producer parked at the link store *)
Lemma unlinked_head_has_linker N c k m tl :
  IdInv N c -> k <= 3 -> qget (qs (sh c)) k = (m, false) :: tl -> 1 <= count is_linker (thr c).
Proof.
  intros HI Hk Hq. destruct (HI (mid m)) as (_ & _ & I3). specialize (I3 k Hk).
  rewrite Hq, qu_cons, Nat.eqb_refl in I3.
  rewrite count_wsum.
  pose proof (wsum_le (linking k (mid m)) (fun p => b2n (is_linker p)) (thr c) (linking_le_linker k (mid m))). lia.
Qed.

Lemma item_order_pos k : k <= 3 -> item_order (pos k) = k.
Proof. destruct k as [|[|[|[|k]]]]; cbn; intros; lia. Qed.
Lemma pos_item_order j : j <= 3 -> pos (item_order j) = j.
Proof. destruct j as [|[|[|[|j]]]]; cbn; intros; lia. Qed.
Lemma pos_inj k k' : k <= 3 -> k' <= 3 -> pos k = pos k' -> k = k'.
Proof. destruct k as [|[|[|[|k]]]]; destruct k' as [|[|[|[|k']]]]; cbn; intros; lia. Qed.
Lemma pos_le3 k : pos k <= 3.
Proof. destruct k as [|[|[|k]]]; cbn; lia. Qed.

Lemma step_wake N c i c' :
  Inv c -> IdInv N c -> WakeInv c -> step c i = Some c' -> WakeInv c'.
Proof.
  intros HInv HId HW Hs.
  destruct (step_inv_shape _ _ _ Hs) as (p & s' & p' & sp & Hn & Hp & Hsh & Hcnt & Hge).
  unfold WakeInv in *. rewrite Hsh. clear Hs.
  pose proof (fun k m tl => unlinked_head_has_linker N c k m tl HId) as Hunl.
  unfold Inv in HInv. unfold IdInv in HId.
  destruct c as [s t]; destruct c' as [s'' t']; cbn [sh thr] in *. subst s''.
  intros Hst k Hk Hq.
  pose proof (Hcnt (waker k)) as Hwk. pose proof (Hcnt is_linker) as Hlk.
  pose proof (Hge run_pre) as Hrun. pose proof (Hge spawn_pre) as Hspn.
  (* facts from the token invariant *)
  assert (Hsleep : st s = Sleep -> count spawn_pre t + count run_pre t = 0).
  { intros E. unfold InvN in HInv. destruct HInv as (_ & Hnf & Hf & _).
    destruct (fin s) eqn:Efin.
    - destruct (Hf eq_refl) as (_ & _ & _ & [H|H]); congruence.
    - destruct (Hnf eq_refl) as (_ & _ & H). rewrite E in H. exact H. }
  destruct p; cbn [step_pc] in Hp;
    repeat match type of Hp with
    | context [match ?l with [] => _ | _ :: _ => _ end] => destruct l
    | context [match q_pop ?q with _ => _ end] => let E := fresh "Ep" in destruct (q_pop q) as [[? ?]|] eqn:E
    | context [if ?b then _ else _] => let E := fresh "Eb" in destruct b eqn:E
    | context [match mbeh ?m with _ => _ end] => destruct (mbeh m)
    | context [match st ?x with _ => _ end] => let E := fresh "Est" in destruct (st x) eqn:E
    | context [match ?n with O => _ | S _ => _ end] => destruct n
    end;
    inversion Hp; subst; clear Hp;
    cbn [st qs upd_st upd_qs upd_intable upd_innames add_handled add_ok add_err add_fb add_term set_killed set_initfail finalise] in *;
    try discriminate;
    unfold next_send, enter_cb in *;
    repeat match goal with
    | H : context [match ?l with [] => _ | _ :: _ => _ end] |- _ => destruct l
    | H : context [match mbeh ?m with _ => _ end] |- _ => destruct (mbeh m)
    end;
    cbn [waker is_linker run_pre spawn_pre holder_pre b2n spawn_w andb negb] in *;
    (* the stepping goroutine owned the process while it slept: impossible *)
    try (exfalso; specialize (Hsleep Hst); lia);
    (* a CAS that needed a state other than the one we are in *)
    try (exfalso; rewrite Hst in *; cbn [pstate_eqb] in *; discriminate);
    (* nothing relevant changed, or the number of wakers did not decrease *)
    try (specialize (HW Hst k Hk Hq); lia);
    try (change (Nat.leb 0 (pos k)) with true in *; cbn [b2n] in *; lia);
    try lia.
  - (* S_link: still a waker; emptiness unchanged *)
    pose proof (Hge (waker k)) as Hgw. cbn [waker b2n] in Hgw. lia.
  - (* R_item j, queue visible: goes to R_wake *)
    pose proof (Hge (waker k)) as Hgw. cbn [waker] in Hgw. destruct (Nat.leb k0 (pos k)); cbn [b2n] in *; lia.
  - (* R_item j, queue not visible, more to check *)
    apply Nat.ltb_lt in Eb0.
    destruct (Nat.leb (S k0) (pos k)) eqn:E1.
    + specialize (HW Hst k Hk Hq). destruct (Nat.leb k0 (pos k)) eqn:E2; [cbn [b2n] in *; lia|]. apply Nat.leb_gt in E2. apply Nat.leb_le in E1. lia.
    + destruct (Nat.leb k0 (pos k)) eqn:E2.
      * (* this was the re-check of queue k itself *)
        apply Nat.leb_le in E2. apply Nat.leb_gt in E1. assert (pos k = k0) by lia.
        assert (item_order k0 = k) by (subst k0; apply item_order_pos; exact Hk). subst k.
        destruct (q_visible_false _ Eb) as [He|(m & tl & He)]; [contradiction|].
        pose proof (Hunl (item_order k0) m tl Hk He).
        pose proof (count_le1 is_linker (waker (item_order k0)) t' (linker_is_waker (item_order k0))). cbn [b2n] in *. lia.
      * specialize (HW Hst k Hk Hq). cbn [b2n] in *. lia.
  - (* R_item 3 done *)
    apply Nat.ltb_ge in Eb0.
    destruct (Nat.leb k0 (pos k)) eqn:E2.
    + apply Nat.leb_le in E2. pose proof (pos_le3 k). assert (pos k = k0) by lia.
      assert (item_order k0 = k) by (subst k0; apply item_order_pos; exact Hk). subst k.
      destruct (q_visible_false _ Eb) as [He|(m & tl & He)]; [contradiction|].
      pose proof (Hunl (item_order k0) m tl Hk He).
      pose proof (count_le1 is_linker (waker (item_order k0)) t' (linker_is_waker (item_order k0))). cbn [b2n] in *. lia.
    + specialize (HW Hst k Hk Hq). cbn [b2n] in *. lia.
Qed.

(* ---- everything together, for every reachable configuration ---------------------------- *)
Definition AllInv (N : nat -> nat) (c : cfg) : Prop := Inv c /\ IdInv N c /\ WakeInv c.

Definition init_ids (c : cfg) : list nat := flat_map (fun p => map mid (carried p)) (thr c).

Lemma init_N_occ c x : init_N c x = occ x (init_ids c).
Proof.
  unfold init_N, init_ids. induction (thr c) as [|p l IH]; [reflexivity|].
  cbn [wsum flat_map]. rewrite occ_app, IH. reflexivity.
Qed.

Lemma NoDup_occ_le1 l : NoDup l -> forall x, occ x l <= 1.
Proof. intros H x. unfold occ. apply (proj1 (NoDup_count_occ Nat.eq_dec l)). exact H. Qed.

Theorem AllInv_reachable sched named lim fb selfs initok others :
  let c0 := init_cfg named lim fb selfs initok others in
  Forall (fun p => init_pc p = true) others -> NoDup (init_ids c0) ->
  AllInv (init_N c0) (run sched c0).
Proof.
  intros c0 Hall Hnd.
  assert (HN : forall x, init_N c0 x <= 1) by (intros x; rewrite init_N_occ; apply NoDup_occ_le1; exact Hnd).
  apply (run_invariant (AllInv (init_N c0))).
  - intros c i c' (H1 & H2 & H3) Hs. split; [eapply step_inv; eauto | split; [eapply step_ids; eauto | eapply step_wake; eauto]].
  - split; [apply Inv_init; exact Hall | split; [apply IdInv_init; exact Hall|]].
    unfold WakeInv. cbn. discriminate.
Qed.

Lemma qget_ge3 s k : 3 <= k -> qget s k = qget s 3.
Proof. destruct k as [|[|[|k]]]; intros; try lia; reflexivity. Qed.

(* No lost wake-up: when every goroutine has finished and the process is asleep, its mailbox
   is empty (all four queues). *)
Lemma AllInv_no_lost_wakeup N c : AllInv N c -> quiescent c = true -> st (sh c) = Sleep ->
  forall k, qget (qs (sh c)) k = [].
Proof.
  intros (_ & _ & HW) Hq Hst k.
  assert (Hk3 : forall k, k <= 3 -> qget (qs (sh c)) k = []).
  { intros k' Hk'. destruct (qget (qs (sh c)) k') eqn:E; [reflexivity|exfalso].
    assert (Hne : qget (qs (sh c)) k' <> []) by (rewrite E; discriminate).
    specialize (HW Hst k' Hk' Hne). rewrite (count_quiescent (waker k') c Hq eq_refl) in HW. lia. }
  destruct (Nat.le_gt_cases k 3) as [H|H]; [apply Hk3; exact H|].
  rewrite qget_ge3 by lia. apply Hk3. lia.
Qed.

(* Truthful results and exactly-once, as counting statements valid in every reachable state *)
Lemma AllInv_ids N c : AllInv N c -> (forall x, N x <= 1) ->
  forall x,
    occ x (handled (sh c)) <= 1 /\
    (1 <= occ x (errs (sh c)) -> occ x (handled (sh c)) = 0 /\ Qa x (qs (sh c)) = 0) /\
    occ x (oks (sh c)) = occ x (handled (sh c)) + Ql x (qs (sh c)).
Proof.
  intros (_ & HId & _) HN x. destruct (HId x) as (I1 & I2 & _). specialize (HN x).
  repeat split; try lia.
Qed.

Lemma Ql_empty x s : (forall k, qget s k = []) -> Ql x s = 0.
Proof.
  intros H. unfold Ql. pose proof (H 0) as H0. pose proof (H 1) as H1. pose proof (H 2) as H2. pose proof (H 3) as H3.
  cbn [qget] in *. rewrite H0, H1, H2, H3. reflexivity.
Qed.

Lemma occ_perm l1 l2 : (forall x, occ x l1 = occ x l2) -> Permutation l1 l2.
Proof. intros H. apply (Permutation_count_occ Nat.eq_dec). exact H. Qed.

Lemma occ_le1_NoDup l : (forall x, occ x l <= 1) -> NoDup l.
Proof. intros H. apply (NoDup_count_occ Nat.eq_dec). exact H. Qed.

(* at the end of a run a process that was neither finalised nor failed its init is asleep *)
Lemma AllInv_quiescent_state N c : AllInv N c -> quiescent c = true ->
  fin (sh c) = false -> initfail (sh c) = false -> st (sh c) = Sleep.
Proof.
  intros (HI & _ & _) Hq Hfin Hif. unfold Inv, InvN in HI. destruct HI as (_ & Hnf & _).
  destruct (Hnf Hfin) as (_ & _ & H).
  rewrite (count_quiescent spawn_pre c Hq eq_refl), (count_quiescent run_pre c Hq eq_refl) in H.
  destruct (st (sh c)); try reflexivity; try (destruct H; lia); try contradiction.
  destruct H as (_ & _ & _ & [[_ H]|[H _]]); [lia|congruence].
Qed.

(* fallback: a message refused by the full mailbox and re-routed to the fallback process is
   re-routed exactly once and is never queued, handled or reported as an error here *)
Lemma AllInv_fallback N c : AllInv N c -> (forall x, N x <= 1) ->
  forall x, occ x (fbs (sh c)) <= 1 /\
    (1 <= occ x (fbs (sh c)) ->
       occ x (handled (sh c)) = 0 /\ Qa x (qs (sh c)) = 0 /\ occ x (errs (sh c)) = 0 /\ occ x (oks (sh c)) = 0).
Proof.
  intros (_ & HId & _) HN x. destruct (HId x) as (I1 & I2 & _). specialize (HN x).
  pose proof (qa_split x) as Hs.
  assert (Ql x (qs (sh c)) <= Qa x (qs (sh c))).
  { unfold Ql, Qa. pose proof (qa_split x (q0 (qs (sh c)))). pose proof (qa_split x (q1 (qs (sh c)))).
    pose proof (qa_split x (q2 (qs (sh c)))). pose proof (qa_split x (q3 (qs (sh c)))). lia. }
  repeat split; intros; lia.
Qed.
