(* C03 (ordering part): messages of one sender to one receiver within one priority class are
   handled in the order they were sent - for every schedule, any number of other senders,
   pid or name addressing.  Invariant: (handled ++ queue k ++ still carried by the sender),
   restricted to that sender's class-k messages, is always a subsequence of the sending order. *)
From Ergo Require Import Common.Base Sched.Model Sched.CountFacts Sched.QueueFacts Sched.IdInv Sched.ScanProofs
  Sched.MailboxProofs.

(* order-preserving subsequence *)
Inductive sublist : list nat -> list nat -> Prop :=
| sl_nil : forall l, sublist [] l
| sl_skip : forall x l1 l2, sublist l1 l2 -> sublist l1 (x :: l2)
| sl_keep : forall x l1 l2, sublist l1 l2 -> sublist (x :: l1) (x :: l2).

Lemma sublist_refl l : sublist l l.
Proof. induction l; [apply sl_nil | apply sl_keep; assumption]. Qed.

Lemma sublist_trans a b c : sublist a b -> sublist b c -> sublist a c.
Proof.
  intros Hab Hbc. revert a Hab. induction Hbc as [l|x l1 l2 H IH|x l1 l2 H IH]; intros a Hab.
  - inversion Hab; subst. apply sl_nil.
  - apply sl_skip. apply IH. exact Hab.
  - inversion Hab; subst; [apply sl_nil | apply sl_skip; apply IH; assumption | apply sl_keep; apply IH; assumption].
Qed.

Lemma sublist_app_head a b c : sublist b c -> sublist (a ++ b) (a ++ c).
Proof. intros H. induction a; cbn [app]; [exact H|apply sl_keep; exact IHa]. Qed.

Lemma sublist_drop_one a x c : sublist (a ++ c) (a ++ x :: c).
Proof. apply sublist_app_head. apply sl_skip. apply sublist_refl. Qed.

Lemma sublist_In a b x : sublist a b -> In x a -> In x b.
Proof. intros H. induction H; intros Hin; [destruct Hin | right; auto | destruct Hin; [left; auto|right; auto]]. Qed.

(* in a duplicate-free reference order, a subsequence lists its elements in that order *)
Lemma sublist_order a b x y pre mid_ post :
  sublist a b -> NoDup b -> a = pre ++ x :: mid_ ++ y :: post ->
  exists p1 p2 p3, b = p1 ++ x :: p2 ++ y :: p3.
Proof.
  intros H. revert pre. induction H as [l|z l1 l2 H IH|z l1 l2 H IH]; intros pre Hnd Ha.
  - destruct pre; discriminate.
  - inversion Hnd; subst. destruct (IH pre H3 eq_refl) as (p1 & p2 & p3 & E). exists (z :: p1), p2, p3. rewrite E. reflexivity.
  - inversion Hnd; subst. destruct pre as [|z' pre]; cbn [app] in Ha; inversion Ha; subst.
    + (* x is the head: y must occur later in l2 *)
      assert (Hy : In y l2) by (eapply sublist_In; [exact H|]; apply in_or_app; right; left; reflexivity).
      apply in_split in Hy. destruct Hy as (q1 & q2 & E). exists [], q1, q2. rewrite E. reflexivity.
    + destruct (IH pre H3 eq_refl) as (p1 & p2 & p3 & E). exists (z' :: p1), p2, p3. rewrite E. reflexivity.
Qed.

Section Fifo.
  Variable i : nat.          (* index of the sender goroutine we follow *)
  Variable k : nat.          (* the queue (priority class), k <= 3 *)
  Variable F : list nat.     (* ids of its class-k messages in sending order *)

  Definition fid (x : nat) : bool := existsb (Nat.eqb x) F.
  Definition fH (s : shared) : list nat := filter fid (handled s).
  Definition fQ (s : shared) (j : nat) : list nat := filter fid (map (fun e => mid (fst e)) (qget (qs s) j)).
  Definition cf (p : pc) : list nat := filter fid (map mid (carried p)).

  Definition J3 (s : shared) : Prop := forall j, j <= 3 -> j <> k -> fQ s j = [].
  Definition J5 (p : pc) : Prop := Forall (fun m => fid (mid m) = true -> qidx (mq m) = k) (carried p).
  Definition sender_pc (p : pc) : bool :=
    match p with S_load _ _ | S_alive _ _ _ | S_push _ _ _ | S_lim _ _ _ | S_link _ _ _ | S_cas _ _ | S_spawn _ _ | Done => true | _ => false end.

  Lemma cf_next_send b todo : cf (next_send b todo) = filter fid (map mid todo).
  Proof. destruct todo; reflexivity. Qed.
  Lemma cf_enter_cb m : cf (enter_cb m) = [].
  Proof. unfold enter_cb. destruct (mbeh m); reflexivity. Qed.

  Lemma qids_mark_linked x q :
    map (fun e : msg * bool => mid (fst e)) (mark_linked x q) = map (fun e => mid (fst e)) q.
  Proof.
    induction q as [|[m b] q IH]; [reflexivity|]. cbn [mark_linked].
    destruct (Nat.eqb (mid m) x); cbn [map fst]; [reflexivity|rewrite IH; reflexivity].
  Qed.

  Lemma fQ_qset s j q j' :
    fQ (upd_qs s (qset (qs s) j q)) j' =
    if Nat.eqb (qidx j) (qidx j') then filter fid (map (fun e => mid (fst e)) q) else fQ s j'.
  Proof. unfold fQ. cbn [qs upd_qs]. rewrite qget_qset. destruct (Nat.eqb (qidx j) (qidx j')); reflexivity. Qed.

  Lemma filter_snoc (f : nat -> bool) l x : filter f (l ++ [x]) = filter f l ++ (if f x then [x] else []).
  Proof. rewrite filter_app. reflexivity. Qed.

  (* ---- a step of another goroutine (it carries none of our messages) ------------------ *)
  Lemma other_step s p s' p' sp :
    step_pc s p = Some (s', p', sp) -> k <= 3 -> cf p = [] -> J3 s ->
    fH s' ++ fQ s' k = fH s ++ fQ s k /\ J3 s' /\ cf p' = [] /\ (forall np, sp = Some np -> cf np = []).
  Proof.
    intros Hstep Hk Hcf HJ3.
    assert (Hnp : forall np : pc, (None : option pc) = Some np -> cf np = []) by (intros; discriminate).
    destruct p; cbn [step_pc] in Hstep;
      repeat match type of Hstep with
      | context [match ?l with [] => _ | _ :: _ => _ end] => destruct l
      | context [match q_pop ?q with _ => _ end] => let E := fresh "Ep" in destruct (q_pop q) as [[? ?]|] eqn:E
      | context [if ?b then _ else _] => destruct b
      | context [match mbeh ?m with _ => _ end] => destruct (mbeh m)
      | context [match st ?x with _ => _ end] => destruct (st x)
      | context [match ?n with O => _ | S _ => _ end] => destruct n
      end;
      inversion Hstep; subst; clear Hstep;
      try (split; [reflexivity | split; [exact HJ3 | split; [first [reflexivity | exact Hcf | rewrite cf_next_send; unfold cf in Hcf; cbn [carried map filter] in Hcf; try (destruct (fid (mid m)); [discriminate|]); exact Hcf] | first [exact Hnp | intros np E; inversion E; reflexivity]]]]).
    - (* S_push: appends a message that is not ours *)
      unfold cf in Hcf. cbn [carried map filter] in Hcf.
      destruct (fid (mid m)) eqn:Ef; [discriminate|].
      assert (Hq : forall j', fQ (upd_qs s (qset (qs s) (mq m) (qget (qs s) (mq m) ++ [(m, false)]))) j' = fQ s j').
      { intros j'. rewrite fQ_qset. destruct (Nat.eqb (qidx (mq m)) (qidx j')) eqn:E; [|reflexivity].
        apply Nat.eqb_eq in E. rewrite map_app, filter_app. cbn [map fst filter]. rewrite Ef, app_nil_r.
        unfold fQ. rewrite <- (qget_qidx (qs s) j'), <- E, qget_qidx. reflexivity. }
      split; [unfold fH; cbn [handled upd_qs]; rewrite Hq; reflexivity|].
      split; [intros j Hj Hne; rewrite Hq; apply HJ3; assumption|]. split; [exact Hcf|exact Hnp].
    - (* S_lim: bounded queue accepts a message that is not ours *)
      unfold cf in Hcf. cbn [carried map filter] in Hcf.
      destruct (fid (mid m)) eqn:Ef; [discriminate|].
      assert (Hq : forall j', fQ (upd_qs s (qset (qs s) (mq m) (qget (qs s) (mq m) ++ [(m, false)]))) j' = fQ s j').
      { intros j'. rewrite fQ_qset. destruct (Nat.eqb (qidx (mq m)) (qidx j')) eqn:E; [|reflexivity].
        apply Nat.eqb_eq in E. rewrite map_app, filter_app. cbn [map fst filter]. rewrite Ef, app_nil_r.
        unfold fQ. rewrite <- (qget_qidx (qs s) j'), <- E, qget_qidx. reflexivity. }
      split; [unfold fH; cbn [handled upd_qs]; rewrite Hq; reflexivity|].
      split; [intros j Hj Hne; rewrite Hq; apply HJ3; assumption|]. split; [exact Hcf|exact Hnp].
    - (* S_link: ids of the queue unchanged *)
      assert (Hq : forall j', fQ (add_ok (upd_qs s (qset (qs s) (mq m) (mark_linked (mid m) (qget (qs s) (mq m))))) (mid m)) j' = fQ s j').
      { intros j'. unfold fQ. cbn [qs add_ok upd_qs]. rewrite qget_qset.
        destruct (Nat.eqb (qidx (mq m)) (qidx j')) eqn:E; [|reflexivity].
        apply Nat.eqb_eq in E. rewrite qids_mark_linked. rewrite <- (qget_qidx (qs s) j'), <- E, qget_qidx. reflexivity. }
      split; [unfold fH; cbn [handled add_ok upd_qs]; rewrite Hq; reflexivity|].
      split; [intros j Hj Hne; rewrite Hq; apply HJ3; assumption|]. split; [exact Hcf|exact Hnp].
    - (* R_pop hit *)
      apply q_pop_some in Ep. rewrite cf_enter_cb.
      assert (Hq : forall j', fQ (add_handled (upd_qs s (qset (qs s) k0 q)) (mid m)) j' =
                              if Nat.eqb (qidx k0) (qidx j') then filter fid (map (fun e => mid (fst e)) q) else fQ s j').
      { intros j'. unfold fQ. cbn [qs add_handled upd_qs]. rewrite qget_qset. destruct (Nat.eqb (qidx k0) (qidx j')); reflexivity. }
      destruct (Nat.eqb (qidx k0) k) eqn:Ek.
      + apply Nat.eqb_eq in Ek.
        split.
        * unfold fH. cbn [handled add_handled upd_qs]. rewrite Hq, (qidx_le3 k Hk), Ek, Nat.eqb_refl.
          rewrite filter_snoc. unfold fQ. rewrite <- Ek, qget_qidx, Ep. cbn [map fst filter].
          destruct (fid (mid m)); rewrite <- app_assoc; reflexivity.
        * split; [|split; [reflexivity|exact Hnp]].
          intros j Hj Hne. rewrite Hq, (qidx_le3 j Hj).
          destruct (Nat.eqb (qidx k0) j) eqn:E; [apply Nat.eqb_eq in E; congruence|]. apply HJ3; assumption.
      + apply Nat.eqb_neq in Ek.
        assert (Hk0 : qidx k0 <= 3) by (destruct k0 as [|[|[|?]]]; cbn; lia).
        pose proof (HJ3 (qidx k0) Hk0 Ek) as Hz. unfold fQ in Hz. rewrite qget_qidx, Ep in Hz. cbn [map fst filter] in Hz.
        destruct (fid (mid m)) eqn:Ef; [discriminate|].
        split.
        * unfold fH. cbn [handled add_handled upd_qs]. rewrite Hq, (qidx_le3 k Hk).
          destruct (Nat.eqb (qidx k0) k) eqn:E; [apply Nat.eqb_eq in E; congruence|].
          rewrite filter_snoc, Ef, app_nil_r. reflexivity.
        * split; [|split; [reflexivity|exact Hnp]].
          intros j Hj Hne. rewrite Hq, (qidx_le3 j Hj).
          destruct (Nat.eqb (qidx k0) j) eqn:E; [exact Hz|]. apply HJ3; assumption.
    - (* P_cb: self-send push of a message that is not ours *)
      unfold cf in Hcf. cbn [carried map filter] in Hcf.
      destruct (fid (mid m)) eqn:Ef; [discriminate|].
      assert (Hq : forall j', fQ (upd_qs s (qset (qs s) (mq m) (qget (qs s) (mq m) ++ [(m, false)]))) j' = fQ s j').
      { intros j'. rewrite fQ_qset. destruct (Nat.eqb (qidx (mq m)) (qidx j')) eqn:E; [|reflexivity].
        apply Nat.eqb_eq in E. rewrite map_app, filter_app. cbn [map fst filter]. rewrite Ef, app_nil_r.
        unfold fQ. rewrite <- (qget_qidx (qs s) j'), <- E, qget_qidx. reflexivity. }
      split; [unfold fH; cbn [handled upd_qs]; rewrite Hq; reflexivity|].
      split; [intros j Hj Hne; rewrite Hq; apply HJ3; assumption|]. split; [exact Hcf|exact Hnp].
    - (* P_lim refused: the self-send gets ErrProcessMailboxFull *)
      unfold cf in Hcf. cbn [carried map filter] in Hcf.
      destruct (fid (mid m)) eqn:Ef; [discriminate|].
      split; [reflexivity|]. split; [exact HJ3|]. split; [exact Hcf|exact Hnp].
    - (* P_lim *)
      unfold cf in Hcf. cbn [carried map filter] in Hcf.
      destruct (fid (mid m)) eqn:Ef; [discriminate|].
      assert (Hq : forall j', fQ (upd_qs s (qset (qs s) (mq m) (qget (qs s) (mq m) ++ [(m, false)]))) j' = fQ s j').
      { intros j'. rewrite fQ_qset. destruct (Nat.eqb (qidx (mq m)) (qidx j')) eqn:E; [|reflexivity].
        apply Nat.eqb_eq in E. rewrite map_app, filter_app. cbn [map fst filter]. rewrite Ef, app_nil_r.
        unfold fQ. rewrite <- (qget_qidx (qs s) j'), <- E, qget_qidx. reflexivity. }
      split; [unfold fH; cbn [handled upd_qs]; rewrite Hq; reflexivity|].
      split; [intros j Hj Hne; rewrite Hq; apply HJ3; assumption|]. split; [exact Hcf|exact Hnp].
    - (* P_link *)
      assert (Hq : forall j', fQ (add_ok (upd_qs s (qset (qs s) (mq m) (mark_linked (mid m) (qget (qs s) (mq m))))) (mid m)) j' = fQ s j').
      { intros j'. unfold fQ. cbn [qs add_ok upd_qs]. rewrite qget_qset.
        destruct (Nat.eqb (qidx (mq m)) (qidx j')) eqn:E; [|reflexivity].
        apply Nat.eqb_eq in E. rewrite qids_mark_linked. rewrite <- (qget_qidx (qs s) j'), <- E, qget_qidx. reflexivity. }
      split; [unfold fH; cbn [handled add_ok upd_qs]; rewrite Hq; reflexivity|].
      split; [intros j Hj Hne; rewrite Hq; apply HJ3; assumption|]. split; [exact Hcf|exact Hnp].
  Qed.

  (* ---- a step of the sender itself ---------------------------------------------------- *)
  Lemma J5_tail m todo b : J5 (S_push b m todo) -> Forall (fun m => fid (mid m) = true -> qidx (mq m) = k) todo.
  Proof. unfold J5. cbn [carried]. intros H. inversion H; assumption. Qed.

  Lemma sublist_drop_carried A Q x C : sublist (A ++ Q ++ (if fid x then x :: C else C)) F -> sublist (A ++ Q ++ C) F.
  Proof.
    intros H. destruct (fid x); [|exact H].
    eapply sublist_trans; [|exact H]. rewrite !app_assoc. apply sublist_drop_one.
  Qed.

  Lemma own_step s p s' p' sp :
    step_pc s p = Some (s', p', sp) -> k <= 3 -> sender_pc p = true -> J5 p -> J3 s ->
    sublist (fH s ++ fQ s k ++ cf p) F ->
    sublist (fH s' ++ fQ s' k ++ cf p') F /\ J3 s' /\ J5 p' /\ sender_pc p' = true /\
    (forall np, sp = Some np -> cf np = []).
  Proof.
    intros Hstep Hk Hsp H5 H3 Hsub.
    assert (Hnp : forall np : pc, (None : option pc) = Some np -> cf np = []) by (intros; discriminate).
    assert (Hns : forall b todo, sender_pc (next_send b todo) = true) by (intros b [|? ?]; reflexivity).
    assert (H5ns : forall b todo, Forall (fun m => fid (mid m) = true -> qidx (mq m) = k) todo -> J5 (next_send b todo)).
    { intros b [|m0 t0] H; unfold J5; cbn [next_send carried]; [constructor|exact H]. }
    destruct p; try discriminate; cbn [step_pc] in Hstep.
    - (* S_load *)
      destruct todo as [|m todo]; [inversion Hstep; subst; repeat split; auto; unfold J5; constructor|].
      destruct (if byname then innames s else intable s); inversion Hstep; subst; clear Hstep.
      + repeat split; auto.
      + rewrite cf_next_send. unfold cf in Hsub. cbn [carried map filter] in Hsub.
        split; [apply (sublist_drop_carried _ _ (mid m)); exact Hsub|].
        split; [exact H3|]. split; [apply H5ns; unfold J5 in H5; cbn [carried] in H5; inversion H5; assumption|].
        split; [apply Hns|exact Hnp].
    - (* S_alive *)
      destruct (alive (st s) || _); inversion Hstep; subst; clear Hstep.
      + repeat split; auto.
      + rewrite cf_next_send. unfold cf in Hsub. cbn [carried map filter] in Hsub.
        split; [apply (sublist_drop_carried _ _ (mid m)); exact Hsub|].
        split; [exact H3|]. split; [apply H5ns; unfold J5 in H5; cbn [carried] in H5; inversion H5; assumption|].
        split; [apply Hns|exact Hnp].
    - (* S_push *)
      destruct (limit s) eqn:Elim; inversion Hstep; subst; clear Hstep.
      2: { (* bounded queue: the length check comes first, nothing changes yet *)
           split; [exact Hsub|]. split; [exact H3|]. split; [exact H5|]. split; [reflexivity|exact Hnp]. }
      assert (H5t : Forall (fun m => fid (mid m) = true -> qidx (mq m) = k) todo) by (unfold J5 in H5; cbn [carried] in H5; inversion H5; assumption).
      unfold J5 in H5. cbn [carried] in H5. inversion H5 as [|? ? Hm _]; subst.
      unfold cf in Hsub. cbn [carried map filter] in Hsub.
      assert (Hq : forall j', fQ (upd_qs s (qset (qs s) (mq m) (qget (qs s) (mq m) ++ [(m, false)]))) j' =
                              if Nat.eqb (qidx (mq m)) (qidx j') then fQ s j' ++ (if fid (mid m) then [mid m] else []) else fQ s j').
      { intros j'. rewrite fQ_qset. destruct (Nat.eqb (qidx (mq m)) (qidx j')) eqn:E; [|reflexivity].
        apply Nat.eqb_eq in E. rewrite map_app, filter_app. cbn [map fst filter].
        unfold fQ. rewrite <- (qget_qidx (qs s) j'), <- E, qget_qidx. destruct (fid (mid m)); reflexivity. }
      unfold fH in *. cbn [handled upd_qs]. unfold cf. cbn [carried].
      destruct (fid (mid m)) eqn:Ef.
      + specialize (Hm eq_refl). rewrite Hq, (qidx_le3 k Hk), Hm, Nat.eqb_refl.
        split; [rewrite <- !app_assoc; cbn [app]; exact Hsub|].
        split; [|split; [exact H5t|split; [reflexivity|exact Hnp]]].
        intros j Hj Hne. rewrite Hq, (qidx_le3 j Hj), Hm.
        destruct (Nat.eqb k j) eqn:E; [apply Nat.eqb_eq in E; congruence|]. apply H3; assumption.
      + assert (Hq' : forall j', fQ (upd_qs s (qset (qs s) (mq m) (qget (qs s) (mq m) ++ [(m, false)]))) j' = fQ s j').
        { intros j'. rewrite Hq. destruct (Nat.eqb (qidx (mq m)) (qidx j')); [apply app_nil_r|reflexivity]. }
        rewrite Hq'. split; [exact Hsub|].
        split; [intros j Hj Hne; rewrite Hq'; apply H3; assumption|]. split; [exact H5t|split; [reflexivity|exact Hnp]].
    - (* S_lim *)
      destruct (Nat.leb (limit s) (length (qget (qs s) (mq m)))) eqn:Efull.
      * (* refused: error or re-routed to the fallback; the message leaves the sender *)
        assert (Hdrop : sublist (fH s ++ fQ s k ++ cf (next_send byname todo)) F /\
                        J5 (next_send byname todo) /\ sender_pc (next_send byname todo) = true).
        { rewrite cf_next_send. unfold cf in Hsub. cbn [carried map filter] in Hsub.
          split; [apply (sublist_drop_carried _ _ (mid m)); exact Hsub|].
          split; [apply H5ns; unfold J5 in H5; cbn [carried] in H5; inversion H5; assumption|apply Hns]. }
        destruct Hdrop as (D1 & D2 & D3).
        destruct (fbon s && negb (is_exit_beh (mbeh m))); inversion Hstep; subst; clear Hstep;
          (split; [exact D1|]; split; [exact H3|]; split; [exact D2|]; split; [exact D3|exact Hnp]).
      * inversion Hstep; subst; clear Hstep.
      assert (H5t : Forall (fun m => fid (mid m) = true -> qidx (mq m) = k) todo) by (unfold J5 in H5; cbn [carried] in H5; inversion H5; assumption).
      unfold J5 in H5. cbn [carried] in H5. inversion H5 as [|? ? Hm _]; subst.
      unfold cf in Hsub. cbn [carried map filter] in Hsub.
      assert (Hq : forall j', fQ (upd_qs s (qset (qs s) (mq m) (qget (qs s) (mq m) ++ [(m, false)]))) j' =
                              if Nat.eqb (qidx (mq m)) (qidx j') then fQ s j' ++ (if fid (mid m) then [mid m] else []) else fQ s j').
      { intros j'. rewrite fQ_qset. destruct (Nat.eqb (qidx (mq m)) (qidx j')) eqn:E; [|reflexivity].
        apply Nat.eqb_eq in E. rewrite map_app, filter_app. cbn [map fst filter].
        unfold fQ. rewrite <- (qget_qidx (qs s) j'), <- E, qget_qidx. destruct (fid (mid m)); reflexivity. }
      unfold fH in *. cbn [handled upd_qs]. unfold cf. cbn [carried].
      destruct (fid (mid m)) eqn:Ef.
      + specialize (Hm eq_refl). rewrite Hq, (qidx_le3 k Hk), Hm, Nat.eqb_refl.
        split; [rewrite <- !app_assoc; cbn [app]; exact Hsub|].
        split; [|split; [exact H5t|split; [reflexivity|exact Hnp]]].
        intros j Hj Hne. rewrite Hq, (qidx_le3 j Hj), Hm.
        destruct (Nat.eqb k j) eqn:E; [apply Nat.eqb_eq in E; congruence|]. apply H3; assumption.
      + assert (Hq' : forall j', fQ (upd_qs s (qset (qs s) (mq m) (qget (qs s) (mq m) ++ [(m, false)]))) j' = fQ s j').
        { intros j'. rewrite Hq. destruct (Nat.eqb (qidx (mq m)) (qidx j')); [apply app_nil_r|reflexivity]. }
        rewrite Hq'. split; [exact Hsub|].
        split; [intros j Hj Hne; rewrite Hq'; apply H3; assumption|]. split; [exact H5t|split; [reflexivity|exact Hnp]].
    - (* S_link *)
      inversion Hstep; subst; clear Hstep.
      assert (Hq : forall j', fQ (add_ok (upd_qs s (qset (qs s) (mq m) (mark_linked (mid m) (qget (qs s) (mq m))))) (mid m)) j' = fQ s j').
      { intros j'. unfold fQ. cbn [qs add_ok upd_qs]. rewrite qget_qset.
        destruct (Nat.eqb (qidx (mq m)) (qidx j')) eqn:E; [|reflexivity].
        apply Nat.eqb_eq in E. rewrite qids_mark_linked. rewrite <- (qget_qidx (qs s) j'), <- E, qget_qidx. reflexivity. }
      unfold fH in *. cbn [handled add_ok upd_qs]. rewrite Hq.
      split; [exact Hsub|]. split; [intros j Hj Hne; rewrite Hq; apply H3; assumption|].
      split; [exact H5|split; [reflexivity|exact Hnp]].
    - (* S_cas *)
      destruct (pstate_eqb (st s) Sleep); inversion Hstep; subst; clear Hstep.
      + repeat split; auto.
      + rewrite cf_next_send. split; [exact Hsub|]. split; [exact H3|]. split; [apply H5ns; exact H5|]. split; [apply Hns|exact Hnp].
    - (* S_spawn *)
      inversion Hstep; subst; clear Hstep. rewrite cf_next_send.
      split; [exact Hsub|]. split; [exact H3|]. split; [apply H5ns; exact H5|]. split; [apply Hns|].
      intros np E. inversion E. reflexivity.
  Qed.

  (* ---- the invariant on configurations -------------------------------------------------- *)
  Definition FifoInv (c : cfg) : Prop :=
    exists p, nth_error (thr c) i = Some p /\ sender_pc p = true /\ J5 p /\ J3 (sh c) /\
      sublist (fH (sh c) ++ fQ (sh c) k ++ cf p) F /\
      (forall j p', j <> i -> nth_error (thr c) j = Some p' -> cf p' = []).

  Lemma nth_error_set_nth_other (l : list pc) j j' x : j <> j' -> nth_error (set_nth l j x) j' = nth_error l j'.
  Proof.
    revert j j'; induction l as [|y l IH]; intros [|j] [|j'] H; cbn [set_nth nth_error]; try reflexivity; try lia.
    apply IH. lia.
  Qed.

  Lemma nth_error_snoc (l : list pc) x j p : nth_error (l ++ [x]) j = Some p ->
    nth_error l j = Some p \/ (j = length l /\ p = x).
  Proof.
    intros H. destruct (Nat.lt_ge_cases j (length l)) as [Hlt|Hge].
    - left. rewrite nth_error_app1 in H by exact Hlt. exact H.
    - right. rewrite nth_error_app2 in H by exact Hge.
      destruct (j - length l) as [|d] eqn:E; cbn in H; [inversion H; split; [lia|reflexivity]|destruct d; discriminate].
  Qed.

  Lemma step_fifo c j c' : k <= 3 -> FifoInv c -> step c j = Some c' -> FifoInv c'.
  Proof.
    intros Hk (p & Hn & Hsp & H5 & H3 & Hsub & Hoth) Hs.
    unfold step in Hs. destruct (nth_error (thr c) j) as [pj|] eqn:Hnj; [|discriminate].
    destruct (step_pc (sh c) pj) as [[[s' pj'] sp]|] eqn:Hp; [|discriminate].
    inversion Hs; subst; clear Hs. cbn [sh thr].
    assert (Hlen : i < length (thr c)) by (apply nth_error_Some; rewrite Hn; discriminate).
    destruct (Nat.eq_dec j i) as [->|Hne].
    - (* the sender itself *)
      rewrite Hn in Hnj. inversion Hnj; subst pj.
      destruct (own_step _ _ _ _ _ Hp Hk Hsp H5 H3 Hsub) as (Hsub' & H3' & H5' & Hsp' & Hnp).
      exists pj'. cbn [sh thr]. split.
      { destruct sp; [rewrite nth_error_app1 by (rewrite length_set_nth; exact Hlen)|];
          eapply nth_error_set_nth_same; eauto. }
      repeat split; auto.
      intros j' p' Hj' Hn'. destruct sp as [np|].
      + apply nth_error_snoc in Hn'. destruct Hn' as [Hn'|[_ ->]]; [|apply Hnp; reflexivity].
        rewrite nth_error_set_nth_other in Hn' by lia. eapply Hoth; eauto.
      + rewrite nth_error_set_nth_other in Hn' by lia. eapply Hoth; eauto.
    - (* another goroutine *)
      pose proof (Hoth j pj Hne Hnj) as Hcf.
      destruct (other_step _ _ _ _ _ Hp Hk Hcf H3) as (Heq & H3' & Hcf' & Hnp).
      exists p. cbn [sh thr]. split.
      { destruct sp; [rewrite nth_error_app1 by (rewrite length_set_nth; exact Hlen)|];
          rewrite nth_error_set_nth_other by exact Hne; exact Hn. }
      split; [exact Hsp|]. split; [exact H5|]. split; [exact H3'|]. split.
      { rewrite app_assoc, Heq, <- app_assoc. exact Hsub. }
      intros j' p' Hj' Hn'.
      assert (Hcase : nth_error (set_nth (thr c) j pj') j' = Some p' -> cf p' = []).
      { intros Hx. destruct (Nat.eq_dec j j') as [<-|Hjj].
        - rewrite (nth_error_set_nth_same _ _ _ pj' Hnj) in Hx. inversion Hx; subst. exact Hcf'.
        - rewrite nth_error_set_nth_other in Hx by exact Hjj. eapply Hoth; eauto. }
      destruct sp as [np|]; [|apply Hcase; exact Hn'].
      apply nth_error_snoc in Hn'. destruct Hn' as [Hn'|[_ ->]]; [apply Hcase; exact Hn'|apply Hnp; reflexivity].
  Qed.
End Fifo.

(* ---- initial configuration and the theorem ------------------------------------------------ *)
Lemma sublist_app_l a b : sublist a (a ++ b).
Proof. induction a; cbn [app]; [apply sl_nil|apply sl_keep; assumption]. Qed.

Lemma existsb_eqb_In x l : existsb (Nat.eqb x) l = true <-> In x l.
Proof.
  rewrite existsb_exists. split.
  - intros (y & Hy & E). apply Nat.eqb_eq in E. subst. exact Hy.
  - intros H. exists x. split; [exact H|apply Nat.eqb_refl].
Qed.

Lemma NoDup_map_mid_inj (l : list msg) a b :
  NoDup (map mid l) -> In a l -> In b l -> mid a = mid b -> a = b.
Proof.
  induction l as [|m l IH]; intros Hnd Ha Hb E; [destruct Ha|].
  cbn [map] in Hnd. inversion Hnd as [|? ? Hnotin Hnd']; subst.
  destruct Ha as [->|Ha]; destruct Hb as [->|Hb]; auto.
  - exfalso. apply Hnotin. rewrite E. apply in_map. exact Hb.
  - exfalso. apply Hnotin. rewrite <- E. apply in_map. exact Ha.
Qed.

(* restricted to its own (duplicate-free) list, "is one of my class-k messages" selects exactly them *)
Lemma filter_fid_self (c : msg -> bool) (l : list msg) :
  NoDup (map mid l) ->
  filter (fid (map mid (filter c l))) (map mid l) = map mid (filter c l).
Proof.
  induction l as [|m l IH]; intros Hnd; [reflexivity|].
  cbn [map] in Hnd. inversion Hnd as [|? ? Hnotin Hnd']; subst.
  cbn [filter map]. destruct (c m) eqn:Ec; cbn [map].
  - unfold fid at 1. cbn [existsb]. rewrite Nat.eqb_refl. cbn [orb]. f_equal.
    rewrite <- (IH Hnd') at 2. apply filter_ext_in. intros x Hx. unfold fid. cbn [existsb].
    destruct (Nat.eqb x (mid m)) eqn:E; [apply Nat.eqb_eq in E; subst; contradiction|reflexivity].
  - assert (fid (map mid (filter c l)) (mid m) = false) as ->.
    { unfold fid. destruct (existsb (Nat.eqb (mid m)) (map mid (filter c l))) eqn:E; [|reflexivity].
      apply existsb_eqb_In in E. exfalso. apply Hnotin.
      apply in_map_iff in E. destruct E as (m' & Em & Hin). apply filter_In in Hin. rewrite <- Em. apply in_map. tauto. }
    apply IH. exact Hnd'.
Qed.

Lemma NoDup_app_remove_l (a b : list nat) : NoDup (a ++ b) -> NoDup b.
Proof. induction a as [|x a IH]; cbn [app]; intros H; [exact H|inversion H; auto]. Qed.
Lemma NoDup_app_remove_r (a b : list nat) : NoDup (a ++ b) -> NoDup a.
Proof.
  induction a as [|x a IH]; cbn [app]; intros H; [constructor|]. inversion H; subst. constructor; [|auto].
  intros Hin. apply H2. apply in_or_app. left. exact Hin.
Qed.

Lemma NoDup_flat_map_disjoint {A} (g : A -> list nat) (l : list A) i j a b x :
  NoDup (flat_map g l) -> nth_error l i = Some a -> nth_error l j = Some b -> i <> j ->
  In x (g a) -> In x (g b) -> False.
Proof.
  revert i j. induction l as [|y l IH]; intros i j Hnd Hi Hj Hne Ha Hb; [destruct i; discriminate|].
  cbn [flat_map] in Hnd. apply NoDup_app_remove_l in Hnd as Hnd'.
  assert (Hdis : forall z, In z (g y) -> In z (flat_map g l) -> False).
  { clear -Hnd. induction (g y) as [|w t IHt]; intros z Hz Hz'; [destruct Hz|].
    cbn [app] in Hnd. inversion Hnd as [|? ? Hn Hnd2]; subst. destruct Hz as [->|Hz].
    - apply Hn. apply in_or_app. right. exact Hz'.
    - eapply IHt; eauto. }
  destruct i as [|i]; destruct j as [|j]; cbn [nth_error] in Hi, Hj; try lia.
  - inversion Hi; subst. apply (Hdis x Ha). apply in_flat_map. exists b. split; [eapply nth_error_In; eauto|exact Hb].
  - inversion Hj; subst. apply (Hdis x Hb). apply in_flat_map. exists a. split; [eapply nth_error_In; eauto|exact Ha].
  - eapply (IH i j); eauto.
Qed.

Lemma NoDup_flat_map_nth {A} (g : A -> list nat) (l : list A) i a :
  NoDup (flat_map g l) -> nth_error l i = Some a -> NoDup (g a).
Proof.
  revert i. induction l as [|y l IH]; intros i Hnd Hi; [destruct i; discriminate|].
  cbn [flat_map] in Hnd. destruct i as [|i]; cbn [nth_error] in Hi.
  - inversion Hi; subst. eapply NoDup_app_remove_r. exact Hnd.
  - apply NoDup_app_remove_l in Hnd. eapply IH; eauto.
Qed.

Lemma FifoInv_init named lim fb selfs initok others i b orig k :
  let c0 := init_cfg named lim fb selfs initok others in
  nth_error (thr c0) i = Some (S_load b orig) -> NoDup (init_ids c0) ->
  FifoInv i k (map mid (filter (fun m => Nat.eqb (qidx (mq m)) k) orig)) c0.
Proof.
  intros c0 Hn Hnd. set (F := map mid (filter (fun m => Nat.eqb (qidx (mq m)) k) orig)).
  assert (Hndo : NoDup (map mid orig)).
  { apply (NoDup_flat_map_nth (fun p => map mid (carried p)) (thr c0) i (S_load b orig) Hnd Hn). }
  exists (S_load b orig). split; [exact Hn|]. split; [reflexivity|]. split.
  { (* J5 *) unfold J5. cbn [carried]. apply Forall_forall. intros m Hm Hf.
    unfold fid in Hf. apply existsb_eqb_In in Hf. unfold F in Hf.
    apply in_map_iff in Hf. destruct Hf as (m0 & E & Hin). apply filter_In in Hin. destruct Hin as [Hin Hc].
    assert (m0 = m) by (eapply NoDup_map_mid_inj; eauto). subst. apply Nat.eqb_eq. exact Hc. }
  split.
  { intros j Hj Hne. unfold fQ. destruct j as [|[|[|?]]]; reflexivity. }
  split.
  { unfold fH, fQ, cf, c0, init_cfg, init_shared. cbn [sh handled qs carried].
    replace (qget qs_empty k) with (@nil (msg * bool)) by (destruct k as [|[|[|?]]]; reflexivity).
    cbn [map filter app]. unfold F. rewrite filter_fid_self by exact Hndo. apply sublist_refl. }
  intros j p' Hj Hn'. unfold cf.
  destruct (filter (fid F) (map mid (carried p'))) as [|x t] eqn:E; [reflexivity|exfalso].
  assert (Hx : In x (filter (fid F) (map mid (carried p')))) by (rewrite E; left; reflexivity).
  apply filter_In in Hx. destruct Hx as [Hx1 Hx2]. unfold fid in Hx2. apply existsb_eqb_In in Hx2.
  assert (Hx3 : In x (map mid orig)).
  { unfold F in Hx2. apply in_map_iff in Hx2. destruct Hx2 as (m0 & <- & Hin). apply filter_In in Hin. apply in_map. tauto. }
  eapply (NoDup_flat_map_disjoint (fun p => map mid (carried p)) (thr c0) i j (S_load b orig) p' x); eauto.
Qed.

(* C03, per-sender FIFO: whatever the schedule and whatever the other goroutines do, the
   class-k messages of one sender that have been handled were handled in sending order. *)
Theorem per_sender_fifo sched named lim fb selfs initok others i b orig k :
  let c0 := init_cfg named lim fb selfs initok others in
  nth_error (thr c0) i = Some (S_load b orig) -> k <= 3 -> NoDup (init_ids c0) ->
  let F := map mid (filter (fun m => Nat.eqb (qidx (mq m)) k) orig) in
  sublist (filter (fid F) (handled (sh (run sched c0)))) F.
Proof.
  intros c0 Hn Hk Hnd F.
  assert (HI : FifoInv i k F (run sched c0)).
  { apply (run_invariant (FifoInv i k F)).
    - intros c j c' H Hs. eapply step_fifo; eauto.
    - apply (FifoInv_init named lim fb selfs initok others i b orig k); assumption. }
  destruct HI as (p & _ & _ & _ & _ & Hsub & _).
  eapply sublist_trans; [|exact Hsub]. apply sublist_app_l.
Qed.

(* the same as an order statement on the handled list itself *)
Theorem per_sender_fifo_order sched named lim fb selfs initok others i b orig k x y pre mid_ post :
  let c0 := init_cfg named lim fb selfs initok others in
  nth_error (thr c0) i = Some (S_load b orig) -> k <= 3 -> NoDup (init_ids c0) ->
  let F := map mid (filter (fun m => Nat.eqb (qidx (mq m)) k) orig) in
  handled (sh (run sched c0)) = pre ++ x :: mid_ ++ y :: post -> In x F -> In y F ->
  exists p1 p2 p3, F = p1 ++ x :: p2 ++ y :: p3.
Proof.
  intros c0 Hn Hk Hnd F Hh Hx Hy.
  pose proof (per_sender_fifo sched named lim fb selfs initok others i b orig k Hn Hk Hnd) as Hsub. cbv zeta in Hsub. fold c0 in Hsub. fold F in Hsub.
  rewrite Hh in Hsub. rewrite filter_app in Hsub. cbn [filter] in Hsub.
  assert (Ex : fid F x = true) by (apply existsb_eqb_In; exact Hx).
  assert (Ey : fid F y = true) by (apply existsb_eqb_In; exact Hy).
  rewrite Ex in Hsub. rewrite filter_app in Hsub. cbn [filter] in Hsub. rewrite Ey in Hsub.
  assert (HndF : NoDup F).
  { unfold F. assert (Hndo : NoDup (map mid orig)) by
      (apply (NoDup_flat_map_nth (fun p => map mid (carried p)) (thr c0) i (S_load b orig) Hnd Hn)).
    clear -Hndo. induction orig as [|m l IH]; [constructor|]. cbn [map] in Hndo. inversion Hndo; subst.
    cbn [filter]. destruct (Nat.eqb (qidx (mq m)) k); cbn [map]; [constructor; [|apply IH; assumption]|apply IH; assumption].
    intros Hin. apply in_map_iff in Hin. destruct Hin as (m' & E & Hin). apply filter_In in Hin. apply H1. rewrite <- E. apply in_map. tauto. }
  eapply sublist_order; [exact Hsub|exact HndF|reflexivity].
Qed.
