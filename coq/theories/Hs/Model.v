(* Hs engine — symbolic (Dolev-Yao style) model of ergo's handshake (net/handshake/{start,accept,join}.go),
   of the cookie selection and permission tables of node/network.go and of the flag / env switches of
   net/proto/connection.go.  Definitions only; proofs are in Hs/Proofs.v.

   SHA-256 is a free constructor [H]; the argument of a hash in the Go code is always
       fmt.Sprintf("%s:%s[:%s]", x, y[, z])
   i.e. the ':'-joined concatenation of strings.  A term [Pair a b] put where the code expects ONE string
   stands for the string "a:b" (an attacker may send a salt that contains ':'), therefore hashing first
   flattens pairs: [mkH [Pair a b; c] = mkH [a; b; c]] exactly as the bytes coincide.
   Random salts / connection ids (lib.RandomString) are [Salt n] with distinct numbers. *)
From Ergo Require Import Common.Base.
Local Open Scope N_scope.

(* ------------------------------------------------------------------------------------------------ *)
(* Terms                                                                                            *)

Inductive term :=
| Salt (n : N)            (* lib.RandomString(...) drawn by an honest party: salt or connection id *)
| Cookie (c : N)          (* a cookie; 0 is the empty string *)
| Str (s : N)             (* any public string (node names, attacker chosen strings); Str 0 = "" *)
| Num (z : Z)
| Pair (a b : term)
| H (l : list term).      (* hex(sha256(join ":" l)) *)

Definition tempty : term := Str 0.

Fixpoint term_eqb (a b : term) {struct a} : bool :=
  match a, b with
  | Salt n, Salt m => N.eqb n m
  | Cookie n, Cookie m => N.eqb n m
  | Str n, Str m => N.eqb n m
  | Num n, Num m => Z.eqb n m
  | Pair a1 a2, Pair b1 b2 => term_eqb a1 b1 && term_eqb a2 b2
  | H l, H l' =>
      (fix go (l l' : list term) {struct l} : bool :=
         match l, l' with
         | [], [] => true
         | x :: t, y :: t' => term_eqb x y && go t t'
         | _, _ => false
         end) l l'
  | _, _ => false
  end.

(* the string a term stands for, as the list of ':'-separated atoms *)
Fixpoint flat (t : term) : list term :=
  match t with
  | Pair a b => flat a ++ flat b
  | _ => [t]
  end.

Definition mkH (l : list term) : term := H (flat_map flat l).

(* ------------------------------------------------------------------------------------------------ *)
(* Flags (gen.NetworkFlags) and their wire form (MarshalEDF / UnmarshalEDF: Enable=false sends 0)   *)

Record flags := mk_flags {
  f_enable : bool; f_spawn : bool; f_appstart : bool; f_frag : bool;
  f_ptransit : bool; f_paccept : bool; f_important : bool }.

Definition flags_zero := mk_flags false false false false false false false.
Definition wire_flags (f : flags) : flags := if f_enable f then f else flags_zero.

Definition flags_eqb (a b : flags) : bool :=
  Bool.eqb (f_enable a) (f_enable b) && Bool.eqb (f_spawn a) (f_spawn b) &&
  Bool.eqb (f_appstart a) (f_appstart b) && Bool.eqb (f_frag a) (f_frag b) &&
  Bool.eqb (f_ptransit a) (f_ptransit b) && Bool.eqb (f_paccept a) (f_paccept b) &&
  Bool.eqb (f_important a) (f_important b).

(* ------------------------------------------------------------------------------------------------ *)
(* Messages (net/handshake/types.go).  DigestCert / PoolDSN / caches / Version are not modelled
   (no TLS on the modelled path; see findings/C15.md).                                              *)

Inductive msg :=
| MHello (salt digest : term)
| MJoin (node cid salt digest : term)
| MIntro (node : term) (creation : Z) (fl : flags) (mms : Z) (digest : term)
| MAccept (id : term) (pool : Z) (digest : term)
| MOther          (* a well-formed frame that carries some other EDF value *)
| MBad            (* a complete frame readMessage/edf.Decode rejects (magic, version, length, garbage) *)
| MEof.           (* the byte stream ends (close / 1 s read deadline) before a frame is complete *)

Inductive herr := EDigest | ESameName | EMalformed | EIO.

Definition herr_eqb (a b : herr) : bool :=
  match a, b with
  | EDigest, EDigest | ESameName, ESameName | EMalformed, EMalformed | EIO, EIO => true
  | _, _ => false
  end.

(* gen.HandshakeResult, the fields the property talks about *)
Record hresult := mk_res {
  r_peer : term; r_cid : term; r_peer_creation : Z; r_peer_flags : flags; r_peer_mms : Z;
  r_node_flags : flags; r_node_mms : Z }.

(* what every honest party is configured with (gen.NodeHandshake + gen.HandshakeOptions) *)
Record party := mk_party {
  p_cookie : N; p_name : term; p_creation : Z; p_flags : flags; p_mms : Z }.

Definition intro_of (p : party) (digest : term) : msg :=
  MIntro (p_name p) (p_creation p) (wire_flags (p_flags p)) (p_mms p) digest.

(* every frame is read by readMessage first *)
Definition frame_err (m : msg) : option herr :=
  match m with MBad => Some EMalformed | MEof => Some EIO | _ => None end.

(* ------------------------------------------------------------------------------------------------ *)
(* Start (start.go), salt nA:
     hello  = {salt, sha256(salt:cookie)}
     hello2 : digest must be sha256(hello2.Salt:hello.Digest:cookie)
     intro  = {name, flags, creation, mms, Digest: sha256(hello2.Salt:cookie)}
     then reads Accept, Introduce (unauthenticated), rejects its own name, sends Accept{}.            *)

Inductive istate :=
| I1 | I2 (salt2 : term) | I3 (id : term) (pool : Z)
| IDone (r : hresult) (pool : Z) | IFail (e : herr).

Definition init_digest (p : party) (nA : N) : term := mkH [Salt nA; Cookie (p_cookie p)].
Definition init_hello (p : party) (nA : N) : msg := MHello (Salt nA) (init_digest p nA).

Definition init_step (p : party) (nA : N) (st : istate) (m : msg) : istate * list msg :=
  match st with
  | IDone _ _ | IFail _ => (st, [])
  | _ =>
    match frame_err m with
    | Some e => (IFail e, [])
    | None =>
      match st, m with
      | I1, MHello s2 d2 =>
          if term_eqb d2 (mkH [s2; init_digest p nA; Cookie (p_cookie p)])
          then (I2 s2, [intro_of p (mkH [s2; Cookie (p_cookie p)])])
          else (IFail EDigest, [])
      | I1, _ => (IFail EMalformed, [])
      | I2 _, MAccept id pool _ => (I3 id pool, [])
      | I2 _, _ => (IFail EMalformed, [])
      | I3 id pool, MIntro node cr fl mms _ =>
          if term_eqb node (p_name p) then (IFail ESameName, [])
          else (IDone (mk_res node id cr fl mms (p_flags p) (p_mms p)) pool, [MAccept tempty 0 tempty])
      | I3 _ _, _ => (IFail EMalformed, [])
      | _, _ => (st, [])
      end
    end
  end.

(* ------------------------------------------------------------------------------------------------ *)
(* Accept (accept.go), fresh salt nB and connection id nID, pool size ps:
     Hello : digest must be sha256(m.Salt:cookie); answers {salt, sha256(salt:m.Digest:cookie)}
     Join  : digest must be sha256(m.ConnectionID:m.Salt:cookie); result {Peer: m.Node, ConnectionID};
             answers Accept{Digest: sha256(m.Digest:cookie)}      (no acceptor-side freshness)
     Introduce : rejects its own name, digest must be sha256(salt:cookie);
             answers Accept{ID, PoolSize}, Introduce{own}; then reads one Accept.                     *)

Inductive astate :=
| A0 | A1 | A2 (peer : term) (cr : Z) (fl : flags) (mms : Z)
| ADone (r : hresult) | AJoined (peer cid : term) | AFail (e : herr).

Definition acc_digest (p : party) (nB : N) (d1 : term) : term := mkH [Salt nB; d1; Cookie (p_cookie p)].

Definition acc_step (p : party) (nB nID : N) (ps : Z) (st : astate) (m : msg) : astate * list msg :=
  match st with
  | ADone _ | AJoined _ _ | AFail _ => (st, [])
  | _ =>
    match frame_err m with
    | Some e => (AFail e, [])
    | None =>
      match st, m with
      | A0, MHello s1 d1 =>
          if term_eqb d1 (mkH [s1; Cookie (p_cookie p)])
          then (A1, [MHello (Salt nB) (acc_digest p nB d1)])
          else (AFail EDigest, [])
      | A0, MJoin node cid s d =>
          if term_eqb d (mkH [cid; s; Cookie (p_cookie p)])
          then (AJoined node cid, [MAccept tempty 0 (mkH [d; Cookie (p_cookie p)])])
          else (AFail EDigest, [])
      | A0, _ => (AFail EMalformed, [])
      | A1, MIntro node cr fl mms d =>
          if term_eqb node (p_name p) then (AFail ESameName, [])
          else if term_eqb d (mkH [Salt nB; Cookie (p_cookie p)])
          then (A2 node cr fl mms, [MAccept (Salt nID) ps tempty; intro_of p tempty])
          else (AFail EDigest, [])
      | A1, _ => (AFail EMalformed, [])
      | A2 node cr fl mms, MAccept _ _ _ =>
          (ADone (mk_res node (Salt nID) cr fl mms (p_flags p) (p_mms p)), [])
      | A2 _ _ _ _, _ => (AFail EMalformed, [])
      | _, _ => (st, [])
      end
    end
  end.

(* ------------------------------------------------------------------------------------------------ *)
(* Join (join.go), salt nJ, connection id cid:
     join = {name, id, salt, sha256(id:salt:cookie)}; Accept.Digest must be sha256(join.Digest:cookie) *)

Inductive jstate := J1 | JDone | JFail (e : herr).

Definition join_digest (p : party) (cid : term) (nJ : N) : term := mkH [cid; Salt nJ; Cookie (p_cookie p)].
Definition join_msg (p : party) (cid : term) (nJ : N) : msg :=
  MJoin (p_name p) cid (Salt nJ) (join_digest p cid nJ).

Definition join_step (p : party) (cid : term) (nJ : N) (st : jstate) (m : msg) : jstate :=
  match st with
  | J1 =>
    match frame_err m with
    | Some e => JFail e
    | None =>
      match m with
      | MAccept _ _ d =>
          if term_eqb d (mkH [join_digest p cid nJ; Cookie (p_cookie p)]) then JDone else JFail EDigest
      | _ => JFail EMalformed
      end
    end
  | _ => st
  end.

(* ------------------------------------------------------------------------------------------------ *)
(* Running a role against a list of incoming frames (what an arbitrary peer sends); the stream ends
   with EOF.  Returns the final state and everything the role wrote.                                 *)

Fixpoint acc_run (p : party) (nB nID : N) (ps : Z) (st : astate) (ins : list msg) : astate * list msg :=
  match ins with
  | [] => (st, [])
  | m :: tl =>
      let '(st', out) := acc_step p nB nID ps st m in
      let '(st'', out') := acc_run p nB nID ps st' tl in (st'', out ++ out')
  end.

Fixpoint init_run (p : party) (nA : N) (st : istate) (ins : list msg) : istate * list msg :=
  match ins with
  | [] => (st, [])
  | m :: tl =>
      let '(st', out) := init_step p nA st m in
      let '(st'', out') := init_run p nA st' tl in (st'', out ++ out')
  end.

Definition acc_final (p : party) (nB nID : N) (ps : Z) (ins : list msg) : astate :=
  fst (acc_run p nB nID ps A0 (ins ++ [MEof])).
Definition init_final (p : party) (nA : N) (ins : list msg) : istate :=
  fst (init_run p nA I1 (ins ++ [MEof])).
Definition join_final (p : party) (cid : term) (nJ : N) (ins : list msg) : jstate :=
  fold_left (join_step p cid nJ) (ins ++ [MEof]) J1.

Definition acc_accepted (st : astate) : bool :=
  match st with ADone _ | AJoined _ _ => true | _ => false end.
Definition init_accepted (st : istate) : bool := match st with IDone _ _ => true | _ => false end.

(* ------------------------------------------------------------------------------------------------ *)
(* An honest Start talking to an honest Accept over a faithful link (the order of the writes and
   reads of the two Go functions).  A party that fails closes; the other one then reads EOF.          *)

Record session := mk_session {
  s_init : istate; s_acc : astate; s_wire : list (bool * msg) (* true = written by the initiator *) }.

Definition tagw (b : bool) (l : list msg) := map (fun m => (b, m)) l.

Definition run_pair (pa pb : party) (nA nB nID : N) (ps : Z) : session :=
  let h1 := init_hello pa nA in
  let '(a1, o1) := acc_step pb nB nID ps A0 h1 in
  match o1 with
  | [] => mk_session (fst (init_step pa nA I1 MEof)) a1 [(true, h1)]
  | _ =>
    let '(i2, o2) := init_run pa nA I1 o1 in
    match o2 with
    | [] => mk_session i2 (fst (acc_step pb nB nID ps a1 MEof)) ((true, h1) :: tagw false o1)
    | _ =>
      let '(a3, o3) := acc_run pb nB nID ps a1 o2 in
      match o3 with
      | [] => mk_session (fst (init_step pa nA i2 MEof)) a3 ((true, h1) :: tagw false o1 ++ tagw true o2)
      | _ =>
        let '(i4, o4) := init_run pa nA i2 o3 in
        match o4 with
        | [] => mk_session i4 (fst (acc_step pb nB nID ps a3 MEof))
                  ((true, h1) :: tagw false o1 ++ tagw true o2 ++ tagw false o3)
        | _ =>
          let '(a5, _) := acc_run pb nB nID ps a3 o4 in
          mk_session i4 a5 ((true, h1) :: tagw false o1 ++ tagw true o2 ++ tagw false o3 ++ tagw true o4)
        end
      end
    end
  end.

(* an honest Join talking to an honest Accept *)
Definition run_join (pa pb : party) (cid : term) (nJ nB nID : N) (ps : Z) : jstate * astate * list (bool * msg) :=
  let j := join_msg pa cid nJ in
  let '(a1, o1) := acc_step pb nB nID ps A0 j in
  match o1 with
  | [] => (join_step pa cid nJ J1 MEof, a1, [(true, j)])
  | m :: _ => (join_step pa cid nJ J1 m, a1, (true, j) :: tagw false o1)
  end.

(* ------------------------------------------------------------------------------------------------ *)
(* Attacker.  Knowledge: a list of terms (every field of every frame seen on the wire in earlier
   sessions plus whatever else it has, e.g. other cookies), closed under pairing, projection and
   hashing.  Public strings and numbers are free.  [Cookie c] is not known unless it is derivable.   *)

Inductive derives (K : list term) : term -> Prop :=
| d_known t : In t K -> derives K t
| d_str s : derives K (Str s)
| d_num z : derives K (Num z)
| d_pair a b : derives K a -> derives K b -> derives K (Pair a b)
| d_fst a b : derives K (Pair a b) -> derives K a
| d_snd a b : derives K (Pair a b) -> derives K b
| d_hash l : derives_all K l -> derives K (mkH l)
with derives_all (K : list term) : list term -> Prop :=
| da_nil : derives_all K []
| da_cons t l : derives K t -> derives_all K l -> derives_all K (t :: l).

Definition msg_terms (m : msg) : list term :=
  match m with
  | MHello s d => [s; d]
  | MJoin n c s d => [n; c; s; d]
  | MIntro n _ _ _ d => [n; d]
  | MAccept i _ d => [i; d]
  | _ => []
  end.

Definition msg_derivable (K : list term) (m : msg) : Prop := forall t, In t (msg_terms m) -> derives K t.

Definition wire_terms (w : list msg) : list term := flat_map msg_terms w.

(* [c] is exposed in t: readable without inverting a hash *)
Fixpoint exposed (c : N) (t : term) : bool :=
  match t with
  | Cookie c' => N.eqb c c'
  | Pair a b => exposed c a || exposed c b
  | _ => false
  end.

(* the salt n occurs somewhere in t *)
Fixpoint occurs (n : N) (t : term) : bool :=
  match t with
  | Salt m => N.eqb n m
  | Pair a b => occurs n a || occurs n b
  | H l => existsb (occurs n) l
  | _ => false
  end.

(* all hashes inside t that have Cookie c among their ':'-separated inputs *)
Fixpoint sechashes (c : N) (t : term) : list term :=
  match t with
  | Pair a b => sechashes c a ++ sechashes c b
  | H l => (if existsb (term_eqb (Cookie c)) l then [t] else []) ++ flat_map (sechashes c) l
  | _ => []
  end.

(* decision procedure for [derives] used by the case checkers: analysis closure, then synthesis *)
Fixpoint analz1 (t : term) : list term :=
  match t with Pair a b => t :: analz1 a ++ analz1 b | _ => [t] end.
Definition analz (K : list term) : list term := flat_map analz1 K.
Fixpoint synth (A : list term) (t : term) : bool :=
  existsb (term_eqb t) A ||
  match t with
  | Str _ | Num _ => true
  | Pair a b => synth A a && synth A b
  | H l => forallb (synth A) l
  | _ => false
  end.
Definition derivable_b (K : list term) (t : term) : bool := synth (analz K) t.
Definition msg_derivable_b (K : list term) (m : msg) : bool := forallb (derivable_b K) (msg_terms m).

(* ------------------------------------------------------------------------------------------------ *)
(* Cookie selection (node/network.go; 0 = "")
     connect():        hopts.Cookie = route.Cookie; if "" then n.cookie
     startAcceptor():  acceptor.cookie = a.Cookie; if "" then n.cookie   (after fix b0c891c)
     accept():         hopts.Cookie = a.cookie;    if "" then n.cookie                                 *)

Definition or_node (own node : N) : N := if N.eqb own 0 then node else own.
Definition route_cookie (node_cookie route_own : N) : N := or_node route_own node_cookie.
Definition acceptor_cookie (node_cookie acc_own : N) : N := or_node acc_own node_cookie.

(* flags: connect(): route.Flags, if !Enable then n.flags; NetworkStart: options.Flags or Default *)
Definition or_flags (own node : flags) : flags := if f_enable own then own else node.

(* network.go:758  if result.Peer != name { close; error } *)
Definition peer_name_ok (expected : term) (r : hresult) : bool := term_eqb (r_peer r) expected.

(* ------------------------------------------------------------------------------------------------ *)
(* Permission tables (network.go EnableSpawn/DisableSpawn/getEnabledSpawn and the ApplicationStart
   twins; after fix a542016 both Disable variants write nodes[nn] = false).
   Go: sync.Map name -> {factory, nodes map[Atom]bool}.  len(nodes)==0 means "any node".            *)

Inductive top :=
| Enable (name : N) (fid : N) (nodes : list N)     (* fid: identity of the factory's type; 0 for apps *)
| Disable (name : N) (nodes : list N).

Definition nmap := list (N * bool).
Fixpoint mset (k : N) (v : bool) (m : nmap) : nmap :=
  match m with
  | [] => [(k, v)]
  | (k', v') :: tl => if N.eqb k k' then (k, v) :: tl else (k', v') :: mset k v tl
  end.
Fixpoint mget (k : N) (m : nmap) : bool :=
  match m with
  | [] => false
  | (k', v') :: tl => if N.eqb k k' then v' else mget k tl
  end.
Definition mset_all (ks : list N) (v : bool) (m : nmap) : nmap := fold_left (fun m k => mset k v m) ks m.

Definition entry := (N * nmap)%type.
Definition table := list (N * entry).

Fixpoint tget (name : N) (t : table) : option entry :=
  match t with
  | [] => None
  | (n, e) :: tl => if N.eqb name n then Some e else tget name tl
  end.
Fixpoint tset (name : N) (e : entry) (t : table) : table :=
  match t with
  | [] => [(name, e)]
  | (n, e') :: tl => if N.eqb name n then (name, e) :: tl else (n, e') :: tset name e tl
  end.
Fixpoint tdel (name : N) (t : table) : table :=
  match t with
  | [] => []
  | (n, e') :: tl => if N.eqb name n then tdel name tl else (n, e') :: tdel name tl
  end.

Inductive tres := TOk | TErrOther | TErrUnknown.   (* nil / "associated with another factory" / ErrUnknown *)

Definition is_nil {A} (l : list A) : bool := match l with [] => true | _ => false end.

Definition tapply (t : table) (op : top) : table * tres :=
  match op with
  | Enable name fid nodes =>
      match tget name t with
      | Some (fid', m) =>
          if negb (N.eqb fid fid') then (t, TErrOther)
          else (tset name (fid', if is_nil nodes then [] else mset_all nodes true m) t, TOk)
      | None => (tset name (fid, if is_nil nodes then [] else mset_all nodes true []) t, TOk)
      end
  | Disable name nodes =>
      match tget name t with
      | None => (t, TErrUnknown)
      | Some (fid', m) =>
          if is_nil nodes then (tdel name t, TOk)
          else (tset name (fid', mset_all nodes false m) t, TOk)
      end
  end.

Definition trun (h : list top) : table := fold_left (fun t op => fst (tapply t op)) h [].

Inductive access := AUnknown | ADenied | AAllowed (fid : N).   (* ErrNameUnknown / ErrNotAllowed / factory *)

(* getEnabledSpawn / isEnabledApplicationStart *)
Definition access_of (t : table) (name peer : N) : access :=
  match tget name t with
  | None => AUnknown
  | Some (fid, m) => if is_nil m || mget peer m then AAllowed fid else ADenied
  end.

Definition allowed (h : list top) (name peer : N) : bool :=
  match access_of (trun h) name peer with AAllowed _ => true | _ => false end.

(* the specification: some Enable for the peer that no later Disable covers *)
Definition covers (nodes : list N) (peer : N) : bool := is_nil nodes || existsb (N.eqb peer) nodes.
Definition op_enables (name peer : N) (op : top) : bool :=
  match op with Enable n _ ns => N.eqb n name && covers ns peer | _ => false end.
Definition op_disables (name peer : N) (op : top) : bool :=
  match op with Disable n ns => N.eqb n name && covers ns peer | _ => false end.
Fixpoint spec_allowed (h : list top) (name peer : N) : bool :=
  match h with
  | [] => false
  | op :: tl => (op_enables name peer op && negb (existsb (op_disables name peer) tl)) || spec_allowed tl name peer
  end.

(* ------------------------------------------------------------------------------------------------ *)
(* Flag checks and env exposure (net/proto/connection.go)
     requester:  if c.peer_flags.Enable && !c.peer_flags.EnableRemoteSpawn { return ErrNotAllowed }
     target:     if c.node_flags.Enable && !c.node_flags.EnableRemoteSpawn { warn; drop }
                 else RouteSpawn(..., c.peer) -> getEnabledSpawn(name, c.peer)
     requester:  if Security().ExposeEnvRemoteSpawn { opts.ParentEnv = EnvList() }                     *)

Definition flag_ok (f : flags) (field : flags -> bool) : bool := negb (f_enable f) || field f.

Inductive rdecision := RRefusedLocally | RDropped | RAccess (a : access).

(* [peer_fl]: the target's flags as the requester's connection holds them (HandshakeResult.PeerFlags);
   [node_fl]: the target's own flags in its connection (HandshakeResult.NodeFlags) *)
Definition remote_request (field : flags -> bool) (peer_fl node_fl : flags) (t : table) (name source : N) : rdecision :=
  if negb (flag_ok peer_fl field) then RRefusedLocally
  else if negb (flag_ok node_fl field) then RDropped
  else RAccess (access_of t name source).

Definition granted (d : rdecision) : bool := match d with RAccess (AAllowed _) => true | _ => false end.

Definition env_sent {A} (expose : bool) (env : list A) : list A := if expose then env else [].
