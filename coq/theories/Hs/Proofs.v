(* Hs engine — proofs about the symbolic handshake model (C15). *)
From Ergo Require Import Common.Base Hs.Model.
Local Open Scope N_scope.

(* ------------------------------------------------------------------------------------------------ *)
(* induction on terms through the list in [H]                                                        *)

Lemma term_ind' (P : term -> Prop) :
  (forall n, P (Salt n)) -> (forall c, P (Cookie c)) -> (forall s, P (Str s)) -> (forall z, P (Num z)) ->
  (forall a b, P a -> P b -> P (Pair a b)) ->
  (forall l, Forall P l -> P (H l)) ->
  forall t, P t.
Proof.
  intros HS HC HSt HN HP HH.
  fix IH 1. intros [n|c|s|z|a b|l].
  - apply HS. - apply HC. - apply HSt. - apply HN.
  - apply HP; apply IH.
  - apply HH. induction l as [|x l IHl]; constructor; [apply IH | exact IHl].
Qed.

Lemma term_eqb_refl t : term_eqb t t = true.
Proof.
  induction t as [n|c|s|z|a b IHa IHb|l IHl] using term_ind'; cbn [term_eqb];
    try apply N.eqb_refl; try apply Z.eqb_refl.
  - rewrite IHa, IHb. reflexivity.
  - induction IHl as [|x l Hx _ IH]; [reflexivity|]. rewrite Hx. exact IH.
Qed.

Lemma term_eqb_eq a b : term_eqb a b = true <-> a = b.
Proof.
  split; [|intros ->; apply term_eqb_refl].
  revert b. induction a as [n|c|s|z|a1 a2 IH1 IH2|l IHl] using term_ind'; intros [m|m|m|m|b1 b2|l'];
    cbn [term_eqb]; intros E; try discriminate.
  - apply N.eqb_eq in E. congruence.
  - apply N.eqb_eq in E. congruence.
  - apply N.eqb_eq in E. congruence.
  - apply Z.eqb_eq in E. congruence.
  - apply andb_true_iff in E as [E1 E2]. apply IH1 in E1. apply IH2 in E2. congruence.
  - f_equal. revert l' E. induction IHl as [|x l Hx _ IH]; intros [|y l'] E; try discriminate; [reflexivity|].
    apply andb_true_iff in E as [E1 E2]. apply Hx in E1. apply IH in E2. congruence.
Qed.

Lemma term_eqb_neq a b : term_eqb a b = false <-> a <> b.
Proof.
  split.
  - intros E ->. rewrite term_eqb_refl in E. discriminate.
  - intros N. destruct (term_eqb a b) eqn:E; [|reflexivity]. apply term_eqb_eq in E. contradiction.
Qed.

(* ------------------------------------------------------------------------------------------------ *)
(* induction on derivations                                                                          *)

Scheme derives_mind := Minimality for derives Sort Prop
  with derives_all_mind := Minimality for derives_all Sort Prop.

Lemma derives_all_Forall K l : derives_all K l <-> Forall (derives K) l.
Proof.
  split.
  - induction 1; constructor; assumption.
  - induction 1; constructor; assumption.
Qed.

(* a property closed under the attacker's operations holds of everything derivable *)
Lemma derives_inv K (P : term -> Prop) :
  (forall t, In t K -> P t) ->
  (forall s, P (Str s)) -> (forall z, P (Num z)) ->
  (forall a b, P a -> P b -> P (Pair a b)) ->
  (forall a b, P (Pair a b) -> P a) -> (forall a b, P (Pair a b) -> P b) ->
  (forall l, Forall P l -> P (mkH l)) ->
  forall t, derives K t -> P t.
Proof.
  intros HK HS HN HP H1 H2 HH.
  apply (derives_mind K P (Forall P)); eauto.
Qed.

(* ------------------------------------------------------------------------------------------------ *)
(* facts about flat / exposed / occurs / sechashes                                                   *)

Lemma flat_nonempty t : flat t <> [].
Proof.
  induction t as [n|c|s|z|a b IHa IHb|l _] using term_ind'; cbn [flat]; try discriminate.
  destruct (flat a); [contradiction|discriminate].
Qed.

Lemma flat_no_pair t x : In x (flat t) -> forall a b, x <> Pair a b.
Proof.
  induction t as [n|c|s|z|a b IHa IHb|l _] using term_ind'; cbn [flat]; intros Hin p q;
    try (destruct Hin as [<-|[]]; discriminate).
  apply in_app_or in Hin as [Hin|Hin]; [apply IHa|apply IHb]; assumption.
Qed.

Lemma exposed_flat c t : exposed c t = existsb (term_eqb (Cookie c)) (flat t).
Proof.
  induction t as [n|c'|s|z|a b IHa IHb|l _] using term_ind'; cbn [exposed flat existsb term_eqb];
    try reflexivity.
  - rewrite orb_false_r. reflexivity.
  - rewrite existsb_app, IHa, IHb. reflexivity.
Qed.

Lemma existsb_flat_map {A B} (f : B -> bool) (g : A -> list B) l :
  existsb f (flat_map g l) = existsb (fun x => existsb f (g x)) l.
Proof.
  induction l as [|x l IH]; [reflexivity|]. cbn [flat_map existsb]. rewrite existsb_app, IH. reflexivity.
Qed.

Lemma existsb_ext' {A} (f g : A -> bool) l : (forall x, f x = g x) -> existsb f l = existsb g l.
Proof. intros E. induction l as [|x l IH]; [reflexivity|]. cbn [existsb]. rewrite E, IH. reflexivity. Qed.

Lemma cookie_in_mkH c l :
  existsb (term_eqb (Cookie c)) (flat_map flat l) = existsb (exposed c) l.
Proof.
  rewrite existsb_flat_map. apply existsb_ext'. intros x. symmetry. apply exposed_flat.
Qed.

Lemma occurs_flat n t : existsb (occurs n) (flat t) = occurs n t.
Proof.
  induction t as [m|c'|s|z|a b IHa IHb|l _] using term_ind'; cbn [occurs flat existsb];
    try (rewrite orb_false_r; reflexivity).
  rewrite existsb_app, IHa, IHb. reflexivity.
Qed.

Lemma occurs_mkH n l : occurs n (mkH l) = existsb (occurs n) l.
Proof.
  unfold mkH. cbn [occurs]. rewrite existsb_flat_map. apply existsb_ext'. intros x. apply occurs_flat.
Qed.

Lemma sechashes_flat c t x : In x (flat_map (sechashes c) (flat t)) <-> In x (sechashes c t).
Proof.
  induction t as [m|c'|s|z|a b IHa IHb|l _] using term_ind'; cbn [flat flat_map sechashes];
    try (rewrite app_nil_r; reflexivity).
  rewrite flat_map_app, !in_app_iff, IHa, IHb. reflexivity.
Qed.

Lemma sechashes_occurs c n t x : In x (sechashes c t) -> occurs n x = true -> occurs n t = true.
Proof.
  induction t as [m|c'|s|z|a b IHa IHb|l IHl] using term_ind'; cbn [sechashes]; intros Hin Ho;
    try contradiction.
  - cbn [occurs]. apply in_app_or in Hin as [Hin|Hin]; apply orb_true_iff; [left; apply IHa|right; apply IHb]; assumption.
  - apply in_app_or in Hin as [Hin|Hin].
    + destruct (existsb _ l); [|contradiction]. destruct Hin as [<-|[]]. exact Ho.
    + cbn [occurs]. apply in_flat_map in Hin as (y & Hy & Hin). apply existsb_exists. exists y. split; [exact Hy|].
      rewrite Forall_forall in IHl. apply IHl; assumption.
Qed.

(* ------------------------------------------------------------------------------------------------ *)
(* The attacker lemma.  If the cookie is not exposed in what the attacker holds, then
   (1) it is not exposed in anything derivable, (2) every hash over the cookie inside a derivable term
   already occurs inside the attacker's knowledge (it was computed by somebody who knows the cookie),
   (3) salts the attacker never saw do not occur in derivable terms.                                  *)

Definition guarded (c : N) (K : list term) : Prop := forall t, In t K -> exposed c t = false.
Definition sec_in (c : N) (K : list term) (x : term) : Prop := exists k, In k K /\ In x (sechashes c k).

Lemma derives_not_exposed c K : guarded c K -> forall t, derives K t -> exposed c t = false.
Proof.
  intros G. apply derives_inv; cbn [exposed]; auto.
  - intros a b Ha Hb. rewrite Ha, Hb. reflexivity.
  - intros a b Hab. apply orb_false_iff in Hab. tauto.
  - intros a b Hab. apply orb_false_iff in Hab. tauto.
Qed.

Theorem cookie_secret c K : guarded c K -> ~ derives K (Cookie c).
Proof.
  intros G D. apply (derives_not_exposed c K G) in D. cbn [exposed] in D. rewrite N.eqb_refl in D. discriminate.
Qed.

Lemma derives_sechashes c K : guarded c K ->
  forall t, derives K t -> exposed c t = false /\ forall x, In x (sechashes c t) -> sec_in c K x.
Proof.
  intros G. apply derives_inv.
  - intros t Hin. split; [apply G; exact Hin|]. intros x Hx. exists t. tauto.
  - intros s. split; [reflexivity|intros x []].
  - intros z. split; [reflexivity|intros x []].
  - intros a b [Ea Ha] [Eb Hb]. cbn [exposed sechashes]. rewrite Ea, Eb. split; [reflexivity|].
    intros x Hx. apply in_app_or in Hx as [Hx|Hx]; auto.
  - intros a b [E Hs]. cbn [exposed sechashes] in *. apply orb_false_iff in E. split; [tauto|].
    intros x Hx. apply Hs. apply in_or_app. tauto.
  - intros a b [E Hs]. cbn [exposed sechashes] in *. apply orb_false_iff in E. split; [tauto|].
    intros x Hx. apply Hs. apply in_or_app. tauto.
  - intros l Hl. split; [reflexivity|]. unfold mkH. cbn [sechashes]. rewrite cookie_in_mkH.
    assert (E : existsb (exposed c) l = false).
    { apply not_true_is_false. intros E. apply existsb_exists in E as (y & Hy & Ey).
      rewrite Forall_forall in Hl. destruct (Hl y Hy) as [Ey' _]. congruence. }
    rewrite E. cbn [app]. intros x Hx.
    apply in_flat_map in Hx as (y & Hy & Hx). apply in_flat_map in Hy as (z & Hz & Hy).
    rewrite Forall_forall in Hl. destruct (Hl z Hz) as [_ Hs]. apply Hs.
    apply sechashes_flat. apply in_flat_map. exists y. tauto.
Qed.

(* a hash over the cookie is derivable only if it already occurs in the knowledge *)
Theorem secret_hash_not_forgeable c K l : guarded c K ->
  existsb (term_eqb (Cookie c)) l = true -> derives K (H l) -> sec_in c K (H l).
Proof.
  intros G E D. destruct (derives_sechashes c K G _ D) as [_ Hs]. apply Hs.
  cbn [sechashes]. rewrite E. left. reflexivity.
Qed.

Definition unseen (n : N) (K : list term) : Prop := forall t, In t K -> occurs n t = false.

Lemma derives_unseen n K : unseen n K -> forall t, derives K t -> occurs n t = false.
Proof.
  intros U. apply derives_inv; cbn [occurs]; auto.
  - intros a b Ha Hb. rewrite Ha, Hb. reflexivity.
  - intros a b Hab. apply orb_false_iff in Hab. tauto.
  - intros a b Hab. apply orb_false_iff in Hab. tauto.
  - intros l Hl. rewrite occurs_mkH. apply not_true_is_false. intros E.
    apply existsb_exists in E as (y & Hy & Ey). rewrite Forall_forall in Hl. rewrite (Hl y Hy) in Ey. discriminate.
Qed.

Lemma sec_in_unseen c n K x : unseen n K -> sec_in c K x -> occurs n x = false.
Proof.
  intros U (k & Hk & Hx). apply not_true_is_false. intros E.
  pose proof (U k Hk) as Uk. rewrite (sechashes_occurs c n k x Hx E) in Uk. discriminate Uk.
Qed.

(* ------------------------------------------------------------------------------------------------ *)
(* C15_hello_auth — acceptor side.
   The adversary feeds the acceptor frame after frame; each frame is derivable from what it held
   before the session (K: transcripts of any earlier sessions, other cookies, ...) plus what the
   acceptor has written so far in this session.                                                      *)

Fixpoint adv_feeds_acc (p : party) (nB nID : N) (ps : Z) (K : list term) (st : astate) (ins : list msg) : Prop :=
  match ins with
  | [] => True
  | m :: tl => msg_derivable K m /\
               adv_feeds_acc p nB nID ps (K ++ wire_terms (snd (acc_step p nB nID ps st m)))
                             (fst (acc_step p nB nID ps st m)) tl
  end.

Definition hello_accepted (st : astate) : bool :=
  match st with A2 _ _ _ _ | ADone _ => true | _ => false end.

Lemma acc_run_absorb p nB nID ps st ins :
  match st with AFail _ | AJoined _ _ | ADone _ => True | _ => False end ->
  acc_run p nB nID ps st ins = (st, []).
Proof.
  intros Hst. induction ins as [|m tl IH]; [reflexivity|]. cbn [acc_run].
  assert (E : acc_step p nB nID ps st m = (st, [])) by (destruct st; try contradiction; reflexivity).
  rewrite E, IH. reflexivity.
Qed.

Lemma guarded_app c K K' : guarded c K -> guarded c K' -> guarded c (K ++ K').
Proof. intros G G' t Hin. apply in_app_or in Hin as [Hin|Hin]; auto. Qed.

Lemma mkH_cons_H l : exists l', mkH l = H l'.
Proof. eexists. reflexivity. Qed.

Lemma length_flat_ge1 t : (1 <= length (flat t))%nat.
Proof. pose proof (flat_nonempty t). destruct (flat t); [contradiction|cbn; lia]. Qed.

(* the Introduce digest the acceptor expects is not derivable *)
Lemma intro_digest_underivable p nB K d1 :
  let c := p_cookie p in
  guarded c K -> unseen nB K -> derives K d1 ->
  ~ derives (K ++ [Salt nB; acc_digest p nB d1]) (mkH [Salt nB; Cookie c]).
Proof.
  intros c G U D1 D.
  assert (G1 : guarded c (K ++ [Salt nB; acc_digest p nB d1])).
  { apply guarded_app; [exact G|]. intros t [<-|[<-|[]]]; reflexivity. }
  unfold mkH in D. cbn [flat_map flat app] in D.
  apply (secret_hash_not_forgeable c _ _ G1) in D;
    [|cbn [existsb term_eqb]; rewrite N.eqb_refl; apply orb_true_r].
  destruct D as (k & Hk & Hx).
  apply in_app_or in Hk as [Hk|Hk].
  - assert (E : occurs nB (H [Salt nB; Cookie c]) = false) by (apply (sec_in_unseen c nB K); [exact U|exists k; tauto]).
    cbn [occurs existsb] in E. rewrite N.eqb_refl in E. discriminate.
  - destruct Hk as [<-|[<-|[]]]; [contradiction Hx|].
    unfold acc_digest, mkH in Hx. cbn [flat_map flat sechashes app] in Hx.
    apply in_app_or in Hx as [Hx|Hx].
    + destruct (existsb _ _); [|contradiction]. destruct Hx as [Hx|[]].
      injection Hx as Hx. pose proof (length_flat_ge1 d1) as L.
      apply (f_equal (@length term)) in Hx. rewrite app_length in Hx. cbn [length] in Hx. lia.
    + rewrite flat_map_app in Hx. apply in_app_or in Hx as [Hx|Hx]; [|cbn in Hx; contradiction].
      apply sechashes_flat in Hx.
      pose proof (derives_unseen nB K U d1 D1) as O1.
      rewrite (sechashes_occurs c nB d1 _ Hx) in O1; [discriminate|].
      cbn [occurs existsb]. rewrite N.eqb_refl. reflexivity.
Qed.

Theorem hello_auth_acceptor p nB nID ps K ins :
  let c := p_cookie p in
  guarded c K -> unseen nB K ->
  adv_feeds_acc p nB nID ps K A0 ins ->
  hello_accepted (fst (acc_run p nB nID ps A0 ins)) = false.
Proof.
  intros c G U F.
  destruct ins as [|m1 tl]; [reflexivity|].
  cbn [acc_run adv_feeds_acc] in *. destruct F as [D1 F].
  destruct (acc_step p nB nID ps A0 m1) as [st1 o1] eqn:E1. cbn [fst snd] in F.
  assert (Hcases : (st1 = A1 /\ exists s1 d1, m1 = MHello s1 d1 /\ o1 = [MHello (Salt nB) (acc_digest p nB d1)])
                   \/ match st1 with AFail _ | AJoined _ _ => True | _ => False end).
  { cbn [acc_step] in E1. destruct (frame_err m1) eqn:Ef.
    - injection E1 as <- <-. right. exact I.
    - destruct m1; cbn [frame_err] in Ef; try discriminate;
        try (injection E1 as <- <-; right; exact I).
      + destruct (term_eqb _ _); injection E1 as <- <-; [left; split; [reflexivity|eauto]|right; exact I].
      + destruct (term_eqb _ _); injection E1 as <- <-; right; exact I. }
  destruct Hcases as [(-> & s1 & d1 & -> & ->)|Habs].
  2:{ rewrite acc_run_absorb by (destruct st1; tauto). cbn [fst]. destruct st1; try contradiction; reflexivity. }
  destruct tl as [|m2 tl]; [reflexivity|].
  cbn [acc_run adv_feeds_acc wire_terms flat_map msg_terms app] in *. destruct F as [D2 _].
  assert (Dd1 : derives K d1) by (apply D1; cbn [msg_terms]; right; left; reflexivity).
  assert (E2 : exists e, acc_step p nB nID ps A1 m2 = (AFail e, [])).
  { cbn [acc_step]. destruct (frame_err m2) eqn:Ef; [eauto|].
    destruct m2; cbn [frame_err] in Ef; try discriminate; eauto.
    destruct (term_eqb node (p_name p)); [eauto|].
    destruct (term_eqb digest _) eqn:Ed; [|eauto]. exfalso.
    apply term_eqb_eq in Ed. subst digest.
    apply (intro_digest_underivable p nB K d1 G U Dd1).
    apply D2. cbn [msg_terms]. right. left. reflexivity. }
  destruct E2 as [e ->]. rewrite acc_run_absorb by exact I. reflexivity.
Qed.
